package main

import (
	"fmt"
	"go/token"
	"go/types"
	"strings"

	"golang.org/x/tools/go/ssa"
)

// ---------- check-then-put on the same store (C01-R6) ----------

// checkExistsThenPut: in addCredit, each insertion of a credit record is guarded by the "absent" outcome of a lookup
// in the SAME store (mined credits bucket / unmined credits bucket), so a re-delivered event is recognised as a
// duplicate even after the credit was spent.
func checkExistsThenPut(c *Ctx, rule string) {
	fn := wtxFn(c, rule, "addCredit")
	if fn == nil {
		return
	}
	pairs := []struct{ put, lookup, what string }{
		{"putRawCredit", "existsCredit", "mined credit"},
		{"putRawUnminedCredit", "existsRawUnminedCredit", "unconfirmed credit"},
	}
	// addCredit and the private parts it was split into: a put is guarded inside the part that performs it
	parts := c.P.regionTop(fn)
	for _, pr := range pairs {
		var puts []*ssa.Call
		for _, part := range parts {
			puts = append(puts, callsNamed(part, pr.put)...)
		}
		if len(puts) == 0 {
			c.Check(rule, "insert-guarded-by-same-store-lookup:"+pr.put, fn.Pos(), false, "addCredit no longer inserts through "+pr.put+" (undecided)")
			continue
		}
		for _, put := range puts {
			ok := !reachableAvoiding(put.Parent(), nil, put, func(from *ssa.BasicBlock, si int) bool {
				f := edgeFactOf(from, si)
				return f != nil && f.Kind == "nil" && isResultOfCall(f.V, pr.lookup, -1)
			})
			c.Check(rule, "insert-guarded-by-same-store-lookup:"+pr.put, put.Pos(), ok,
				"a "+pr.what+" is inserted without the duplicate test on the same store ("+pr.lookup+" == nil): a re-delivered event re-creates a credit that exists (e.g. already spent), inflating balance and the unspent index")
		}
	}
}

// ---------- spent-flag / spender agreement on rewritten credit values (C01-R6, C13-R4) ----------

func checkCreditRewriteFlags(c *Ctx, rule string) {
	p := c.P
	n := 0
	for _, fn := range p.FuncsIn("wtxmgr") {
		// functions writing the credits bucket
		var puts []*ssa.Call
		for _, ci := range callsOf(fn) {
			call, ok := ci.(*ssa.Call)
			if !ok {
				continue
			}
			if calleeShort(&call.Call) == "putRawCredit" {
				puts = append(puts, call)
				continue
			}
			if name, isSrc := isDBSource(call.Common()); isSrc && strings.HasSuffix(name, ".Put") {
				// receiver from NestedReadWriteBucket(bucketCredits)
				sl := &Slicer{P: p}
				for _, o := range sl.Origins(call.Call.Value) {
					if nc, ok := o.(*ssa.Call); ok && len(nc.Call.Args) > 0 && isGlobalLoad(nc.Call.Args[len(nc.Call.Args)-1], "bucketCredits") {
						puts = append(puts, call)
					}
				}
			}
		}
		for _, put := range puts {
			val := put.Call.Args[len(put.Call.Args)-1]
			// fresh buffer copy-initialised from an existing value
			var buf *ssa.Alloc
			sl := &Slicer{P: p}
			for _, o := range sl.Origins(val) {
				if a, ok := o.(*ssa.Alloc); ok && a.Heap {
					if _, isArr := a.Type().Underlying().(*types.Pointer).Elem().Underlying().(*types.Array); isArr {
						buf = a
					}
				}
			}
			if buf == nil {
				continue
			}
			copied, spender, sets, clears := false, false, false, false
			for _, b := range fn.Blocks {
				for _, ins := range b.Instrs {
					switch x := ins.(type) {
					case *ssa.Call:
						n := calleeShort(&x.Call)
						if n != "copy" && n != "PutUint32" && n != "PutUint64" {
							continue
						}
						for ai, a := range x.Call.Args {
							s0, ok := a.(*ssa.Slice)
							if !ok || sliceRoot(s0) != ssa.Value(buf) {
								continue
							}
							lo := int64(0)
							for s := s0; s != nil; {
								if s.Low != nil {
									if k, ok := constInt(s.Low); ok {
										lo += k
									}
								}
								nx, _ := s.X.(*ssa.Slice)
								s = nx
							}
							if n == "copy" && ai == 0 && lo == 0 {
								copied = true
							}
							if lo >= 9 {
								spender = true
							}
						}
					case *ssa.Store:
						ia, ok := x.Addr.(*ssa.IndexAddr)
						if !ok {
							continue
						}
						if k, isK := constInt(ia.Index); !isK || k != 8 {
							continue
						}
						if r := sliceRootOf(ia.X); r != ssa.Value(buf) {
							continue
						}
						if bo, ok := x.Val.(*ssa.BinOp); ok {
							if m, isM := constInt(bo.Y); isM && m == 1 {
								if bo.Op == token.OR {
									sets = true
								}
								if bo.Op == token.AND_NOT {
									clears = true
								}
							}
						}
					}
				}
			}
			if !copied {
				continue
			}
			n++
			if spender {
				c.Check(rule, "credit-with-spender-has-spent-flag:"+fn.Name(), put.Pos(), sets, fn.Name()+" stores a credit value that carries a spender reference without setting the spent flag")
			} else {
				c.Check(rule, "credit-without-spender-clears-spent-flag:"+fn.Name(), put.Pos(), clears,
					fn.Name()+" rewrites a credit value without its spender reference but keeps the copied spent flag: the credit is back in the unspent index yet skipped as 'spent' by the confirmation/maturity pass of Balance")
			}
		}
	}
	c.Floor(rule, "credit value rewrites (copy of an existing value)", n, 2)
}

func sliceRoot(s *ssa.Slice) ssa.Value {
	var v ssa.Value = s
	for {
		sl, ok := v.(*ssa.Slice)
		if !ok {
			return v
		}
		v = sl.X
	}
}

func sliceRootOf(v ssa.Value) ssa.Value {
	for {
		switch x := v.(type) {
		case *ssa.Slice:
			v = x.X
		case *ssa.Phi:
			// v = newv (phi of the same buffer)
			if len(x.Edges) > 0 {
				v = x.Edges[0]
			} else {
				return v
			}
		default:
			return v
		}
	}
}

// ---------- loop-carried struct must be updated before use in each iteration (C02-R3) ----------

func checkLoopCarriedStructs(c *Ctx, rule string, fnNames []string) {
	p := c.P
	n := 0
	for _, fn := range wtxRegion(c, rule, fnNames) {
		name := fn.Name()
		loops := loopsOf(fn)
		for _, b := range fn.Blocks {
			for _, ins := range b.Instrs {
				st, ok := ins.(*ssa.Store)
				if !ok {
					continue
				}
				fa, ok := st.Addr.(*ssa.FieldAddr)
				if !ok {
					continue
				}
				// root alloc of the field address (op.Index, spender.index, cred.outPoint.Index)
				root := fa.X
				for {
					if inner, ok := root.(*ssa.FieldAddr); ok {
						root = inner.X
						continue
					}
					break
				}
				al, ok := root.(*ssa.Alloc)
				if !ok {
					continue
				}
				l := innermostLoopOf(loops, st)
				if l == nil {
					continue
				}
				// a field (re)written inside the loop is per-iteration state, whether it is the loop variable itself or
				// something read for this element (amount, change flag): it must be written in every iteration that uses
				// the struct, or the use sees what an earlier element left there

				// the struct is declared outside the loop (carried across iterations)
				if l.Blocks[al.Block()] {
					continue
				}
				_, field := fieldAddrName(fa)
				// uses of the struct inside the loop
				for _, u := range usesOf(al) {
					if !l.Blocks[u.Block()] {
						continue
					}
					isUse := false
					switch x := u.(type) {
					case *ssa.UnOp:
						isUse = x.Op == token.MUL
					case *ssa.Call:
						isUse = true
					}
					if !isUse || u == ssa.Instruction(st) {
						continue
					}
					n++
					bad := false
					for _, entry := range l.bodyEntries() {
						q := &PathQuery{Fn: fn, Barrier: func(i ssa.Instruction) bool { return i == ssa.Instruction(st) }}
						q.EdgeBarrier = func(from *ssa.BasicBlock, si int) bool {
							return !l.Blocks[from.Succs[si]] || from.Succs[si] == l.Header
						}
						q.Target = func(i ssa.Instruction, via *ssa.BasicBlock) bool { return i == u }
						if len(exploreFromBlock(q, entry, l.Header)) > 0 {
							bad = true
						}
					}
					c.Check(rule, fmt.Sprintf("loop-carried-%s.%s-set-before-use:%s", al.Comment, field, name), u.Pos(), !bad,
						fmt.Sprintf("%s: the per-iteration field %s.%s is assigned from the loop variable only AFTER the struct is used in the same iteration (at %s): the use sees the previous iteration's value", name, al.Comment, field, p.Pos(u.Pos())))
				}
			}
		}
	}
	c.Floor(rule, "uses of loop-carried per-iteration structs", n, 3)
}

func derivesFromLoopVar(p *Program, v ssa.Value, l *Loop) bool {
	sl := &Slicer{P: p, ThroughBinOp: true, KeepExtract: false}
	for _, o := range sl.Origins(v) {
		switch x := o.(type) {
		case *ssa.Phi:
			if x.Block() == l.Header {
				return true
			}
		case *ssa.Next:
			if x.Block() == l.Header {
				return true
			}
		case *ssa.BinOp:
			if ph, ok := x.X.(*ssa.Phi); ok && ph.Block() == l.Header {
				return true
			}
		}
	}
	// rangeindex loops: the index is header-phi + 1 computed in the header
	if bo, ok := stripConv(v).(*ssa.BinOp); ok {
		if ph, ok := bo.X.(*ssa.Phi); ok && ph.Block() == l.Header {
			return true
		}
	}
	return false
}

// ---------- known-output test keyed by outpoint; lease write always happens (C12) ----------

func checkKnownOutput(c *Ctx, rule string) {
	p := c.P
	fn := wtxFn(c, rule, "isKnownOutput")
	if fn == nil {
		return
	}
	n := 0
	for _, b := range fn.Blocks {
		for si := range b.Succs {
			f := edgeFactOf(b, si)
			if f == nil || f.Kind != "nonnil" {
				continue
			}
			call, ok := stripConv(f.V).(*ssa.Call)
			if !ok {
				continue
			}
			n++
			name := calleeShort(&call.Call)
			okStore := name == "existsRawUnminedCredit" || name == "existsRawUnspent"
			okKey := false
			if len(call.Call.Args) == 2 {
				if kc, ok := call.Call.Args[1].(*ssa.Call); ok && calleeShort(&kc.Call) == "canonicalOutPoint" {
					a := originKindsParam(p, fn, kc.Call.Args[0])
					okKey = a && p.linearize(kc.Call.Args[1], 0).String() == "+1*field:Index +0"
				}
			}
			c.Check(rule, "known-output-test-is-per-outpoint:"+name, call.Pos(), okStore && okKey,
				"isKnownOutput accepts an output because of "+name+", which is not a per-outpoint credit lookup keyed by canonicalOutPoint(op.Hash, op.Index): outputs the wallet does not own (other indexes of a known transaction) can be leased")
		}
	}
	c.Floor(rule, "'known' lookups in isKnownOutput", n, 2)
	if lo := wtxFn(c, rule, "lockOutput"); lo != nil {
		bad := p.mustPassToSuccess(lo, nil, func(ins ssa.Instruction) bool {
			call, ok := ins.(*ssa.Call)
			if !ok {
				return false
			}
			name, isSrc := isDBSource(call.Common())
			return isSrc && strings.HasSuffix(name, ".Put")
		}, nil)
		c.Check(rule, "lease-write-always-happens", lo.Pos(), bad == nil, "lockOutput can report success without having written the lease (e.g. when the lease bucket does not exist yet): the output stays spendable and can be leased by others")
	}
}

// originKindsParam: v derives from a parameter of fn (e.g. &op.Hash).
func originKindsParam(p *Program, fn *ssa.Function, v ssa.Value) bool {
	for i := 0; i < 6; i++ {
		switch x := v.(type) {
		case *ssa.FieldAddr:
			v = x.X
		case *ssa.UnOp:
			v = x.X
		case *ssa.Alloc:
			return isParamSpill(x)
		case *ssa.Parameter:
			return true
		default:
			return false
		}
	}
	return false
}

// checkReverseSeekCorrected: Cursor.Seek(k) positions at the first key >= k. A function that
// seeks and then walks BACKWARDS (calls Prev on the same cursor) must, between the Seek and the
// first Prev that can follow it, compare the key Seek returned with the key it sought (bytes.HasPrefix /
// Equal / Compare on exactly those two values): without that comparison it cannot know whether
// Seek overshot, and a reverse range starts at a record above the requested bound (records outside
// the range are reported). Forward scans need no correction and are not constrained.
func checkReverseSeekCorrected(c *Ctx, rule string) {
	p := c.P
	n := 0
	for _, fn := range p.FuncsIn("wtxmgr") {
		var seeks, prevs []*ssa.Call
		for _, ci := range callsOf(fn) {
			call, ok := ci.(*ssa.Call)
			if !ok || !call.Call.IsInvoke() {
				continue
			}
			if call.Call.Method.Pkg() == nil || call.Call.Method.Pkg().Path() != walletdbPath {
				continue
			}
			switch call.Call.Method.Name() {
			case "Seek":
				seeks = append(seeks, call)
			case "Prev":
				prevs = append(prevs, call)
			}
		}
		if len(seeks) == 0 || len(prevs) == 0 {
			continue
		}
		for _, sk := range seeks {
			// values that denote the key returned by this Seek: the extract, and loads of fields it is stored to
			keyFields := map[string]bool{}
			var keyVals []ssa.Value
			for _, u := range usesOf(sk) {
				ex, ok := u.(*ssa.Extract)
				if !ok || ex.Index != 0 {
					continue
				}
				keyVals = append(keyVals, ex)
				for _, uu := range usesOf(ex) {
					if st, ok := uu.(*ssa.Store); ok {
						if fa, ok := st.Addr.(*ssa.FieldAddr); ok {
							_, f := fieldAddrName(fa)
							keyFields[f] = true
						}
					}
				}
			}
			sought := sk.Call.Args[0]
			_, soughtField, _, soughtIsField := fieldOf(stripConv(sought))
			isKey := func(v ssa.Value) bool {
				v = stripConv(v)
				for _, k := range keyVals {
					if v == k {
						return true
					}
				}
				if _, f, _, ok := fieldOf(v); ok && keyFields[f] {
					return true
				}
				return false
			}
			isSought := func(v ssa.Value) bool {
				v = stripConv(v)
				if sameValue(v, sought) {
					return true
				}
				if _, f, _, ok := fieldOf(v); ok && soughtIsField && f == soughtField {
					return true
				}
				return false
			}
			isCompare := func(ins ssa.Instruction) bool {
				call, ok := ins.(*ssa.Call)
				if !ok {
					return false
				}
				f := call.Call.StaticCallee()
				if f == nil || f.Pkg == nil || f.Pkg.Pkg.Path() != "bytes" || len(call.Call.Args) != 2 {
					return false
				}
				switch f.Name() {
				case "HasPrefix", "Equal", "Compare":
				default:
					return false
				}
				a, b := call.Call.Args[0], call.Call.Args[1]
				return (isKey(a) && isSought(b)) || (isKey(b) && isSought(a))
			}
			q := &PathQuery{Fn: fn, Barrier: isCompare, Target: func(ins ssa.Instruction, _ *ssa.BasicBlock) bool {
				for _, pv := range prevs {
					if ins == ssa.Instruction(pv) {
						return true
					}
				}
				return false
			}}
			hits := q.From(sk)
			n++
			c.Check(rule, "reverse-seek-compares-found-key-with-sought-key:"+fnName(fn), sk.Pos(), len(hits) == 0,
				"after Cursor.Seek the cursor is moved backwards without comparing the key Seek returned with the key sought: Seek lands on the NEXT key when the sought one is absent, so a reverse scan starts above its bound and reports records outside the requested range")
		}
	}
	c.Floor(rule, "seek-then-walk-backwards sites", n, 1)
}

// checkSeekHeightNonNegative: block records are keyed by uint32(height); the forward/seeking block iterators
// convert the int32 height they are given. A negative height (mempool = -1, or "sync height minus a
// confirmation window" on a short chain) wraps to a key above every block and the scan visits nothing. Every
// height handed to a seeking block iterator must therefore be non-negative on the path it arrives by: a
// non-negative constant, or a value tested `>= 0` (the `< 0` branch re-assigns it) before the call.
func checkSeekHeightNonNegative(c *Ctx, rule string) {
	p := c.P
	n := 0
	for _, fn := range p.FuncsIn("wtxmgr") {
		for _, ci := range callsOf(fn) {
			call, ok := ci.(*ssa.Call)
			if !ok {
				continue
			}
			name := calleeShort(&call.Call)
			if name != "makeBlockIterator" && name != "makeReadBlockIterator" {
				continue
			}
			if len(call.Call.Args) < 2 {
				continue
			}
			n++
			arg := stripConv(call.Call.Args[1])
			// nonNegAt: v >= 0 is known in block b (dominating facts), or on the edge b -> to
			nonNegAt := func(v ssa.Value, b, to *ssa.BasicBlock) bool {
				v = stripConv(v)
				if k, ok := constInt(v); ok {
					return k >= 0
				}
				want := p.linearize(v, 0).scale(-1)
				want.Konst--
				ws := CmpForm{"<", want}.String()
				for _, f := range p.guardForms(b) {
					if f == ws {
						return true
					}
				}
				if to != nil && len(b.Instrs) > 0 {
					if iff, ok := b.Instrs[len(b.Instrs)-1].(*ssa.If); ok && b.Succs[0] != b.Succs[1] {
						for si, s := range b.Succs {
							if s == to {
								if f, ok := p.cmpForm(iff.Cond, si == 0); ok && f.String() == ws {
									return true
								}
							}
						}
					}
				}
				return false
			}
			ok2 := true
			if ph, isPhi := arg.(*ssa.Phi); isPhi {
				for i, e := range ph.Edges {
					if !nonNegAt(e, ph.Block().Preds[i], ph.Block()) {
						ok2 = false
					}
				}
			} else {
				ok2 = nonNegAt(arg, call.Block(), nil)
			}
			c.Check(rule, "seek-height-non-negative:"+fnName(fn), call.Pos(), ok2,
				"a height that can be negative is handed to a seeking block iterator in "+fnName(fn)+": converted to uint32 it lies above every block record, so the scan starts past the end and visits nothing (e.g. the confirmation/maturity correction is skipped on a chain shorter than the window)")
		}
	}
	c.Floor(rule, "seeking block iterator constructions", n, 1)
}

// checkElementIndexFromOwnLoop: the store's per-input records (debits) are keyed by (tx hash, INPUT index) and
// its per-output records (credits, unspent entries) by (tx hash, OUTPUT index). Where such an index argument
// is a range-loop induction variable, the loop must be the one over that transaction's inputs resp. outputs —
// not an enclosing loop (e.g. over the block's transactions) whose variable happens to have the same name.
func checkElementIndexFromOwnLoop(c *Ctx, rule string, fnNames []string) {
	_ = c.P
	n := 0
	for _, fn := range wtxRegion(c, rule, fnNames) {
		fnn := fn.Name()
		loops := loopsOf(fn)
		induction := func(v ssa.Value) *Loop {
			v = stripConv(v)
			var ph *ssa.Phi
			switch x := v.(type) {
			case *ssa.Phi:
				ph = x
			case *ssa.BinOp:
				if x.Op == token.ADD {
					ph, _ = x.X.(*ssa.Phi)
				}
			}
			if ph == nil {
				return nil
			}
			for _, l := range loops {
				if l.Header == ph.Block() && l.Kind != "for" {
					return l
				}
			}
			return nil
		}
		for _, ci := range callsOf(fn) {
			call, ok := ci.(*ssa.Call)
			if !ok {
				continue
			}
			g := call.Call.StaticCallee()
			if g == nil || g.Pkg != fn.Pkg {
				continue
			}
			want := ""
			switch {
			case strings.Contains(g.Name(), "Debit"):
				want = "TxIn"
			case strings.Contains(g.Name(), "Credit") || strings.Contains(g.Name(), "Unspent"):
				want = "TxOut"
			}
			if want == "" {
				continue
			}
			for pi, prm := range g.Params {
				if prm.Name() != "index" || pi >= len(call.Call.Args) {
					continue
				}
				l := induction(call.Call.Args[pi])
				if l == nil {
					continue // a stored index (field) or a parameter: not an induction variable
				}
				n++
				got := l.elemTypeName()
				c.Check(rule, fmt.Sprintf("%s-index-from-%s-loop:%s", g.Name(), want, fnn), call.Pos(), got == want,
					fmt.Sprintf("%s passes %s the induction variable of a loop over %q (%s) as the %s index: records of the wrong index are read or written (e.g. a rolled-back spender's debit is not found, so the credit it spent stays spent)", fnn, g.Name(), got, l.Over, map[string]string{"TxIn": "input", "TxOut": "output"}[want]))
			}
		}
	}
	c.Floor(rule, "per-element index arguments taken from a loop variable", n, 3)
}

// checkCallbackPointersNotRetained: an iterator helper that hands its callback a POINTER to a variable it
// re-uses across iterations (declared outside the per-record closure) obliges every callback not to retain
// that pointer. A callback that collects such pointers ends up with N references to the last record: the
// lease sweep then releases the last lease in key order once per expired lease — a live lease is dropped and
// the expired ones stay.
func checkCallbackPointersNotRetained(c *Ctx, rule string) {
	p := c.P
	n := 0
	for _, fn := range p.FuncsIn("wtxmgr") {
		if fn.Parent() != nil {
			continue
		}
		for pi, prm := range fn.Params {
			if _, ok := prm.Type().Underlying().(*types.Signature); !ok {
				continue
			}
			// invocations of the callback parameter anywhere in fn and its closures
			for _, f := range Closures(fn) {
				for _, ci := range callsOf(f) {
					cc := ci.Common()
					if cc.IsInvoke() || cc.StaticCallee() != nil {
						continue
					}
					v := cc.Value
					isP := v == ssa.Value(prm)
					if fv, ok := v.(*ssa.FreeVar); ok && freeVarRoot(fv) == ssa.Value(prm) {
						isP = true
					}
					if u, ok := v.(*ssa.UnOp); ok && u.Op == token.MUL {
						// the parameter captured by reference: *f where f's cell was initialised with the parameter
						var cell ssa.Value = u.X
						if fv, ok := cell.(*ssa.FreeVar); ok {
							cell = freeVarRoot(fv)
						}
						if al, ok := cell.(*ssa.Alloc); ok {
							for _, st := range storesTo(al) {
								if st.Val == ssa.Value(prm) {
									isP = true
								}
							}
						}
					}
					if !isP {
						continue
					}
					n++
					for ai, a := range cc.Args {
						if _, isPtr := a.Type().Underlying().(*types.Pointer); !isPtr {
							continue
						}
						fresh := false
						if al, ok := a.(*ssa.Alloc); ok && al.Parent() == f {
							fresh = true // allocated by the function that runs once per record
						}
						if fresh {
							continue
						}
						// reused storage: no callback may retain parameter ai
						for _, cs := range p.callers(fn) {
							if pi >= len(cs.Common().Args) {
								continue
							}
							mc, ok := stripConv(cs.Common().Args[pi]).(*ssa.MakeClosure)
							if !ok {
								continue
							}
							cb := mc.Fn.(*ssa.Function)
							if ai >= len(cb.Params) {
								continue
							}
							cp := cb.Params[ai]
							retained := false
							for _, u := range usesOf(cp) {
								switch x := u.(type) {
								case *ssa.Store:
									if x.Val == ssa.Value(cp) {
										retained = true
									}
								case *ssa.Call:
									if calleeShort(&x.Call) == "append" {
										retained = true
									}
								case *ssa.MakeInterface, *ssa.MakeClosure:
									retained = true
								}
							}
							c.Check(rule, fmt.Sprintf("callback-does-not-retain-reused-pointer:%s<-%s", fn.Name(), outermost(cs.Parent()).Name()), cb.Pos(), !retained,
								fmt.Sprintf("%s hands its callback a pointer to a variable it re-uses for every record, and the callback in %s keeps that pointer (appends/stores it): all kept pointers end up denoting the last record, so the wrong records are acted on (e.g. the expiry sweep releases a live lease and keeps the expired ones)", fn.Name(), fnName(cs.Parent())))
						}
					}
				}
			}
		}
	}
	c.Floor(rule, "callback invocations in wtxmgr iterator helpers", n, 1)
}

// checkNoAccumulatorReset: a filter loop that builds its result with `acc = append(acc, x...)` must append to
// the accumulator itself. `acc = append(acc[:0], x...)` (a mis-applied buffer-reuse idiom) truncates it on every
// iteration, so only the last kept element survives: the unconfirmed-spender list of an outpoint loses all other
// spenders when one of three or more is removed, and a coin a recorded transaction still spends shows as spendable.
func checkNoAccumulatorReset(c *Ctx, rule string, pkg string) {
	p := c.P
	n := 0
	for _, fn := range p.FuncsIn(pkg) {
		loops := loopsOf(fn)
		if len(loops) == 0 {
			continue
		}
		for _, ci := range callsOf(fn) {
			call, ok := ci.(*ssa.Call)
			if !ok || calleeShort(&call.Call) != "append" || len(call.Call.Args) == 0 {
				continue
			}
			l := innermostLoopOf(loops, call)
			if l == nil {
				continue
			}
			// the result is carried around the loop: it is an incoming value of a phi at a loop header
			var acc *ssa.Phi
			for _, u := range usesOf(call) {
				if ph, ok := u.(*ssa.Phi); ok {
					for _, l2 := range loops {
						if l2.Header == ph.Block() && l2.Blocks[call.Block()] {
							acc = ph
						}
					}
				}
			}
			// ... possibly through the merge phi after an `if`
			if acc == nil {
				for _, u := range usesOf(call) {
					if ph, ok := u.(*ssa.Phi); ok {
						for _, u2 := range usesOf(ph) {
							if ph2, ok := u2.(*ssa.Phi); ok {
								for _, l2 := range loops {
									if l2.Header == ph2.Block() && l2.Blocks[call.Block()] {
										acc = ph2
									}
								}
							}
						}
					}
				}
			}
			if acc == nil {
				continue
			}
			n++
			first := stripConv(call.Call.Args[0])
			reset := false
			if sl, ok := first.(*ssa.Slice); ok {
				if hi, ok := sl.High.(*ssa.Const); ok {
					if k, ok := constInt(hi); ok && k == 0 && stripConv(sl.X) == ssa.Value(acc) {
						reset = true
					}
				}
			}
			c.Check(rule, "accumulating-append-keeps-accumulator:"+fnName(fn), call.Pos(), !reset,
				fnName(fn)+" rebuilds its loop-carried result with append(acc[:0], ...): the accumulator is truncated on every iteration and only the last kept element survives")
		}
	}
	c.Floor(rule, "loop-carried append accumulators in "+pkg, n, 3)
}

// checkArithmeticAccumulators: a numeric variable carried around a loop and updated there by addition or
// subtraction (a running balance, a total) must be updated from its own previous value. `acc = base - x`
// inside the loop (instead of `acc -= x`) overwrites the running value on every iteration: only the last
// element's contribution survives (a confirmed fan-in spend debits only its last input from the balance).
func checkArithmeticAccumulators(c *Ctx, rule string, pkg string) {
	p := c.P
	n := 0
	for _, fn := range p.FuncsIn(pkg) {
		for _, l := range loopsOf(fn) {
			for _, ins := range l.Header.Instrs {
				ph, ok := ins.(*ssa.Phi)
				if !ok {
					break
				}
				if b, ok := ph.Type().Underlying().(*types.Basic); !ok || b.Info()&types.IsInteger == 0 {
					continue
				}
				for i, e := range ph.Edges {
					if !l.Blocks[l.Header.Preds[i]] {
						continue // entry edge
					}
					// does the back-edge value involve arithmetic at all, and does it depend on ph?
					arith, dependsOnSelf := false, false
					seen := map[ssa.Value]bool{}
					var walk func(v ssa.Value)
					walk = func(v ssa.Value) {
						v = stripConv(v)
						if seen[v] {
							return
						}
						seen[v] = true
						if v == ssa.Value(ph) {
							dependsOnSelf = true
							return
						}
						switch x := v.(type) {
						case *ssa.BinOp:
							if x.Op == token.ADD || x.Op == token.SUB {
								arith = true
							}
							walk(x.X)
							walk(x.Y)
						case *ssa.Phi:
							if l.Blocks[x.Block()] {
								for _, e2 := range x.Edges {
									walk(e2)
								}
							}
						case *ssa.Extract:
							walk(x.Tuple)
						case *ssa.Call:
							// a same-package helper that is handed the running value and returns the new one
							if g := x.Call.StaticCallee(); g != nil && fnPkgPath(g) == fnPkgPath(fn) && len(g.Blocks) > 0 {
								for _, a := range x.Call.Args {
									walk(a)
								}
							}
						}
					}
					walk(e)
					if !arith {
						continue
					}
					// induction variables of the loop itself (i+1) trivially depend on themselves: still counted
					n++
					c.Check(rule, fmt.Sprintf("accumulator-updated-from-itself:%s/%s", fnName(fn), ph.Comment), ph.Pos(), dependsOnSelf,
						fmt.Sprintf("in %s the loop-carried value %q is recomputed in the loop by arithmetic that does not involve its own previous value: every iteration overwrites the running result (only the last element counts)", fnName(fn), ph.Comment))
				}
			}
		}
	}
	c.Floor(rule, "arithmetic loop-carried values in "+pkg, n, 10)
}

// checkLoopsHaveNoEarlyExit: every loop of the named function visits all elements (no break / early success return).
func checkLoopsHaveNoEarlyExit(c *Ctx, rule string, fn *ssa.Function, what string) {
	if fn == nil {
		return
	}
	p := c.P
	n := 0
	// the loop may have been extracted into a same-package helper the function calls
	loops := loopsOf(fn)
	if len(loops) == 0 {
		for _, ci := range callsOf(fn) {
			if g := ci.Common().StaticCallee(); g != nil && g.Pkg == fn.Pkg && len(g.Blocks) > 0 {
				loops = append(loops, loopsOf(g)...)
			}
		}
	}
	for _, l := range loops {
		n++
		exits := l.EarlyExits(p)
		c.Check(rule, fmt.Sprintf("visits-every-element:%s#%d", fn.Name(), n), l.Header.Instrs[0].Pos(), len(exits) == 0,
			what+": the loop can be left before all elements were looked at ("+strings.Join(exits, "; ")+")")
	}
	c.Floor(rule, "loops in "+fn.Name(), n, 1)
}

// checkTxRecordHashIsTxid (sibling agreement): the store keys a transaction's record, credits and debits by TxRecord.Hash
// and finds spenders by the previous-outpoint hashes of later transactions — which are transaction ids. Both exported
// constructors must therefore set Hash to the transaction's id (MsgTx.TxHash); hashing the bytes handed in gives the
// witness hash for a witness-serialized transaction, and everything recorded for it becomes unreachable.
func checkTxRecordHashIsTxid(c *Ctx, rule string) {
	p := c.P
	n := 0
	for _, fn := range p.FuncsIn("wtxmgr") {
		if fn.Parent() != nil || fn.Object() == nil || !fn.Object().Exported() || fn.Signature.Recv() != nil {
			continue
		}
		res := fn.Signature.Results()
		if res.Len() == 0 || !strings.HasSuffix(res.At(0).Type().String(), "wtxmgr.TxRecord") {
			continue
		}
		n++
		fromTxid, otherwise := false, ""
		for _, b := range fn.Blocks {
			for _, ins := range b.Instrs {
				switch x := ins.(type) {
				case *ssa.Store:
					fa, ok := x.Addr.(*ssa.FieldAddr)
					if !ok {
						continue
					}
					if tn, f := fieldAddrName(fa); tn != "TxRecord" || f != "Hash" {
						continue
					}
					ok = false
					for _, o := range (&Slicer{P: p, KeepExtract: true}).Origins(x.Val) {
						if call, isCall := o.(*ssa.Call); isCall && calleeShort(&call.Call) == "TxHash" {
							ok = true
						}
					}
					if ok {
						fromTxid = true
					} else {
						otherwise = "assigned from " + describeValue(x.Val)
					}
				case *ssa.Call:
					if calleeShort(&x.Call) == "copy" && len(x.Call.Args) == 2 {
						if sl, ok := stripConv(x.Call.Args[0]).(*ssa.Slice); ok {
							if fa, ok := sl.X.(*ssa.FieldAddr); ok {
								if tn, f := fieldAddrName(fa); tn == "TxRecord" && f == "Hash" {
									otherwise = "filled by copy from " + describeValue(x.Call.Args[1])
								}
							}
						}
					}
				}
			}
		}
		c.Check(rule, "record-hash-is-transaction-id:"+fn.Name(), fn.Pos(), fromTxid && otherwise == "",
			fn.Name()+" does not set TxRecord.Hash to the transaction's id (MsgTx.TxHash) ("+otherwise+"): for a witness-serialized transaction the record is stored under its witness hash, which no spending transaction refers to")
	}
	c.Floor(rule, "exported constructors of TxRecord", n, 2)
}

// checkNoBulkOverwriteAfterElementWrite: the store's record codecs build a value in a local buffer: copy the old bytes
// in, then patch single bytes (the spent / change flag bits, a height). The patch survives only if no copy INTO the
// buffer from its start can still follow it: `newv[8] &^= spent; copy(newv, v)` restores the flag the line before
// cleared (a rolled-back spender's credit stays flagged spent).
func checkNoBulkOverwriteAfterElementWrite(c *Ctx, rule string) {
	p := c.P
	n := 0
	rootBuf := func(v ssa.Value) ssa.Value {
		for i := 0; i < 6; i++ {
			switch x := stripConv(v).(type) {
			case *ssa.Slice:
				v = x.X
				continue
			case *ssa.IndexAddr:
				v = x.X
				continue
			case *ssa.UnOp:
				if x.Op == token.MUL {
					if al, ok := x.X.(*ssa.Alloc); ok {
						return al
					}
				}
			}
			break
		}
		return stripConv(v)
	}
	for _, fn := range p.FuncsIn("wtxmgr") {
		if fn.Parent() != nil {
			continue
		}
		for _, b := range fn.Blocks {
			for _, ins := range b.Instrs {
				st, ok := ins.(*ssa.Store)
				if !ok {
					continue
				}
				ia, ok := st.Addr.(*ssa.IndexAddr)
				if !ok {
					continue
				}
				if _, isK := constInt(ia.Index); !isK {
					continue
				}
				buf := rootBuf(ia.X)
				switch buf.(type) {
				case *ssa.MakeSlice, *ssa.Alloc:
				default:
					continue
				}
				// only buffers that are also filled by a copy in this function (the copy-then-patch idiom)
				copied := false
				for _, cc := range callsNamed(fn, "copy") {
					if len(cc.Call.Args) == 2 && rootBuf(stripConv(cc.Call.Args[0])) == buf {
						copied = true
					}
				}
				if !copied {
					continue
				}
				n++
				q := &PathQuery{Fn: fn}
				var at ssa.Instruction
				q.Target = func(i ssa.Instruction, _ *ssa.BasicBlock) bool {
					call, ok := i.(*ssa.Call)
					if !ok || calleeShort(&call.Call) != "copy" || len(call.Call.Args) != 2 {
						return false
					}
					dst := stripConv(call.Call.Args[0])
					if sl, ok := dst.(*ssa.Slice); ok && sl.Low != nil {
						if k, isK := constInt(sl.Low); !isK || k != 0 {
							return false // a copy into a later part of the buffer
						}
					}
					if rootBuf(dst) != buf {
						return false
					}
					at = i
					return true
				}
				hits := q.From(st)
				detail := ""
				if len(hits) > 0 {
					detail = fnName(fn) + " patches a byte of the value it is building and then copies into that buffer from its start (" + p.Pos(at.Pos()) + "): the copy overwrites the patch (a cleared spent/change flag is restored from the old value)"
				}
				c.Check(rule, "patched-byte-not-overwritten-by-later-copy:"+fn.Name(), st.Pos(), len(hits) == 0, detail)
			}
		}
	}
	c.Floor(rule, "single-byte patches of locally built record values", n, 1)
}

// checkBoundsCheckNamesIndexedCollection: where a stored index is validated against the length of a collection before it
// is used ("saved debit index exceeds number of inputs"), the collection whose length is tested is the one the index
// selects from. Testing an input index against the number of OUTPUTS rejects valid records (a 3-input, 1-output sweep
// cannot be reported once mined) and lets invalid ones through.
func checkBoundsCheckNamesIndexedCollection(c *Ctx, rule string, fnNames []string) {
	p := c.P
	n := 0
	lenOf := func(v ssa.Value) string {
		call, ok := stripConv(v).(*ssa.Call)
		if !ok || calleeShort(&call.Call) != "len" || len(call.Call.Args) != 1 {
			return ""
		}
		return describeValue(call.Call.Args[0])
	}
	for _, fn := range wtxRegion(c, rule, fnNames) {
		for _, b := range fn.Blocks {
			iff, ok := b.Instrs[len(b.Instrs)-1].(*ssa.If)
			if !ok {
				continue
			}
			bo, ok := iff.Cond.(*ssa.BinOp)
			if !ok {
				continue
			}
			var idx ssa.Value
			coll := ""
			if l := lenOf(bo.Y); l != "" {
				idx, coll = bo.X, l
			} else if l := lenOf(bo.X); l != "" {
				idx, coll = bo.Y, l
			}
			if coll == "" {
				continue
			}
			// an index of a debit record counts inputs, an index of a credit record counts outputs
			for _, o := range (&Slicer{P: p, ThroughFieldsOfAllocs: false}).Origins(idx) {
				tn, f, _, okf := fieldOf(o)
				if !okf || f != "Index" {
					continue
				}
				want := ""
				switch {
				case strings.Contains(tn, "Debit"):
					want = "TxIn"
				case strings.Contains(tn, "Credit"):
					want = "TxOut"
				}
				if want == "" {
					continue
				}
				n++
				c.Check(rule, "record-index-bounded-by-own-list:"+fn.Name()+"/"+tn, bo.Pos(), strings.HasSuffix(coll, want) || strings.Contains(coll, want),
					fmt.Sprintf("%s validates the index of a %s against len(%s), expected the transaction's %s list: a record of a transaction with more inputs than outputs (or the reverse) is rejected as corrupt, and the transaction can no longer be reported", fn.Name(), tn, coll, want))
			}
			idxRoot := stripConv(idx)
			// uses of the same index value to select an element, in blocks this test dominates
			for _, b2 := range fn.Blocks {
				if !b.Dominates(b2) || b2 == b {
					continue
				}
				for _, ins := range b2.Instrs {
					ia, ok := ins.(*ssa.IndexAddr)
					if !ok || stripConv(ia.Index) != idxRoot {
						continue
					}
					n++
					sel := describeValue(ia.X)
					c.Check(rule, "bounds-check-names-indexed-collection:"+fn.Name(), ia.Pos(), sel == coll,
						fmt.Sprintf("%s validates an index against len(%s) and then uses it to select from %s: valid records are rejected (and invalid ones accepted) whenever the two collections differ in length", fn.Name(), coll, sel))
				}
			}
		}
	}
	c.Floor(rule, "validated index uses", n, 2)
}

// checkExportedWrapperAlwaysRunsWorker: an exported Store method that has an unexported worker of the same name
// (AddCredit/addCredit, Rollback/rollback) validates its arguments and hands over: it reports success only through the
// worker. A shortcut that returns nil first ("an output without value needs no tracking", "no block record at exactly this
// height") silently drops a credit or a rollback.
func checkExportedWrapperAlwaysRunsWorker(c *Ctx, rule string) {
	p := c.P
	n := 0
	for _, fn := range p.FuncsIn("wtxmgr") {
		if fn.Parent() != nil || fn.Object() == nil || !fn.Object().Exported() || recvName(fn) != "Store" {
			continue
		}
		name := fn.Name()
		worker := p.Func("wtxmgr", "Store", strings.ToLower(name[:1])+name[1:])
		if worker == nil || !p.reachSet(fn)[worker] {
			continue
		}
		n++
		bad := p.mustPassToSuccess(fn, nil, func(ins ssa.Instruction) bool {
			ci, ok := ins.(ssa.CallInstruction)
			if !ok {
				return false
			}
			g := ci.Common().StaticCallee()
			return g == worker || (g != nil && g != fn && p.inRegion(fn, g) && p.reachSet(g)[worker])
		}, nil)
		pos := fn.Pos()
		if bad != nil {
			pos = bad.Pos()
		}
		c.Check(rule, "wrapper-always-runs-worker:"+name, pos, bad == nil,
			"Store."+name+" can report success without having run "+worker.Name()+": the request (a credit to record, blocks to detach) is acknowledged and dropped")
	}
	c.Floor(rule, "exported store methods with a same-named worker", n, 2)
}

// checkDetachedBlockRecordIsTheWalkedOne: the rollback deletes, after the walk, the block records of the blocks it
// detached. The heights it deletes are the heights of the records the walk visited (the iterator's element) — the
// rollback's own target height names only the lowest of them: with it, a rollback over several blocks leaves the records
// of the higher blocks behind (transactions listed in a block that is gone; the next balance pass reads them and fails).
func checkDetachedBlockRecordIsTheWalkedOne(c *Ctx, rule string) {
	p := c.P
	n := 0
	for _, fn := range wtxRegion(c, rule, []string{"rollback"}) {
		for _, call := range callsNamed(fn, "deleteBlockRecord") {
			if len(call.Call.Args) < 2 {
				continue
			}
			n++
			// the height: an element of a slice filled during the walk, or the element's height itself
			fromElem, fromParam := false, false
			var visit func(v ssa.Value, depth int)
			visit = func(v ssa.Value, depth int) {
				if depth > 4 {
					return
				}
				for _, o := range (&Slicer{P: p, ThroughRange: true, ThroughDeref: true}).Origins(v) {
					switch x := o.(type) {
					case *ssa.Parameter:
						// a part of the rollback is handed the list by its one caller
						if r := p.resolveParam(x); r != ssa.Value(x) {
							visit(r, depth+1)
						} else {
							fromParam = true
						}
					case *ssa.Call:
						if bi, ok := x.Call.Value.(*ssa.Builtin); ok && bi.Name() == "append" {
							for _, e := range appendedElems(x) {
								visit(e, depth+1)
							}
							if len(x.Call.Args) > 0 {
								visit(x.Call.Args[0], depth+1)
							}
						}
					default:
						if _, f, _, ok := fieldOf(o); ok && f == "Height" {
							fromElem = true
						}
						// an element of a slice (range over it): what the slice was filled with
						if u, ok := o.(*ssa.UnOp); ok {
							if ia, ok := u.X.(*ssa.IndexAddr); ok {
								visit(ia.X, depth+1)
							}
						}
					}
				}
			}
			visit(call.Call.Args[1], 0)
			c.Check(rule, "detached-block-record-is-the-walked-one:"+fn.Name(), call.Pos(), fromElem && !fromParam,
				fnName(fn)+" deletes block records by a height that is not (only) the height of the records its walk visited: a rollback over several blocks leaves the higher blocks' records behind, still listing transactions that are unconfirmed again")
		}
	}
	c.Floor(rule, "block record deletions of the rollback", n, 1)
}

// checkStoreStateIsResetByRollback: the store answers from the database. Any field of Store that is written after the
// store was opened is derived state (a cache, a high-water mark), and chain data it was derived from changes under a
// rollback: such a field is also written (reset, invalidated) inside the rollback. A read-through cache of block times
// that the rollback does not touch reports the old block's time for a transaction that confirmed again in another block.
func checkStoreStateIsResetByRollback(c *Ctx, rule string) {
	p := c.P
	writes := map[string][]*ssa.Function{}
	for _, fn := range p.FuncsIn("wtxmgr") {
		top := outermost(fn)
		if top.Name() == "Open" || top.Name() == "Create" || top.Name() == "newStore" {
			continue
		}
		for _, b := range fn.Blocks {
			for _, ins := range b.Instrs {
				var addr ssa.Value
				switch x := ins.(type) {
				case *ssa.Store:
					addr = x.Addr
				case *ssa.MapUpdate:
					if u, ok := stripConv(x.Map).(*ssa.UnOp); ok {
						addr = u.X
					}
				}
				fa, ok := addr.(*ssa.FieldAddr)
				if !ok {
					continue
				}
				if tn, f := fieldAddrName(fa); tn == "Store" {
					writes[f] = append(writes[f], top)
				}
			}
		}
	}
	inRollback := map[*ssa.Function]bool{}
	for _, fn := range wtxRegion(c, rule, []string{"rollback", "Rollback"}) {
		for _, f := range Closures(fn) {
			inRollback[outermost(f)] = true
		}
	}
	for f, tops := range writes {
		reset := false
		for _, t := range tops {
			if inRollback[t] {
				reset = true
			}
		}
		c.Check(rule, "store-state-reset-by-rollback:"+f, tops[0].Pos(), reset,
			"Store."+f+" is written while the store is in use ("+fnName(tops[0])+") but never inside the rollback: what it caches about blocks that are disconnected survives the reorganisation")
	}
	c.Note("%s: %d Store fields written after open", rule, len(writes))
}

// checkRecordSerialisationKeepsWitness: the bytes a transaction record stores are what is offered to the backend again
// after a restart. They are the full serialisation: nothing in the store serialises a transaction without its witness.
func checkRecordSerialisationKeepsWitness(c *Ctx, rule string) {
	p := c.P
	n := 0
	for _, fn := range p.FuncsIn("wtxmgr") {
		for _, ci := range callsOf(fn) {
			name := calleeShort(ci.Common())
			if name == "Serialize" || name == "SerializeNoWitness" || name == "BtcEncode" {
				if g := ci.Common().StaticCallee(); g == nil || recvName(g) != "MsgTx" {
					continue
				}
				n++
				c.Check(rule, "record-serialisation-keeps-witness:"+fn.Name(), ci.Pos(), name == "Serialize",
					fnName(fn)+" serialises a transaction with "+name+": the stored bytes lose the signatures of segwit inputs, the re-broadcast after a restart offers an unsigned transaction, the backend rejects it and the wallet forgets a payment that sits in the mempool")
			}
		}
	}
	c.Floor(rule, "transaction serialisations in the store", n, 1)
}
