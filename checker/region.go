package main

import (
	"go/token"
	"go/types"
	"sort"

	"golang.org/x/tools/go/ssa"
)

// ---------- regions: a function together with its private parts ----------
//
// Many rules are stated about "what operation F does": its loops, its writes,
// its tests. Where F's body has been split into helpers (extract function),
// turned from a closure into a method of a small struct, or started with `go
// x.run()`, the same code is still executed as part of F and nowhere else.
// regionOf(F) is F, its function literals, and every unexported same-package
// function or method ALL of whose uses (static call, go/defer, function value,
// bound-method value, dynamic call edge) lie inside the region already — the
// fixpoint of "is only ever run as a part of F". A helper shared with another
// operation is not a part (it stays a callee that rules reason about through
// summaries as before).

// underlying maps a synthetic bound-method / thunk wrapper to the declared method.
func (p *Program) underlying(f *ssa.Function) *ssa.Function {
	if f == nil || f.Synthetic == "" {
		return f
	}
	if obj, ok := f.Object().(*types.Func); ok && obj != nil {
		if g := p.SSA.FuncValue(obj); g != nil && g != f {
			return g
		}
	}
	return f
}

// fnUsers: declared function -> functions whose instructions mention it as an operand
// (call target, go/defer target, closure, function value), plus dynamic call edges.
func (p *Program) fnUsers() map[*ssa.Function]map[*ssa.Function]bool {
	if p.users != nil {
		return p.users
	}
	p.users = map[*ssa.Function]map[*ssa.Function]bool{}
	add := func(g, user *ssa.Function) {
		g = p.underlying(g)
		if g == nil {
			return
		}
		if p.users[g] == nil {
			p.users[g] = map[*ssa.Function]bool{}
		}
		p.users[g][user] = true
	}
	var buf [16]*ssa.Value
	for fn := range p.all {
		if fn.Synthetic != "" && fn.Blocks != nil {
			// wrappers: the real user is whoever uses the wrapper; underlying() folds that
			continue
		}
		for _, b := range fn.Blocks {
			for _, ins := range b.Instrs {
				for _, op := range ins.Operands(buf[:0]) {
					if op == nil || *op == nil {
						continue
					}
					if g, ok := (*op).(*ssa.Function); ok {
						add(g, fn)
					}
				}
				if ci, ok := ins.(ssa.CallInstruction); ok && ci.Common().IsInvoke() { // interface dispatch; calls of function values are accounted for where the value is made
					for _, g := range p.Callees(ci) {
						add(g, fn)
					}
				}
			}
		}
	}
	return p.users
}

func (p *Program) regionOf(fn *ssa.Function) []*ssa.Function {
	if fn == nil {
		return nil
	}
	if p.regions == nil {
		p.regions = map[*ssa.Function][]*ssa.Function{}
	}
	if r, ok := p.regions[fn]; ok {
		return r
	}
	in := map[*ssa.Function]bool{}
	var order []*ssa.Function
	var addFn func(f *ssa.Function)
	addFn = func(f *ssa.Function) {
		for _, g := range Closures(f) {
			if !in[g] {
				in[g] = true
				order = append(order, g)
			}
		}
	}
	addFn(fn)
	users := p.fnUsers()
	pkg := fnPkgPath(fn)
	for changed := true; changed; {
		changed = false
		// candidates: functions mentioned inside the region
		var cands []*ssa.Function
		seen := map[*ssa.Function]bool{}
		var buf [16]*ssa.Value
		for _, f := range order {
			for _, b := range f.Blocks {
				for _, ins := range b.Instrs {
					for _, op := range ins.Operands(buf[:0]) {
						if op == nil || *op == nil {
							continue
						}
						if g, ok := (*op).(*ssa.Function); ok {
							g = p.underlying(g)
							if g != nil && !seen[g] {
								seen[g] = true
								cands = append(cands, g)
							}
						}
					}
				}
			}
		}
		for _, g := range cands {
			if in[g] || g.Parent() != nil || g.Blocks == nil || fnPkgPath(g) != pkg {
				continue
			}
			obj := g.Object()
			if obj == nil || obj.Exported() {
				continue
			}
			private := len(users[g]) > 0
			for u := range users[g] {
				if !in[u] && u != g && !in[outermostIn(u, in)] {
					private = false
					break
				}
			}
			if private {
				addFn(g)
				changed = true
			}
		}
	}
	sort.SliceStable(order[1:], func(i, j int) bool { return order[1+i].Pos() < order[1+j].Pos() })
	p.regions[fn] = order
	return order
}

// outermostIn: walk up the parents of u until a function that is in the set (or the top).
func outermostIn(u *ssa.Function, in map[*ssa.Function]bool) *ssa.Function {
	for u != nil && !in[u] && u.Parent() != nil {
		u = u.Parent()
	}
	return u
}

// regionOwner: the declared function fn is a private part of — fn's outermost function, then, while that is unexported and
// used from exactly one other declared function of its package, that user.
func (p *Program) regionOwner(fn *ssa.Function) *ssa.Function {
	fn = outermost(fn)
	for hops := 0; hops < 4; hops++ {
		if obj := fn.Object(); obj == nil || obj.Exported() {
			return fn
		}
		var user *ssa.Function
		n := 0
		for _, cs := range p.realCallers(fn) {
			u := outermost(cs.Parent())
			if u == fn {
				continue
			}
			if u != user {
				user = u
				n++
			}
		}
		if n != 1 || fnPkgPath(user) != fnPkgPath(fn) || !p.inRegion(user, fn) {
			return fn
		}
		fn = user
	}
	return fn
}

// partOfNamed: fn is the declared function `name` of its package, or a private part of it (the chain of single users
// that regionOwner follows passes through it).
func (p *Program) partOfNamed(fn *ssa.Function, name string) bool {
	fn = outermost(fn)
	for hops := 0; hops < 4; hops++ {
		if fn.Name() == name {
			return true
		}
		if obj := fn.Object(); obj == nil || obj.Exported() {
			return false
		}
		var user *ssa.Function
		n := 0
		for _, cs := range p.realCallers(fn) {
			u := outermost(cs.Parent())
			if u == fn {
				continue
			}
			if u != user {
				user = u
				n++
			}
		}
		if n != 1 || fnPkgPath(user) != fnPkgPath(fn) || !p.inRegion(user, fn) {
			return false
		}
		fn = user
	}
	return fn.Name() == name
}

// regionTop: the declared (non-literal) functions of the region, fn first.
func (p *Program) regionTop(fn *ssa.Function) []*ssa.Function {
	var out []*ssa.Function
	for _, f := range p.regionOf(fn) {
		if f.Parent() == nil {
			out = append(out, f)
		}
	}
	return out
}

// inRegion reports whether g is part of fn's region.
func (p *Program) inRegion(fn, g *ssa.Function) bool {
	for _, f := range p.regionOf(fn) {
		if f == g {
			return true
		}
	}
	return false
}

// wtxRegion: the named wtxmgr functions together with their private parts (declared functions only), each once.
func wtxRegion(c *Ctx, rule string, names []string) []*ssa.Function {
	var out []*ssa.Function
	seen := map[*ssa.Function]bool{}
	for _, name := range names {
		fn := wtxFn(c, rule, name)
		if fn == nil {
			continue
		}
		for _, f := range c.P.regionTop(fn) {
			if !seen[f] {
				seen[f] = true
				out = append(out, f)
			}
		}
	}
	return out
}

// precededInRegion: on every way of reaching `at` from root's entry, local(f, x) held for some x on the way — x being
// `at` in its own function, or (when at's function is a private part of root) a call site of that part, recursively.
func (p *Program) precededInRegion(root *ssa.Function, at ssa.Instruction, local func(f *ssa.Function, at ssa.Instruction) bool, depth int) bool {
	f := at.Parent()
	if f == nil || depth > 4 {
		return false
	}
	if local(f, at) {
		return true
	}
	if f == root || !p.inRegion(root, f) || f.Parent() != nil {
		return false
	}
	sites := 0
	for _, cs := range p.callers(f) {
		if cs.Parent().Synthetic != "" && len(p.callers(cs.Parent())) == 0 {
			continue // caller-less promotion wrapper generated for an embedding type
		}
		if !p.inRegion(root, cs.Parent()) {
			return false
		}
		sites++
		if !p.precededInRegion(root, cs, local, depth+1) {
			return false
		}
	}
	return sites > 0
}

// ---------- closure variables turned into fields of a small struct ----------
//
// `commit := &T{a: a, b: b}; tx.OnCommit(commit.apply)` is `tx.OnCommit(func() { ...a...b... })` with the captured
// variables spelled as fields. boundFieldStores resolves a load of such a field in the method back to the value(s) the
// constructing function stored, exactly as freeVarStores does for captured variables. It applies only where every use
// of the method binds (or calls it on) a struct freshly built in the using function, so the stored values are the only
// ones the field can hold when the method runs.
func (p *Program) boundFieldStores(ld ssa.Value) []ssa.Value {
	var recv ssa.Value
	field := -1
	switch x := ld.(type) {
	case *ssa.UnOp:
		if x.Op != token.MUL {
			return nil
		}
		fa, ok := x.X.(*ssa.FieldAddr)
		if !ok {
			return nil
		}
		recv, field = fa.X, fa.Field
	case *ssa.Field:
		recv, field = x.X, x.Field
	default:
		return nil
	}
	// receiver parameter, possibly spilled
	if u, ok := recv.(*ssa.UnOp); ok && u.Op == token.MUL {
		if al, ok := u.X.(*ssa.Alloc); ok && isParamSpill(al) {
			for _, st := range storesTo(al) {
				if prm, ok := st.Val.(*ssa.Parameter); ok {
					recv = prm
				}
			}
		}
	}
	prm, ok := recv.(*ssa.Parameter)
	if !ok {
		return nil
	}
	m := prm.Parent()
	if m == nil || m.Signature.Recv() == nil || len(m.Params) == 0 || m.Params[0] != prm || m.Object() == nil || m.Object().Exported() {
		return nil
	}
	type key struct {
		m *ssa.Function
		f int
	}
	if p.boundMemo == nil {
		p.boundMemo = map[[2]interface{}][]ssa.Value{}
	}
	mk := [2]interface{}{m, field}
	if r, ok := p.boundMemo[mk]; ok {
		return r
	}
	var out []ssa.Value
	okAll := true
	nUse := 0
	var buf [16]*ssa.Value
	for u := range p.fnUsers()[m] {
		for _, b := range u.Blocks {
			for _, ins := range b.Instrs {
				var rv ssa.Value
				switch y := ins.(type) {
				case *ssa.MakeClosure:
					if f, ok := y.Fn.(*ssa.Function); ok && p.underlying(f) == m && len(y.Bindings) == 1 {
						rv = y.Bindings[0]
					}
				case ssa.CallInstruction:
					if y.Common().StaticCallee() == m && len(y.Common().Args) > 0 {
						rv = y.Common().Args[0]
					}
				}
				if rv == nil {
					for _, op := range ins.Operands(buf[:0]) {
						if op != nil && *op != nil {
							if f, ok := (*op).(*ssa.Function); ok && p.underlying(f) == m {
								if _, isMC := ins.(*ssa.MakeClosure); !isMC {
									if ci, isCall := ins.(ssa.CallInstruction); !isCall || ci.Common().StaticCallee() != m {
										okAll = false
									}
								}
							}
						}
					}
					continue
				}
				nUse++
				rv = stripConv(rv)
				var al *ssa.Alloc
				switch z := rv.(type) {
				case *ssa.Alloc:
					al = z
				case *ssa.UnOp:
					if z.Op == token.MUL {
						if a2, ok := z.X.(*ssa.Alloc); ok { // value receiver: *(&T{...}) or a local struct variable
							al = a2
						} else if a2, ok := z.X.(*ssa.Alloc); ok {
							al = a2
						}
					}
				}
				if al == nil {
					// pointer variable holding the freshly built struct: commit := &T{...}
					if ld2, ok := rv.(*ssa.UnOp); ok && ld2.Op == token.MUL {
						if v := dominatingStoreVal(ld2); v != nil {
							al, _ = stripConv(v).(*ssa.Alloc)
						}
					}
				}
				if al == nil {
					okAll = false
					continue
				}
				n := 0
				for _, r := range usesOf(al) {
					fa2, ok := r.(*ssa.FieldAddr)
					if !ok || fa2.Field != field {
						continue
					}
					for _, r2 := range usesOf(fa2) {
						if st, ok := r2.(*ssa.Store); ok && st.Addr == ssa.Value(fa2) {
							out = append(out, st.Val)
							n++
						} else if _, isLoad := r2.(*ssa.UnOp); !isLoad {
							okAll = false // address of the field escapes
						}
					}
				}
				if n == 0 {
					okAll = false // zero value: not represented
				}
			}
		}
	}
	if okAll && nUse > 0 && p.fieldStoredElsewhere(prm.Type(), field, out) {
		okAll = false // the method (or anything else) reassigns the field: it is state, not a captured constant
	}
	if !okAll || nUse == 0 {
		out = nil
	}
	p.boundMemo[mk] = out
	return out
}

// fieldStoredElsewhere: some store to field #field of the struct type behind recvType other than the given construction stores.
func (p *Program) fieldStoredElsewhere(recvType types.Type, field int, construction []ssa.Value) bool {
	t := recvType
	if pt, ok := t.Underlying().(*types.Pointer); ok {
		t = pt.Elem()
	}
	named, ok := t.(*types.Named)
	if !ok || named.Obj().Pkg() == nil {
		return true
	}
	isConstruction := func(v ssa.Value) bool {
		for _, cv := range construction {
			if cv == v {
				return true
			}
		}
		return false
	}
	for _, fn := range p.RepoFuncs {
		if fnPkgPath(fn) != named.Obj().Pkg().Path() {
			continue
		}
		for _, b := range fn.Blocks {
			for _, ins := range b.Instrs {
				fa, ok := ins.(*ssa.FieldAddr)
				if !ok || fa.Field != field {
					continue
				}
				pt, ok := fa.X.Type().Underlying().(*types.Pointer)
				if !ok || !types.Identical(pt.Elem(), named) {
					continue
				}
				for _, r := range usesOf(fa) {
					switch y := r.(type) {
					case *ssa.Store:
						if y.Addr == ssa.Value(fa) && !isConstruction(y.Val) {
							return true
						}
						if y.Addr != ssa.Value(fa) {
							return true // address stored somewhere
						}
					case *ssa.UnOp, *ssa.DebugRef:
					case *ssa.IndexAddr, *ssa.FieldAddr, *ssa.Slice:
						// element/sub-field access of the held value: reads or in-place element writes, not a reassignment
					default:
						return true // address passed on
					}
				}
			}
		}
	}
	return false
}

// fieldCell: a field of an unexported struct type of the repository — the state a closure turned into a small struct keeps
// in place of captured variables. All instances of the type are taken together.
type fieldCell struct {
	named *types.Named
	field int
}

func privateFieldCell(addr ssa.Value) (fieldCell, bool) {
	fa, ok := stripConv(addr).(*ssa.FieldAddr)
	if !ok {
		return fieldCell{}, false
	}
	pt, ok := fa.X.Type().Underlying().(*types.Pointer)
	if !ok {
		return fieldCell{}, false
	}
	named, ok := pt.Elem().(*types.Named)
	if !ok || named.Obj().Pkg() == nil || named.Obj().Exported() {
		return fieldCell{}, false
	}
	if _, isStruct := named.Underlying().(*types.Struct); !isStruct {
		return fieldCell{}, false
	}
	return fieldCell{named, fa.Field}, true
}

// fieldCellStores: every store to the field, anywhere in the type's package.
func (p *Program) fieldCellStores(fc fieldCell) []*ssa.Store {
	var out []*ssa.Store
	for _, fn := range p.RepoFuncs {
		if fnPkgPath(fn) != fc.named.Obj().Pkg().Path() {
			continue
		}
		for _, b := range fn.Blocks {
			for _, ins := range b.Instrs {
				st, ok := ins.(*ssa.Store)
				if !ok {
					continue
				}
				if c2, ok := privateFieldCell(st.Addr); ok && c2 == fc {
					out = append(out, st)
				}
			}
		}
	}
	return out
}

// cellKey: identity of a piece of state that outlives one call of a function value: a captured variable, or a field of
// the struct a bound method was bound on (pointer receiver). "" if addr is neither.
func cellKey(addr ssa.Value) string {
	switch x := addr.(type) {
	case *ssa.FreeVar:
		return "captured:" + x.Name()
	case *ssa.FieldAddr:
		recv := x.X
		if u, ok := recv.(*ssa.UnOp); ok && u.Op == token.MUL {
			if al, ok := u.X.(*ssa.Alloc); ok && isParamSpill(al) {
				for _, st := range storesTo(al) {
					if prm, ok := st.Val.(*ssa.Parameter); ok {
						recv = prm
					}
				}
			}
		}
		prm, ok := recv.(*ssa.Parameter)
		if !ok {
			return ""
		}
		m := prm.Parent()
		if m == nil || m.Signature.Recv() == nil || len(m.Params) == 0 || m.Params[0] != prm {
			return ""
		}
		if _, isPtr := prm.Type().Underlying().(*types.Pointer); !isPtr {
			return ""
		}
		_, f := fieldAddrName(x)
		return "field:" + f
	}
	return ""
}

// valueFunctionsOf: the function values fn builds and returns or hands on — its function literals and the methods of
// its private parts (a closure turned into a method of a small struct).
func (p *Program) valueFunctionsOf(fn *ssa.Function) []*ssa.Function {
	var out []*ssa.Function
	for _, f := range p.regionOf(fn) {
		if f != fn {
			out = append(out, f)
		}
	}
	return out
}

// realCallers: call sites of fn, not counting caller-less promotion wrappers generated for embedding types.
func (p *Program) realCallers(fn *ssa.Function) []ssa.CallInstruction {
	var out []ssa.CallInstruction
	for _, cs := range p.callers(fn) {
		if cs.Parent().Synthetic != "" && len(p.callers(cs.Parent())) == 0 {
			continue
		}
		out = append(out, cs)
	}
	return out
}

// resolveParam: a parameter of an unexported function that has exactly one call site stands for the argument passed
// there (values threaded through extracted helpers); followed up to four levels.
func (p *Program) resolveParam(v ssa.Value) ssa.Value {
	for i := 0; i < 4; i++ {
		prm, ok := stripConv(v).(*ssa.Parameter)
		if !ok {
			break
		}
		f := prm.Parent()
		if f == nil || f.Parent() != nil || f.Object() == nil || f.Object().Exported() {
			break
		}
		sites := p.realCallers(f)
		idx := paramIndex(f, prm)
		if len(sites) != 1 || idx < 0 || idx >= len(sites[0].Common().Args) || len(p.fnUsers()[f]) != 1 {
			break
		}
		v = sites[0].Common().Args[idx]
	}
	return v
}

// argNamed: the value a call passes for the callee's parameter called `name` — by the callee's own parameter list, not
// by a fixed position; when the parameters have been grouped into a struct, the value the call site stored into the
// field `name` of the struct literal it passes. idx is the reference position, used only when the callee cannot be
// resolved. nil if nothing matches (the caller reports the obligation as undecided).
func (p *Program) argNamed(call *ssa.Call, name string, idx int) ssa.Value {
	args := call.Call.Args
	callee := call.Call.StaticCallee()
	if callee == nil || len(callee.Params) != len(args) {
		if idx >= 0 && idx < len(args) {
			return args[idx]
		}
		return nil
	}
	for i, prm := range callee.Params {
		if prm.Name() == name {
			return args[i]
		}
	}
	for i, prm := range callee.Params {
		t := prm.Type()
		ptr := false
		if pt, ok := t.Underlying().(*types.Pointer); ok {
			t, ptr = pt.Elem(), true
		}
		st, ok := t.Underlying().(*types.Struct)
		if !ok || (callee.Signature.Recv() != nil && i == 0) {
			continue
		}
		fi := -1
		for k := 0; k < st.NumFields(); k++ {
			if st.Field(k).Name() == name {
				fi = k
			}
		}
		if fi < 0 {
			continue
		}
		var al *ssa.Alloc
		v := stripConv(args[i])
		if ptr {
			al, _ = v.(*ssa.Alloc)
		} else if u, ok := v.(*ssa.UnOp); ok && u.Op == token.MUL {
			al, _ = u.X.(*ssa.Alloc)
		}
		if al == nil {
			continue
		}
		var val ssa.Value
		n := 0
		for _, r := range usesOf(al) {
			if fa, ok := r.(*ssa.FieldAddr); ok && fa.Field == fi {
				for _, r2 := range usesOf(fa) {
					if st2, ok := r2.(*ssa.Store); ok && st2.Addr == ssa.Value(fa) {
						val = st2.Val
						n++
					}
				}
			}
		}
		if n == 1 {
			return val
		}
	}
	if idx >= 0 && idx < len(args) {
		// same arity as the reference and no parameter of that name: a renamed parameter at the reference position
		return args[idx]
	}
	return nil
}
