package main

import (
	"go/token"
	"go/types"
	"strings"

	"golang.org/x/tools/go/ssa"
)

func init() {
	register(&propSpec{
		ID: "C20",
		Explanation: "Decides structural necessary conditions of the publish/rebroadcast property in wallet: (R1) the broadcast is dominated by the success of the update that records the transaction; " +
			"(R2) from the point the recording succeeded, every path of reliablyPublishTransaction to an error return, and every path of publishTransaction from the send to an error return, passes an update that reaches Store.RemoveUnminedTx; " +
			"(R3) the accepted answers (no error, 'already in mempool') never pass a removal, and the classification uses errors.Is on the chain package's sentinels; " +
			"(R4) resendUnminedTxs iterates, completely and in order, over the slice returned by Store.UnminedTxs, whose value is DependencySort applied to a map filled from every record of the unmined bucket, offering each element to publishTransaction, and is started from the rescan-finished handler; " +
			"(R5) RemoveUnminedTx removes transitively (shared rule). NOT decided: equality of balances before/after, descendants' amounts. On the first broadcast the function reliablyPublishTransaction hands the recorded transaction to cannot fail before the send without removing it; on the rebroadcast path publishTransaction's own 'no chain client' exit is not a hand-over failure and stays out of R2's scope.",
		Assumptions: []string{"call graph over-approximates callees; SendRawTransaction implementations are the chain package's clients"},
		Run:         runC20,
	})
}

func walletFn(c *Ctx, rule, name string) *ssa.Function {
	fn := c.P.Func("wallet", "Wallet", name)
	if fn == nil {
		fn = c.P.Func("wallet", "", name)
	}
	if fn == nil {
		c.Unresolved(rule, "wallet."+name)
	}
	return fn
}

// implsNamed returns all repo methods with the given name (any receiver) in package pkg.
func (p *Program) methodsNamed(pkg, name string) []*ssa.Function {
	var out []*ssa.Function
	for _, fn := range p.FuncsIn(pkg) {
		if fn.Name() == name && fn.Signature.Recv() != nil {
			out = append(out, fn)
		}
	}
	return out
}

// isInvokeNamed: instruction is an interface method call with that name.
func isInvokeNamed(name string) func(ssa.Instruction) bool {
	return func(ins ssa.Instruction) bool {
		c, ok := ins.(*ssa.Call)
		return ok && c.Call.IsInvoke() && c.Call.Method.Name() == name
	}
}

// errIsEdge: edge on which errors.Is(x, chain.<sentinel>) has the given outcome.
func errIsSentinel(from *ssa.BasicBlock, si int) (string, bool, bool) {
	f := edgeFactOf(from, si)
	if f == nil {
		return "", false, false
	}
	call, ok := f.V.(*ssa.Call)
	if !ok {
		return "", false, false
	}
	callee := call.Call.StaticCallee()
	if callee == nil || callee.Pkg == nil || callee.Pkg.Pkg.Path() != "errors" || callee.Name() != "Is" {
		return "", false, false
	}
	return valueDesc(call.Call.Args[1]), f.Kind == "true", true
}

func runC20(c *Ctx) {
	checkPublish(c, func(n string) string { return "C20-" + n })
	checkErrorTablesAgree(c, "C20-R3")
	checkBackendErrorIsTheHaystack(c, "C20-R3")
	checkMatcherIsSubstringTest(c, "C20-R3")
	// the re-offer is triggered by the rescan-finished announcement: nothing but its own rescan switches it off
	checkNeutrinoProducerDiscipline(c, "C20-R5", "d")
	checkOldBtcdTableBehindVersionGate(c, "C20-R3")
	checkSortInputKeyedByTxid(c, "C20-R4")
	checkRecordSerialisationKeepsWitness(c, "C20-R4")
	checkBroadcastErrorsAreMapped(c, "C20-R3")
	runC20Rest(c)
}

// checkPublish: record-before-broadcast, removal on failing exits, no removal on accepted answers.
// Shared by C20 (R1-R3) and C06 (R5).
func checkPublish(c *Ctx, rn func(string) string) {
	p := c.P
	rel := walletFn(c, rn("R1"), "reliablyPublishTransaction")
	pub := walletFn(c, rn("R1"), "publishTransaction")
	addRel := walletFn(c, rn("R1"), "addRelevantTx")
	rm := p.Func("wtxmgr", "Store", "RemoveUnminedTx")
	if rel == nil || pub == nil || addRel == nil || rm == nil {
		if rm == nil {
			c.Unresolved(rn("R1"), "wtxmgr.Store.RemoveUnminedTx")
		}
		return
	}
	isRemoval := p.reachingCall(rm)

	// R1: record before broadcast
	var recording *ssa.Call
	for _, ci := range callsOf(rel) {
		call, ok := ci.(*ssa.Call)
		if ok && isTxRunner(call.Common(), true) && p.callReaches(call, map[*ssa.Function]bool{addRel: true}) {
			recording = call
		}
	}
	if recording == nil {
		c.Check(rn("R1"), "recording-update-exists", rel.Pos(), false, "reliablyPublishTransaction has no walletdb.Update that records the transaction (reaches addRelevantTx)")
		return
	}
	sendTargets := p.methodsNamed("chain", "SendRawTransaction")
	c.Floor(rn("R1"), "SendRawTransaction implementations", len(sendTargets), 3)
	isSend := func(ins ssa.Instruction) bool {
		return isInvokeNamed("SendRawTransaction")(ins) || p.reachingCall(append(sendTargets, pub)...)(ins)
	}
	okEdge := func(from *ssa.BasicBlock, si int) bool {
		f := edgeFactOf(from, si)
		return f != nil && f.Kind == "nil" && loadIsResultOf(f.V, recording)
	}
	nSend := 0
	for _, b := range rel.Blocks {
		for _, ins := range b.Instrs {
			if _, isCall := ins.(*ssa.Call); !isCall || !isSend(ins) || ins == ssa.Instruction(recording) {
				continue
			}
			nSend++
			ok := !reachableAvoiding(rel, nil, ins, okEdge)
			c.Check(rn("R1"), "record-before-broadcast", ins.Pos(), ok, "the broadcast can be reached without the recording update having succeeded (a crash after broadcast would lose the spend)")
		}
	}
	c.Floor(rn("R1"), "broadcast calls in reliablyPublishTransaction", nSend, 1)

	// R2a: reliablyPublishTransaction: after recording succeeded, every error return passes a removal
	for _, b := range rel.Blocks {
		for si := range b.Succs {
			if !okEdge(b, si) {
				continue
			}
			q := &PathQuery{Fn: rel, Barrier: func(ins ssa.Instruction) bool { return isRemoval(ins) || isSend(ins) }}
			q.Target = func(ins ssa.Instruction, via *ssa.BasicBlock) bool {
				r, ok := ins.(*ssa.Return)
				return ok && p.classifyReturn(r, via) != retSuccess
			}
			hits := exploreFromBlock(q, b.Succs[si], b)
			detail := ""
			if len(hits) > 0 {
				detail = "after the transaction was recorded, the error return at " + p.Pos(hits[0].Ins.Pos()) + " is reachable without removing it again (failed hand-over leaves the transaction recorded, inputs spent)"
			}
			c.Check(rn("R2"), "failed-handover-forgets:reliablyPublishTransaction", lastPos(b), len(hits) == 0, detail)
		}
	}
	// R2b: publishTransaction: from the send, every error return passes a removal. The send itself may sit in a
	// same-package function publishTransaction hands the transaction on to (one that takes the backend as an argument)
	var send *ssa.Call
	findSend := func(f *ssa.Function) *ssa.Call {
		for _, call := range callsOf(f) {
			if cc, ok := call.(*ssa.Call); ok && isInvokeNamed("SendRawTransaction")(cc) {
				return cc
			}
		}
		return nil
	}
	pubTop := pub
	for depth := 0; depth < 3 && send == nil; depth++ {
		if send = findSend(pub); send != nil {
			break
		}
		var next *ssa.Function
		for _, ci := range callsOf(pub) {
			if cc, ok := ci.(*ssa.Call); ok {
				if g := cc.Call.StaticCallee(); g != nil && g != pub && fnPkgPath(g) == fnPkgPath(pub) && len(g.Blocks) > 0 && isSend(cc) {
					next = g
				}
			}
		}
		if next == nil {
			break
		}
		pub = next
	}
	if send == nil {
		c.Check(rn("R2"), "send-site", pubTop.Pos(), false, "publishTransaction has no SendRawTransaction call (undecided)")
		return
	}
	// R2c: on the first broadcast the transaction has been recorded when reliablyPublishTransaction hands it on: the
	// function it is handed to must not be able to fail BEFORE the send without forgetting it (a second lookup of the
	// chain client fails when the wallet was stopped in between: the caller is told the broadcast failed, the
	// transaction stays recorded, its inputs stay spent and it is offered again after the next start)
	{
		var firstBad func(g *ssa.Function, depth int) ssa.Instruction
		firstBad = func(g *ssa.Function, depth int) ssa.Instruction {
			var bad ssa.Instruction
			q := &PathQuery{Fn: g, Barrier: func(ins ssa.Instruction) bool {
				if isRemoval(ins) || isInvokeNamed("SendRawTransaction")(ins) {
					return true
				}
				if cc, ok := ins.(*ssa.Call); ok && isSend(cc) {
					if h := cc.Call.StaticCallee(); h != nil && h != g && len(h.Blocks) > 0 && depth < 3 {
						if b := firstBad(h, depth+1); b != nil {
							bad = b
						}
					}
					return true
				}
				return false
			}}
			q.Target = func(ins ssa.Instruction, via *ssa.BasicBlock) bool {
				r, ok := ins.(*ssa.Return)
				return ok && p.classifyReturn(r, via) != retSuccess
			}
			if hits := exploreFromBlock(q, g.Blocks[0], nil); len(hits) > 0 {
				return hits[0].Ins
			}
			return bad
		}
		nHand := 0
		for _, b := range rel.Blocks {
			for _, ins := range b.Instrs {
				cc, ok := ins.(*ssa.Call)
				if !ok || !isSend(cc) || ins == ssa.Instruction(recording) {
					continue
				}
				g := cc.Call.StaticCallee()
				if g == nil || len(g.Blocks) == 0 {
					continue
				}
				nHand++
				bad := firstBad(g, 0)
				detail := ""
				if bad != nil {
					detail = "reliablyPublishTransaction hands the recorded transaction to " + fnName(g) + ", which can return an error at " + p.Pos(bad.Pos()) + " before it reached the send and without removing the transaction: the failed attempt leaves the transaction recorded (inputs spent, re-offered after restart)"
				}
				c.Check(rn("R2"), "recorded-transaction-not-failed-before-send", cc.Pos(), bad == nil, detail)
			}
		}
		c.Floor(rn("R2"), "hand-over calls in reliablyPublishTransaction", nHand, 1)
	}
	{
		q := &PathQuery{Fn: pub, Barrier: isRemoval}
		q.Target = func(ins ssa.Instruction, via *ssa.BasicBlock) bool {
			r, ok := ins.(*ssa.Return)
			return ok && p.classifyReturn(r, via) != retSuccess
		}
		hits := q.From(send)
		detail := ""
		if len(hits) > 0 {
			detail = "after a failed broadcast the error return at " + p.Pos(hits[0].Ins.Pos()) + " is reachable without an update that reaches RemoveUnminedTx: a rejected transaction stays recorded"
		}
		c.Check(rn("R2"), "rejected-broadcast-forgets:publishTransaction", send.Pos(), len(hits) == 0, detail)
	}
	// R3: accepted classes never remove
	nAcc := 0
	for _, b := range pub.Blocks {
		for si := range b.Succs {
			accepted := ""
			if s, isTrue, ok := errIsSentinel(b, si); ok && isTrue && strings.HasSuffix(s, "ErrTxAlreadyInMempool") {
				accepted = "already-in-mempool"
			}
			if f := edgeFactOf(b, si); f != nil && f.Kind == "nil" {
				if ex, ok := f.V.(*ssa.Extract); ok && ex.Tuple == ssa.Value(send) {
					accepted = "accepted"
				}
			}
			if accepted == "" {
				continue
			}
			nAcc++
			q := &PathQuery{Fn: pub}
			q.Target = func(ins ssa.Instruction, via *ssa.BasicBlock) bool { return isRemoval(ins) }
			hits := exploreFromBlock(q, b.Succs[si], b)
			c.Check(rn("R3"), "no-removal-when:"+accepted, lastPos(b), len(hits) == 0,
				"a transaction the backend "+accepted+" can be removed from the unconfirmed store (its inputs become spendable again while it is pending)")
			// and returns success
			q2 := &PathQuery{Fn: pub}
			q2.Target = func(ins ssa.Instruction, via *ssa.BasicBlock) bool {
				r, ok := ins.(*ssa.Return)
				return ok && p.classifyReturn(r, via) == retError
			}
			hits = exploreFromBlock(q2, b.Succs[si], b)
			c.Check(rn("R3"), "success-when:"+accepted, lastPos(b), len(hits) == 0, "an accepted broadcast answer is reported as an error")
		}
	}
	c.Floor(rn("R3"), "accepted-answer edges in publishTransaction", nAcc, 2)
	// a failed send keeps the record only for the one answer that means "the backend holds exactly this transaction"
	// (table of one, confirmed by reading: every other sentinel is a rejection or names a different transaction)
	nCls := 0
	for _, b := range pub.Blocks {
		for si := range b.Succs {
			s, isTrue, ok := errIsSentinel(b, si)
			if !ok || !isTrue || !strings.HasPrefix(s, "chain.") {
				continue
			}
			nCls++
			q := &PathQuery{Fn: pub, Barrier: isRemoval}
			q.Target = func(ins ssa.Instruction, via *ssa.BasicBlock) bool {
				r, ok := ins.(*ssa.Return)
				return ok && p.classifyReturn(r, via) != retError
			}
			hits := exploreFromBlock(q, b.Succs[si], b)
			c.Check(rn("R3"), "kept-after-failed-send-only-when-backend-holds-it:"+strings.TrimPrefix(s, "chain."), lastPos(b), len(hits) == 0 || strings.HasSuffix(s, "ErrTxAlreadyInMempool"),
				"a broadcast answered with "+s+" is reported as success with the transaction still recorded: that answer does not say the backend holds this transaction, so a rejected transaction keeps its inputs spent and is re-offered after every resync")
		}
	}
	c.Floor(rn("R3"), "sentinel classifications of a failed send", nCls, 3)
	// the already-known/confirmed classes are sentinel tests too
	nSent := 0
	for _, ci := range callsOf(pub) {
		call, ok := ci.(*ssa.Call)
		if !ok {
			continue
		}
		if g := call.Call.StaticCallee(); g != nil && g.Pkg != nil && g.Pkg.Pkg.Path() == "errors" && g.Name() == "Is" && len(call.Call.Args) == 2 {
			if strings.HasPrefix(valueDesc(call.Call.Args[1]), "chain.") {
				nSent++
			}
		}
	}
	c.Floor(rn("R3"), "errors.Is classifications against chain sentinels", nSent, 3)

}

func runC20Rest(c *Ctx) {
	p := c.P
	// forgetting a rejected transaction restores the spendable set as it was: it must not end a lease held on an input
	c.Borrow(runC12, "C12-R5", "C20-R5", func(k string) bool {
		return strings.HasPrefix(k, "lease-released-only-by-owner-expiry-or-confirmed-spend") || strings.HasPrefix(k, "lease-bucket-writer")
	})
	pub := walletFn(c, "C20-R4", "publishTransaction")
	if pub == nil {
		return
	}
	// R4: rebroadcast plumbing
	rs := walletFn(c, "C20-R4", "resendUnminedTxs")
	um := p.Func("wtxmgr", "Store", "UnminedTxs")
	ds := p.Func("wtxmgr", "", "DependencySort")
	if rs != nil && um != nil && ds != nil {
		nLoop := 0
		for _, fn := range Closures(rs) {
			for _, l := range loopsOf(fn) {
				if l.Kind == "for" || !l.containsInstr(p.reachingCall(pub)) {
					continue
				}
				nLoop++
				// provenance of the ranged slice (through a private part of the wallet that fetches the list)
				isPart := func(h *ssa.Function) bool {
					return h != nil && h != um && len(h.Blocks) > 0 && h.Object() != nil && !h.Object().Exported() && fnPkgPath(h) == fnPkgPath(rs)
				}
				sl := &Slicer{P: p, ThroughReturns: isPart}
				okSrc := false
				var srcs []string
				for _, o := range sl.Origins(l.OverVal) {
					srcs = append(srcs, describeValue(o))
					if call, ok := o.(*ssa.Call); ok && call.Call.StaticCallee() == um {
						okSrc = true
					} else if call, ok := o.(*ssa.Call); ok && isPart(call.Call.StaticCallee()) {
						// the part itself: judged by what it returns (the origins that follow)
						continue
					} else {
						okSrc = okSrc && isNilConst(o)
						if !isNilConst(o) {
							okSrc = false
							break
						}
					}
				}
				c.Check("C20-R4", "rebroadcast-list-is-UnminedTxs", l.Header.Instrs[0].Pos(), okSrc,
					"the rebroadcast loop does not range over the result of Store.UnminedTxs (dependency-sorted): parents may be offered after children (origins: "+strings.Join(srcs, ",")+")")
				bad := l.MustPassPerIteration(p, p.reachingCall(pub))
				c.Check("C20-R4", "each-unmined-tx-offered", l.Header.Instrs[0].Pos(), bad == "", "an unconfirmed transaction can be skipped by the rebroadcast loop ("+bad+")")
				exits := l.EarlyExitsAny(p)
				c.Check("C20-R4", "rebroadcast-loop-complete", l.Header.Instrs[0].Pos(), len(exits) == 0,
					"the rebroadcast loop can be left before every unconfirmed transaction was offered: "+strings.Join(exits, "; "))
				// in-order: index loop over the slice itself (rangeindex), no reverse/sort in between
				c.Check("C20-R4", "rebroadcast-in-order", l.Header.Instrs[0].Pos(), l.Kind == "rangeindex" || l.Kind == "forindex", "the rebroadcast list is not iterated in slice order")
			}
		}
		c.Floor("C20-R4", "rebroadcast loops", nLoop, 1)
		// UnminedTxs returns DependencySort(...) of a map filled from every record
		okRet := true
		for _, b := range um.Blocks {
			for _, ins := range b.Instrs {
				r, ok := ins.(*ssa.Return)
				if !ok {
					continue
				}
				if p.classifyReturn(r, nil) == retError {
					continue
				}
				call, isCall := r.Results[0].(*ssa.Call)
				if !(isCall && call.Call.StaticCallee() == ds) {
					if !isNilConst(r.Results[0]) {
						okRet = false
					}
				}
			}
		}
		c.Check("C20-R4", "UnminedTxs-returns-DependencySort", um.Pos(), okRet && p.reachSet(um)[ds], "Store.UnminedTxs does not return the dependency-sorted list")
		// the sort emits a transaction when its in-degree reaches zero, one decrement per incoming edge: while the graph
		// is built, "in-degree + 1" and "append an out-edge to the parent" must be executed together in every iteration,
		// otherwise a node's count never reaches zero and it (with its descendants) silently drops out of the re-offer list
		if mg := p.Func("wtxmgr", "", "makeGraph"); mg != nil {
			nCo := 0
			for _, l := range loopsRangingOver(mg, "TxIn") {
				var inc, edge ssa.Instruction
				for b := range l.Blocks {
					for _, ins := range b.Instrs {
						switch x := ins.(type) {
						case *ssa.BinOp:
							if k, ok := constInt(x.Y); ok && k == 1 && x.Op == token.ADD {
								if _, f, _, okf := fieldOf(stripConv(x.X)); okf && f == "inDegree" {
									inc = x
								}
							}
						case *ssa.Call:
							if calleeShort(&x.Call) == "append" && len(x.Call.Args) > 0 {
								if _, f, _, okf := fieldOf(stripConv(x.Call.Args[0])); okf && f == "outEdges" {
									edge = x
								}
							}
						}
					}
				}
				if inc == nil || edge == nil {
					continue
				}
				nCo++
				bad := l.CoExecutedPerIteration(p, inc, edge)
				c.Check("C20-R4", "dependency-graph-indegree-equals-edges", l.Header.Instrs[0].Pos(), bad == "",
					"makeGraph counts an incoming edge without recording it at the parent (or the reverse): "+bad+"; the node's in-degree never reaches zero and DependencySort drops it and its descendants from the rebroadcast list")
			}
			c.Floor("C20-R4", "edge-building loops in makeGraph", nCo, 1)
			// ... and the sort consumes every recorded edge: in the loop over a visited node's out-edges each iteration
			// decrements the child's in-degree, unless it is already zero (a "seen this child" shortcut leaves a child
			// that spends two outputs of one parent with a positive in-degree for ever: it and its descendants drop out)
			if ds := p.Func("wtxmgr", "", "DependencySort"); ds != nil {
				nDec := 0
				for _, l := range loopsOf(ds) {
					if l.Kind == "for" || !strings.Contains(l.Over, "outEdges") {
						continue
					}
					nDec++
					isDec := func(ins ssa.Instruction) bool {
						st, ok := ins.(*ssa.Store)
						if !ok {
							return false
						}
						fa, ok := st.Addr.(*ssa.FieldAddr)
						if !ok {
							return false
						}
						if _, f := fieldAddrName(fa); f != "inDegree" {
							return false
						}
						bo, ok := st.Val.(*ssa.BinOp)
						return ok && bo.Op == token.SUB
					}
					bad := l.MustPassPerIteration(p, isDec, func(from *ssa.BasicBlock, si int) bool {
						// the child's in-degree is already zero
						iff, ok := from.Instrs[len(from.Instrs)-1].(*ssa.If)
						if !ok {
							return false
						}
						f, okf := p.cmpForm(iff.Cond, si == 0)
						if !okf || len(f.L.Coef) != 1 {
							return false
						}
						for a := range f.L.Coef {
							if a == "field:inDegree" && f.Rel == "==" && f.L.Konst == 0 {
								return true
							}
						}
						return false
					})
					c.Check("C20-R4", "sort-consumes-every-edge", l.Header.Instrs[0].Pos(), bad == "",
						"DependencySort can pass an out-edge of a visited node without decrementing the child's in-degree ("+bad+"): with two edges from one parent the child never becomes ready and is dropped, with its descendants, from the list of transactions to re-offer")
				}
				c.Floor("C20-R4", "out-edge loops in DependencySort", nDec, 1)
			}
		} else {
			c.Unresolved("C20-R4", "wtxmgr.makeGraph")
		}
		for _, l := range loopsOf(um) {
			if l.Kind == "for" {
				continue
			}
			exits := l.EarlyExits(p)
			c.Check("C20-R4", "UnminedTxs-map-from-every-record", l.Header.Instrs[0].Pos(), len(exits) == 0, "UnminedTxs drops records while building the sort input")
			bad := l.MustPassPerIteration(p, func(ins ssa.Instruction) bool { _, ok := ins.(*ssa.MapUpdate); return ok })
			c.Check("C20-R4", "UnminedTxs-every-record-inserted", l.Header.Instrs[0].Pos(), bad == "", "a record of the unmined bucket is not passed to the dependency sort ("+bad+")")
		}
		if recs := p.Func("wtxmgr", "Store", "unminedTxRecords"); recs != nil {
			for _, cl := range recs.AnonFuncs {
				bad := p.mustPassToSuccess(cl, nil, func(ins ssa.Instruction) bool { _, ok := ins.(*ssa.MapUpdate); return ok }, nil)
				c.Check("C20-R4", "unminedTxRecords-collects-every-record", cl.Pos(), bad == nil, "a record of the unmined bucket can be skipped when collecting unconfirmed transactions")
			}
		} else {
			c.Unresolved("C20-R4", "wtxmgr.Store.unminedTxRecords")
		}
		// started from the rescan-finished handler
		started := false
		for _, cs := range p.callers(rs) {
			if _, isGo := cs.(*ssa.Go); isGo || cs != nil {
				if strings.Contains(strings.ToLower(outermost(cs.Parent()).Name()), "rescan") {
					started = true
				}
			}
		}
		c.Check("C20-R4", "resend-started-after-rescan", rs.Pos(), started, "resendUnminedTxs is no longer started from the rescan-finished handler")
		// ... unconditionally: in the handler, from the point where a finished-rescan message has been received (the select
		// state receiving from w.rescanFinished), every path to the next loop iteration starts the re-offer
		if rph := walletFn(c, "C20-R4", "rescanProgressHandler"); rph != nil {
			nArm := 0
			for _, f := range Closures(rph) {
				loops := loopsOf(f)
				for _, b := range f.Blocks {
					for _, ins := range b.Instrs {
						sel, ok := ins.(*ssa.Select)
						if !ok {
							continue
						}
						idx := -1
						for i, st := range sel.States {
							if st.Dir == types.RecvOnly {
								if _, fld, _, okf := fieldOf(stripConv(st.Chan)); okf && fld == "rescanFinished" {
									idx = i
								}
							}
						}
						if idx < 0 {
							continue
						}
						l := innermostLoopOf(loops, sel)
						if l == nil {
							continue
						}
						// the edge taken when state idx fired: `extract sel #0 == idx`
						for _, bb := range f.Blocks {
							for si := range bb.Succs {
								ef := edgeFactOf(bb, si)
								if ef == nil || ef.Kind != "true" {
									continue
								}
								bo, ok := ef.V.(*ssa.BinOp)
								if !ok || bo.Op != token.EQL {
									continue
								}
								ex, ok := bo.X.(*ssa.Extract)
								k, okk := constInt(bo.Y)
								if !ok || !okk || ex.Tuple != ssa.Value(sel) || ex.Index != 0 || int(k) != idx {
									continue
								}
								nArm++
								q := &PathQuery{Fn: f, Barrier: func(i ssa.Instruction) bool {
									g, ok := i.(*ssa.Go)
									return ok && p.callReaches(g, map[*ssa.Function]bool{rs: true})
								}}
								q.LoopExit = func(from, to *ssa.BasicBlock) bool { return to == l.Header }
								hits := exploreFromBlock(q, bb.Succs[si], bb)
								c.Check("C20-R4", "finished-rescan-always-starts-resend", sel.Pos(), len(hits) == 0,
									"rescanProgressHandler can finish handling a completed rescan without starting resendUnminedTxs (e.g. when the batch had no addresses): unconfirmed transactions are not re-offered after that synchronisation")
							}
						}
					}
				}
			}
			c.Floor("C20-R4", "finished-rescan arms", nArm, 1)
		}
	}
	checkRescanEventsForwarded(c, "C20-R4")
	checkBatchHandlerForwardsRescanEvents(c, "C20-R4")
	checkConflictRemoval(c, "C20-R5")
	// "stays recorded and is counted once": a coin that is both leased and spent by the recorded transaction is taken
	// out of the balance exactly once (shared spendability-pass rule)
	checkSpendPasses(c, "C20-R5", false)
	// removing one rejected spender of a coin keeps all its other recorded spenders
	checkNoAccumulatorReset(c, "C20-R5", "wtxmgr")
}

// checkBackendErrorIsTheHaystack: the backend's answer is classified by asking whether ITS text contains one of the
// known messages (the answer carries a code prefix and details around the reject reason). At every matching call in the
// error-mapping functions the searched error is the function's own error parameter and the pattern is not derived from
// it. Swapped, a real answer ("-26: txn-already-in-mempool") is never contained in the bare pattern: an accepted
// transaction is classified as rejected and forgotten while it sits in the node's mempool.
func checkBackendErrorIsTheHaystack(c *Ctx, rule string) {
	p := c.P
	m := p.Func("chain", "", "matchErrStr")
	if m == nil {
		c.Unresolved(rule, "chain.matchErrStr")
		return
	}
	// the matcher, and wrappers that hand their own error parameter on as the searched text (a helper that tries every
	// key of one table): callee -> position of the searched error among its arguments
	matchers := map[*ssa.Function]int{m: 0}
	for _, fn := range p.FuncsIn("chain") {
		if fn == m || fn.Parent() != nil {
			continue
		}
		for _, ci := range callsOf(fn) {
			call, ok := ci.(*ssa.Call)
			if !ok || !p.isCallTo(call, m) || len(call.Call.Args) != 2 {
				continue
			}
			if prm, isPrm := stripConv(call.Call.Args[0]).(*ssa.Parameter); isPrm && prm.Parent() == fn && isErrorType(prm.Type()) && fn.Object() != nil && !fn.Object().Exported() {
				matchers[fn] = paramIndex(fn, prm)
			}
		}
	}
	n := 0
	for _, fn := range p.FuncsIn("chain") {
		for _, ci := range callsOf(fn) {
			call, ok := ci.(*ssa.Call)
			if !ok {
				continue
			}
			hayIdx, isM := matchers[call.Call.StaticCallee()]
			if !isM || hayIdx >= len(call.Call.Args) || len(call.Call.Args) < 2 {
				continue
			}
			if _, selfWrapper := matchers[outermost(fn)]; selfWrapper && outermost(fn) != m {
				// inside a wrapper the searched text is its own parameter by construction (that is what made it one)
				n++
				continue
			}
			patIdx := 1 - hayIdx
			if hayIdx > 1 {
				patIdx = 0
			}
			top := outermost(fn)
			var errPrm *ssa.Parameter
			for _, prm := range top.Params {
				if isErrorType(prm.Type()) {
					errPrm = prm
				}
			}
			if errPrm == nil {
				continue
			}
			n++
			hay := stripConv(call.Call.Args[hayIdx])
			if fv, isFV := hay.(*ssa.FreeVar); isFV {
				hay = freeVarRoot(fv)
			}
			okHay := hay == ssa.Value(errPrm)
			okPat := true
			for _, o := range (&Slicer{P: p}).Origins(call.Call.Args[patIdx]) {
				if o == ssa.Value(errPrm) {
					okPat = false
				}
				if cc, isCall := o.(*ssa.Call); isCall && cc.Call.IsInvoke() && stripConv(cc.Call.Value) == ssa.Value(errPrm) {
					okPat = false
				}
			}
			c.Check(rule, "backend-error-is-the-searched-text:"+fnName(top), call.Pos(), okHay && okPat,
				fnName(top)+" asks whether a known message contains the backend's answer instead of the other way round: answers that carry a code or details around the reject reason (\"-26: txn-already-in-mempool\") never match, so an accepted or already-known transaction is treated as rejected and removed from the wallet")
		}
	}
	c.Floor(rule, "backend error classifications by message", n, 5)
}

// checkOldBtcdTableBehindVersionGate: btcd changed the text of its mempool answers in v0.24.2 (the release that brought
// testmempoolaccept); the messages of older versions are kept in a table of their own, which is the only one that knows
// "already have transaction". That table is tried for exactly the backends that predate the change: its loop is reachable
// only over the edge on which the backend reports NO testmempoolaccept support. Inverted, an old btcd's "already in
// mempool" answer at a rebroadcast is unclassified, the transaction is treated as rejected and forgotten.
func checkOldBtcdTableBehindVersionGate(c *Ctx, rule string) {
	p := c.P
	n := 0
	for _, fn := range p.FuncsIn("chain") {
		if fn.Parent() != nil || len(callsNamed(fn, "SupportTestMempoolAccept")) == 0 {
			// a mapper that cannot ask for the backend's version (neutrino) may try both tables
			continue
		}
		// the places where the old table is used: a loop ranging over it, or a call it is handed to
		var sites []ssa.Instruction
		for _, l := range loopsOf(fn) {
			if l.Kind != "for" && strings.Contains(l.Over, "Pre2402") {
				sites = append(sites, l.Header.Instrs[0])
			}
		}
		for _, ci := range callsOf(fn) {
			for _, a := range ci.Common().Args {
				if isGlobalLoad(a, "BtcdErrMapPre2402") {
					sites = append(sites, ci)
				}
			}
		}
		for _, site := range sites {
			n++
			tgt := site
			q := &PathQuery{Fn: fn}
			q.EdgeBarrier = func(from *ssa.BasicBlock, si int) bool {
				ef := edgeFactOf(from, si)
				if ef == nil || ef.Kind != "false" {
					return false
				}
				call, ok := ef.V.(*ssa.Call)
				return ok && calleeShort(&call.Call) == "SupportTestMempoolAccept"
			}
			q.Target = func(ins ssa.Instruction, _ *ssa.BasicBlock) bool {
				return ins == tgt || (ins.Block() == tgt.Block() && ins == tgt.Block().Instrs[0] && tgt == tgt.Block().Instrs[0])
			}
			hits := q.From(nil)
			c.Check(rule, "old-btcd-table-tried-for-old-backends:"+fn.Name(), site.Pos(), len(hits) == 0,
				fnName(fn)+" tries the table of pre-v0.24.2 btcd messages on a path other than 'the backend does not support testmempoolaccept': for the old backends the table is skipped, so their 'already have transaction' answer is not recognised and a rebroadcast transaction is removed from the wallet")
		}
	}
	c.Floor(rule, "uses of the pre-v0.24.2 btcd message table", n, 1)
}

// checkSortInputKeyedByTxid: the dependency sort finds a transaction's parents by looking its inputs' previous-outpoint
// hashes up in the set it is given, and those are transaction ids. The set is therefore keyed by txid: every key under
// which a transaction is put into a map handed to DependencySort is the key of the record set (records are stored under
// their txid), the record's Hash, or TxHash() — never the witness hash, which equals the txid only for transactions
// without witness data: with it no edge is found for segwit parents and children are offered before their parents.
func checkSortInputKeyedByTxid(c *Ctx, rule string) {
	p := c.P
	ds := p.Func("wtxmgr", "", "DependencySort")
	if ds == nil {
		c.Unresolved(rule, "wtxmgr.DependencySort")
		return
	}
	n := 0
	for _, fn := range p.FuncsIn("wtxmgr") {
		for _, ci := range callsOf(fn) {
			call, ok := ci.(*ssa.Call)
			if !ok || !p.isCallTo(call, ds) || len(call.Call.Args) == 0 {
				continue
			}
			set := stripConv(call.Call.Args[0])
			fn := fn
			// the set may be built by a private part (a method of the record set that converts it): its returned map
			if bc, ok := set.(*ssa.Call); ok {
				if g := bc.Call.StaticCallee(); g != nil && len(g.Blocks) > 0 && fnPkgPath(g) == fnPkgPath(fn) {
					for _, b := range g.Blocks {
						if r, ok := b.Instrs[len(b.Instrs)-1].(*ssa.Return); ok && len(r.Results) > 0 {
							fn, set = g, stripConv(r.Results[0])
						}
					}
				}
			}
			for _, b := range fn.Blocks {
				for _, ins := range b.Instrs {
					mu, ok := ins.(*ssa.MapUpdate)
					if !ok || stripConv(mu.Map) != set {
						continue
					}
					n++
					okKey := false
					why := "an unrecognised value"
					if ex, isEx := stripConv(mu.Key).(*ssa.Extract); isEx {
						if _, isNext := ex.Tuple.(*ssa.Next); isNext && ex.Index == 1 {
							okKey = true // the record set's own key
						}
					}
					for _, o := range (&Slicer{P: p, KeepExtract: true}).Origins(mu.Key) {
						switch x := o.(type) {
						case *ssa.Call:
							nm := calleeShort(&x.Call)
							if nm == "TxHash" {
								okKey = true
							} else if nm == "WitnessHash" {
								why = "the witness hash"
							}
						case *ssa.Extract:
							// key of a range over a map (ssa.Next): the record set's own key
							if _, isNext := x.Tuple.(*ssa.Next); isNext && x.Index == 1 {
								okKey = true
							}
						default:
							if _, f, _, okf := fieldOf(o); okf && f == "Hash" {
								okKey = true
							}
						}
					}
					c.Check(rule, "sort-input-keyed-by-txid:"+fn.Name(), mu.Pos(), okKey,
						fnName(fn)+" puts a transaction into the set handed to DependencySort under "+why+" instead of its transaction id: the sort looks parents up by txid, finds no edges for transactions with witness data and returns them in map order, so children are offered to the backend before their parents and are rejected and forgotten")
				}
			}
		}
	}
	c.Floor(rule, "insertions into the dependency sort's input set", n, 1)
}

// checkMatcherIsSubstringTest: the backends wrap the reject reason in codes and details ("-26: txn-already-in-mempool",
// "... already have transaction in mempool <txid>"), so every error mapping asks whether the answer CONTAINS a known
// message. The one matcher all mappers go through answers true only through strings.Contains; an equality test (however
// case-insensitive) matches no real answer, every class collapses into "undefined", and an "already in mempool" answer at
// a re-broadcast removes a live payment.
func checkMatcherIsSubstringTest(c *Ctx, rule string) {
	p := c.P
	m := p.Func("chain", "", "matchErrStr")
	if m == nil {
		c.Unresolved(rule, "chain.matchErrStr")
		return
	}
	n := 0
	for _, f := range p.regionOf(m) {
		for _, b := range f.Blocks {
			r, ok := b.Instrs[len(b.Instrs)-1].(*ssa.Return)
			if !ok || len(r.Results) != 1 || f != m {
				continue
			}
			if bv, isC := constBool(r.Results[0]); isC && !bv {
				continue
			}
			n++
			viaContains, other := false, ""
			for _, o := range (&Slicer{P: p, ThroughBinOp: true, ThroughReturns: func(g *ssa.Function) bool { return p.inRegion(m, g) }}).Origins(r.Results[0]) {
				if call, ok := o.(*ssa.Call); ok {
					if g := call.Call.StaticCallee(); g != nil && g.Pkg != nil && g.Pkg.Pkg.Path() == "strings" {
						if g.Name() == "Contains" {
							viaContains = true
						} else if g.Name() == "EqualFold" || g.Name() == "HasPrefix" || g.Name() == "HasSuffix" || g.Name() == "Compare" {
							other = g.Name()
						}
					}
				}
			}
			c.Check(rule, "matcher-is-substring-test", r.Pos(), viaContains && other == "",
				"matchErrStr does not decide by strings.Contains (found "+other+"): backend answers carry a code or details around the known message and never equal it, so no answer is classified and an accepted or already-known transaction is handled as rejected")
		}
	}
	c.Floor(rule, "answers of the error-message matcher", n, 1)
}
