package main

import (
	"fmt"
	"go/constant"
	"go/token"
	"sort"
	"strings"

	"golang.org/x/tools/go/ssa"
)

// Lin is an integer linear form over symbolic atoms.
type Lin struct {
	Coef  map[string]int64
	Konst int64
}

func newLin() Lin { return Lin{Coef: map[string]int64{}} }

func (a Lin) add(b Lin, sign int64) Lin {
	o := newLin()
	for k, v := range a.Coef {
		o.Coef[k] += v
	}
	for k, v := range b.Coef {
		o.Coef[k] += sign * v
	}
	o.Konst = a.Konst + sign*b.Konst
	for k, v := range o.Coef {
		if v == 0 {
			delete(o.Coef, k)
		}
	}
	return o
}

func (a Lin) scale(c int64) Lin {
	o := newLin()
	for k, v := range a.Coef {
		if v*c != 0 {
			o.Coef[k] = v * c
		}
	}
	o.Konst = a.Konst * c
	return o
}

func (a Lin) isConst() bool { return len(a.Coef) == 0 }

func (a Lin) String() string {
	var ks []string
	for k := range a.Coef {
		ks = append(ks, k)
	}
	sort.Strings(ks)
	var sb strings.Builder
	for _, k := range ks {
		fmt.Fprintf(&sb, "%+d*%s ", a.Coef[k], k)
	}
	fmt.Fprintf(&sb, "%+d", a.Konst)
	return sb.String()
}

// atomName renders a non-arithmetic value as a symbolic atom that does not
// depend on positions or local variable names: parameters by index, fields by
// name, calls by callee name (with linearised arguments), globals by name.
func (p *Program) atomName(v ssa.Value, depth int) string {
	v = stripConv(v)
	switch x := v.(type) {
	case *ssa.Parameter:
		return fmt.Sprintf("param#%d", paramIndex(x.Parent(), x))
	case *ssa.UnOp:
		if x.Op == token.MUL {
			switch a := x.X.(type) {
			case *ssa.FieldAddr:
				if vals := p.boundFieldStores(x); len(vals) == 1 && depth < 6 {
					return p.atomName(vals[0], depth+1)
				}
				_, f := fieldAddrName(a)
				return "field:" + f
			case *ssa.Global:
				return "global:" + a.Name()
			case *ssa.Alloc:
				// single-store local: look through
				sts := storesTo(a)
				if len(sts) == 1 && depth < 6 {
					return p.atomName(sts[0].Val, depth+1)
				}
				return "var:" + a.Comment
			case *ssa.FreeVar:
				vals := freeVarStores(a)
				if len(vals) == 1 && depth < 6 {
					return p.atomName(vals[0], depth+1)
				}
				return "var:" + a.Name()
			case *ssa.IndexAddr:
				return "elem(" + p.atomName(a.X, depth+1) + ")"
			}
		}
	case *ssa.Field:
		_, f, _, _ := fieldOf(x)
		return "field:" + f
	case *ssa.Call:
		name := calleeShort(&x.Call)
		var args []string
		if depth < 4 {
			for _, a := range x.Call.Args {
				args = append(args, p.linearize(a, depth+1).String())
			}
		}
		return "call:" + name + "(" + strings.Join(args, ",") + ")"
	case *ssa.Extract:
		if c, ok := x.Tuple.(*ssa.Call); ok {
			return fmt.Sprintf("call:%s#%d", calleeShort(&c.Call), x.Index)
		}
	case *ssa.Const:
		if x.Value == nil {
			return "nil"
		}
		return "const:" + x.Value.String()
	case *ssa.Phi:
		return "phi:" + x.Comment
	case *ssa.FreeVar:
		return "var:" + x.Name()
	case *ssa.Slice:
		if depth < 6 {
			return "slice(" + p.atomName(x.X, depth+1) + ")"
		}
	}
	return "val:" + v.Name()
}

// linearize computes the linear form of an integer-valued SSA value.
// Single-result pure helper calls in the repo are NOT inlined here; use
// linearizeInline for that.
func (p *Program) linearize(v ssa.Value, depth int) Lin {
	v = stripConv(v)
	if len(p.linFrames) > 0 && depth < 12 {
		if l, ok := p.linFromFrame(v, depth); ok {
			return l
		}
	}
	switch x := v.(type) {
	case *ssa.Const:
		if x.Value != nil && x.Value.Kind() == constant.Int {
			if i, ok := constant.Int64Val(x.Value); ok {
				l := newLin()
				l.Konst = i
				return l
			}
		}
	case *ssa.BinOp:
		switch x.Op {
		case token.ADD:
			return p.linearize(x.X, depth).add(p.linearize(x.Y, depth), 1)
		case token.SUB:
			return p.linearize(x.X, depth).add(p.linearize(x.Y, depth), -1)
		case token.MUL:
			a, b := p.linearize(x.X, depth), p.linearize(x.Y, depth)
			if a.isConst() {
				return b.scale(a.Konst)
			}
			if b.isConst() {
				return a.scale(b.Konst)
			}
		}
	case *ssa.UnOp:
		if x.Op == token.SUB {
			return p.linearize(x.X, depth).scale(-1)
		}
		if x.Op == token.MUL {
			// single-store local variable: look through
			if a, ok := x.X.(*ssa.Alloc); ok {
				if sts := storesTo(a); len(sts) == 1 && depth < 8 {
					return p.linearize(sts[0].Val, depth+1)
				}
			}
			if vals := p.boundFieldStores(x); len(vals) == 1 && depth < 8 {
				return p.linearize(vals[0], depth+1)
			}
		}
	case *ssa.Call:
		// inline small pure repo helpers (e.g. confirms(txHeight, curHeight))
		if f := x.Call.StaticCallee(); f != nil && p.InRepo(f) && depth < 4 {
			if l, ok := p.inlineLinear(f, x.Call.Args, depth+1); ok {
				return l
			}
		}
	}
	l := newLin()
	l.Coef[p.atomName(v, depth)] = 1
	return l
}

// linFrame: while the body of an inlined helper is being linearised, its parameters stand for the arguments of the call
// being inlined (evaluated in the caller's own context).
type linFrame struct {
	fn   *ssa.Function
	args []ssa.Value
}

// withFrame runs f with the parameters of fn bound to args.
func (p *Program) withFrame(fn *ssa.Function, args []ssa.Value, f func()) {
	p.linFrames = append(p.linFrames, linFrame{fn, args})
	defer func() { p.linFrames = p.linFrames[:len(p.linFrames)-1] }()
	f()
}

// linFromFrame: v is a parameter of a function being inlined, or a field of a struct-valued (or pointer-to-struct)
// parameter of it: the argument at the inlined call, resp. the value the call site stored into that field of the struct
// it passes, linearised in the caller's context.
// throughFrames: a parameter of a helper being read in its caller's terms stands for the argument of that call; the
// value is followed outwards through the frames (conversions stripped).
func (p *Program) throughFrames(v ssa.Value) ssa.Value {
	for hops := 0; hops < 6; hops++ {
		v = stripConv(v)
		prm, ok := v.(*ssa.Parameter)
		if !ok {
			return v
		}
		found := false
		for k := len(p.linFrames) - 1; k >= 0; k-- {
			if p.linFrames[k].fn == prm.Parent() {
				if i := paramIndex(prm.Parent(), prm); i >= 0 && i < len(p.linFrames[k].args) {
					v = p.linFrames[k].args[i]
					found = true
				}
				break
			}
		}
		if !found {
			return v
		}
	}
	return v
}

// inCallerOf runs f on the argument the framed parameter prm stands for, with the frames cut back to the caller's.
func (p *Program) inCallerOf(prm *ssa.Parameter, f func(arg ssa.Value)) bool {
	for k := len(p.linFrames) - 1; k >= 0; k-- {
		if p.linFrames[k].fn == prm.Parent() {
			i := paramIndex(prm.Parent(), prm)
			if i < 0 || i >= len(p.linFrames[k].args) {
				return false
			}
			arg := p.linFrames[k].args[i]
			saved := p.linFrames
			p.linFrames = saved[:k]
			defer func() { p.linFrames = saved }()
			f(arg)
			return true
		}
	}
	return false
}

func (p *Program) linFromFrame(v ssa.Value, depth int) (Lin, bool) {
	frameOf := func(prm *ssa.Parameter) int {
		for i := len(p.linFrames) - 1; i >= 0; i-- {
			if p.linFrames[i].fn == prm.Parent() {
				return i
			}
		}
		return -1
	}
	inCaller := func(i int, f func() Lin) Lin {
		saved := p.linFrames
		p.linFrames = saved[:i]
		defer func() { p.linFrames = saved }()
		return f()
	}
	switch x := v.(type) {
	case *ssa.Parameter:
		i := frameOf(x)
		idx := paramIndex(x.Parent(), x)
		if i < 0 || idx < 0 || idx >= len(p.linFrames[i].args) {
			return Lin{}, false
		}
		arg := p.linFrames[i].args[idx]
		return inCaller(i, func() Lin { return p.linearize(arg, depth+1) }), true
	}
	// field of a parameter
	var prm *ssa.Parameter
	field := -1
	switch x := v.(type) {
	case *ssa.Field:
		if q, ok := x.X.(*ssa.Parameter); ok {
			prm, field = q, x.Field
		}
	case *ssa.UnOp:
		if x.Op == token.MUL {
			if fa, ok := x.X.(*ssa.FieldAddr); ok {
				switch b := fa.X.(type) {
				case *ssa.Parameter:
					prm, field = b, fa.Field
				case *ssa.Alloc:
					// a struct-valued parameter spilled to a local so that its fields can be addressed
					if isParamSpill(b) {
						for _, st := range storesTo(b) {
							if q, ok := st.Val.(*ssa.Parameter); ok {
								prm, field = q, fa.Field
							}
						}
					}
				}
			}
		}
	}
	if prm == nil {
		return Lin{}, false
	}
	// the struct value the parameter stands for, followed through the frames it is passed along
	ctx := len(p.linFrames)
	var cur ssa.Value = prm
	for hops := 0; hops < 6; hops++ {
		// the value of a spilled struct parameter is that parameter
		if u, isLoad := cur.(*ssa.UnOp); isLoad && u.Op == token.MUL {
			if sp, isAl := u.X.(*ssa.Alloc); isAl && isParamSpill(sp) {
				for _, st := range storesTo(sp) {
					if q, ok := st.Val.(*ssa.Parameter); ok {
						cur = q
					}
				}
			}
		}
		q, isPrm := cur.(*ssa.Parameter)
		if !isPrm {
			break
		}
		j := -1
		for k := ctx - 1; k >= 0; k-- {
			if p.linFrames[k].fn == q.Parent() {
				j = k
				break
			}
		}
		idx := paramIndex(q.Parent(), q)
		if j < 0 || idx < 0 || idx >= len(p.linFrames[j].args) {
			return Lin{}, false
		}
		cur = stripConv(p.linFrames[j].args[idx])
		ctx = j
	}
	// a local built field by field (passed by value: its load; by pointer: itself)
	var al *ssa.Alloc
	switch a := cur.(type) {
	case *ssa.Alloc:
		al = a
	case *ssa.UnOp:
		if a.Op == token.MUL {
			al, _ = a.X.(*ssa.Alloc)
		}
	}
	if al == nil {
		return Lin{}, false
	}
	var vals []ssa.Value
	for _, u := range usesOf(al) {
		fa, ok := u.(*ssa.FieldAddr)
		if !ok || fa.Field != field {
			continue
		}
		for _, uu := range usesOf(fa) {
			if st, ok := uu.(*ssa.Store); ok && st.Addr == ssa.Value(fa) {
				vals = append(vals, st.Val)
			}
		}
	}
	if len(vals) == 0 {
		// a composite literal that leaves the field out: the zero value — provided the local is only ever written field
		// by field (no whole-struct store) and never handed on by address
		zero := true
		for _, u := range usesOf(al) {
			switch y := u.(type) {
			case *ssa.FieldAddr, *ssa.UnOp, *ssa.DebugRef:
			case *ssa.Store:
				if y.Addr == ssa.Value(al) {
					zero = false
				}
			default:
				zero = false
			}
		}
		if zero {
			return newLin(), true
		}
	}
	if len(vals) != 1 {
		return Lin{}, false
	}
	return inCaller(ctx, func() Lin { return p.linearize(vals[0], depth+1) }), true
}

// inlineLinear: if f is a single-block pure helper returning an int computed from its parameters, its return expression
// with the parameters bound to the call's arguments. Exported helpers are inlined only when they are plain arithmetic;
// unexported ones may also read fields of their (struct) parameters and call other helpers.
func (p *Program) inlineLinear(f *ssa.Function, args []ssa.Value, depth int) (Lin, bool) {
	if len(f.Blocks) != 1 || f.Signature.Results().Len() != 1 {
		return Lin{}, false
	}
	b := f.Blocks[0]
	ret, ok := b.Instrs[len(b.Instrs)-1].(*ssa.Return)
	if !ok {
		return Lin{}, false
	}
	wide := f.Object() != nil && !f.Object().Exported() && f.Parent() == nil
	for _, ins := range b.Instrs {
		switch x := ins.(type) {
		case *ssa.BinOp, *ssa.Return, *ssa.Convert, *ssa.ChangeType, *ssa.DebugRef:
		case *ssa.Field:
			if !wide {
				return Lin{}, false
			}
			if _, isPrm := x.X.(*ssa.Parameter); !isPrm {
				return Lin{}, false
			}
		case *ssa.Call:
			if !wide || !isBasic(x.Type()) {
				return Lin{}, false
			}
		case *ssa.Alloc:
			if !wide || !isParamSpill(x) {
				return Lin{}, false
			}
		case *ssa.Store:
			al, isAl := x.Addr.(*ssa.Alloc)
			if _, isPrm := x.Val.(*ssa.Parameter); !wide || !isAl || !isPrm || !isParamSpill(al) {
				return Lin{}, false
			}
		case *ssa.FieldAddr:
			al, isAl := x.X.(*ssa.Alloc)
			if _, isPrm := x.X.(*ssa.Parameter); !wide || !(isPrm || (isAl && isParamSpill(al))) {
				return Lin{}, false
			}
		case *ssa.UnOp:
			if _, isFA := x.X.(*ssa.FieldAddr); !wide || x.Op != token.MUL || !isFA {
				return Lin{}, false
			}
		default:
			return Lin{}, false
		}
	}
	var out Lin
	p.withFrame(f, args, func() { out = p.linearize(ret.Results[0], depth) })
	return out, true
}

// CmpForm is the canonical form of an integer comparison: "LIN < 0" or "LIN == 0" / "LIN != 0".
type CmpForm struct {
	Rel string // "<", "==", "!="
	L   Lin
}

func (c CmpForm) String() string { return c.L.String() + " " + c.Rel + " 0" }

// cmpForm normalises cond (possibly negated) into canonical form, for the
// branch where the (un-negated) condition evaluates to `want`.
func (p *Program) cmpForm(cond ssa.Value, want bool) (CmpForm, bool) {
	inner, neg := unwrapNot(cond)
	if neg {
		want = !want
	}
	b, ok := inner.(*ssa.BinOp)
	if !ok {
		return CmpForm{}, false
	}
	x, y := p.linearize(b.X, 0), p.linearize(b.Y, 0)
	op := b.Op
	if !want {
		switch op {
		case token.LSS:
			op = token.GEQ
		case token.LEQ:
			op = token.GTR
		case token.GTR:
			op = token.LEQ
		case token.GEQ:
			op = token.LSS
		case token.EQL:
			op = token.NEQ
		case token.NEQ:
			op = token.EQL
		default:
			return CmpForm{}, false
		}
	}
	one := newLin()
	one.Konst = 1
	switch op {
	case token.LSS: // x - y < 0
		return CmpForm{"<", x.add(y, -1)}, true
	case token.LEQ: // x - y - 1 < 0
		return CmpForm{"<", x.add(y, -1).add(one, -1)}, true
	case token.GTR: // y - x < 0
		return CmpForm{"<", y.add(x, -1)}, true
	case token.GEQ: // y - x - 1 < 0
		return CmpForm{"<", y.add(x, -1).add(one, -1)}, true
	case token.EQL, token.NEQ:
		d := x.add(y, -1)
		// sign-normalise: smallest key positive
		var ks []string
		for k := range d.Coef {
			ks = append(ks, k)
		}
		sort.Strings(ks)
		if len(ks) > 0 && d.Coef[ks[0]] < 0 {
			d = d.scale(-1)
		} else if len(ks) == 0 && d.Konst < 0 {
			d = d.scale(-1)
		}
		rel := "=="
		if op == token.NEQ {
			rel = "!="
		}
		return CmpForm{rel, d}, true
	}
	return CmpForm{}, false
}

// guardForms collects, for the block b, the canonical forms of all integer
// comparisons whose outcome edge dominates b (i.e. facts known to hold in b).
func (p *Program) guardForms(b *ssa.BasicBlock) []string {
	var out []string
	for d := b.Idom(); d != nil; d = d.Idom() {
		if len(d.Instrs) == 0 {
			continue
		}
		iff, ok := d.Instrs[len(d.Instrs)-1].(*ssa.If)
		if !ok {
			continue
		}
		for si := 0; si < 2; si++ {
			if edgeDominates(d, si, b) {
				if f, ok := p.cmpForm(iff.Cond, si == 0); ok {
					out = append(out, f.String())
				}
			}
		}
	}
	sort.Strings(out)
	return out
}

// guardFormsLin: like guardForms, but returns the structured forms.
func (p *Program) guardFormsLin(b *ssa.BasicBlock) []CmpForm {
	var out []CmpForm
	consider := func(d *ssa.BasicBlock) {
		if len(d.Instrs) == 0 {
			return
		}
		iff, ok := d.Instrs[len(d.Instrs)-1].(*ssa.If)
		if !ok {
			return
		}
		for si := 0; si < 2; si++ {
			if d.Succs[si] == b && len(b.Preds) == 1 || edgeDominates(d, si, b) {
				if f, ok := p.cmpForm(iff.Cond, si == 0); ok {
					out = append(out, f)
				}
			}
		}
	}
	for d := b.Idom(); d != nil; d = d.Idom() {
		consider(d)
	}
	return out
}

// substParams rewrites a linear form computed inside callee (atoms param#i) into the caller's terms at call site cs.
func (p *Program) substParams(l Lin, cs *ssa.Call) Lin {
	out := newLin()
	out.Konst = l.Konst
	for k, v := range l.Coef {
		var idx int
		if n, err := fmt.Sscanf(k, "param#%d", &idx); err == nil && n == 1 && fmt.Sprintf("param#%d", idx) == k && idx < len(cs.Call.Args) {
			out = out.add(p.linearize(cs.Call.Args[idx], 0).scale(v), 1)
			continue
		}
		out.Coef[k] += v
	}
	for k, v := range out.Coef {
		if v == 0 {
			delete(out.Coef, k)
		}
	}
	return out
}

// piecewiseCall: v is a call of a same-package unexported integer helper that returns 0 on some paths and one other
// expression otherwise (`if n <= 0 { return 0 }; return expr`): the extracted form of `x := 0; if n > 0 { x = expr }`.
// Returns expr's linear form and the comparison forms guarding it, both in the caller's terms.
func (p *Program) piecewiseCall(v ssa.Value) (Lin, []CmpForm, bool) {
	call, ok := stripConv(v).(*ssa.Call)
	if !ok {
		return Lin{}, nil, false
	}
	h := call.Call.StaticCallee()
	if h == nil || len(h.Blocks) == 0 || h.Parent() != nil || fnPkgPath(h) != fnPkgPath(call.Parent()) || h.Object() == nil || h.Object().Exported() || h.Signature.Results().Len() != 1 {
		return Lin{}, nil, false
	}
	var nz *ssa.Return
	zeros := 0
	for _, b := range h.Blocks {
		r, ok := b.Instrs[len(b.Instrs)-1].(*ssa.Return)
		if !ok {
			continue
		}
		if k, isC := constInt(r.Results[0]); isC && k == 0 {
			zeros++
			continue
		}
		if nz != nil {
			return Lin{}, nil, false
		}
		nz = r
	}
	if nz == nil {
		return Lin{}, nil, false
	}
	for _, b := range h.Blocks { // pure: no stores, no calls other than to pure size helpers
		for _, ins := range b.Instrs {
			switch x := ins.(type) {
			case *ssa.Store:
				// the spill of a struct-valued parameter (so that its fields can be addressed) is not an effect
				if al, isAl := x.Addr.(*ssa.Alloc); isAl && isParamSpill(al) {
					if _, isPrm := x.Val.(*ssa.Parameter); isPrm {
						continue
					}
				}
				return Lin{}, nil, false
			case *ssa.MapUpdate, *ssa.Send, *ssa.Go, *ssa.Defer:
				return Lin{}, nil, false
			}
		}
	}
	var l Lin
	var guards []CmpForm
	p.withFrame(h, call.Call.Args, func() {
		l = p.linearize(nz.Results[0], 0)
		guards = append(guards, p.guardFormsLin(nz.Block())...)
	})
	_ = zeros
	return l, guards, true
}

// linearizeResolved: linearize, with the parameters of a private part that has a single call site replaced by the
// linear form of the argument passed there (up to three levels): an expression inside an extracted helper reads as it
// did before the extraction.
func (p *Program) linearizeResolved(v ssa.Value) Lin {
	return p.linResolved(v, 0)
}

func (p *Program) linResolved(v ssa.Value, depth int) Lin {
	l := p.linearize(v, 0)
	fn := valueParent(v)
	if fn == nil || depth > 3 {
		return l
	}
	out := newLin()
	out.Konst = l.Konst
	for k, coef := range l.Coef {
		var idx int
		if n, err := fmt.Sscanf(k, "param#%d", &idx); err == nil && n == 1 && fmt.Sprintf("param#%d", idx) == k && idx < len(fn.Params) {
			if r := p.resolveParam(fn.Params[idx]); r != ssa.Value(fn.Params[idx]) {
				out = out.add(p.linResolved(r, depth+1).scale(coef), 1)
				continue
			}
		}
		out.Coef[k] += coef
	}
	for k, c := range out.Coef {
		if c == 0 {
			delete(out.Coef, k)
		}
	}
	return out
}

func valueParent(v ssa.Value) *ssa.Function {
	switch x := v.(type) {
	case ssa.Instruction:
		return x.Parent()
	case *ssa.Parameter:
		return x.Parent()
	case *ssa.FreeVar:
		return x.Parent()
	}
	return nil
}
