package main

// Rules added after seeded wave 15 (DESIGN.md 8.1m).

import (
	"go/token"
	"go/types"
	"strings"

	"golang.org/x/tools/go/ssa"
)

// checkLeaseReleaseNamesSpentOutpoint: a confirmed spend releases the lease of the outpoint it spends — the input's
// PreviousOutPoint, both halves of it. An outpoint assembled from the previous hash and anything else (the input's
// position, say) releases the lease of a sibling output and leaves the spent one leased.
func checkLeaseReleaseNamesSpentOutpoint(c *Ctx, rule string) {
	p := c.P
	n := 0
	for _, fn := range wtxRegion(c, rule, []string{"insertMinedTx"}) {
		loops := loopsOf(fn)
		for _, call := range callsNamed(fn, "unlockOutput") {
			if innermostLoopOf(loops, call) == nil || len(call.Call.Args) < 2 {
				continue
			}
			n++
			var bad []string
			for _, o := range (&Slicer{P: p, ThroughDeref: true, ThroughFieldsOfAllocs: true}).Origins(call.Call.Args[1]) {
				if _, isK := o.(*ssa.Const); isK {
					continue
				}
				if _, f, _, ok := fieldOf(o); ok && (f == "PreviousOutPoint" || f == "Hash" || f == "Index") {
					continue
				}
				if u, ok := o.(*ssa.UnOp); ok && u.Op == token.MUL {
					if _, f, _, ok := fieldOf(u.X); ok && (f == "PreviousOutPoint" || f == "Hash" || f == "Index") {
						continue
					}
				}
				bad = append(bad, describeValue(o))
			}
			c.Check(rule, "lease-release-names-the-spent-outpoint:"+fn.Name(), call.Pos(), len(bad) == 0,
				fnName(fn)+" releases the lease of an outpoint that is not (wholly) the input's previous outpoint ("+strings.Join(dedup(bad), ", ")+"): the spent output stays leased and a sibling output's lease is dropped — it is counted and offered again while its owner believes it held")
		}
	}
	c.Floor(rule, "lease releases on confirmed spends", n, 1)
}

// checkAuthorNeverWritesThroughCallerOutputs: NewUnsignedTransaction copies the caller's slice of outputs, not the
// outputs: the *wire.TxOut elements are still the caller's objects. Nothing in the author package stores a whole TxOut
// through such a pointer (re-ordering moves the pointers).
func checkAuthorNeverWritesThroughCallerOutputs(c *Ctx, rule string) {
	p := c.P
	n := 0
	for _, fn := range p.FuncsIn("wallet/txauthor") {
		for _, b := range fn.Blocks {
			for _, ins := range b.Instrs {
				st, ok := ins.(*ssa.Store)
				if !ok {
					continue
				}
				pt, ok := st.Addr.Type().Underlying().(*types.Pointer)
				if !ok {
					continue
				}
				switch e := pt.Elem().(type) {
				case *types.Pointer:
					// a slot of a []*wire.TxOut: moving pointers is what re-ordering does
					if nm, ok := e.Elem().(*types.Named); ok && nm.Obj().Name() == "TxOut" {
						n++
					}
				case *types.Named:
					if e.Obj().Name() != "TxOut" {
						continue
					}
					n++
					_, local := st.Addr.(*ssa.Alloc)
					c.Check(rule, "author-never-writes-through-caller-outputs:"+fn.Name(), st.Pos(), local,
						fnName(fn)+" overwrites a transaction output through a pointer it did not allocate itself: the requested outputs are shared with the caller (only the slice is copied), so the caller's request is rewritten with the change amount and script")
				}
			}
		}
	}
	c.Floor(rule, "output slot / output stores in the author package", n, 1)
}

// checkDustJudgedOnRealChangeScript: whether the change is dust depends on the script (a witness program has a lower
// threshold). The output handed to the dust test carries the script the change source returned, not a placeholder of the
// right length.
func checkDustJudgedOnRealChangeScript(c *Ctx, rule string) {
	p := c.P
	fn := pkgFn(c, rule, "wallet/txauthor", "NewUnsignedTransaction")
	if fn == nil {
		return
	}
	n := 0
	for _, f := range p.regionOf(fn) {
		for _, call := range callsNamed(f, "IsDustOutput") {
			if len(call.Call.Args) == 0 {
				continue
			}
			n++
			var bad []string
			sl := &Slicer{P: p, ThroughDeref: true, ThroughFieldsOfAllocs: true, KeepExtract: true,
				ThroughCallArgs: func(cc *ssa.Call, arg ssa.Value) bool { return calleeShort(&cc.Call) == "NewTxOut" },
				ThroughReturns:  func(h *ssa.Function) bool { return h.Name() == "NewTxOut" }}
			for _, o := range sl.Origins(call.Call.Args[0]) {
				switch x := o.(type) {
				case *ssa.MakeSlice:
					bad = append(bad, "make([]byte, …) at "+p.Pos(x.Pos()))
				case *ssa.Alloc:
					if x.Comment == "makeslice" {
						bad = append(bad, "make([]byte, …) at "+p.Pos(x.Pos()))
					}
				}
			}
			c.Check(rule, "dust-judged-on-real-change-script", call.Pos(), len(bad) == 0,
				"the change output handed to the dust test carries a placeholder script ("+strings.Join(bad, ", ")+"): a zero-filled script is not a witness program, the higher non-witness threshold applies and a non-dust leftover goes to the miners")
		}
	}
	c.Floor(rule, "dust tests of the change output", n, 1)
}

// checkRebuiltObjectFlagsAreTheRows: an address object rebuilt from its row is the object the running manager had: the
// boolean arguments of the constructors called by the row→object converters are the row's own fields (or constants),
// never a computed value.
func checkRebuiltObjectFlagsAreTheRows(c *Ctx, rule string) {
	p := c.P
	n := 0
	for _, fn := range p.FuncsIn("waddrmgr") {
		if fn.Parent() != nil || !strings.HasSuffix(fn.Name(), "RowToManaged") {
			continue
		}
		for _, ci := range callsOf(fn) {
			call, ok := ci.(*ssa.Call)
			if !ok {
				continue
			}
			h := call.Call.StaticCallee()
			if h == nil || fnPkgPath(h) != fnPkgPath(fn) || len(h.Params) != len(call.Call.Args) {
				continue
			}
			rowFields := map[string]bool{}
			for _, fp := range fn.Params {
				t := fp.Type()
				if pt, ok := t.Underlying().(*types.Pointer); ok {
					t = pt.Elem()
				}
				if st, ok := t.Underlying().(*types.Struct); ok {
					for fi := 0; fi < st.NumFields(); fi++ {
						rowFields[st.Field(fi).Name()] = true
					}
				}
			}
			for i, prm := range h.Params {
				if b, ok := prm.Type().Underlying().(*types.Basic); !ok || b.Kind() != types.Bool || !rowFields[prm.Name()] {
					continue
				}
				n++
				a := stripConv(call.Call.Args[i])
				okArg := false
				if _, isK := a.(*ssa.Const); isK {
					okArg = true
				}
				if _, _, _, isF := fieldOf(a); isF {
					okArg = true
				}
				if u, isU := a.(*ssa.UnOp); isU && u.Op == token.MUL {
					if _, _, _, isF := fieldOf(u.X); isF {
						okArg = true
					}
				}
				c.Check(rule, "rebuilt-object-flag-is-the-rows:"+fn.Name()+"/"+prm.Name(), call.Pos(), okArg,
					fnName(fn)+" rebuilds an address object with "+prm.Name()+" computed instead of read from the row: the object a restarted (or cache-missed) manager builds differs from the one the running manager handed out — e.g. a script imported as public is treated as secret, refused while locked and opened with the wrong key")
			}
		}
	}
	c.Floor(rule, "boolean constructor arguments in the row converters", n, 1)
}

// checkNoEarlySuccessExit: the named process-all loops cannot be left with a success answer before every element was
// looked at.
func checkNoEarlySuccessExit(c *Ctx, rule, construct string, fn *ssa.Function, elem string, detail string) {
	p := c.P
	if fn == nil {
		c.Unresolved(rule, construct)
		return
	}
	n := 0
	for _, f := range p.regionOf(fn) {
		for _, l := range loopsOf(f) {
			if l.Kind == "for" || (elem != "" && l.elemTypeName() != elem) {
				continue
			}
			n++
			exits := l.EarlyExits(p)
			c.Check(rule, construct, l.Header.Instrs[0].Pos(), len(exits) == 0, detail+" ("+strings.Join(exits, "; ")+")")
		}
	}
	c.Floor(rule, "process-all loops of "+fn.Name(), n, 1)
}

// checkRangeCallbackOnlyAfterSuccessfulRead: the unmined half of RangeTransactions hands its list to the caller's
// callback only when every unmined record was read: the callback's answer replaces the read's, so a list cut short by an
// unreadable record would be reported as complete.
func checkRangeCallbackOnlyAfterSuccessfulRead(c *Ctx, rule string) {
	fn := wtxFn(c, rule, "rangeUnminedTransactions")
	if fn == nil {
		return
	}
	n := 0
	for _, ci := range callsOf(fn) {
		call, ok := ci.(*ssa.Call)
		if !ok || call.Parent() != fn || call.Call.IsInvoke() || call.Call.StaticCallee() != nil {
			continue
		}
		if _, isParam := call.Call.Value.(*ssa.Parameter); !isParam {
			continue
		}
		n++
		unguarded := reachableAvoiding(fn, nil, call, func(from *ssa.BasicBlock, si int) bool {
			f := edgeFactOf(from, si)
			return f != nil && f.Kind == "nil" && isResultOfCall(f.V, "ForEach", -1)
		})
		c.Check(rule, "range-callback-only-after-successful-read", call.Pos(), !unguarded,
			"rangeUnminedTransactions calls the caller's callback although reading the unmined records failed: the callback's nil result replaces the read error and RangeTransactions succeeds with every unmined transaction at or after the unreadable record missing")
	}
	c.Floor(rule, "callback calls in rangeUnminedTransactions", n, 1)
}

// checkGeneratorGetsCallersPassphrase: newSecretKey hands the active generator the very passphrase it was given.
func checkGeneratorGetsCallersPassphrase(c *Ctx, rule string) {
	p := c.P
	fn := p.Func("waddrmgr", "", "newSecretKey")
	if fn == nil || len(fn.Params) == 0 {
		c.Unresolved(rule, "waddrmgr.newSecretKey")
		return
	}
	n := 0
	// the generator call: a call of a function value, in newSecretKey or in a private part that is handed the passphrase
	// (a small state object holding the generator)
	var visit func(f *ssa.Function, prm *ssa.Parameter, depth int)
	visit = func(f *ssa.Function, prm *ssa.Parameter, depth int) {
		for _, ci := range callsOf(f) {
			call, ok := ci.(*ssa.Call)
			if !ok || call.Parent() != f || call.Call.IsInvoke() || len(call.Call.Args) == 0 {
				continue
			}
			if h := call.Call.StaticCallee(); h != nil {
				if depth < 2 && len(h.Blocks) > 0 && h.Object() != nil && !h.Object().Exported() && fnPkgPath(h) == fnPkgPath(fn) && len(h.Params) == len(call.Call.Args) {
					for ai, a := range call.Call.Args {
						if stripConv(a) == ssa.Value(prm) {
							visit(h, h.Params[ai], depth+1)
						}
					}
				}
				continue
			}
			if _, isBuiltin := call.Call.Value.(*ssa.Builtin); isBuiltin {
				continue
			}
			n++
			c.Check(rule, "generator-gets-callers-passphrase", call.Pos(), stripConv(call.Call.Args[0]) == ssa.Value(prm),
				"newSecretKey derives the new master key from something other than the passphrase it was given (a trimmed or otherwise normalised copy): creation and verification disagree, the exact passphrase is refused and a near miss accepted")
		}
	}
	visit(fn, fn.Params[0], 0)
	c.Floor(rule, "generator calls in newSecretKey", n, 1)
}

// checkLatestVersionIsATableNumber: the version a store stamps itself with, and checks itself against, is a Number of its
// version table — what the migration framework calls the latest version — not a count of entries.
func checkLatestVersionIsATableNumber(c *Ctx, rule string) {
	p := c.P
	n := 0
	for _, pkg := range []string{"waddrmgr", "wtxmgr"} {
		fn := p.Func(pkg, "", "getLatestVersion")
		if fn == nil {
			c.Unresolved(rule, pkg+".getLatestVersion")
			continue
		}
		for _, b := range fn.Blocks {
			r, ok := b.Instrs[len(b.Instrs)-1].(*ssa.Return)
			if !ok || len(r.Results) == 0 {
				continue
			}
			n++
			okNum := false
			for _, o := range (&Slicer{P: p, ThroughDeref: true}).Origins(effectiveResult(r, 0)) {
				if _, f, _, ok := fieldOf(o); ok && f == "Number" {
					okNum = true
				}
				if u, ok := o.(*ssa.UnOp); ok && u.Op == token.MUL {
					if _, f, _, ok := fieldOf(u.X); ok && f == "Number" {
						okNum = true
					}
				}
			}
			c.Check(rule, "latest-version-is-a-table-number:"+pkg, r.Pos(), okNum,
				fnName(fn)+" does not return the Number of a version-table entry: with a gap in the numbering the store stamps fresh databases with, and checks opened ones against, a version the migration framework never records")
		}
	}
	c.Floor(rule, "latest-version accessors", n, 2)
}

// checkEveryReturnPasses: fn (no error result) reaches a call of `callee` on every path to a return.
func checkEveryReturnPasses(c *Ctx, rule, construct string, fn *ssa.Function, pass func(ssa.Instruction) bool, detail string) {
	if fn == nil {
		c.Unresolved(rule, construct)
		return
	}
	q := &PathQuery{Fn: fn, Barrier: pass, Target: func(i ssa.Instruction, _ *ssa.BasicBlock) bool {
		_, ok := i.(*ssa.Return)
		return ok
	}}
	hits := q.From(nil)
	pos := fn.Pos()
	if len(hits) > 0 {
		pos = hits[0].Ins.Pos()
	}
	c.Check(rule, construct, pos, len(hits) == 0, detail)
}

// checkNextIndexBumpedOnItsOwnBranch: the stored next index that moves is the one of the branch the address is on: the
// internal index on the edge "branch == InternalBranch", the external one on the other.
func checkNextIndexBumpedOnItsOwnBranch(c *Ctx, rule string) {
	p := c.P
	internal, okc := constInPkg(p, "waddrmgr", "InternalBranch")
	if !okc {
		c.Unresolved(rule, "waddrmgr.InternalBranch")
		return
	}
	n := 0
	for _, fn := range p.FuncsIn("waddrmgr") {
		for _, b := range fn.Blocks {
			for _, ins := range b.Instrs {
				ph, ok := ins.(*ssa.Phi)
				if !ok {
					continue
				}
				own, bumpedEdge := "", -1
				for i, e := range ph.Edges {
					v := stripConv(e)
					if prm, isP := v.(*ssa.Parameter); isP && (prm.Name() == "nextExternalIndex" || prm.Name() == "nextInternalIndex") {
						own = prm.Name()
					}
					if _, f, _, isF := fieldOf(v); isF && (f == "nextExternalIndex" || f == "nextInternalIndex") {
						own = f
					}
					if u, isU := v.(*ssa.UnOp); isU && u.Op == token.MUL {
						if _, f, _, isF := fieldOf(u.X); isF && (f == "nextExternalIndex" || f == "nextInternalIndex") {
							own = f
						}
					}
					if bo, isB := v.(*ssa.BinOp); isB && bo.Op == token.ADD {
						if k, isK := constInt(bo.Y); isK && k == 1 {
							bumpedEdge = i
						}
					}
				}
				if own == "" || bumpedEdge < 0 {
					continue
				}
				// the branch test that sends control over the bumped edge
				verdict := ""
				for x := b.Preds[bumpedEdge]; x != nil && verdict == ""; x = x.Idom() {
					d := x.Idom()
					if d == nil {
						break
					}
					iff, isIf := d.Instrs[len(d.Instrs)-1].(*ssa.If)
					if !isIf {
						continue
					}
					inner, neg := unwrapNot(iff.Cond)
					bo, isB := inner.(*ssa.BinOp)
					if !isB || (bo.Op != token.EQL && bo.Op != token.NEQ) {
						continue
					}
					k, isK := constInt(bo.Y)
					// the branch: a parameter of that name, or that field of a struct the function is handed
					isBranch := false
					switch x := stripConv(bo.X).(type) {
					case *ssa.Parameter:
						isBranch = x.Name() == "branch"
					default:
						if _, f, _, okf := fieldOf(x); okf && f == "branch" {
							isBranch = true
						}
						if u, isU := x.(*ssa.UnOp); isU && u.Op == token.MUL {
							if _, f, _, okf := fieldOf(u.X); okf && f == "branch" {
								isBranch = true
							}
						}
					}
					if !isK || !isBranch {
						continue
					}
					// which edge of d leads to x
					onTrue := false
					for si, s := range d.Succs {
						if s == x || dominates(s, x) {
							onTrue = si == 0
						}
					}
					eq := (bo.Op == token.EQL) != neg
					isInternal := (k == internal) == (eq == onTrue)
					if isInternal {
						verdict = "nextInternalIndex"
					} else {
						verdict = "nextExternalIndex"
					}
				}
				if verdict == "" {
					continue
				}
				n++
				c.Check(rule, "next-index-bumped-on-its-own-branch:"+fn.Name()+"/"+own, ph.Pos(), verdict == own,
					fnName(fn)+" advances the stored "+own+" on the edge that is taken for the other branch: the persisted next indices are written crossed, and after a reload one branch re-issues addresses while the other leaves a gap")
			}
		}
	}
	c.Floor(rule, "branch-selected next-index updates", n, 2)
}

func dominates(a, b *ssa.BasicBlock) bool {
	for x := b; x != nil; x = x.Idom() {
		if x == a {
			return true
		}
	}
	return false
}

// checkAccountCacheEvictedOnlyByInvalidation: an entry of the account cache carries the in-memory next indices, which run
// ahead of any database snapshot but the newest. Entries are deleted only by the invalidation entry point (whose callers
// hold the address mutex); a reload from whatever transaction happens to be at hand can install a stale index.
func checkAccountCacheEvictedOnlyByInvalidation(c *Ctx, rule string) {
	p := c.P
	n := 0
	for _, fn := range p.FuncsIn("waddrmgr") {
		for _, b := range fn.Blocks {
			for _, ins := range b.Instrs {
				call, ok := ins.(*ssa.Call)
				if !ok {
					continue
				}
				bi, isB := call.Call.Value.(*ssa.Builtin)
				if !isB || bi.Name() != "delete" || len(call.Call.Args) == 0 {
					continue
				}
				_, f, _, okf := fieldOf(stripConv(call.Call.Args[0]))
				if !okf {
					if u, isU := stripConv(call.Call.Args[0]).(*ssa.UnOp); isU {
						_, f, _, okf = fieldOf(u.X)
					}
				}
				if !okf || f != "acctInfo" {
					continue
				}
				n++
				owner := p.regionOwner(fn)
				c.Check(rule, "account-cache-evicted-only-by-invalidation:"+owner.Name(), call.Pos(), owner.Name() == "InvalidateAccountCache",
					fnName(fn)+" deletes an account-cache entry outside InvalidateAccountCache: the entry is reloaded from whatever database transaction is at hand — inside Unlock a read snapshot that can predate an address issued since — and the next index goes back")
			}
		}
	}
	c.Floor(rule, "deletions from the account cache", n, 1)
}

// checkBirthdayBoundaryBlockIsConnected: the light client announces a block as connected when its timestamp is not
// before the wallet's birthday. A block stamped exactly at the birthday is on the "connected" side: evaluated at equality
// (Before and After are both false, Equal true), the birthday test of onBlockConnected sends control towards the
// BlockConnected notification.
func checkBirthdayBoundaryBlockIsConnected(c *Ctx, rule string) {
	p := c.P
	fn := p.Func("chain", "NeutrinoClient", "onBlockConnected")
	if fn == nil {
		c.Unresolved(rule, "chain.NeutrinoClient.onBlockConnected")
		return
	}
	buildsConnected := func(b *ssa.BasicBlock) bool {
		for _, ins := range b.Instrs {
			if mi, ok := ins.(*ssa.MakeInterface); ok {
				if nm, ok := mi.X.Type().(*types.Named); ok && nm.Obj().Name() == "BlockConnected" {
					return true
				}
			}
		}
		return false
	}
	n := 0
	for _, b := range fn.Blocks {
		iff, ok := b.Instrs[len(b.Instrs)-1].(*ssa.If)
		if !ok {
			continue
		}
		inner, neg := unwrapNot(iff.Cond)
		call, ok := inner.(*ssa.Call)
		if !ok {
			continue
		}
		name := calleeShort(&call.Call)
		if name != "Before" && name != "After" && name != "Equal" {
			continue
		}
		about := false
		for _, a := range call.Call.Args {
			for _, o := range (&Slicer{P: p, ThroughDeref: true}).Origins(a) {
				if _, f, _, okf := fieldOf(o); okf && f == "startTime" {
					about = true
				}
				if u, isU := o.(*ssa.UnOp); isU && u.Op == token.MUL {
					if _, f, _, okf := fieldOf(u.X); okf && f == "startTime" {
						about = true
					}
				}
			}
		}
		if !about {
			continue
		}
		n++
		atEquality := name == "Equal"
		if neg {
			atEquality = !atEquality
		}
		taken := b.Succs[1]
		if atEquality {
			taken = b.Succs[0]
		}
		reach := map[*ssa.BasicBlock]bool{}
		var walk func(x *ssa.BasicBlock)
		walk = func(x *ssa.BasicBlock) {
			if reach[x] {
				return
			}
			reach[x] = true
			for _, s := range x.Succs {
				walk(s)
			}
		}
		walk(taken)
		ok2 := false
		for x := range reach {
			if buildsConnected(x) {
				ok2 = true
			}
		}
		c.Check(rule, "birthday-boundary-block-is-connected", iff.Cond.Pos(), ok2,
			"NeutrinoClient.onBlockConnected treats a block stamped exactly at the wallet's birthday as pre-birthday: no BlockConnected is queued for it, the next block fails the predecessor check and the wallet's tip stays below the backend's until it is restarted")
	}
	c.Floor(rule, "birthday tests in the light client's block-connected callback", n, 1)
}

// checkKeySlotGetsItsOwnClass: a put helper that is handed a public and a private ciphertext stores each under the name of
// its own class.
func checkKeySlotGetsItsOwnClass(c *Ctx, rule string) {
	p := c.P
	class := func(s string) string {
		l := strings.ToLower(s)
		switch {
		case strings.Contains(l, "pub"):
			return "pub"
		case strings.Contains(l, "priv"):
			return "priv"
		}
		return ""
	}
	n := 0
	for _, fn := range p.FuncsIn("waddrmgr") {
		if fn.Parent() != nil || !strings.HasPrefix(fn.Name(), "put") {
			continue
		}
		for _, call := range callsNamed(fn, "Put") {
			if len(call.Call.Args) < 2 {
				continue
			}
			args := call.Call.Args
			key, val := args[len(args)-2], args[len(args)-1]
			kc, vc := "", ""
			if u, ok := stripConv(key).(*ssa.UnOp); ok {
				if g, ok := u.X.(*ssa.Global); ok {
					kc = class(g.Name())
				}
			}
			if prm, ok := stripConv(val).(*ssa.Parameter); ok {
				vc = class(prm.Name())
			}
			if kc == "" || vc == "" {
				continue
			}
			n++
			c.Check(rule, "key-slot-gets-its-own-class:"+fn.Name(), call.Pos(), kc == vc,
				fnName(fn)+" stores the "+vc+" ciphertext it was handed under a "+kc+" key name: the private ciphertext survives the conversion to watching-only in a slot that is never deleted")
		}
	}
	c.Floor(rule, "class-named slots written from class-named parameters", n, 4)
}

// constBoolVia: the constant a boolean argument has at a call — directly, or when the call sits in a private forwarding
// part (`f(ns, sel) { return g(ns, sel.a, sel.b) }`) and `outer` is a call of that part: the field of the struct value
// the outer call hands over, read from a local literal or from the initialiser of a package-level variable.
func (p *Program) constBoolVia(arg ssa.Value, outer ssa.CallInstruction) (bool, bool) {
	arg = stripConv(arg)
	if b, ok := constBool(arg); ok {
		return b, true
	}
	if outer == nil {
		return false, false
	}
	var prm *ssa.Parameter
	fieldIdx := -1
	switch x := arg.(type) {
	case *ssa.Parameter:
		prm = x
	case *ssa.Field:
		prm, _ = x.X.(*ssa.Parameter)
		fieldIdx = x.Field
	case *ssa.UnOp:
		if fa, ok := x.X.(*ssa.FieldAddr); ok && x.Op == token.MUL {
			fieldIdx = fa.Field
			switch y := fa.X.(type) {
			case *ssa.Parameter:
				prm = y
			case *ssa.Alloc:
				// a by-value struct parameter spilled to the stack
				if isParamSpill(y) {
					for _, st := range storesTo(y) {
						if q, ok := st.Val.(*ssa.Parameter); ok {
							prm = q
						}
					}
				}
			}
		}
	}
	if prm == nil {
		return false, false
	}
	i := paramIndex(prm.Parent(), prm)
	args := outer.Common().Args
	if i < 0 || i >= len(args) {
		return false, false
	}
	a := stripConv(args[i])
	if fieldIdx < 0 {
		return constBool(a)
	}
	// the struct value handed over: a load of a variable
	var holder ssa.Value
	if u, ok := a.(*ssa.UnOp); ok && u.Op == token.MUL {
		holder = u.X
	} else {
		holder = a // pointer parameter: the variable's address itself
	}
	var stores []*ssa.Store
	switch h := holder.(type) {
	case *ssa.Alloc:
		for _, u := range usesOf(h) {
			if fa, ok := u.(*ssa.FieldAddr); ok && fa.Field == fieldIdx {
				for _, uu := range usesOf(fa) {
					if st, ok := uu.(*ssa.Store); ok && st.Addr == ssa.Value(fa) {
						stores = append(stores, st)
					}
				}
			}
		}
	case *ssa.Global:
		if init := h.Pkg.Func("init"); init != nil {
			for _, b := range init.Blocks {
				for _, ins := range b.Instrs {
					st, ok := ins.(*ssa.Store)
					if !ok {
						continue
					}
					if fa, ok := st.Addr.(*ssa.FieldAddr); ok && fa.X == ssa.Value(h) && fa.Field == fieldIdx {
						stores = append(stores, st)
					}
				}
			}
		}
		// a package-level variable written anywhere else is not a constant
		for _, fn := range p.FuncsIn(shortPkg(h.Pkg.Pkg.Path())) {
			if fn.Name() == "init" {
				continue
			}
			for _, b := range fn.Blocks {
				for _, ins := range b.Instrs {
					if st, ok := ins.(*ssa.Store); ok {
						if st.Addr == ssa.Value(h) {
							return false, false
						}
						if fa, ok := st.Addr.(*ssa.FieldAddr); ok && fa.X == ssa.Value(h) {
							return false, false
						}
					}
				}
			}
		}
		if len(stores) == 0 {
			// a field left out of the literal (or a zero-valued literal the compiler folded away) is false
			return false, true
		}
	}
	if len(stores) != 1 {
		return false, false
	}
	return constBool(stores[0].Val)
}

// forwardedFlagSites: the call sites at which the flags of `target` are decided: its direct callers, and for a caller
// that is a private part forwarding its own parameters, that part's callers (with the inner call).
type flagSite struct {
	Inner ssa.CallInstruction // the call of target
	Outer ssa.CallInstruction // nil, or the call of the forwarding part
}

func (s flagSite) Decider() ssa.CallInstruction {
	if s.Outer != nil {
		return s.Outer
	}
	return s.Inner
}

func (p *Program) forwardedFlagSites(target *ssa.Function) []flagSite {
	var out []flagSite
	for _, cs := range p.callers(target) {
		fw := cs.Parent()
		forwards := false
		if fw.Object() != nil && !fw.Object().Exported() && fw.Parent() == nil && fnPkgPath(fw) == fnPkgPath(target) {
			for _, a := range cs.Common().Args {
				if _, isBool := a.Type().Underlying().(*types.Basic); !isBool {
					continue
				}
				if _, isK := stripConv(a).(*ssa.Const); !isK {
					forwards = true
				}
			}
		}
		if !forwards {
			out = append(out, flagSite{Inner: cs})
			continue
		}
		for _, cs2 := range p.realCallers(fw) {
			out = append(out, flagSite{Inner: cs, Outer: cs2})
		}
	}
	return out
}
