package main

import (
	"fmt"
	"go/token"
	"go/types"
	"strings"

	"golang.org/x/tools/go/ssa"
)

func init() {
	register(&propSpec{
		ID: "C18",
		Explanation: "All interleavings are NOT decided (that is model checking). Decided, for every path of the worker loop in ConcurrentQueue.Start: (R1) an item received from the input channel is offered directly to the output channel only in the region where the overflow list is known empty; otherwise only the list's front value is offered; " +
			"(R2) FIFO list discipline: the only list operations are Front/PushBack/Remove, the element removed is the front element whose value was just sent, on that send's success case only; a received item is never dropped (it is sent or pushed back on every path to the next iteration); " +
			"(R3) every blocking select has a quit case that returns; the non-blocking inner select enqueues in its default case (the producer is never held by a full output); Stop closes the quit channel; input channel unbuffered, output channel buffered by the constructor argument; " +
			"(R4) the production user starts the queue in its start path and stops it in its shutdown path. The slice-backed queues of the btcd/neutrino clients are cross-checked for FIFO shape (unclaimed).",
		Assumptions: []string{"Go channel/select semantics", "container/list semantics"},
		Run:         runC18,
	})
}

// chanField: v is a load of the receiver's channel field; returns the field name.
func chanField(v ssa.Value) string {
	v = stripConv(v)
	if _, f, _, ok := fieldOf(v); ok {
		return f
	}
	return ""
}

type selInfo struct {
	sel    *ssa.Select
	states []string // "recv:chanIn", "send:chanOut", "recv:quit"
}

func selectsOf(fn *ssa.Function) []selInfo {
	var out []selInfo
	for _, b := range fn.Blocks {
		for _, ins := range b.Instrs {
			s, ok := ins.(*ssa.Select)
			if !ok {
				continue
			}
			si := selInfo{sel: s}
			for _, st := range s.States {
				d := "recv:"
				if st.Dir == types.SendOnly {
					d = "send:"
				}
				si.states = append(si.states, d+chanField(st.Chan))
			}
			out = append(out, si)
		}
	}
	return out
}

// selIndexEdge: edge taken when select `s` chose state k (k = -1 for default).
func selIndexEdge(from *ssa.BasicBlock, si int, s *ssa.Select) (int, bool) {
	if len(from.Instrs) == 0 {
		return 0, false
	}
	iff, ok := from.Instrs[len(from.Instrs)-1].(*ssa.If)
	if !ok {
		return 0, false
	}
	bo, ok := iff.Cond.(*ssa.BinOp)
	if !ok || bo.Op != token.EQL {
		return 0, false
	}
	ex, ok := bo.X.(*ssa.Extract)
	if !ok || ex.Tuple != ssa.Value(s) || ex.Index != 0 {
		return 0, false
	}
	k, ok := constInt(bo.Y)
	if !ok || si != 0 {
		return 0, false
	}
	return int(k), true
}

// recvValueOf: the extracted received value for state k of select s.
func recvValueOf(s *ssa.Select, k int) ssa.Value {
	idx := 2
	for i := 0; i < k; i++ {
		if s.States[i].Dir == types.RecvOnly {
			idx++
		}
	}
	for _, u := range usesOf(s) {
		if ex, ok := u.(*ssa.Extract); ok && ex.Index == idx {
			return ex
		}
	}
	return nil
}

func runC18(c *Ctx) {
	p := c.P
	start := p.Func("chain", "ConcurrentQueue", "Start")
	if start == nil {
		c.Unresolved("C18-R1", "chain.ConcurrentQueue.Start")
		return
	}
	var worker *ssa.Function
	for _, b := range start.Blocks {
		for _, ins := range b.Instrs {
			if g, ok := ins.(*ssa.Go); ok {
				if mc, ok := g.Call.Value.(*ssa.MakeClosure); ok {
					worker, _ = mc.Fn.(*ssa.Function)
				} else if f := g.Call.StaticCallee(); f != nil && p.InRepo(f) {
					worker = f // go cq.run()
				}
			}
		}
	}
	if worker == nil {
		c.Check("C18-R1", "worker-goroutine", start.Pos(), false, "ConcurrentQueue.Start does not start a worker goroutine (undecided)")
		return
	}
	// the worker: its function plus the private parts its loop body may have been split into (`go cq.run()` calling
	// step methods); selects, list operations and sends are collected over all of them, path rules run inside the
	// function that holds the instruction and are lifted to the call site where they need the caller's context
	parts := p.regionOf(worker)
	var sels []selInfo
	for _, f := range parts {
		sels = append(sels, selectsOf(f)...)
	}
	c.Floor("C18-R1", "select statements in the worker", len(sels), 3)
	var fronts []*ssa.Call
	for _, f := range parts {
		fronts = append(fronts, callsNamed(f, "Front")...)
	}
	c.Floor("C18-R1", "overflow.Front calls", len(fronts), 1)
	isFront := func(v ssa.Value) bool { return isResultOfCall(p.resolveParam(v), "Front", -1) }
	emptyEdge := func(from *ssa.BasicBlock, si int) bool {
		f := edgeFactOf(from, si)
		return f != nil && f.Kind == "nil" && isFront(f.V)
	}
	// reachable in the worker without taking a cut edge: inside its own function and, for a part, at (one of) its call sites
	var reachableLifted func(at ssa.Instruction, cut func(*ssa.BasicBlock, int) bool, depth int) bool
	reachableLifted = func(at ssa.Instruction, cut func(*ssa.BasicBlock, int) bool, depth int) bool {
		f := at.Parent()
		if !reachableAvoiding(f, nil, at, cut) {
			return false
		}
		if f == worker || f.Parent() != nil || depth > 3 {
			return true
		}
		for _, cs := range p.realCallers(f) {
			if reachableLifted(cs, cut, depth+1) {
				return true
			}
		}
		return false
	}
	// items received from chanIn
	type item struct {
		sel *ssa.Select
		k   int
		val ssa.Value
	}
	var items []item
	for _, s := range sels {
		for k, st := range s.states {
			if st == "recv:chanIn" {
				items = append(items, item{s.sel, k, recvValueOf(s.sel, k)})
			}
		}
	}
	c.Floor("C18-R1", "receives from the input channel", len(items), 2)
	isItem := func(v ssa.Value) bool {
		for _, it := range items {
			if it.val != nil && v == it.val {
				return true
			}
		}
		return false
	}
	// R1: sends to chanOut
	nSend := 0
	for _, s := range sels {
		for k, st := range s.states {
			if st != "send:chanOut" {
				continue
			}
			nSend++
			v := s.sel.States[k].Send
			if isItem(v) {
				ok := !reachableLifted(s.sel, emptyEdge, 0)
				c.Check("C18-R1", "direct-handoff-only-when-overflow-empty", s.sel.Pos(), ok,
					"a freshly received item can be offered directly to the output channel while older items wait in the overflow list: delivery order is no longer the send order")
			} else {
				_, f, base, okf := fieldOf(v)
				okFront := okf && f == "Value" && isFront(base)
				c.Check("C18-R1", "overflow-send-offers-front", s.sel.Pos(), okFront, "the value offered from the overflow branch is not the front element of the list")
			}
		}
	}
	c.Floor("C18-R1", "send cases to the output channel", nSend, 2)
	// plain (non-select) sends to chanOut are not expected
	for _, f := range parts {
		for _, b := range f.Blocks {
			for _, ins := range b.Instrs {
				if sd, ok := ins.(*ssa.Send); ok {
					c.Check("C18-R1", "no-blocking-plain-send", sd.Pos(), false, "the worker performs a blocking send outside a select (the producer can be held, Stop cannot interrupt it)")
				}
			}
		}
	}

	// R2: list discipline
	seenFn := map[*ssa.Function]bool{}
	for _, f := range append(Closures(start), parts...) {
		if seenFn[f] {
			continue
		}
		seenFn[f] = true
		for _, ci := range callsOf(f) {
			call, ok := ci.(*ssa.Call)
			if !ok {
				continue
			}
			callee := call.Call.StaticCallee()
			if callee == nil || fnPkgPath(callee) != "container/list" {
				continue
			}
			n := callee.Name()
			ok = n == "Front" || n == "PushBack" || n == "Remove"
			c.Check("C18-R2", "list-op:"+n, call.Pos(), ok, "the overflow list is used with "+n+": only Front/PushBack/Remove preserve FIFO order")
			if n == "Remove" {
				okArg := isFront(call.Call.Args[1])
				// control dependent on the send case of the select that offered front.Value
				okCtl := false
				for _, s := range sels {
					if s.sel.Parent() != f {
						continue
					}
					for k, st := range s.states {
						if st != "send:chanOut" || isItem(s.sel.States[k].Send) {
							continue
						}
						kk := k
						ss := s.sel
						if !reachableAvoiding(f, nil, call, func(from *ssa.BasicBlock, si int) bool {
							idx, ok := selIndexEdge(from, si, ss)
							return ok && idx == kk
						}) {
							okCtl = true
						}
					}
				}
				c.Check("C18-R2", "remove-front-after-its-send", call.Pos(), okArg && okCtl,
					"the element removed from the overflow list is not the front element, or it is removed without its value having been sent (loss/duplication)")
			}
			if n == "PushBack" {
				c.Check("C18-R2", "pushback-enqueues-received-item", call.Pos(), isItem(call.Call.Args[1]), "PushBack enqueues something other than the item just received")
			}
		}
	}
	// a received item is never dropped
	var loop *Loop
	for _, f := range parts {
		for _, l := range loopsOf(f) {
			if loop == nil || len(l.Blocks) > len(loop.Blocks) {
				loop = l
			}
		}
	}
	if loop == nil {
		c.Check("C18-R2", "worker-loop", worker.Pos(), false, "worker has no loop")
		return
	}
	loopFn := loop.Header.Parent()
	// end of the current iteration as seen from inside function f: the back edge of the worker loop, or — in a part the
	// loop body calls — returning to it
	// stop signal of a step function: the constant it returns from its quit cases, provided that value makes the loop's
	// function leave the loop (checked again, per quit case, under R3)
	stopSignal := map[*ssa.Function]*bool{}
	for _, s := range sels {
		f := s.sel.Parent()
		if f == loopFn {
			continue
		}
		for k, st := range s.states {
			if st != "recv:quit" {
				continue
			}
			for _, b := range f.Blocks {
				for si := range b.Succs {
					if idx, ok := selIndexEdge(b, si, s.sel); ok && idx == k {
						if ok2, sig := quitSignalLeavesLoop(p, f, b.Succs[si], b, loop); ok2 {
							stopSignal[f] = sig
						}
					}
				}
			}
		}
	}
	iterationEnd := func(q *PathQuery, f *ssa.Function) {
		if f == loopFn {
			q.LoopExit = func(from, to *ssa.BasicBlock) bool { return to == loop.Header }
			return
		}
		prev := q.Target
		q.Target = func(ins ssa.Instruction, via *ssa.BasicBlock) bool {
			if r, ok := ins.(*ssa.Return); ok {
				if sig := stopSignal[f]; sig != nil && len(r.Results) == 1 {
					if cb, isC := constBool(resolvePhi(r.Results[0], r.Block(), via)); isC && cb == *sig {
						return false // the worker stops: not a next iteration
					}
				}
				return true
			}
			return prev != nil && prev(ins, via)
		}
	}
	for _, it := range items {
		it := it
		f := it.sel.Parent()
		for _, b := range f.Blocks {
			for si := range b.Succs {
				idx, ok := selIndexEdge(b, si, it.sel)
				if !ok || idx != it.k {
					continue
				}
				q := &PathQuery{Fn: f}
				q.Barrier = func(ins ssa.Instruction) bool {
					call, ok := ins.(*ssa.Call)
					return ok && calleeShort(&call.Call) == "PushBack" && call.Call.Args[1] == it.val
				}
				q.EdgeBarrier = func(from *ssa.BasicBlock, s2 int) bool {
					for _, s := range sels {
						for k, st := range s.states {
							if st == "send:chanOut" && s.sel.States[k].Send == it.val {
								if idx2, ok := selIndexEdge(from, s2, s.sel); ok && idx2 == k {
									return true
								}
							}
						}
					}
					return false
				}
				iterationEnd(q, f)
				hits := exploreFromBlock(q, b.Succs[si], b)
				c.Check("C18-R2", "received-item-sent-or-enqueued", lastPos(b), len(hits) == 0, "an item received from the input channel can reach the next iteration without having been sent or enqueued (lost notification)")
			}
		}
	}

	// R3: quit cases
	for i, s := range sels {
		quitK := -1
		for k, st := range s.states {
			if st == "recv:quit" {
				quitK = k
			}
		}
		name := fmt.Sprintf("select#%d[%s]", i+1, strings.Join(s.states, ","))
		if s.sel.Blocking {
			c.Check("C18-R3", "blocking-select-has-quit-case:"+name, s.sel.Pos(), quitK >= 0, "a blocking select in the worker has no quit case: Stop cannot terminate the worker while it waits here")
		}
		if quitK >= 0 {
			f := s.sel.Parent()
			for _, b := range f.Blocks {
				for si := range b.Succs {
					idx, ok := selIndexEdge(b, si, s.sel)
					if !ok || idx != quitK {
						continue
					}
					okQuit := true
					if f == loopFn {
						q := &PathQuery{Fn: f}
						q.LoopExit = func(from, to *ssa.BasicBlock) bool { return to == loop.Header }
						okQuit = len(exploreFromBlock(q, b.Succs[si], b)) == 0
					} else {
						okQuit, _ = quitSignalLeavesLoop(p, f, b.Succs[si], b, loop)
					}
					c.Check("C18-R3", "quit-case-returns:"+name, lastPos(b), okQuit, "the quit case does not leave the worker loop")
				}
			}
		}
		// the select that offers a freshly received item directly must not block (the producer is waiting on chanIn)
		for k, st := range s.states {
			if st == "send:chanOut" && isItem(s.sel.States[k].Send) {
				c.Check("C18-R3", "direct-handoff-never-blocks:"+name, s.sel.Pos(), !s.sel.Blocking,
					"the direct hand-off of a received item to the output channel is a blocking select (no default case): with a slow consumer the worker stops reading the input channel and the producer is blocked")
			}
		}
		if !s.sel.Blocking {
			// default edge: all listed indices false -> must pass PushBack
			hasSendItem := false
			for k, st := range s.states {
				if st == "send:chanOut" && isItem(s.sel.States[k].Send) {
					hasSendItem = true
				}
			}
			c.Check("C18-R3", "nonblocking-select-is-the-direct-handoff:"+name, s.sel.Pos(), hasSendItem, "unexpected non-blocking select in the worker")
		}
	}
	// Stop closes quit
	if stop := p.Func("chain", "ConcurrentQueue", "Stop"); stop != nil {
		ok := false
		for _, call := range callsNamed(stop, "close") {
			if chanField(call.Call.Args[0]) == "quit" {
				ok = true
			}
		}
		c.Check("C18-R3", "Stop-closes-quit", stop.Pos(), ok, "Stop does not close the quit channel")
	} else {
		c.Unresolved("C18-R3", "chain.ConcurrentQueue.Stop")
	}
	// constructor buffer sizes
	if nc := p.Func("chain", "", "NewConcurrentQueue"); nc != nil {
		sizes := map[string]string{}
		for _, b := range nc.Blocks {
			for _, ins := range b.Instrs {
				st, ok := ins.(*ssa.Store)
				if !ok {
					continue
				}
				fa, ok := st.Addr.(*ssa.FieldAddr)
				if !ok {
					continue
				}
				_, f := fieldAddrName(fa)
				if mc, ok := stripConv(st.Val).(*ssa.MakeChan); ok {
					sizes[f] = p.linearize(mc.Size, 0).String()
				}
			}
		}
		c.Check("C18-R3", "input-unbuffered-output-buffered", nc.Pos(), sizes["chanIn"] == "+0" && sizes["chanOut"] == "+1*param#0 +0" && sizes["quit"] == "+0",
			fmt.Sprintf("channel sizes: in=%s out=%s quit=%s (expected unbuffered input, output buffered by the constructor argument)", sizes["chanIn"], sizes["chanOut"], sizes["quit"]))
	} else {
		c.Unresolved("C18-R3", "chain.NewConcurrentQueue")
	}
	// R5: slice-backed notification queues of the btcd and neutrino clients: emptiness is the only length test
	nQ := 0
	for _, spec := range [][2]string{{"NeutrinoClient", "notificationHandler"}, {"RPCClient", "handler"}} {
		fn := p.Func("chain", spec[0], spec[1])
		if fn == nil {
			c.Unresolved("C18-R5", "chain."+spec[0]+"."+spec[1])
			continue
		}
		for _, b := range fn.Blocks {
			if len(b.Instrs) == 0 {
				continue
			}
			iff, ok := b.Instrs[len(b.Instrs)-1].(*ssa.If)
			if !ok {
				continue
			}
			f, okf := p.cmpForm(iff.Cond, true)
			if !okf || len(f.L.Coef) != 1 {
				continue
			}
			isQueueLen := false
			var coef int64
			for a, cf := range f.L.Coef {
				if strings.HasPrefix(a, "call:len(") && strings.Contains(a, "notifications") {
					isQueueLen = true
					coef = cf
				}
			}
			if !isQueueLen {
				continue
			}
			nQ++
			// accepted canonical forms: len == 0, len != 0, len > 0 (-len < 0), len < 1 (len - 1 < 0)
			okForm := (f.Rel == "==" || f.Rel == "!=") && f.L.Konst == 0 ||
				f.Rel == "<" && coef == -1 && f.L.Konst == 0 || f.Rel == "<" && coef == 1 && f.L.Konst == -1
			c.Check("C18-R5", "queue-length-test-is-emptiness:"+spec[0], iff.Cond.Pos(), okForm,
				"the notification queue's length is compared with something other than 'empty' ("+f.String()+"): the last queued notification is stranded or an empty queue is dequeued")
		}
	}
	c.Floor("C18-R5", "length tests of the slice-backed queues", nQ, 4)

	// R4: production user
	qs := p.Func("chain", "ConcurrentQueue", "Stop")
	users := 0
	for _, recv := range []string{"BitcoindClient"} {
		st := p.Func("chain", recv, "Start")
		sp := p.Func("chain", recv, "Stop")
		if st == nil || sp == nil {
			c.Unresolved("C18-R4", "chain."+recv+".Start/Stop")
			continue
		}
		users++
		c.Check("C18-R4", "user-starts-queue:"+recv, st.Pos(), p.reachSet(st)[start], recv+".Start does not start its notification queue")
		c.Check("C18-R4", "user-stops-queue:"+recv, sp.Pos(), qs != nil && p.reachSet(sp)[qs], recv+".Stop does not stop its notification queue (worker goroutine leaks)")
	}
	c.Floor("C18-R4", "production users of ConcurrentQueue", users, 1)
	checkProducersNeverDrop(c, "C18-R4")
	checkQueueStartedOnce(c, "C18-R4")
	checkNoQueueSendUnderClientMutex(c, "C18-R5")
	checkCallbackProducersHandOverInline(c, "C18-R5")
	checkClientStopAlwaysStopsQueue(c, "C18-R5")
	checkSpawnGuardsAreAtomicTestAndSet(c, "C18-R5")
	checkNeutrinoProducerDiscipline(c, "C18-R4", "bc")
	checkNeutrinoStartResetsOnlyWhenStopped(c, "C18-R5")
	checkStartedFlagMeansHandlerRuns(c, "C18-R5")
	checkProducerNotifiesRelevantTxOnce(c, "C18-R4")
	checkReorgListBuiltInOneDirection(c, "C18-R4") // the producer enqueues a reorganised branch in chain order
}

// quitSignalLeavesLoop: the quit case sits in a step function f that the worker loop calls. It leaves the loop if every
// return of f reachable from the quit edge yields one constant signal, and in the loop's function no path from the call
// on which the result equals that signal reaches the next iteration.
func quitSignalLeavesLoop(p *Program, f *ssa.Function, entry, via *ssa.BasicBlock, loop *Loop) (bool, *bool) {
	if f.Signature.Results().Len() != 1 {
		return false, nil
	}
	q := &PathQuery{Fn: f, Target: func(ins ssa.Instruction, _ *ssa.BasicBlock) bool { _, ok := ins.(*ssa.Return); return ok }}
	hits := exploreFromBlock(q, entry, via)
	if len(hits) == 0 {
		return false, nil
	}
	var sig *bool
	for _, h := range hits {
		r := h.Ins.(*ssa.Return)
		cb, ok := constBool(resolvePhi(r.Results[0], r.Block(), h.Via))
		if !ok {
			return false, nil
		}
		if sig != nil && *sig != cb {
			return false, nil
		}
		sig = &cb
	}
	sites := p.realCallers(f)
	if len(sites) == 0 {
		return false, nil
	}
	for _, cs := range sites {
		call, ok := cs.(*ssa.Call)
		if !ok || call.Parent() != loop.Header.Parent() {
			return false, nil
		}
		isResult := func(v ssa.Value) bool {
			v = stripConv(v)
			if v == ssa.Value(call) {
				return true
			}
			if ph, ok := v.(*ssa.Phi); ok {
				for _, e := range ph.Edges {
					if stripConv(e) == ssa.Value(call) {
						return true
					}
				}
			}
			if u, ok := v.(*ssa.UnOp); ok && u.Op == token.MUL {
				if al, ok := u.X.(*ssa.Alloc); ok {
					for _, st := range storesTo(al) {
						if stripConv(st.Val) == ssa.Value(call) {
							return true
						}
					}
				}
			}
			return false
		}
		q2 := &PathQuery{Fn: call.Parent()}
		q2.EdgeBarrier = func(from *ssa.BasicBlock, si int) bool {
			ef := edgeFactOf(from, si)
			if ef == nil || (ef.Kind != "true" && ef.Kind != "false") || !isResult(ef.V) {
				return false
			}
			return (ef.Kind == "true") != *sig // the result is the signal on this path: the contrary edge is not taken
		}
		q2.LoopExit = func(from, to *ssa.BasicBlock) bool { return to == loop.Header }
		if len(q2.From(call)) > 0 {
			return false, nil
		}
	}
	return true, sig
}

// checkClientStopAlwaysStopsQueue: a chain client that owns a notification queue starts the queue's worker when it is
// started, whatever happens afterwards; the method that shuts the client down (it closes the client's quit channel)
// therefore stops the queue on every path from that point to its return. A shortcut ("nothing else was set up, so there is
// nothing else to tear down") leaks the worker, its overflow list and everything queued, and the worker keeps accepting
// sends.
func checkClientStopAlwaysStopsQueue(c *Ctx, rule string) {
	p := c.P
	isQueueStop := func(ins ssa.Instruction) bool {
		call, ok := ins.(*ssa.Call)
		if !ok || calleeShort(&call.Call) != "Stop" {
			return false
		}
		g := call.Call.StaticCallee()
		return g != nil && g.Signature.Recv() != nil && recvName(g) == "ConcurrentQueue"
	}
	n := 0
	for _, fn := range p.FuncsIn("chain") {
		if fn.Parent() != nil || fn.Signature.Recv() == nil {
			continue
		}
		// owner of a queue: the receiver's struct has a field of the queue type
		owns := false
		rt := fn.Signature.Recv().Type()
		if pt, ok := rt.Underlying().(*types.Pointer); ok {
			rt = pt.Elem()
		}
		if st, ok := rt.Underlying().(*types.Struct); ok {
			for i := 0; i < st.NumFields(); i++ {
				if strings.HasSuffix(st.Field(i).Type().String(), "ConcurrentQueue") {
					owns = true
				}
			}
		}
		if !owns {
			continue
		}
		for _, call := range callsNamed(fn, "close") {
			if len(call.Call.Args) != 1 {
				continue
			}
			if _, f, _, ok := fieldOf(stripConv(call.Call.Args[0])); !ok || f != "quit" {
				continue
			}
			n++
			q := &PathQuery{Fn: fn, Barrier: viaHelpers("queue.Stop", isQueueStop, true)}
			q.Target = func(ins ssa.Instruction, _ *ssa.BasicBlock) bool { _, isRet := ins.(*ssa.Return); return isRet }
			hits := q.From(call)
			detail := ""
			if len(hits) > 0 {
				detail = fnName(fn) + " closes the client's quit channel and can return at " + p.Pos(hits[0].Ins.Pos()) + " without stopping the notification queue: the queue's worker (started with the client) never terminates and keeps accepting notifications"
			}
			c.Check(rule, "client-stop-always-stops-queue:"+fnName(fn), call.Pos(), len(hits) == 0, detail)
		}
	}
	c.Floor(rule, "client shutdown functions owning a notification queue", n, 1)
}

// checkProducerNotifiesRelevantTxOnce: "none duplicated" starts at the producer: one pass of the transaction filter
// announces the transaction it looks at at most once — from one relevant-transaction hand-over no second one is reachable
// inside the same invocation. (The shortcut for a transaction already seen in the mempool announces it and returns; a
// shortcut that announces and falls through to the ordinary match announces it twice.)
func checkProducerNotifiesRelevantTxOnce(c *Ctx, rule string) {
	p := c.P
	n := 0
	for _, fn := range p.FuncsIn("chain") {
		if fn.Parent() != nil {
			continue
		}
		calls := callsNamed(fn, "onRelevantTx")
		if len(calls) == 0 {
			continue
		}
		// loops that announce one transaction per iteration are a different matter: only straight-line re-announcement
		// of the same record is judged (same first argument)
		for _, c1 := range calls {
			n++
			// a record created inside a loop is a new one on every iteration
			var def ssa.Instruction
			if len(c1.Call.Args) >= 2 {
				switch d := stripConv(c1.Call.Args[1]).(type) {
				case *ssa.Extract:
					def, _ = d.Tuple.(ssa.Instruction)
				case ssa.Instruction:
					def = d
				}
			}
			q := &PathQuery{Fn: fn, Barrier: func(ins ssa.Instruction) bool { return def != nil && ins == def }}
			q.Target = func(ins ssa.Instruction, _ *ssa.BasicBlock) bool {
				c2, ok := ins.(*ssa.Call)
				if !ok || calleeShort(&c2.Call) != "onRelevantTx" || len(c2.Call.Args) < 2 || len(c1.Call.Args) < 2 {
					return false
				}
				return stripConv(c2.Call.Args[1]) == stripConv(c1.Call.Args[1])
			}
			hits := q.From(c1)
			c.Check(rule, "relevant-tx-announced-once-per-pass:"+fn.Name(), c1.Pos(), len(hits) == 0,
				fnName(fn)+" can hand the same transaction record to the notification queue a second time in one pass: the consumer receives a duplicated RelevantTx")
		}
	}
	c.Floor(rule, "relevant-transaction hand-overs in the bitcoind client", n, 2)
}

// checkSpawnGuardsAreAtomicTestAndSet: the goroutine that takes block notifications off the backend's feed and turns them
// into the ordered stream must exist at most once — two of them read consecutive blocks concurrently, and a block is
// examined before its predecessor became the best block (mistaken for a reorg, dropped, and the stream never recovers).
// Where the start of a goroutine is gated by an atomically accessed flag of the receiver, test and set must be ONE atomic
// step (a compare-and-swap whose success edge leads to the start). A function that first loads the flag (directly or
// through a small accessor), later stores it, and starts the goroutine in between or after, lets two overlapping callers
// both pass the test.
func checkSpawnGuardsAreAtomicTestAndSet(c *Ctx, rule string) {
	p := c.P
	atomicOp := func(ci ssa.CallInstruction) (kind, field string) {
		g := ci.Common().StaticCallee()
		if g == nil || g.Pkg == nil || g.Pkg.Pkg.Path() != "sync/atomic" || len(ci.Common().Args) == 0 {
			return "", ""
		}
		fa, ok := stripConv(ci.Common().Args[0]).(*ssa.FieldAddr)
		if !ok {
			return "", ""
		}
		_, f := fieldAddrName(fa)
		switch {
		case strings.HasPrefix(g.Name(), "CompareAndSwap"):
			return "cas", f
		case strings.HasPrefix(g.Name(), "Load"):
			return "load", f
		case strings.HasPrefix(g.Name(), "Store"):
			return "store", f
		case strings.HasPrefix(g.Name(), "Add"), strings.HasPrefix(g.Name(), "Swap"):
			return "rmw", f
		}
		return "", ""
	}
	// flag fields an If condition is computed from (through accessors of the package)
	loadedFlags := func(cond ssa.Value, pkg string) map[string]string {
		out := map[string]string{}
		sl := &Slicer{P: p, ThroughBinOp: true, ThroughReturns: func(g *ssa.Function) bool { return fnPkgPath(g) == pkg }}
		for _, o := range sl.Origins(cond) {
			if call, ok := o.(*ssa.Call); ok {
				if k, f := atomicOp(call); k != "" {
					out[f] = k
				}
			}
		}
		return out
	}
	n := 0
	for _, fn := range p.FuncsIn("chain") {
		var spawns []*ssa.Go
		for _, b := range fn.Blocks {
			for _, ins := range b.Instrs {
				if g, ok := ins.(*ssa.Go); ok {
					spawns = append(spawns, g)
				}
			}
		}
		if len(spawns) == 0 {
			continue
		}
		stores := map[string]bool{}
		for _, ci := range callsOf(fn) {
			if k, f := atomicOp(ci); k == "store" {
				stores[f] = true
			}
		}
		for _, sp := range spawns {
			// the flag tests the start is gated by: conditions of blocks that dominate it
			gates := map[string]string{}
			for b := sp.Block().Idom(); b != nil; b = b.Idom() {
				if len(b.Instrs) == 0 {
					continue
				}
				if iff, ok := b.Instrs[len(b.Instrs)-1].(*ssa.If); ok {
					for f, k := range loadedFlags(iff.Cond, fnPkgPath(fn)) {
						if gates[f] != "cas" && gates[f] != "rmw" {
							gates[f] = k
						}
					}
				}
			}
			for f, k := range gates {
				n++
				ok := k == "cas" || k == "rmw" || !stores[f]
				c.Check(rule, "spawn-guard-is-atomic-test-and-set:"+fnName(fn)+"/"+f, sp.Pos(), ok,
					fnName(fn)+" starts a goroutine behind a load of the flag "+f+" that it sets in a separate step: two overlapping callers both pass the test and two goroutines consume the same notification feed concurrently — blocks are delivered out of order or dropped as false reorgs")
			}
		}
	}
	c.Floor(rule, "goroutine starts gated by an atomically accessed flag", n, 2)
}

// sendsOf: the send statements / select statements of fn that send a value whose dynamic type is named typeName
// (BlockDisconnected, *RescanFinished, FilteredBlockConnected ...).
func sendsOf(fn *ssa.Function, typeName string) []ssa.Instruction {
	is := func(v ssa.Value) bool {
		if v == nil {
			return false
		}
		if mi, ok := v.(*ssa.MakeInterface); ok {
			v = mi.X
		}
		t := v.Type()
		if pt, ok := t.Underlying().(*types.Pointer); ok {
			t = pt.Elem()
		}
		n, ok := t.(*types.Named)
		return ok && n.Obj().Name() == typeName
	}
	var out []ssa.Instruction
	for _, b := range fn.Blocks {
		for _, ins := range b.Instrs {
			switch x := ins.(type) {
			case *ssa.Send:
				if is(x.X) {
					out = append(out, x)
				}
			case *ssa.Select:
				for _, st := range x.States {
					if st.Send != nil && is(st.Send) {
						out = append(out, x)
						break
					}
				}
			}
		}
	}
	return out
}

// checkNeutrinoProducerDiscipline: necessary conditions on the light-client producer's hand-overs, each visible in the
// shape of one callback:
// (a) a block-disconnected event is always handed over: in a callback that enqueues BlockDisconnected no return is
//
//	reachable without having passed that hand-over (its quit cases belong to it) — "only while no rescan is catching
//	up" loses the disconnects of a reorganisation that happens during a key rescan;
//
// (b) a block's own notification precedes the rescan-finished it may trigger: where a callback enqueues a connected
//
//	block and calls the rescan-finished dispatcher, the dispatcher is not reachable without the hand-over;
//
// (c) rescan-finished is announced in the finished state: every hand-over of RescanFinished is preceded by the store
//
//	finished = true in its function (otherwise the next block announces progress and a second rescan-finished);
//
// (d) the rescan-finished of a running rescan is not switched off by an unrelated request: a function that tests whether
//
//	a rescan is running stores finished = true only past the edge on which none is.
func checkNeutrinoProducerDiscipline(c *Ctx, rule string, parts string) {
	p := c.P
	storesFlag := func(fn *ssa.Function, field string, val bool) []ssa.Instruction {
		var out []ssa.Instruction
		for _, st := range storesToFieldOwner(fn, "NeutrinoClient", field) {
			if b, ok := constBool(st.Val); ok && b == val {
				out = append(out, st)
			}
		}
		return out
	}
	isInstr := func(set []ssa.Instruction) func(ssa.Instruction) bool {
		return func(i ssa.Instruction) bool {
			for _, s := range set {
				if s == i {
					return true
				}
			}
			return false
		}
	}
	nA, nB, nC, nD := 0, 0, 0, 0
	for _, fn := range p.FuncsIn("chain") {
		if recvName(outermost(fn)) != "NeutrinoClient" {
			continue
		}
		// (a)
		if strings.Contains(parts, "a") {
			if sends := sendsOf(fn, "BlockDisconnected"); len(sends) > 0 {
				nA++
				q := &PathQuery{Fn: fn, Barrier: isInstr(sends)}
				q.Target = func(i ssa.Instruction, _ *ssa.BasicBlock) bool { _, ok := i.(*ssa.Return); return ok }
				hits := q.From(nil)
				c.Check(rule, "disconnect-always-handed-over:"+fn.Name(), fn.Pos(), len(hits) == 0,
					fnName(fn)+" can return without handing the block-disconnected event to the notification queue: the wallet never rewinds its tip and its transaction store for that block, whose transactions stay confirmed in a block that left the chain")
			}
		}
		// (b)
		if strings.Contains(parts, "b") {
			// (the filtered block carries the block's relevant transactions; the plain block-connected announcement is
			// withheld for pre-birthday blocks altogether, so nothing can be demanded of it)
			conn := sendsOf(fn, "FilteredBlockConnected")
			if len(conn) > 0 {
				for _, call := range callsNamed(fn, "dispatchRescanFinished") {
					nB++
					q := &PathQuery{Fn: fn, Barrier: isInstr(conn)}
					tgt := call
					q.Target = func(i ssa.Instruction, _ *ssa.BasicBlock) bool { return i == ssa.Instruction(tgt) }
					c.Check(rule, "block-handed-over-before-rescan-finished:"+fn.Name(), call.Pos(), len(q.From(nil)) == 0,
						fnName(fn)+" can announce rescan-finished before the block that completes the rescan has been handed over: the consumer sees RescanFinished for the tip ahead of the tip's own notification")
				}
			}
		}
		// (c)
		if strings.Contains(parts, "c") {
			if fin := sendsOf(fn, "RescanFinished"); len(fin) > 0 {
				set := storesFlag(fn, "finished", true)
				for _, s := range fin {
					nC++
					q := &PathQuery{Fn: fn, Barrier: isInstr(set)}
					// ... or the flag was just computed and the hand-over sits behind the edge on which it is true
					finishedEdge := func(from *ssa.BasicBlock, si int) bool {
						f := edgeFactOf(from, si)
						if f == nil || f.Kind != "true" {
							return false
						}
						_, fld, _, ok := fieldOf(stripConv(f.V))
						return ok && fld == "finished"
					}
					q.EdgeBarrier = func(from *ssa.BasicBlock, si int) bool {
						if finishedEdge(from, si) {
							return true
						}
						// `hdr, ok := s.tryMarkFinished(bs); if !ok { return }`: a private part that answers true only
						// after it recorded (or just computed and tested) the finished state
						// (... or that hands back a non-nil header only then: `hdr := s.markRescanFinished(bs); if hdr == nil {`)
						f := edgeFactOf(from, si)
						if f == nil || (f.Kind != "true" && f.Kind != "nonnil") {
							return false
						}
						var hc *ssa.Call
						var ex struct{ Index int }
						switch x := stripConv(f.V).(type) {
						case *ssa.Extract:
							hc, _ = x.Tuple.(*ssa.Call)
							ex.Index = x.Index
						case *ssa.Call:
							hc = x
						}
						if hc == nil {
							return false
						}
						wantNonNil := f.Kind == "nonnil"
						h := hc.Call.StaticCallee()
						if h == nil || len(h.Blocks) == 0 || h.Object() == nil || h.Object().Exported() || recvName(h) != "NeutrinoClient" {
							return false
						}
						hq := &PathQuery{Fn: h, Barrier: isInstr(storesFlag(h, "finished", true)), EdgeBarrier: finishedEdge}
						hq.Target = func(i ssa.Instruction, _ *ssa.BasicBlock) bool {
							r, ok := i.(*ssa.Return)
							if !ok || ex.Index >= len(r.Results) {
								return false
							}
							rv := effectiveResult(r, ex.Index) // (results are spilled where the part defers its unlock)
							if wantNonNil {
								return !isNilConst(stripConv(rv))
							}
							bv, isC := constBool(rv)
							return !isC || bv
						}
						return len(hq.From(nil)) == 0
					}
					tgt := s
					q.Target = func(i ssa.Instruction, _ *ssa.BasicBlock) bool { return i == tgt }
					c.Check(rule, "rescan-finished-announced-in-finished-state:"+fn.Name(), s.Pos(), len(q.From(nil)) == 0,
						fnName(fn)+" hands over RescanFinished without having recorded that the rescan is finished: the next block makes the client announce progress and rescan-finished once more for the same rescan")
				}
			}
		}
		// (d)
		if strings.Contains(parts, "d") {
			if len(sendsOf(fn, "RescanFinished")) > 0 {
				continue
			}
			set := storesFlag(fn, "finished", true)
			testsScanning := false
			notScanning := func(from *ssa.BasicBlock, si int) bool {
				f := edgeFactOf(from, si)
				if f == nil {
					return false
				}
				if _, fld, _, ok := fieldOf(stripConv(f.V)); ok && fld == "scanning" {
					testsScanning = true
					return f.Kind == "false"
				}
				return false
			}
			for _, st := range set {
				reach := reachableAvoiding(fn, nil, st, notScanning)
				if !testsScanning {
					continue
				}
				nD++
				c.Check(rule, "finished-flag-set-only-when-no-rescan-runs:"+fn.Name(), st.Pos(), !reach,
					fnName(fn)+" marks the client's rescan as finished although a rescan may be running (the store is reachable without having taken the 'not scanning' edge): that rescan's RescanFinished is never announced — and the wallet re-offers its unconfirmed transactions only on that announcement")
			}
		}
	}
	if strings.Contains(parts, "a") {
		c.Floor(rule, "neutrino callbacks enqueueing a block-disconnected event", nA, 1)
	}
	if strings.Contains(parts, "b") {
		c.Floor(rule, "neutrino callbacks that may trigger rescan-finished after a connected block", nB, 1)
	}
	if strings.Contains(parts, "c") {
		c.Floor(rule, "hand-overs of RescanFinished by the neutrino client", nC, 2)
	}
	if strings.Contains(parts, "d") {
		c.Floor(rule, "finished-flag stores in functions that test for a running rescan", nD, 1)
	}
}

// checkNeutrinoStartResetsOnlyWhenStopped: Start() gives the client fresh channels. It does so only on the edge on which
// the client is not started: replaced while the notification handler of a running client still holds the old ones, every
// producer sends into a channel nobody reads.
func checkNeutrinoStartResetsOnlyWhenStopped(c *Ctx, rule string) {
	p := c.P
	start := p.Func("chain", "NeutrinoClient", "Start")
	if start == nil {
		c.Unresolved(rule, "chain.NeutrinoClient.Start")
		return
	}
	notStarted := func(from *ssa.BasicBlock, si int) bool {
		f := edgeFactOf(from, si)
		if f == nil || f.Kind != "false" {
			return false
		}
		_, fld, _, ok := fieldOf(stripConv(f.V))
		return ok && fld == "started"
	}
	n := 0
	for _, f := range p.regionOf(start) {
		for _, b := range f.Blocks {
			for _, ins := range b.Instrs {
				st, ok := ins.(*ssa.Store)
				if !ok {
					continue
				}
				fa, ok := st.Addr.(*ssa.FieldAddr)
				if !ok {
					continue
				}
				tn, fld := fieldAddrName(fa)
				if tn != "NeutrinoClient" {
					continue
				}
				if _, isChan := st.Val.Type().Underlying().(*types.Chan); !isChan {
					continue
				}
				n++
				c.Check(rule, "start-resets-channels-only-when-stopped:"+fld, st.Pos(), f != start || !reachableAvoiding(start, nil, st, notStarted),
					"NeutrinoClient.Start replaces the channel "+fld+" although the client may be running: the live notification handler keeps the old channel, producers block on the new one and every later notification is lost")
			}
		}
	}
	c.Floor(rule, "channel fields (re)created by NeutrinoClient.Start", n, 2)
}
