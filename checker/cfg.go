package main

import (
	"go/constant"
	"go/token"
	"go/types"

	"golang.org/x/tools/go/ssa"
)

// ---------- basic SSA helpers ----------

func isNilConst(v ssa.Value) bool {
	c, ok := v.(*ssa.Const)
	return ok && c.Value == nil && !isBasic(c.Type())
}

func isBasic(t types.Type) bool {
	_, ok := t.Underlying().(*types.Basic)
	return ok
}

func constInt(v ssa.Value) (int64, bool) {
	c, ok := v.(*ssa.Const)
	if !ok || c.Value == nil || c.Value.Kind() != constant.Int {
		return 0, false
	}
	return c.Int64(), true
}

func constBool(v ssa.Value) (bool, bool) {
	c, ok := v.(*ssa.Const)
	if !ok || c.Value == nil || c.Value.Kind() != constant.Bool {
		return false, false
	}
	return constant.BoolVal(c.Value), true
}

var errorType = types.Universe.Lookup("error").Type()

func isErrorType(t types.Type) bool { return types.Identical(t, errorType) }

// errResultIndex returns the index of the trailing error result of fn, or -1.
func errResultIndex(sig *types.Signature) int {
	n := sig.Results().Len()
	if n == 0 {
		return -1
	}
	if isErrorType(sig.Results().At(n - 1).Type()) {
		return n - 1
	}
	return -1
}

// instrIndex returns the index of ins within its block.
func instrIndex(ins ssa.Instruction) int {
	for i, x := range ins.Block().Instrs {
		if x == ins {
			return i
		}
	}
	return -1
}

// stripConv strips type conversions that do not change the underlying value.
func stripConv(v ssa.Value) ssa.Value {
	for {
		switch x := v.(type) {
		case *ssa.ChangeType:
			v = x.X
		case *ssa.ChangeInterface:
			v = x.X
		case *ssa.MakeInterface:
			v = x.X
		case *ssa.Convert:
			v = x.X
		default:
			return v
		}
	}
}

// ---------- edge domination ----------

// edgeDominates reports whether the CFG edge from->from.Succs[si] dominates block b:
// the successor dominates b and every other predecessor of the successor is
// itself dominated by the successor (loop back-edges).
func edgeDominates(from *ssa.BasicBlock, si int, b *ssa.BasicBlock) bool {
	s := from.Succs[si]
	if from.Succs[0] == from.Succs[1] {
		return false
	}
	if !s.Dominates(b) {
		return false
	}
	for _, p := range s.Preds {
		if p == from {
			continue
		}
		if !s.Dominates(p) {
			return false
		}
	}
	return true
}

// condFact describes a comparison fact extracted from an If condition.
// unwrapNot strips leading negations; returns inner value and whether negated.
func unwrapNot(v ssa.Value) (ssa.Value, bool) {
	neg := false
	for {
		u, ok := v.(*ssa.UnOp)
		if ok && u.Op == token.NOT {
			neg = !neg
			v = u.X
			continue
		}
		return v, neg
	}
}

// nilCompare: if cond is (x == nil) or (x != nil) returns x and whether the
// condition being true means x is non-nil.
func nilCompare(cond ssa.Value) (x ssa.Value, trueMeansNonNil bool, ok bool) {
	inner, neg := unwrapNot(cond)
	b, isb := inner.(*ssa.BinOp)
	if !isb || (b.Op != token.EQL && b.Op != token.NEQ) {
		return nil, false, false
	}
	var other ssa.Value
	switch {
	case isNilConst(b.Y):
		other = b.X
	case isNilConst(b.X):
		other = b.Y
	default:
		return nil, false, false
	}
	t := b.Op == token.NEQ
	if neg {
		t = !t
	}
	return other, t, true
}

// sameValue: SSA identity, or loads of the same alloc/field address with no
// intervening consideration (used only for local error variables), or the
// same tuple extract.
func sameValue(a, b ssa.Value) bool {
	if a == b {
		return true
	}
	if la, ok := a.(*ssa.UnOp); ok && la.Op == token.MUL {
		if lb, ok := b.(*ssa.UnOp); ok && lb.Op == token.MUL {
			if la.X != lb.X {
				fa, ok1 := la.X.(*ssa.FieldAddr)
				fb, ok2 := lb.X.(*ssa.FieldAddr)
				return ok1 && ok2 && fa.X == fb.X && fa.Field == fb.Field
			}
			if fa, ok := la.X.(*ssa.FieldAddr); ok {
				// it.err idiom: two loads of the same field of the same object
				if fb, ok := lb.X.(*ssa.FieldAddr); ok && fa.X == fb.X && fa.Field == fb.Field {
					return true
				}
			}
			switch la.X.(type) {
			case *ssa.Alloc, *ssa.FreeVar:
				// two loads of the same local/captured variable (used for the
				// `if err != nil { return err }` idiom on captured err)
				return true
			}
		}
	}
	ea, ok1 := a.(*ssa.Extract)
	eb, ok2 := b.(*ssa.Extract)
	if ok1 && ok2 && ea.Tuple == eb.Tuple && ea.Index == eb.Index {
		return true
	}
	return false
}

// knownNonNil reports whether v is known non-nil in block b because b is
// dominated by the non-nil edge of a nil comparison on v.
func knownNonNil(v ssa.Value, b *ssa.BasicBlock) bool {
	return nilFact(v, b, true)
}

func knownNil(v ssa.Value, b *ssa.BasicBlock) bool {
	return nilFact(v, b, false)
}

func nilFact(v ssa.Value, b *ssa.BasicBlock, wantNonNil bool) bool {
	for d := b; d != nil; d = d.Idom() {
		// look at idom chain: any dominating If
		for _, dom := range []*ssa.BasicBlock{d} {
			if len(dom.Instrs) == 0 {
				continue
			}
			iff, ok := dom.Instrs[len(dom.Instrs)-1].(*ssa.If)
			if !ok {
				continue
			}
			x, trueNonNil, ok := nilCompare(iff.Cond)
			if !ok || !sameValue(x, v) {
				continue
			}
			for si := 0; si < 2; si++ {
				if !edgeDominates(dom, si, b) {
					continue
				}
				nonNilOnEdge := (si == 0) == trueNonNil
				if nonNilOnEdge == wantNonNil {
					return true
				}
			}
		}
	}
	return false
}

// ---------- path exploration ----------

// PathQuery explores instruction-level paths within one function.
type PathQuery struct {
	Fn *ssa.Function
	// Barrier: exploring stops at (does not cross) an instruction for which
	// this returns true.
	Barrier func(ssa.Instruction) bool
	// EdgeBarrier: the edge from block `from` to its si-th successor is not followed.
	EdgeBarrier func(from *ssa.BasicBlock, si int) bool
	// Target: instructions of interest. via is the predecessor block through
	// which the instruction's block was entered on this path (nil if the path
	// started inside the block).
	Target func(ins ssa.Instruction, via *ssa.BasicBlock) bool
	// LoopExit: when set and true for an edge, the edge is recorded as a hit
	// (its source block's last instruction) and not followed.
	LoopExit func(from, to *ssa.BasicBlock) bool
}

type pathHit struct {
	Ins ssa.Instruction
	Via *ssa.BasicBlock
}

// From explores from the instruction after `start` (or from function entry if
// start is nil) and returns all targets reached.
func (q *PathQuery) From(start ssa.Instruction) []pathHit {
	if len(q.Fn.Blocks) == 0 {
		return nil
	}
	var hits []pathHit
	type key struct {
		b   *ssa.BasicBlock
		via *ssa.BasicBlock
	}
	seen := map[key]bool{}
	hitSeen := map[pathHit]bool{}
	var walk func(b *ssa.BasicBlock, idx int, via *ssa.BasicBlock)
	walk = func(b *ssa.BasicBlock, idx int, via *ssa.BasicBlock) {
		for i := idx; i < len(b.Instrs); i++ {
			ins := b.Instrs[i]
			if q.Target != nil && q.Target(ins, via) {
				h := pathHit{ins, via}
				if !hitSeen[h] {
					hitSeen[h] = true
					hits = append(hits, h)
				}
			}
			if q.Barrier != nil && q.Barrier(ins) {
				return
			}
		}
		for si, s := range b.Succs {
			if q.EdgeBarrier != nil && q.EdgeBarrier(b, si) {
				continue
			}
			if q.LoopExit != nil && q.LoopExit(b, s) {
				h := pathHit{b.Instrs[len(b.Instrs)-1], via}
				if !hitSeen[h] {
					hitSeen[h] = true
					hits = append(hits, h)
				}
				continue
			}
			k := key{s, b}
			if seen[k] {
				continue
			}
			seen[k] = true
			walk(s, 0, b)
		}
	}
	if start == nil {
		walk(q.Fn.Blocks[0], 0, nil)
	} else {
		walk(start.Block(), instrIndex(start)+1, nil)
	}
	return hits
}

// ---------- return classification ----------

type retKind int

const (
	retSuccess retKind = iota // error operand is definitely nil
	retError                  // definitely non-nil
	retMaybe                  // unknown
	retNoErr                  // function has no error result
)

// resolvePhi resolves v through phis located in block b given the path came via pred.
func resolvePhi(v ssa.Value, b, via *ssa.BasicBlock) ssa.Value {
	for i := 0; i < 8; i++ {
		phi, ok := v.(*ssa.Phi)
		if !ok || phi.Block() != b || via == nil {
			return v
		}
		idx := -1
		for j, p := range b.Preds {
			if p == via {
				idx = j
				break
			}
		}
		if idx < 0 {
			return v
		}
		v = phi.Edges[idx]
		// a phi edge value may itself be a phi of another block: stop there
		if p2, ok := v.(*ssa.Phi); ok && p2.Block() != b {
			return v
		}
	}
	return v
}

// classifyErrValue classifies an error-typed value at block b.
func (p *Program) classifyErrValue(v ssa.Value, b *ssa.BasicBlock, depth int) retKind {
	if isNilConst(v) {
		return retSuccess
	}
	if knownNonNil(v, b) {
		return retError
	}
	if knownNil(v, b) {
		return retSuccess
	}
	switch x := v.(type) {
	case *ssa.MakeInterface:
		return retError // concrete value boxed into error: non-nil interface
	case *ssa.UnOp:
		// load of a package-level error variable (sentinel such as
		// ErrWalletShuttingDown): initialised non-nil and never reassigned
		if x.Op == token.MUL {
			if _, ok := x.X.(*ssa.Global); ok {
				return retError
			}
		}
	case *ssa.Phi:
		if depth > 6 {
			return retMaybe
		}
		k := retKind(-1)
		for i, e := range x.Edges {
			// classify each incoming edge value in the predecessor block
			ek := p.classifyErrValue(e, x.Block().Preds[i], depth+1)
			if k == -1 {
				k = ek
			} else if k != ek {
				return retMaybe
			}
		}
		if k == -1 {
			return retMaybe
		}
		return k
	case *ssa.Call:
		if fn := x.Call.StaticCallee(); fn != nil {
			if p.alwaysNonNilErr(fn) {
				return retError
			}
			// wrappers that return their error argument or a fresh error (maybeConvertDbError, convertErr):
			// non-nil in, non-nil out
			if pi := p.nonNilPreserving(fn); pi >= 0 && pi < len(x.Call.Args) && depth < 6 {
				if p.classifyErrValue(x.Call.Args[pi], b, depth+1) == retError {
					return retError
				}
			}
		}
	case *ssa.Extract:
		if c, ok := x.Tuple.(*ssa.Call); ok {
			_ = c
		}
	}
	return retMaybe
}

// alwaysNonNilErr: fn has a single error (or last error) result that is non-nil
// on every return (error constructors such as managerError, storeError,
// fmt.Errorf, errors.New).
func (p *Program) alwaysNonNilErr(fn *ssa.Function) bool {
	if p.nnErrCache == nil {
		p.nnErrCache = map[*ssa.Function]int{}
	}
	if v, ok := p.nnErrCache[fn]; ok {
		return v == 1
	}
	p.nnErrCache[fn] = 0 // in progress / assume false for recursion
	res := func() bool {
		if fn.Pkg != nil {
			switch fn.Pkg.Pkg.Path() + "." + fn.Name() {
			case "errors.New", "fmt.Errorf":
				return true
			}
		}
		if len(fn.Blocks) == 0 {
			return false
		}
		ei := errResultIndex(fn.Signature)
		if ei < 0 {
			return false
		}
		found := false
		for _, b := range fn.Blocks {
			for _, ins := range b.Instrs {
				r, ok := ins.(*ssa.Return)
				if !ok {
					continue
				}
				found = true
				if p.classifyErrValue(r.Results[ei], b, 0) != retError {
					return false
				}
			}
		}
		return found
	}()
	if res {
		p.nnErrCache[fn] = 1
	}
	return res
}

// classifyReturn classifies a return reached via the given predecessor.
func (p *Program) classifyReturn(r *ssa.Return, via *ssa.BasicBlock) retKind {
	fn := r.Parent()
	ei := errResultIndex(fn.Signature)
	if ei < 0 {
		return retNoErr
	}
	if ei >= len(r.Results) {
		return retMaybe
	}
	res := effectiveResult(r, ei)
	v := resolvePhi(res, r.Block(), via)
	b := r.Block()
	if v != res && via != nil {
		b = via
	}
	return p.classifyErrValue(v, b, 0)
}

// resultSlot reports whether a is a spill slot for a function result (go/ssa
// spills results to allocs in functions with defer, and for named results):
// i.e. a load of it is an operand of a Return.
func resultSlot(a *ssa.Alloc) bool {
	// the slots go/ssa spills results into (functions with defer/recover) are anonymous; a named local — an `err`
	// variable that lives on the heap because a function literal assigns it — is an ordinary variable even though it is
	// loaded and returned
	if a.Comment != "" {
		return false
	}
	for _, u := range usesOf(a) {
		ld, ok := u.(*ssa.UnOp)
		if !ok || ld.Op != token.MUL {
			continue
		}
		for _, uu := range usesOf(ld) {
			if _, ok := uu.(*ssa.Return); ok {
				return true
			}
		}
	}
	return false
}

// effectiveResult returns the value actually returned as result idx: for
// spilled results, the value of the nearest preceding store to the slot in the
// return's block (searching predecessors along single-predecessor chains).
func effectiveResult(r *ssa.Return, idx int) ssa.Value {
	if idx >= len(r.Results) {
		return nil
	}
	v := r.Results[idx]
	ld, ok := v.(*ssa.UnOp)
	if !ok || ld.Op != token.MUL {
		return v
	}
	a, ok := ld.X.(*ssa.Alloc)
	if !ok {
		return v
	}
	b := r.Block()
	i := instrIndex(ld)
	for hops := 0; hops < 4 && b != nil; hops++ {
		for i--; i >= 0; i-- {
			if st, ok := b.Instrs[i].(*ssa.Store); ok && st.Addr == ssa.Value(a) {
				return st.Val
			}
		}
		if len(b.Preds) != 1 {
			break
		}
		b = b.Preds[0]
		i = len(b.Instrs)
	}
	return v
}

// nonNilPreserving: fn has an error parameter p such that every return's error result is either p itself or a
// definitely non-nil error. Returns the parameter index (-1 if not such a wrapper).
func (p *Program) nonNilPreserving(fn *ssa.Function) int {
	if p.nnPresCache == nil {
		p.nnPresCache = map[*ssa.Function]int{}
	}
	if v, ok := p.nnPresCache[fn]; ok {
		return v
	}
	p.nnPresCache[fn] = -1
	ei := errResultIndex(fn.Signature)
	if ei < 0 || len(fn.Blocks) == 0 {
		return -1
	}
	res := -1
	for i, prm := range fn.Params {
		if !isErrorType(prm.Type()) {
			continue
		}
		ok := true
		n := 0
		for _, b := range fn.Blocks {
			for _, ins := range b.Instrs {
				r, isR := ins.(*ssa.Return)
				if !isR || ei >= len(r.Results) {
					continue
				}
				n++
				var check func(v ssa.Value, d int) bool
				check = func(v ssa.Value, d int) bool {
					if v == ssa.Value(prm) {
						return true
					}
					if ph, isPhi := v.(*ssa.Phi); isPhi && d < 4 {
						for _, e := range ph.Edges {
							if !check(e, d+1) {
								return false
							}
						}
						return true
					}
					return p.classifyErrValue(v, b, 0) == retError
				}
				if !check(effectiveResult(r, ei), 0) {
					ok = false
				}
			}
		}
		if ok && n > 0 {
			res = i
			break
		}
	}
	p.nnPresCache[fn] = res
	return res
}
