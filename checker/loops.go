package main

import (
	"fmt"
	"go/token"
	"go/types"
	"sort"
	"strings"

	"golang.org/x/tools/go/ssa"
)

// Loop is a natural loop of an SSA function.
type Loop struct {
	Fn     *ssa.Function
	Header *ssa.BasicBlock
	Blocks map[*ssa.BasicBlock]bool
	// Over describes what a range loop ranges over ("" for plain for-loops):
	// the rendered operand, e.g. "field:MsgTx.TxIn", "call:fetchUnminedInputSpendTxHashes", "local".
	Over    string
	OverVal ssa.Value
	Kind    string // "rangeindex", "rangeiter", "for"
}

func loopsOf(fn *ssa.Function) []*Loop {
	var out []*Loop
	byHeader := map[*ssa.BasicBlock]*Loop{}
	for _, b := range fn.Blocks {
		for _, s := range b.Succs {
			if s.Dominates(b) {
				// back-edge b -> s
				l := byHeader[s]
				if l == nil {
					l = &Loop{Fn: fn, Header: s, Blocks: map[*ssa.BasicBlock]bool{s: true}}
					byHeader[s] = l
					out = append(out, l)
				}
				// collect nodes reaching b without passing s
				stack := []*ssa.BasicBlock{b}
				for len(stack) > 0 {
					n := stack[len(stack)-1]
					stack = stack[:len(stack)-1]
					if l.Blocks[n] {
						continue
					}
					l.Blocks[n] = true
					stack = append(stack, n.Preds...)
				}
			}
		}
	}
	for _, l := range out {
		l.classify()
	}
	sort.Slice(out, func(i, j int) bool { return out[i].Header.Index < out[j].Header.Index })
	return out
}

func (l *Loop) classify() {
	h := l.Header
	l.Kind = "for"
	switch {
	case strings.HasPrefix(h.Comment, "rangeindex"):
		l.Kind = "rangeindex"
	case strings.HasPrefix(h.Comment, "rangeiter"):
		l.Kind = "rangeiter"
	}
	switch l.Kind {
	case "rangeindex":
		// header: t = phi; t+1; cmp t+1 < len(x)  -- len computed in preheader
		for _, ins := range h.Instrs {
			if b, ok := ins.(*ssa.BinOp); ok && b.Op == token.LSS {
				if c, ok := b.Y.(*ssa.Call); ok {
					if bi, ok := c.Call.Value.(*ssa.Builtin); ok && bi.Name() == "len" {
						l.OverVal = c.Call.Args[0]
					}
				}
			}
		}
	case "rangeiter":
		for _, ins := range h.Instrs {
			if n, ok := ins.(*ssa.Next); ok {
				if r, ok := n.Iter.(*ssa.Range); ok {
					l.OverVal = r.X
				}
			}
		}
	}
	if l.Kind == "for" {
		// canonical index loop: for i := 0; i < len(x); i++  (same order and coverage as `range x`)
		if len(h.Instrs) > 0 {
			if iff, ok := h.Instrs[len(h.Instrs)-1].(*ssa.If); ok {
				if b, ok := iff.Cond.(*ssa.BinOp); ok && b.Op == token.LSS {
					if ph, ok := b.X.(*ssa.Phi); ok && ph.Block() == h && len(ph.Edges) == 2 {
						var over ssa.Value
						if c, ok := b.Y.(*ssa.Call); ok {
							if bi, ok := c.Call.Value.(*ssa.Builtin); ok && bi.Name() == "len" {
								over = c.Call.Args[0]
							}
						}
						init0, step1 := false, false
						for i, e := range ph.Edges {
							if l.Blocks[h.Preds[i]] {
								if bo, ok := e.(*ssa.BinOp); ok && bo.Op == token.ADD && bo.X == ssa.Value(ph) {
									if k, ok := constInt(bo.Y); ok && k == 1 {
										step1 = true
									}
								}
							} else if k, ok := constInt(e); ok && k == 0 {
								init0 = true
							}
						}
						if over != nil && init0 && step1 {
							l.Kind = "forindex"
							l.OverVal = over
						}
					}
				}
			}
		}
	}
	if l.OverVal != nil {
		l.Over = describeValue(l.OverVal)
	}
}

// describeValue renders the origin of a value in a position-independent way.
func describeValue(v ssa.Value) string {
	v = stripConv(v)
	switch x := v.(type) {
	case *ssa.UnOp:
		if x.Op == token.MUL {
			if fa, ok := x.X.(*ssa.FieldAddr); ok {
				return "field:" + fieldPath(fa)
			}
			if g, ok := x.X.(*ssa.Global); ok {
				return "global:" + g.Name()
			}
			if a, ok := x.X.(*ssa.Alloc); ok {
				return "var:" + a.Comment
			}
			if fv, ok := x.X.(*ssa.FreeVar); ok {
				return "var:" + fv.Name()
			}
		}
	case *ssa.Field:
		_, f, _, _ := fieldOf(x)
		return "field:" + f
	case *ssa.Call:
		return "call:" + calleeShort(&x.Call)
	case *ssa.Extract:
		if c, ok := x.Tuple.(*ssa.Call); ok {
			return fmt.Sprintf("call:%s#%d", calleeShort(&c.Call), x.Index)
		}
	case *ssa.Parameter:
		return "param:" + x.Name()
	case *ssa.Const:
		if x.Value == nil {
			return "nil"
		}
		return "const:" + x.Value.String()
	case *ssa.Phi:
		return "var:" + x.Comment
	case *ssa.Slice:
		return describeValue(x.X)
	case *ssa.FreeVar:
		return "var:" + x.Name()
	}
	return "val:" + v.Name()
}

// fieldPath renders a.b.c for nested field addresses (last two components).
func fieldPath(fa *ssa.FieldAddr) string {
	_, f := fieldAddrName(fa)
	if inner, ok := fa.X.(*ssa.FieldAddr); ok {
		_, g := fieldAddrName(inner)
		return g + "." + f
	}
	if u, ok := fa.X.(*ssa.UnOp); ok && u.Op == token.MUL {
		if inner, ok := u.X.(*ssa.FieldAddr); ok {
			_, g := fieldAddrName(inner)
			return g + "." + f
		}
	}
	return f
}

func calleeShort(cc *ssa.CallCommon) string {
	if cc.IsInvoke() {
		return cc.Method.Name()
	}
	if f := cc.StaticCallee(); f != nil {
		n := f.Name()
		if i := strings.IndexByte(n, '['); i > 0 {
			n = n[:i] // instantiated generic: Delete[K,V] -> Delete
		}
		return n
	}
	if b, ok := cc.Value.(*ssa.Builtin); ok {
		return b.Name()
	}
	return "dynamic"
}

// bodyEntry returns the in-loop successor of the header (the body).
func (l *Loop) bodyEntries() []*ssa.BasicBlock {
	var out []*ssa.BasicBlock
	for _, s := range l.Header.Succs {
		if l.Blocks[s] && s != l.Header {
			out = append(out, s)
		}
	}
	return out
}

// EarlyExits returns exits from the loop body (not the header's normal
// termination edge) that can reach a return which is not an error return, or
// that fall through to the code after the loop (break).
func (l *Loop) EarlyExits(p *Program) []string {
	var out []string
	for b := range l.Blocks {
		if b == l.Header {
			continue
		}
		for _, s := range b.Succs {
			if l.Blocks[s] {
				continue
			}
			// exit edge b->s from inside the body
			q := &PathQuery{Fn: l.Fn}
			q.Target = func(ins ssa.Instruction, via *ssa.BasicBlock) bool {
				r, ok := ins.(*ssa.Return)
				if !ok {
					return false
				}
				k := p.classifyReturn(r, via)
				return k != retError
			}
			// a return instruction inside the exiting block itself is handled by exploring from s
			hits := exploreFromBlock(q, s, b)
			if len(hits) > 0 {
				pos := lastPos(b)
				out = append(out, fmt.Sprintf("exit from loop body at %s reaches non-error return at %s", p.Pos(pos), p.Pos(hits[0].Ins.Pos())))
			}
		}
		// returns directly inside loop blocks
		for _, ins := range b.Instrs {
			if r, ok := ins.(*ssa.Return); ok {
				if k := p.classifyReturn(r, nil); k != retError {
					// try path-sensitive: all preds
					bad := false
					if len(b.Preds) == 0 {
						bad = true
					}
					for _, pr := range b.Preds {
						if p.classifyReturn(r, pr) != retError {
							bad = true
						}
					}
					if bad {
						out = append(out, fmt.Sprintf("non-error return inside loop body at %s", p.Pos(r.Pos())))
					}
				}
			}
		}
	}
	sort.Strings(out)
	return out
}

func lastPos(b *ssa.BasicBlock) token.Pos {
	for i := len(b.Instrs) - 1; i >= 0; i-- {
		if p := b.Instrs[i].Pos(); p.IsValid() {
			return p
		}
	}
	// fall back to predecessors' positions
	for _, pr := range b.Preds {
		for i := len(pr.Instrs) - 1; i >= 0; i-- {
			if p := pr.Instrs[i].Pos(); p.IsValid() {
				return p
			}
			if iff, ok := pr.Instrs[i].(*ssa.If); ok && iff.Cond.Pos().IsValid() {
				return iff.Cond.Pos()
			}
		}
	}
	return token.NoPos
}

// MustPassPerIteration: every path from the start of an iteration back to the
// header passes an instruction satisfying pred. Returns a description of a
// counterexample ("" if none).
func (l *Loop) MustPassPerIteration(p *Program, pred func(ssa.Instruction) bool, skipOK ...func(from *ssa.BasicBlock, si int) bool) string {
	for _, entry := range l.bodyEntries() {
		q := &PathQuery{Fn: l.Fn, Barrier: pred}
		q.EdgeBarrier = func(from *ssa.BasicBlock, si int) bool {
			for _, s := range skipOK {
				if s(from, si) {
					return true
				}
			}
			return !l.Blocks[from.Succs[si]]
		}
		q.LoopExit = func(from, to *ssa.BasicBlock) bool { return to == l.Header }
		hits := exploreFromBlock(q, entry, l.Header)
		if len(hits) > 0 {
			return fmt.Sprintf("an iteration can reach the next one (via %s) without it", p.Pos(lastPos(hits[0].Ins.Block())))
		}
	}
	return ""
}

// containsCall: the loop body contains a call satisfying pred.
func (l *Loop) containsInstr(pred func(ssa.Instruction) bool) bool {
	for b := range l.Blocks {
		for _, ins := range b.Instrs {
			if pred(ins) {
				return true
			}
		}
	}
	return false
}

// innermostLoopOf returns the innermost loop of fn containing ins.
func innermostLoopOf(loops []*Loop, ins ssa.Instruction) *Loop {
	var best *Loop
	for _, l := range loops {
		if l.Blocks[ins.Block()] {
			if best == nil || len(l.Blocks) < len(best.Blocks) {
				best = l
			}
		}
	}
	return best
}

// elemTypeName: the element type name of what the loop ranges over (e.g. "TxIn").
func (l *Loop) elemTypeName() string {
	if l.OverVal == nil {
		return ""
	}
	t := l.OverVal.Type().Underlying()
	var e types.Type
	switch x := t.(type) {
	case *types.Slice:
		e = x.Elem()
	case *types.Array:
		e = x.Elem()
	case *types.Map:
		e = x.Elem()
	case *types.Pointer:
		if a, ok := x.Elem().Underlying().(*types.Array); ok {
			e = a.Elem()
		}
	}
	if e == nil {
		return ""
	}
	if pt, ok := e.(*types.Pointer); ok {
		e = pt.Elem()
	}
	if n, ok := e.(*types.Named); ok {
		return n.Obj().Name()
	}
	return e.String()
}

// EarlyExitsAny: exits from the loop body other than through the header, of
// any kind (break, return of any value). For loops in functions without an
// error result.
func (l *Loop) EarlyExitsAny(p *Program) []string {
	var out []string
	for b := range l.Blocks {
		if b == l.Header {
			continue
		}
		for _, s := range b.Succs {
			if !l.Blocks[s] {
				out = append(out, fmt.Sprintf("exit from loop body at %s", p.Pos(lastPos(b))))
			}
		}
		for _, ins := range b.Instrs {
			if r, ok := ins.(*ssa.Return); ok {
				out = append(out, fmt.Sprintf("return inside loop body at %s", p.Pos(r.Pos())))
			}
		}
	}
	sort.Strings(out)
	return out
}

// CoExecutedPerIteration: in every iteration of l, instruction a is executed iff instruction b is.
// Returns "" if so, else a description of the offending combination. Path-insensitive to data.
func (l *Loop) CoExecutedPerIteration(p *Program, a, b ssa.Instruction) string {
	is := func(x ssa.Instruction) func(ssa.Instruction) bool {
		return func(i ssa.Instruction) bool { return i == x }
	}
	inLoop := func(from *ssa.BasicBlock, si int) bool { return !l.Blocks[from.Succs[si]] }
	// reach x from the iteration start without passing y
	startReaches := func(x, y ssa.Instruction) bool {
		for _, entry := range l.bodyEntries() {
			q := &PathQuery{Fn: l.Fn, Barrier: is(y), Target: func(i ssa.Instruction, _ *ssa.BasicBlock) bool { return i == x }}
			q.EdgeBarrier = func(from *ssa.BasicBlock, si int) bool { return inLoop(from, si) || from.Succs[si] == l.Header }
			if len(exploreFromBlock(q, entry, l.Header)) > 0 {
				return true
			}
		}
		return false
	}
	// reach the next iteration from x without passing y
	reachesNext := func(x, y ssa.Instruction) bool {
		q := &PathQuery{Fn: l.Fn, Barrier: is(y)}
		q.EdgeBarrier = inLoop
		q.Target = func(i ssa.Instruction, via *ssa.BasicBlock) bool {
			return i == l.Header.Instrs[0] && via != nil && l.Blocks[via]
		}
		return len(q.From(x)) > 0
	}
	if startReaches(a, b) && reachesNext(a, b) {
		return fmt.Sprintf("an iteration can execute %s without %s", p.Pos(a.Pos()), p.Pos(b.Pos()))
	}
	if startReaches(b, a) && reachesNext(b, a) {
		return fmt.Sprintf("an iteration can execute %s without %s", p.Pos(b.Pos()), p.Pos(a.Pos()))
	}
	return ""
}
