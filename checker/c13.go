package main

import (
	"fmt"
	"go/token"
	"go/types"
	"strings"

	"golang.org/x/tools/go/ssa"
)

func init() {
	register(&propSpec{
		ID: "C13",
		Explanation: "Decides structural necessary conditions of the transaction-history property in wtxmgr: (R1) both detail builders derive each emitted credit's Spent flag from the unconfirmed-spender index on EVERY iteration " +
			"(unmined: unconditional assignment; mined: stored flag OR-ed with the index) and append every credit; the unmined builder emits a debit for an input iff the previous output is in the unspent index or in the unmined credits; " +
			"(R2) lookup precedence: TxDetails/UniqueTxDetails reach the unmined builder only on 'found in unmined bucket' and the mined builder only otherwise; RangeTransactions runs the unmined pass at most once; " +
			"(R3) iterators over credits/debits bound their scan by the record-key prefix; (R4) flag-bit typing: every value that flows into a 'change' slot (bit 1 of a credit value) comes from a 'change' source and every 'spent' slot (bit 0) from a 'spent' source - " +
			"sibling helpers with identical signatures cannot be confused, and rewritten credit values keep spent flag and spender reference in agreement; (R5) removal of a transaction is transitive over every output (removed transactions' descendants are not reported). NOT decided: exactly-once reporting over histories.",
		Assumptions: []string{"credit flag byte layout: the typing is inferred from the mask constants in the code itself, not frozen"},
		Run:         runC13,
	})
}

func storesToField(fn *ssa.Function, field string) []*ssa.Store {
	var out []*ssa.Store
	for _, b := range fn.Blocks {
		for _, ins := range b.Instrs {
			if st, ok := ins.(*ssa.Store); ok {
				if fa, ok := st.Addr.(*ssa.FieldAddr); ok {
					if _, f := fieldAddrName(fa); f == field {
						out = append(out, st)
					}
				}
			}
		}
	}
	return out
}

func isStoreToField(field string) func(ssa.Instruction) bool {
	return func(ins ssa.Instruction) bool {
		st, ok := ins.(*ssa.Store)
		if !ok {
			return false
		}
		fa, ok := st.Addr.(*ssa.FieldAddr)
		if !ok {
			return false
		}
		_, f := fieldAddrName(fa)
		return f == field
	}
}

// loopsWithCall: loops of fn (any kind) whose header or body contains a call named name.
func loopsContaining(fn *ssa.Function, pred func(ssa.Instruction) bool) []*Loop {
	var out []*Loop
	for _, l := range loopsOf(fn) {
		if l.containsInstr(pred) {
			out = append(out, l)
		}
	}
	return out
}

func runC13(c *Ctx) {
	p := c.P
	// a debit exists exactly for the inputs that spend wallet credits: the loop that records them looks at every input
	runLoopCompletenessN(c, "C13-R2", []string{"updateMinedBalance"}, 1)
	checkCreditExistenceNotJudgedByAmount(c, "C13-R2")
	checkScriptFetchKeyAndIndexAgree(c, "C13-R1")
	checkBlockQualifiedLookupUsesWholeBlock(c, "C13-R2")
	checkDebitIndexIsInputPosition(c, "C13-R1")
	mined := wtxFn(c, "C13-R1", "minedTxDetails")
	unmined := wtxFn(c, "C13-R1", "unminedTxDetails")
	if mined != nil && unmined != nil {
		// unmined: Spent assigned on every iteration from existsRawUnminedInput
		for _, l := range loopsContaining(unmined, isStoreToField("Spent")) {
			bad := l.MustPassPerIteration(p, isStoreToField("Spent"))
			c.Check("C13-R1", "unmined-credit-Spent-assigned-every-iteration", l.Header.Instrs[0].Pos(), bad == "",
				"the unconfirmed detail builder does not (re)assign the Spent flag for every credit: the iterator reuses its element, so a stale 'true' leaks to later credits ("+bad+")")
			bad = l.MustPassPerIteration(p, isStoreToField("Credits"))
			c.Check("C13-R1", "unmined-credit-appended-every-iteration", l.Header.Instrs[0].Pos(), bad == "", "a credit of an unconfirmed transaction is not reported ("+bad+")")
		}
		n := 0
		for _, st := range storesToField(unmined, "Spent") {
			n++
			ok := valueFromNilTest(st.Val, "existsRawUnminedInput")
			c.Check("C13-R1", "unmined-credit-Spent-source", st.Pos(), ok, "Spent flag of an unconfirmed credit is not 'an unconfirmed spender exists' (existsRawUnminedInput != nil)")
		}
		c.Floor("C13-R1", "Spent assignments in unminedTxDetails", n, 1)
		// mined: Spent = stored || exists
		n = 0
		for _, l := range loopsContaining(mined, isStoreToField("Spent")) {
			n++
			bad := l.MustPassPerIteration(p, isStoreToField("Spent"), func(from *ssa.BasicBlock, si int) bool {
				f := edgeFactOf(from, si)
				if f == nil || f.Kind != "true" {
					return false
				}
				_, fld, _, ok := fieldOf(f.V)
				return ok && fld == "Spent"
			})
			c.Check("C13-R1", "mined-credit-Spent-ored-with-unconfirmed-spender", l.Header.Instrs[0].Pos(), bad == "",
				"a mined credit whose stored spent flag is false is reported without consulting the unconfirmed-spender index ("+bad+")")
			bad = l.MustPassPerIteration(p, isStoreToField("Credits"))
			c.Check("C13-R1", "mined-credit-appended-every-iteration", l.Header.Instrs[0].Pos(), bad == "", "a credit of a mined transaction is not reported ("+bad+")")
		}
		c.Floor("C13-R1", "credit loops with Spent update in minedTxDetails", n, 1)
		for _, st := range storesToField(mined, "Spent") {
			ok := valueFromNilTest(st.Val, "existsRawUnminedInput")
			c.Check("C13-R1", "mined-credit-Spent-source", st.Pos(), ok, "Spent flag update of a mined credit is not 'an unconfirmed spender exists'")
		}
		for _, l := range loopsContaining(mined, isStoreToField("Debits")) {
			bad := l.MustPassPerIteration(p, isStoreToField("Debits"))
			c.Check("C13-R1", "mined-debit-appended-every-iteration", l.Header.Instrs[0].Pos(), bad == "", "a debit of a mined transaction is not reported ("+bad+")")
		}
		// unmined debits: iff in u or in mc
		// the two lookups may sit in a private "is this a wallet credit" part that reports what it found as a bool: it
		// says true exactly on the found edges of the lookups it makes
		sources := []string{"existsRawUnspent", "existsRawUnminedCredit"}
		isSrcFound := func(f *edgeFact, only string) bool {
			if f == nil || f.Kind != "nonnil" {
				return false
			}
			for _, src := range sources {
				if (only == "" || only == src) && isResultOfCall(f.V, src, -1) {
					return true
				}
			}
			return false
		}
		creditHelpers := map[*ssa.Function]map[string]bool{}
		for _, h := range p.regionTop(unmined) {
			if h == unmined || h.Signature.Results().Len() != 2 || !isBoolType(h.Signature.Results().At(1).Type()) {
				continue
			}
			has := map[string]bool{}
			for _, src := range sources {
				if len(callsNamed(h, src)) > 0 {
					has[src] = true
				}
			}
			if len(has) == 0 {
				continue
			}
			valid := true
			for _, bb := range h.Blocks {
				r, isR := bb.Instrs[len(bb.Instrs)-1].(*ssa.Return)
				if !isR {
					continue
				}
				switch x := stripConv(r.Results[1]).(type) {
				case *ssa.Const:
					if x.Value != nil && x.Value.String() == "true" {
						// claimed "found": only reachable over a found edge
						if reachableAvoiding(h, nil, r, func(from *ssa.BasicBlock, si int) bool { return isSrcFound(edgeFactOf(from, si), "") }) {
							valid = false
						}
					}
				case *ssa.BinOp:
					okCmp := x.Op == token.NEQ && isNilConst(x.Y)
					if okCmp {
						okCmp = false
						for _, src := range sources {
							if isResultOfCall(x.X, src, -1) {
								okCmp = true
							}
						}
					}
					if !okCmp {
						valid = false
					}
				default:
					valid = false
				}
			}
			// found => says true: from a found edge no return says a constant false
			for _, bb := range h.Blocks {
				for si := range bb.Succs {
					if !isSrcFound(edgeFactOf(bb, si), "") {
						continue
					}
					q := &PathQuery{Fn: h}
					q.Target = func(ins ssa.Instruction, _ *ssa.BasicBlock) bool {
						r, isR := ins.(*ssa.Return)
						if !isR {
							return false
						}
						k, isK := stripConv(r.Results[1]).(*ssa.Const)
						return isK && k.Value != nil && k.Value.String() == "false"
					}
					if len(exploreFromBlock(q, bb.Succs[si], bb)) > 0 {
						valid = false
					}
				}
			}
			if valid {
				creditHelpers[h] = has
			}
		}
		// "a wallet credit was found" edges in the builder: a lookup's non-nil edge, or the true edge of such a part
		foundEdge := func(from *ssa.BasicBlock, si int, only string) bool {
			f := edgeFactOf(from, si)
			if isSrcFound(f, only) {
				return true
			}
			if f != nil && f.Kind == "true" {
				if ex, ok := f.V.(*ssa.Extract); ok && ex.Index == 1 {
					if hc, ok := ex.Tuple.(*ssa.Call); ok {
						if has, isH := creditHelpers[hc.Call.StaticCallee()]; isH && (only == "" || has[only]) {
							return true
						}
					}
				}
			}
			return false
		}
		for _, l := range loopsRangingOver(unmined, "TxIn") {
			isDeb := isStoreToField("Debits")
			for _, src := range sources {
				found := false
				for b := range l.Blocks {
					for si := range b.Succs {
						if !foundEdge(b, si, src) {
							continue
						}
						found = true
						q := &PathQuery{Fn: unmined, Barrier: isDeb, Target: p.nonErrorReturn()}
						q.EdgeBarrier = func(from *ssa.BasicBlock, s2 int) bool { return !l.Blocks[from.Succs[s2]] }
						q.LoopExit = func(from, to *ssa.BasicBlock) bool { return to == l.Header }
						hits := exploreFromBlock(q, b.Succs[si], b)
						c.Check("C13-R1", "unmined-debit-emitted-when:"+src, lastPos(b), len(hits) == 0,
							"an input of an unconfirmed transaction that spends a wallet credit ("+src+" != nil) gets no debit entry")
					}
				}
				if !found {
					c.Check("C13-R1", "unmined-debit-emitted-when:"+src, unmined.Pos(), false, "the unconfirmed detail builder does not consult "+src+" for debits")
				}
			}
			for _, st := range storesToField(unmined, "Debits") {
				if !l.Blocks[st.Block()] {
					continue
				}
				ok := !reachableAvoiding(unmined, nil, st, func(from *ssa.BasicBlock, si int) bool {
					return foundEdge(from, si, "")
				})
				c.Check("C13-R1", "unmined-debit-only-for-wallet-credits", st.Pos(), ok, "a debit is emitted for an input that spends neither an unspent mined credit nor an unconfirmed credit")
			}
			exits := l.EarlyExits(p)
			c.Check("C13-R1", "unmined-debit-loop-complete", l.Header.Instrs[0].Pos(), len(exits) == 0, "the debit loop can be left early: "+strings.Join(exits, "; "))
		}
	}

	// R2: lookup precedence
	for _, name := range []string{"TxDetails", "UniqueTxDetails"} {
		fn := wtxFn(c, "C13-R2", name)
		if fn == nil {
			continue
		}
		um := callsNamed(fn, "unminedTxDetails")
		mi := callsNamed(fn, "minedTxDetails")
		c.Floor("C13-R2", name+" builder calls", len(um)+len(mi), 2)
		for _, call := range um {
			ok := !reachableAvoiding(fn, nil, call, func(from *ssa.BasicBlock, si int) bool {
				f := edgeFactOf(from, si)
				return f != nil && f.Kind == "nonnil" && isResultOfCall(f.V, "existsRawUnmined", -1)
			})
			c.Check("C13-R2", "unmined-builder-only-if-in-unmined-bucket:"+name, call.Pos(), ok, name+" builds unconfirmed details without having found the record in the unmined bucket")
		}
		if name == "TxDetails" {
			for _, call := range mi {
				ok := !reachableAvoiding(fn, nil, call, func(from *ssa.BasicBlock, si int) bool {
					f := edgeFactOf(from, si)
					return f != nil && f.Kind == "nil" && isResultOfCall(f.V, "existsRawUnmined", -1)
				})
				c.Check("C13-R2", "unmined-takes-precedence:"+name, call.Pos(), ok, "TxDetails can report the mined record although the transaction is in the unmined bucket (current status is 'unconfirmed')")
			}
		}
	}
	if rt := wtxFn(c, "C13-R2", "RangeTransactions"); rt != nil {
		calls := callsNamed(rt, "rangeUnminedTransactions")
		c.Floor("C13-R2", "rangeUnminedTransactions calls in RangeTransactions", len(calls), 2)
		if len(calls) >= 2 {
			first, second := calls[0], calls[len(calls)-1]
			// second call guarded by a flag that is true on every path through the first call
			var flag *ssa.Phi
			ok := !reachableAvoiding(rt, nil, second, func(from *ssa.BasicBlock, si int) bool {
				f := edgeFactOf(from, si)
				if f == nil || f.Kind != "false" {
					return false
				}
				ph, isPhi := f.V.(*ssa.Phi)
				if !isPhi {
					return false
				}
				// every incoming edge from a block dominated by the first call carries const true
				for i, e := range ph.Edges {
					pred := ph.Block().Preds[i]
					if first.Block().Dominates(pred) {
						if b, isC := constBool(e); !isC || !b {
							return false
						}
					} else if b, isC := constBool(e); !isC || b {
						return false
					}
				}
				flag = ph
				return true
			})
			c.Check("C13-R2", "unmined-pass-at-most-once", second.Pos(), ok && flag != nil,
				"RangeTransactions can invoke the unconfirmed pass twice (the 'already added' flag does not guard the second call): unconfirmed transactions reported twice")
		}
	}

	// R3: iterator prefix bounds
	nIt := 0
	for _, fn := range p.FuncsIn("wtxmgr") {
		if fn.Signature.Recv() == nil || (fn.Name() != "next" && fn.Name() != "prev") {
			continue
		}
		rn := recvName(fn)
		if !strings.Contains(rn, "redit") && !strings.Contains(rn, "ebit") {
			continue
		}
		nIt++
		// a success (true) return is reachable only through bytes.HasPrefix(ck, prefix) true edge
		hp := callsNamed(fn, "HasPrefix")
		okAll := len(hp) > 0
		for _, b := range fn.Blocks {
			for _, ins := range b.Instrs {
				r, isR := ins.(*ssa.Return)
				if !isR || len(r.Results) != 1 {
					continue
				}
				if bv, isC := constBool(r.Results[0]); isC && !bv {
					continue
				}
				if reachableAvoiding(fn, nil, r, func(from *ssa.BasicBlock, si int) bool {
					f := edgeFactOf(from, si)
					return f != nil && f.Kind == "true" && isResultOfCall(f.V, "HasPrefix", -1)
				}) {
					okAll = false
				}
			}
		}
		for _, call := range hp {
			// second arg must be the iterator's prefix field
			_, fld, _, isF := fieldOf(call.Call.Args[1])
			if !isF || fld != "prefix" {
				okAll = false
			}
		}
		c.Check("C13-R3", "iterator-bounded-by-prefix:"+rn+"."+fn.Name(), fn.Pos(), okAll,
			"credit/debit iterator can yield a record whose key does not start with the transaction's record-key prefix (records of another transaction/block attributed)")
	}
	c.Floor("C13-R3", "credit/debit iterator step functions", nIt, 3)
	checkReverseSeekCorrected(c, "C13-R3")
	checkSeekHeightNonNegative(c, "C13-R3")
	checkRangeCallbackCopies(c, "C13-R2")
	checkTypeSwitchArmsAssignSameVar(c, "C13-R2", []*ssa.Function{c.P.Func("wallet", "Wallet", "GetTransactions")})

	runFlagTyping(c, "C13-R4")
	checkFlagBytesReadThroughMasks(c, "C13-R4")
	checkSummaryInputIndexIsTheDebits(c, "C13-R1")
	checkMissingLabelIsNotAnError(c, "C13-R3")
	checkRangeCallbackOnlyAfterSuccessfulRead(c, "C13-R1")
	checkLatestRecordWalksPastSeek(c, "C13-R3")
	// a debit exists for every input that spends a wallet credit — whatever the credit's amount
	checkMustPassOnSuccess(c, "C13-R2", "debit-always-written", c.P.Func("wtxmgr", "", "putDebit"), "Put",
		"putDebit can report success without writing the debit record (skipped on some condition, e.g. a zero amount): the spending transaction lists no debit for that input, and the rollback, which finds the spent credit through the debit, never marks it unspent again")
	runLoopCompletenessN(c, "C13-R1", []string{"PreviousPkScripts"}, 1)
	checkCreditRewriteFlags(c, "C13-R4")
	checkExistsThenPut(c, "C13-R4")
	checkConflictRemoval(c, "C13-R5")
	checkTxRecordHashIsTxid(c, "C13-R5")
	checkBoundsCheckNamesIndexedCollection(c, "C13-R1", []string{"minedTxDetails", "unminedTxDetails"})
	checkLoopCarriedStructs(c, "C13-R5", []string{"rollback", "updateMinedBalance"})
}

// valueFromNilTest: v is (call(name) != nil).
func valueFromNilTest(v ssa.Value, name string) bool {
	b, ok := v.(*ssa.BinOp)
	if !ok || b.Op != token.NEQ {
		return false
	}
	return (isResultOfCall(b.X, name, -1) && isNilConst(b.Y)) || (isResultOfCall(b.Y, name, -1) && isNilConst(b.X))
}

// ---- flag-bit typing ----

// maskOfBoolValue: v == ((x & M) != 0) -> M.
func maskOfBoolValue(v ssa.Value) (int64, bool) {
	b, ok := v.(*ssa.BinOp)
	if !ok || b.Op != token.NEQ {
		return 0, false
	}
	and, ok := b.X.(*ssa.BinOp)
	if !ok || and.Op != token.AND {
		return 0, false
	}
	if z, ok := constInt(b.Y); !ok || z != 0 {
		return 0, false
	}
	if m, ok := constInt(and.Y); ok {
		return m, true
	}
	if m, ok := constInt(and.X); ok {
		return m, true
	}
	return 0, false
}

// maskThroughParametrisedHelper: v is result #j of a call of a same-package helper whose result #j is `x & p != 0` for
// one of its parameters p, called with a constant for p: that constant.
func maskThroughParametrisedHelper(v ssa.Value) (int64, bool) {
	// (a helper with several results, or a plain predicate `hasFlag(v, <const mask>) bool`)
	var ex struct{ Index int }
	var call *ssa.Call
	switch x := stripConv(v).(type) {
	case *ssa.Extract:
		ex.Index = x.Index
		call, _ = x.Tuple.(*ssa.Call)
	case *ssa.Call:
		call = x
	}
	if call == nil {
		return 0, false
	}
	g := call.Call.StaticCallee()
	if g == nil || len(g.Blocks) == 0 || g.Pkg != call.Parent().Pkg {
		return 0, false
	}
	var mask int64 = -1
	for _, b := range g.Blocks {
		r, isR := b.Instrs[len(b.Instrs)-1].(*ssa.Return)
		if !isR || ex.Index >= len(r.Results) {
			continue
		}
		rv := r.Results[ex.Index]
		if bv, isC := constBool(rv); isC && !bv {
			continue
		}
		bo, ok := rv.(*ssa.BinOp)
		if !ok || bo.Op != token.NEQ {
			return 0, false
		}
		and, ok := bo.X.(*ssa.BinOp)
		if !ok || and.Op != token.AND {
			return 0, false
		}
		var prm *ssa.Parameter
		if q, isP := stripConv(and.Y).(*ssa.Parameter); isP {
			prm = q
		} else if q, isP := stripConv(and.X).(*ssa.Parameter); isP {
			prm = q
		}
		if prm == nil {
			return 0, false
		}
		idx := paramIndex(g, prm)
		if idx < 0 || idx >= len(call.Call.Args) {
			return 0, false
		}
		m, isK := constInt(call.Call.Args[idx])
		if !isK {
			return 0, false
		}
		if mask != -1 && mask != m {
			return 0, false
		}
		mask = m
	}
	return mask, mask > 0
}

func isBoolType(t types.Type) bool {
	b, ok := t.Underlying().(*types.Basic)
	return ok && b.Kind() == types.Bool
}

// maskWrittenUnder: the mask constant OR-ed / assigned into a byte under the true edge of cond value v (0 if none).
func maskWrittenUnder(fn *ssa.Function, v ssa.Value) int64 {
	for _, b := range fn.Blocks {
		if len(b.Instrs) == 0 {
			continue
		}
		iff, ok := b.Instrs[len(b.Instrs)-1].(*ssa.If)
		if !ok {
			continue
		}
		cv := iff.Cond
		if cv != v {
			if u, ok := cv.(*ssa.UnOp); !ok || u.Op != token.MUL || u.X != v {
				// load of field?
				continue
			}
		}
		for _, ins := range b.Succs[0].Instrs {
			st, ok := ins.(*ssa.Store)
			if !ok {
				continue
			}
			if m, ok := constInt(st.Val); ok {
				return m
			}
			if bo, ok := st.Val.(*ssa.BinOp); ok && bo.Op == token.OR {
				if m, ok := constInt(bo.Y); ok {
					return m
				}
				if m, ok := constInt(bo.X); ok {
					return m
				}
			}
		}
	}
	return 0
}

func runFlagTyping(c *Ctx, rule string) {
	p := c.P
	// 1. result typing
	type resKey struct {
		fn  *ssa.Function
		idx int
	}
	resMask := map[resKey]int64{}
	for _, fn := range p.FuncsIn("wtxmgr") {
		res := fn.Signature.Results()
		for k := 0; k < res.Len(); k++ {
			if !isBoolType(res.At(k).Type()) {
				continue
			}
			var mask int64 = -1
			for _, b := range fn.Blocks {
				for _, ins := range b.Instrs {
					r, ok := ins.(*ssa.Return)
					if !ok || k >= len(r.Results) {
						continue
					}
					v := r.Results[k]
					if bv, isC := constBool(v); isC && !bv {
						continue
					}
					m, ok := maskOfBoolValue(v)
					if !ok {
						// a wrapper over a fetcher that takes the mask as a parameter: fetchFlag(v, <const mask>)
						m, ok = maskThroughParametrisedHelper(v)
					}
					if !ok {
						mask = 0
					} else if mask == -1 || mask == m {
						mask = m
					} else {
						mask = 0
					}
				}
			}
			if mask > 0 {
				resMask[resKey{fn, k}] = mask
			}
		}
	}
	// 2. parameter typing (bool params guarding a mask write) and field typing
	paramMask := map[*ssa.Parameter]int64{}
	fieldMask := map[string]int64{} // "Type.field"
	for _, fn := range p.FuncsIn("wtxmgr") {
		for _, prm := range fn.Params {
			if isBoolType(prm.Type()) {
				if m := maskWrittenUnder(fn, prm); m > 0 {
					paramMask[prm] = m
				}
			}
		}
		for _, b := range fn.Blocks {
			for _, ins := range b.Instrs {
				switch x := ins.(type) {
				case *ssa.If:
					// field read as guard of a mask write
					if tn, f, _, ok := fieldOf(x.Cond); ok && isBoolType(x.Cond.Type()) {
						for _, i2 := range b.Succs[0].Instrs {
							if st, ok := i2.(*ssa.Store); ok {
								if bo, ok := st.Val.(*ssa.BinOp); ok && bo.Op == token.OR {
									if m, ok := constInt(bo.Y); ok {
										fieldMask[tn+"."+f] = m
									}
								} else if m, ok := constInt(st.Val); ok && m > 0 {
									fieldMask[tn+"."+f] = m
								}
							}
						}
					}
				case *ssa.Store:
					if fa, ok := x.Addr.(*ssa.FieldAddr); ok && isBoolType(x.Val.Type()) {
						m, ok := maskOfBoolValue(x.Val)
						if !ok {
							m, ok = maskThroughParametrisedHelper(x.Val)
						}
						if ok {
							tn, f := fieldAddrName(fa)
							fieldMask[tn+"."+f] = m
						}
					}
				}
			}
		}
	}
	c.Note("%s: typed results=%d params=%d fields=%v", rule, len(resMask), len(paramMask), fieldMask)
	c.Floor(rule, "flag-typed function results", len(resMask), 3)
	c.Floor(rule, "flag-typed parameters and fields", len(paramMask)+len(fieldMask), 3)

	// typeOf: mask of a bool value by provenance (0 = unknown/any)
	var typeOf func(v ssa.Value, depth int) (int64, string)
	typeOf = func(v ssa.Value, depth int) (int64, string) {
		sl := &Slicer{P: p, KeepExtract: true}
		for _, o := range sl.Origins(v) {
			switch x := o.(type) {
			case *ssa.Extract:
				if call, ok := x.Tuple.(*ssa.Call); ok {
					if f := call.Call.StaticCallee(); f != nil {
						if m, ok := resMask[resKey{f, x.Index}]; ok {
							return m, f.Name()
						}
					}
				}
			case *ssa.Call:
				if f := x.Call.StaticCallee(); f != nil {
					if m, ok := resMask[resKey{f, 0}]; ok {
						return m, f.Name()
					}
				}
			case *ssa.Parameter:
				if m, ok := paramMask[x]; ok {
					return m, "param " + x.Name()
				}
			case *ssa.BinOp:
				if m, ok := maskOfBoolValue(x); ok {
					return m, "mask test"
				}
			default:
				if tn, f, _, ok := fieldOf(o); ok {
					if m, ok := fieldMask[tn+"."+f]; ok {
						return m, tn + "." + f
					}
				}
			}
		}
		return 0, ""
	}
	// 3. check sinks
	n := 0
	for _, fn := range p.FuncsIn("wtxmgr") {
		for _, b := range fn.Blocks {
			for _, ins := range b.Instrs {
				switch x := ins.(type) {
				case *ssa.Call:
					f := x.Call.StaticCallee()
					if f == nil {
						continue
					}
					for i, prm := range f.Params {
						want, ok := paramMask[prm]
						if !ok || i >= len(x.Call.Args) {
							continue
						}
						n++
						got, src := typeOf(x.Call.Args[i], 0)
						c.Check(rule, fmt.Sprintf("flag-arg:%s->%s.%s", fn.Name(), f.Name(), prm.Name()), x.Pos(), got == 0 || got == want,
							fmt.Sprintf("argument for flag parameter %s of %s (bit mask %d) comes from %s, which carries bit mask %d: a different flag is written", prm.Name(), f.Name(), want, src, got))
					}
				case *ssa.Store:
					fa, ok := x.Addr.(*ssa.FieldAddr)
					if !ok || !isBoolType(x.Val.Type()) {
						continue
					}
					tn, f := fieldAddrName(fa)
					want, ok := fieldMask[tn+"."+f]
					if !ok {
						continue
					}
					n++
					got, src := typeOf(x.Val, 0)
					c.Check(rule, fmt.Sprintf("flag-store:%s->%s.%s", fn.Name(), tn, f), x.Pos(), got == 0 || got == want,
						fmt.Sprintf("value stored into flag field %s.%s (bit mask %d) comes from %s, which carries bit mask %d", tn, f, want, src, got))
				}
			}
		}
	}
	c.Floor(rule, "flag sinks checked", n, 4)
}

// checkScriptFetchKeyAndIndexAgree: a previous output is named by (transaction record, output index). Wherever the
// script of a previous output is fetched, the record key and the index handed to the fetcher are taken from ONE source:
// the same credit key (extract...TxRecordKey(x) with extract...Index(x)) or the same outpoint (p.Hash with p.Index).
// A debit's own key has the credit-key layout too, but its trailing index is the spending input's position: reading the
// index from it returns the script of another output of the previous transaction — for confirmed transactions only.
func checkScriptFetchKeyAndIndexAgree(c *Ctx, rule string) {
	p := c.P
	n := 0
	source := func(v ssa.Value) (ssa.Value, string) {
		for _, o := range (&Slicer{P: p}).Origins(v) {
			if call, ok := o.(*ssa.Call); ok {
				nm := calleeShort(&call.Call)
				if strings.HasPrefix(nm, "extractRawCredit") && len(call.Call.Args) == 1 {
					return stripConv(call.Call.Args[0]), "key"
				}
			}
			if _, f, base, ok := fieldOf(o); ok && (f == "Hash" || f == "Index") {
				return stripConv(base), "outpoint"
			}
			if fa, ok := o.(*ssa.FieldAddr); ok {
				if _, f := fieldAddrName(fa); f == "Hash" || f == "Index" {
					return stripConv(fa.X), "outpoint"
				}
			}
		}
		return nil, ""
	}
	// the fetcher, and wrappers that hand their own parameters straight on to it (a local closure that fetches and
	// appends): callee -> positions of the record key and the index among its arguments
	type pos struct{ key, idx int }
	fetchers := map[*ssa.Function]pos{}
	if f := p.Func("wtxmgr", "", "fetchRawTxRecordPkScript"); f != nil {
		fetchers[f] = pos{0, 2}
	}
	for round := 0; round < 2; round++ {
		for _, fn := range p.FuncsIn("wtxmgr") {
			if _, done := fetchers[fn]; done {
				continue
			}
			for _, ci := range callsOf(fn) {
				call, ok := ci.(*ssa.Call)
				if !ok {
					continue
				}
				ps, isF := fetchers[call.Call.StaticCallee()]
				if !isF || ps.key >= len(call.Call.Args) || ps.idx >= len(call.Call.Args) {
					continue
				}
				kp, ok1 := stripConv(call.Call.Args[ps.key]).(*ssa.Parameter)
				ip, ok2 := stripConv(call.Call.Args[ps.idx]).(*ssa.Parameter)
				if ok1 && ok2 && kp.Parent() == fn && ip.Parent() == fn {
					fetchers[fn] = pos{paramIndex(fn, kp), paramIndex(fn, ip)}
				}
			}
		}
	}
	for _, fn := range p.FuncsIn("wtxmgr") {
		if _, isWrapper := fetchers[fn]; isWrapper {
			continue
		}
		for _, ci := range callsOf(fn) {
			call, ok := ci.(*ssa.Call)
			if !ok {
				continue
			}
			ps, isF := fetchers[call.Call.StaticCallee()]
			if !isF || ps.key >= len(call.Call.Args) || ps.idx >= len(call.Call.Args) {
				continue
			}
			n++
			ks, kk := source(call.Call.Args[ps.key])
			is, ik := source(call.Call.Args[ps.idx])
			ok = ks != nil && is != nil && kk == ik && ks == is
			// a credit key that was looked up BY the outpoint (existsUnspent(ns, p)) names p's output
			if !ok && kk == "key" && ik == "outpoint" {
				for _, o := range (&Slicer{P: p, KeepExtract: true}).Origins(ks) {
					if ex, isEx := o.(*ssa.Extract); isEx {
						if lc, isCall := ex.Tuple.(*ssa.Call); isCall {
							for _, a := range lc.Call.Args {
								if stripConv(a) == is {
									ok = true
								}
							}
						}
					}
				}
			}
			c.Check(rule, "script-fetch-key-and-index-from-one-source:"+fnName(fn), call.Pos(), ok,
				fnName(fn)+" fetches a previous output's script with a record key and an output index that do not come from the same credit key / outpoint: for a confirmed transaction whose input position differs from the index of the output it spends, the script of the wrong output is returned")
		}
	}
	c.Floor(rule, "previous-output script fetches", n, 3)
}

// checkBlockQualifiedLookupUsesWholeBlock: a transaction is reported "under the block that currently confirms it": a
// detail lookup that is qualified with a block finds the record stored under exactly that block — height AND hash. The
// record handed to the mined-details builder comes from a lookup that was given the caller's block (the key builders
// take the whole block), not from a hash-only lookup filtered by height: after a reorganisation that re-mined the
// transaction at the same height, the latter answers for a block that does not confirm it.
func checkBlockQualifiedLookupUsesWholeBlock(c *Ctx, rule string) {
	p := c.P
	fn := wtxFn(c, rule, "UniqueTxDetails")
	if fn == nil {
		return
	}
	var blockPrm *ssa.Parameter
	for _, prm := range fn.Params {
		if strings.HasSuffix(prm.Type().String(), "wtxmgr.Block") {
			blockPrm = prm
		}
	}
	n := 0
	for _, f := range p.regionOf(fn) {
		for _, call := range callsNamed(f, "minedTxDetails") {
			n++
			ok := false
			if blockPrm != nil {
				for _, a := range call.Call.Args {
					// (the record's key and value may travel together in a small struct built at the call)
					for _, o := range (&Slicer{P: p, KeepExtract: true, ThroughFieldsOfAllocs: true, ThroughDeref: true}).Origins(a) {
						ex, isEx := o.(*ssa.Extract)
						if !isEx {
							continue
						}
						if lc, isCall := ex.Tuple.(*ssa.Call); isCall {
							for _, la := range lc.Call.Args {
								if stripConv(p.resolveParam(la)) == ssa.Value(blockPrm) {
									ok = true
								}
							}
						}
					}
				}
			}
			c.Check(rule, "block-qualified-lookup-uses-whole-block", call.Pos(), ok,
				"UniqueTxDetails builds the details of a mined transaction from a record that was not looked up under the caller's block (height and hash): asked about a competing block of the same height it reports the transaction under a block that does not confirm it")
		}
	}
	c.Floor(rule, "mined-detail builds in UniqueTxDetails", n, 1)
}

// checkDebitIndexIsInputPosition: a debit record names the input of its own transaction that spends a wallet credit.
// Where debits are built while ranging over the transaction's inputs, the index stored into the record is the loop's
// position — not the index of the previous output the input refers to (another number of the same type that is at hand
// in the same loop): with it the debit points at the wrong input whenever an output k is spent by an input other than k.
func checkDebitIndexIsInputPosition(c *Ctx, rule string) {
	p := c.P
	n := 0
	for _, fn := range p.FuncsIn("wtxmgr") {
		loops := loopsOf(fn)
		for _, b := range fn.Blocks {
			for _, ins := range b.Instrs {
				st, ok := ins.(*ssa.Store)
				if !ok {
					continue
				}
				fa, ok := st.Addr.(*ssa.FieldAddr)
				if !ok {
					continue
				}
				if tn, fld := fieldAddrName(fa); tn != "DebitRecord" || fld != "Index" {
					continue
				}
				l := innermostLoopOf(loops, st)
				if l == nil || !strings.Contains(l.Over, "TxIn") {
					continue
				}
				n++
				fromCounter, fromField := false, ""
				v := stripConv(st.Val)
				for depth := 0; depth < 4; depth++ {
					if bo, isBo := v.(*ssa.BinOp); isBo && bo.Op == token.ADD {
						v = stripConv(bo.X)
						continue
					}
					break
				}
				if ph, isPhi := v.(*ssa.Phi); isPhi && l.Blocks[ph.Block()] {
					fromCounter = true
				}
				for _, o := range (&Slicer{P: p}).Origins(st.Val) {
					if _, f, _, okf := fieldOf(o); okf {
						fromField = f
					}
				}
				c.Check(rule, "debit-index-is-input-position:"+fn.Name(), st.Pos(), fromCounter && fromField == "",
					fnName(fn)+" stores into a debit record an index that is not the position of the input in the loop over the transaction's inputs (it comes from field "+fromField+"): the debit names the wrong input of the transaction")
			}
		}
	}
	c.Floor(rule, "debit records built while ranging over the inputs", n, 2)
}

// checkFlagBytesReadThroughMasks: a record's flags byte carries several independent bits (spent, change). It is read
// through single-bit mask tests; a whole-byte comparison (`v[8] == 1<<0`) answers false as soon as another bit is set as
// well — a spent change credit then reads as unspent. The flag bytes are found by role: the constant positions of byte
// slices at which some function of the package tests or sets a single bit. Rule: no load from such a position is compared
// for (in)equality with a non-zero constant.
func checkFlagBytesReadThroughMasks(c *Ctx, rule string) {
	p := c.P
	constIdxLoad := func(v ssa.Value) (int64, bool) {
		u, ok := stripConv(v).(*ssa.UnOp)
		if !ok || u.Op != token.MUL {
			return 0, false
		}
		ia, ok := u.X.(*ssa.IndexAddr)
		if !ok {
			return 0, false
		}
		if sl, ok := ia.X.Type().Underlying().(*types.Slice); !ok || !isByteType(sl.Elem()) {
			return 0, false
		}
		return constInt(ia.Index)
	}
	singleBit := func(m int64) bool { return m > 0 && m&(m-1) == 0 }
	flagIdx := map[int64]int{}
	type cmp struct {
		fn  *ssa.Function
		bo  *ssa.BinOp
		idx int64
	}
	var cmps []cmp
	for _, fn := range p.FuncsIn("wtxmgr") {
		for _, b := range fn.Blocks {
			for _, ins := range b.Instrs {
				bo, ok := ins.(*ssa.BinOp)
				if !ok {
					continue
				}
				for _, pair := range [][2]ssa.Value{{bo.X, bo.Y}, {bo.Y, bo.X}} {
					idx, isLoad := constIdxLoad(pair[0])
					k, isK := constInt(pair[1])
					if !isLoad || !isK {
						continue
					}
					switch bo.Op {
					case token.AND, token.OR, token.AND_NOT:
						if singleBit(k) || (bo.Op == token.AND && singleBit(^k&0xff)) {
							flagIdx[idx]++
						}
					case token.EQL, token.NEQ:
						if k != 0 {
							cmps = append(cmps, cmp{fn, bo, idx})
						}
					}
				}
			}
		}
	}
	n := 0
	for _, k := range flagIdx {
		n += k
	}
	for _, cm := range cmps {
		if flagIdx[cm.idx] == 0 {
			continue
		}
		c.Check(rule, "flag-byte-read-through-mask:"+cm.fn.Name(), cm.bo.Pos(), false,
			cm.fn.Name()+" compares a whole flags byte with a constant: the answer is wrong as soon as another flag of the same byte is set (a spent CHANGE credit reads as unspent, and the balance passes subtract it a second time)")
	}
	c.Floor(rule, "single-bit tests and updates of record flag bytes", n, 6)
}

func isByteType(t types.Type) bool {
	b, ok := t.Underlying().(*types.Basic)
	return ok && (b.Kind() == types.Uint8 || b.Kind() == types.Byte)
}

// checkSummaryInputIndexIsTheDebits: the wallet's transaction summaries list "my inputs" from the store's debit records.
// The input each entry names is the debit's own Index — the position in the debit list is something else as soon as an
// input that is not the wallet's precedes one that is (the amount then sits on an input that spends no wallet credit).
func checkSummaryInputIndexIsTheDebits(c *Ctx, rule string) {
	p := c.P
	n := 0
	for _, fn := range p.FuncsIn("wallet") {
		for _, b := range fn.Blocks {
			for _, ins := range b.Instrs {
				st, ok := ins.(*ssa.Store)
				if !ok {
					continue
				}
				fa, ok := st.Addr.(*ssa.FieldAddr)
				if !ok {
					continue
				}
				if tn, f := fieldAddrName(fa); tn != "TransactionSummaryInput" || f != "Index" {
					continue
				}
				n++
				fromDebit := false
				for _, o := range (&Slicer{P: p, ThroughDeref: true}).Origins(st.Val) {
					if tn, f, _, ok := fieldOf(o); ok && f == "Index" && tn == "DebitRecord" {
						fromDebit = true
					}
				}
				c.Check(rule, "summary-input-index-is-the-debits:"+fn.Name(), st.Pos(), fromDebit,
					fnName(fn)+" does not take the index of a reported wallet input from the debit record (DebitRecord.Index): with a foreign input ahead of a wallet input the debit is reported for an input that does not spend a wallet credit")
			}
		}
	}
	c.Floor(rule, "wallet input entries of transaction summaries", n, 1)
}

// checkMissingLabelIsNotAnError: the detail builders end with the transaction's label; most transactions have none. The
// label lookup therefore maps BOTH "no label bucket yet" and "no label for this transaction" to the empty label: each of
// the two sentinels is tested in TxLabel and its matching edge leads to a return without error. With one arm missing,
// every unlabelled transaction stops being reported the moment the first label is written.
func checkMissingLabelIsNotAnError(c *Ctx, rule string) {
	p := c.P
	fn := wtxFn(c, rule, "TxLabel")
	if fn == nil {
		return
	}
	for _, sentinel := range []string{"ErrNoLabelBucket", "ErrTxLabelNotFound"} {
		ok := false
		for _, f := range p.regionOf(fn) {
			for _, b := range f.Blocks {
				for si := range b.Succs {
					s, isTrue, okS := errIsSentinel(b, si)
					if !okS {
						// `switch err { case ErrX:` / `err == ErrX`
						if iff, isIf := b.Instrs[len(b.Instrs)-1].(*ssa.If); isIf {
							inner, neg := unwrapNot(iff.Cond)
							if bo, isBo := inner.(*ssa.BinOp); isBo && (bo.Op == token.EQL || bo.Op == token.NEQ) {
								for _, side := range []ssa.Value{bo.X, bo.Y} {
									if u, isU := stripConv(side).(*ssa.UnOp); isU {
										if g, isG := u.X.(*ssa.Global); isG {
											s, okS = g.Name(), true
											isTrue = ((bo.Op == token.EQL) != neg) == (si == 0)
										}
									}
								}
							}
						}
					}
					if !okS || !isTrue || !strings.HasSuffix(s, sentinel) {
						continue
					}
					q := &PathQuery{Fn: f, Target: p.nonErrorReturn()}
					if len(exploreFromBlock(q, b.Succs[si], b)) > 0 {
						ok = true
					}
				}
			}
		}
		c.Check(rule, "missing-label-is-not-an-error:"+sentinel, fn.Pos(), ok,
			"TxLabel does not turn "+sentinel+" into the empty label: TxDetails / RangeTransactions fail with it for every transaction that has no label, so known transactions are no longer reported")
	}
}
