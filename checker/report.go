package main

import (
	"encoding/json"
	"fmt"
	"go/token"
	"os"
	"path/filepath"
	"sort"
	"strings"
	"time"
)

// Obligation is one decided rule instance.
type Obligation struct {
	Rule      string `json:"rule"`
	Construct string `json:"construct"` // stable key: function / callee / role, no line numbers
	Pos       string `json:"pos,omitempty"`
	OK        bool   `json:"ok"`
	Detail    string `json:"detail,omitempty"`
	Requires  string `json:"requires,omitempty"` // what a failure would mean (for discharged obligations)
	Known     bool   `json:"known_finding,omitempty"`
}

type FloorCheck struct {
	Rule  string `json:"rule"`
	What  string `json:"what"`
	Got   int    `json:"got"`
	Floor int    `json:"floor"`
}

// Ctx collects the results of one property run.
type Ctx struct {
	P          *Program
	Prop       string
	Obls       []Obligation
	Floors     []FloorCheck
	Advisories []string
	Notes      []string
	seen       map[string]bool
}

func newCtx(p *Program, prop string) *Ctx {
	return &Ctx{P: p, Prop: prop, seen: map[string]bool{}}
}

// Check records an obligation. construct must be a stable identifier.
func (c *Ctx) Check(rule, construct string, pos token.Pos, ok bool, detail string) bool {
	key := rule + "|" + construct
	if c.seen[key] {
		// same construct decided twice (e.g. two sites in one function with the
		// same role): disambiguate by ordinal
		for i := 2; ; i++ {
			k2 := fmt.Sprintf("%s#%d", key, i)
			if !c.seen[k2] {
				construct = fmt.Sprintf("%s#%d", construct, i)
				key = k2
				break
			}
		}
	}
	c.seen[key] = true
	o := Obligation{Rule: rule, Construct: construct, Pos: c.P.Pos(pos), OK: ok}
	if ok {
		o.Requires = detail
	} else {
		o.Detail = detail
	}
	c.Obls = append(c.Obls, o)
	return ok
}

// Borrow runs another property's rule function on a scratch context and adopts the obligations it records under
// fromRule (those keep accepts) as obligations of this property under toRule. Used where one structural fact is a
// necessary condition of several properties but its check lives inside the other property's rule function.
func (c *Ctx) Borrow(run func(*Ctx), fromRule, toRule string, keep func(construct string) bool) int {
	c2 := newCtx(c.P, c.Prop)
	run(c2)
	n := 0
	for _, o := range c2.Obls {
		if o.Rule != fromRule || (keep != nil && !keep(o.Construct)) {
			continue
		}
		n++
		key := toRule + "|" + o.Construct
		if c.seen[key] {
			continue
		}
		c.seen[key] = true
		o.Rule = toRule
		c.Obls = append(c.Obls, o)
	}
	return n
}

// Unresolved records an anchor that could not be found: always a failure.
func (c *Ctx) Unresolved(rule, what string) {
	c.Obls = append(c.Obls, Obligation{Rule: rule, Construct: "UNRESOLVED-ANCHOR " + what, OK: false, Detail: "anchor could not be resolved in the loaded program; the rule cannot decide"})
}

// Floor is the anti-vacuity guard of a rule: `floor` is the number of instances confirmed by hand on the reference tree.
// The guard fires when fewer than half of them (rounded up, at least one) are found: a rule whose finder no longer
// matches the code must not pass silently, but merging two duplicated sites into one is not a reason to alarm (the
// neutral waves showed floors equal to the current count to be the commonest false alarm).
func (c *Ctx) Floor(rule, what string, got, floor int) {
	c.Floors = append(c.Floors, FloorCheck{rule, what, got, floor})
	eff := floor
	if floor > 1 {
		eff = (floor + 1) / 2
	}
	if got < eff {
		c.Obls = append(c.Obls, Obligation{Rule: rule, Construct: "FLOOR " + what, OK: false,
			Detail: fmt.Sprintf("rule matched %d instances of %q, fewer than half of the %d confirmed by hand: the rule would pass vacuously", got, what, floor)})
	}
}

func (c *Ctx) Advisory(format string, a ...interface{}) {
	c.Advisories = append(c.Advisories, fmt.Sprintf(format, a...))
}

func (c *Ctx) Note(format string, a ...interface{}) {
	c.Notes = append(c.Notes, fmt.Sprintf(format, a...))
}

// ---------- known findings ----------

type KnownFinding struct {
	Property  string `json:"property"`
	Rule      string `json:"rule"`
	Construct string `json:"construct"`
	What      string `json:"what"`
	Status    string `json:"status"` // "open" or "fixed"
	Commit    string `json:"commit,omitempty"`
}

type knownFile struct {
	Findings []KnownFinding `json:"findings"`
	Fixed    []string       `json:"fixed"`
}

func verifDir() string {
	if d := os.Getenv("VERIF_DIR"); d != "" {
		return d
	}
	exe, err := os.Executable()
	if err == nil {
		d := filepath.Dir(filepath.Dir(exe))
		if _, err := os.Stat(filepath.Join(d, "properties.jsonl")); err == nil {
			return d
		}
	}
	return "/verif"
}

func evidenceDir() string {
	if d := os.Getenv("VERIF_EVIDENCE_DIR"); d != "" {
		return d
	}
	return filepath.Join(verifDir(), "evidence")
}

func loadKnown() ([]KnownFinding, error) {
	data, err := os.ReadFile(filepath.Join(verifDir(), "known_findings.json"))
	if err != nil {
		if os.IsNotExist(err) {
			return nil, nil
		}
		return nil, err
	}
	var kf knownFile
	if err := json.Unmarshal(data, &kf); err != nil {
		return nil, err
	}
	return kf.Findings, nil
}

// ---------- evidence ----------

type evidence struct {
	PropertyID  string                 `json:"property_id"`
	Tier        string                 `json:"tier"`
	Seed        int                    `json:"seed"`
	Level       string                 `json:"level"`
	Coverage    map[string]interface{} `json:"coverage"`
	Assumptions []string               `json:"assumptions"`
	WallS       float64                `json:"wall_s"`
	Violations  int                    `json:"violations"`
}

type propSpec struct {
	ID          string
	Explanation string
	Assumptions []string
	Run         func(c *Ctx)
}

// finish prints results, writes evidence, returns exit code.
func (c *Ctx) finish(spec *propSpec, tier string, seed int, start time.Time, extra map[string]interface{}) int {
	known, kerr := loadKnown()
	evdir := evidenceDir()
	os.MkdirAll(filepath.Join(evdir, "violations"), 0o755)
	// remove stale replay files for this property
	if old, _ := filepath.Glob(filepath.Join(evdir, "violations", c.Prop+"-*.json")); old != nil {
		for _, f := range old {
			os.Remove(f)
		}
	}
	if kerr != nil {
		c.Obls = append(c.Obls, Obligation{Rule: "infra", Construct: "known_findings.json", OK: false, Detail: kerr.Error()})
	}
	matched := map[int]bool{}
	var violations []Obligation
	var knownHits []string
	for i := range c.Obls {
		o := &c.Obls[i]
		if o.OK {
			continue
		}
		isKnown := false
		for ki, k := range known {
			if k.Status == "open" && k.Property == c.Prop && k.Rule == o.Rule && k.Construct == o.Construct {
				isKnown = true
				if !matched[ki] {
					matched[ki] = true
					knownHits = append(knownHits, fmt.Sprintf("KNOWN-FINDING: property=%s %s [%s %s at %s]", c.Prop, k.What, o.Rule, o.Construct, o.Pos))
				}
				break
			}
		}
		if isKnown {
			o.Known = true
			continue
		}
		violations = append(violations, *o)
	}
	for _, l := range knownHits {
		fmt.Println(l)
	}
	for ki, k := range known {
		if k.Status == "open" && k.Property == c.Prop && !matched[ki] {
			fmt.Printf("STALE-FINDING: property=%s rule=%s construct=%q no longer detected (informational)\n", c.Prop, k.Rule, k.Construct)
		}
	}
	for _, a := range c.Advisories {
		fmt.Printf("ADVISORY: property=%s %s\n", c.Prop, a)
	}
	for i, v := range violations {
		path := filepath.Join(evdir, "violations", fmt.Sprintf("%s-%d.json", c.Prop, i+1))
		data, _ := json.MarshalIndent(map[string]interface{}{
			"property": c.Prop, "rule": v.Rule, "construct": v.Construct, "pos": v.Pos, "detail": v.Detail,
			"repo": c.P.RepoDir,
		}, "", " ")
		os.WriteFile(path, data, 0o644)
		fmt.Printf("REPORT %s %s: %s — %s (%s)\n", c.Prop, v.Rule, v.Construct, v.Detail, v.Pos)
		fmt.Printf("VIOLATION property=%s replay=%s\n", c.Prop, path)
	}

	total := len(c.Obls)
	discharged := 0
	distinct := map[string]bool{}
	perRule := map[string]int{}
	for _, o := range c.Obls {
		if o.OK {
			discharged++
		}
		distinct[o.Rule+"|"+o.Construct] = true
		perRule[o.Rule]++
	}
	var samples []Obligation
	// sample: first obligation of each rule, up to 12, plus all failing ones
	seenRule := map[string]int{}
	for _, o := range c.Obls {
		if !o.OK || seenRule[o.Rule] < 2 {
			samples = append(samples, o)
			seenRule[o.Rule]++
		}
		if len(samples) >= 40 {
			break
		}
	}
	var pkgs []string
	for _, pk := range c.P.Pkgs {
		pkgs = append(pkgs, shortPkg(pk.PkgPath))
	}
	var ruleNames []string
	for r := range perRule {
		ruleNames = append(ruleNames, r)
	}
	sort.Strings(ruleNames)
	cov := map[string]interface{}{
		"explanation":         spec.Explanation,
		"obligations":         total,
		"discharged":          discharged,
		"evaluations":         total,
		"distinct_nontrivial": len(distinct),
		"rule":                "one evaluation = one (rule, construct) obligation decided on the SSA/CFG/call graph of /repo's working tree; distinct = distinct (rule, construct) keys; every obligation examined at least one path, site or provenance chain (vacuous matches are excluded by the per-rule floors)",
		"samples":             samples,
		"per_rule_instances":  perRule,
		"floors":              c.Floors,
		"packages_loaded":     len(c.P.Pkgs),
		"packages":            pkgs,
		"files_analysed":      c.P.Files,
		"functions_analysed":  len(c.P.RepoFuncs),
		"advisories":          c.Advisories,
		"notes":               c.Notes,
		"known_findings":      knownHits,
		"checker_cmd":         "bin/vcheck -property " + c.Prop + " -tier " + tier,
		"exhaustive":          true,
		"all_obligations":     c.Obls,
	}
	for k, v := range extra {
		cov[k] = v
	}
	if len(c.P.Canon) > 0 {
		cov["canonicalised"] = c.P.Canon
		fmt.Printf("NOTE %s: %d renamed identifier(s) analysed under their reference names (see evidence 'canonicalised')\n", c.Prop, len(c.P.Canon))
	}
	if spec.Assumptions == nil {
		spec.Assumptions = []string{}
	}
	ev := evidence{
		PropertyID: c.Prop, Tier: tier, Seed: seed, Level: "other",
		Coverage:    cov,
		Assumptions: spec.Assumptions,
		WallS:       time.Since(start).Seconds(),
		Violations:  len(violations),
	}
	data, _ := json.MarshalIndent(ev, "", " ")
	if err := os.WriteFile(filepath.Join(evdir, c.Prop+".json"), data, 0o644); err != nil {
		fmt.Fprintf(os.Stderr, "cannot write evidence: %v\n", err)
		return 2
	}
	fmt.Printf("%s: %d obligations over %d rules, %d discharged, %d known findings, %d violations, %d advisories (%.1fs, %s)\n",
		c.Prop, total, len(perRule), discharged, len(knownHits), len(violations), len(c.Advisories), time.Since(start).Seconds(), strings.Join(ruleNames, " "))
	if len(violations) > 0 {
		return 1
	}
	return 0
}
