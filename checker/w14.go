package main

// Rules added after seeded wave 14 (DESIGN.md 8.1l).

import (
	"fmt"
	"go/constant"
	"go/token"
	"go/types"
	"sort"
	"strings"

	"golang.org/x/tools/go/ssa"
)

// checkLockStateTestedUnderManagerMutex: Manager.Unlock holds the manager mutex for its whole duration and clears the
// locked flag as its very last step; a Lock() that tests the flag before it has the mutex can read "locked" while an
// Unlock is in flight, refuse, and leave the manager unlocked although its caller asked for the keys to be wiped. In an
// exported Manager method that takes the manager mutex for writing, the locked flag is only read with the mutex held.
func checkLockStateTestedUnderManagerMutex(c *Ctx, rule string) {
	p := c.P
	n := 0
	for _, fn := range p.FuncsIn("waddrmgr") {
		if fn.Parent() != nil || recvName(fn) != "Manager" || fn.Object() == nil || !fn.Object().Exported() {
			continue
		}
		// takes m.mtx.Lock() itself (not RLock: readers tolerate a stale answer)
		takes := false
		for _, ci := range callsOf(fn) {
			if calleeShort(ci.Common()) != "Lock" || len(ci.Common().Args) == 0 {
				continue
			}
			if fa, ok := stripConv(ci.Common().Args[0]).(*ssa.FieldAddr); ok {
				if tn, f := fieldAddrName(fa); tn == "Manager" && f == "mtx" {
					takes = true
				}
			}
		}
		if !takes {
			continue
		}
		for _, ci := range callsOf(fn) {
			call, ok := ci.(*ssa.Call)
			if !ok || calleeShort(&call.Call) != "IsLocked" {
				continue
			}
			if g := call.Call.StaticCallee(); g == nil || recvName(g) != "Manager" {
				continue
			}
			n++
			held, _ := p.heldUpward(call, 0, map[*ssa.Function]bool{})
			c.Check(rule, "lock-state-tested-under-manager-mutex:"+fn.Name(), call.Pos(), held["waddrmgr.Manager.mtx"],
				"Manager."+fn.Name()+" reads the locked flag before it holds the manager mutex it takes afterwards (held: "+lsString(held)+"): while an Unlock is in flight the flag still says locked, the method refuses, and the manager stays unlocked with every key in memory")
		}
	}
	c.Floor(rule, "locked-flag tests in exported Manager methods that take the write lock", n, 1)
}

// checkUnlockHoldSpansCreation: the serialising goroutine obtains a hold on the unlocked state before it creates a
// transaction; the hold keeps the locker goroutine from serving a Lock (or an unlock timeout) between coin selection and
// signing — a locked manager answers "watch-only" for every account and the transaction comes back unsigned with a nil
// error. Between obtaining the hold and the call that creates the transaction the hold is not released.
func checkUnlockHoldSpansCreation(c *Ctx, rule string) {
	p := c.P
	tc := p.Func("wallet", "Wallet", "txCreator")
	if tc == nil {
		c.Unresolved(rule, "wallet.Wallet.txCreator")
		return
	}
	isRelease := func(ins ssa.Instruction) bool {
		ci, ok := ins.(ssa.CallInstruction)
		if !ok {
			return false
		}
		if g := ci.Common().StaticCallee(); g != nil && g.Name() == "release" {
			return true
		}
		if ci.Common().IsInvoke() {
			return false
		}
		for _, o := range (&Slicer{P: p}).Origins(ci.Common().Value) {
			if mc, ok := o.(*ssa.MakeClosure); ok {
				if f, ok := mc.Fn.(*ssa.Function); ok && strings.HasPrefix(f.Name(), "release") {
					return true
				}
			}
		}
		return false
	}
	n := 0
	for _, f := range p.regionOf(tc) {
		holds := callsNamed(f, "holdUnlock")
		creates := callsNamed(f, "txToOutputs")
		if len(holds) == 0 || len(creates) == 0 {
			continue
		}
		for _, h := range holds {
			n++
			q := &PathQuery{Fn: f, Barrier: func(i ssa.Instruction) bool {
				call, ok := i.(*ssa.Call)
				return ok && calleeShort(&call.Call) == "txToOutputs"
			}}
			q.Target = func(i ssa.Instruction, _ *ssa.BasicBlock) bool { return isRelease(i) }
			early := q.From(h)
			// ... and it is released afterwards (a hold that is never given back blocks every later Lock)
			after := false
			for _, cr := range creates {
				q2 := &PathQuery{Fn: f, Target: func(i ssa.Instruction, _ *ssa.BasicBlock) bool { return isRelease(i) }}
				if len(q2.From(cr)) > 0 {
					after = true
				}
			}
			c.Check(rule, "unlock-hold-spans-creation", h.Pos(), len(early) == 0 && after,
				"txCreator gives the unlock hold back before txToOutputs has returned (or never after it): a Lock served between coin selection and signing makes every account look watch-only, and an unsigned transaction is returned with a nil error, recorded and published")
		}
	}
	c.Floor(rule, "unlock holds in the serialising goroutine", n, 1)
}

// checkMinInputSizeConstantsByKind: GetMinInputVirtualSize picks a base size and a witness weight per input kind; every
// constant selected on an arm is one of the package's constants of the kind whose predicate leads to that arm.
func checkMinInputSizeConstantsByKind(c *Ctx, rule string) {
	p := c.P
	fn := pkgFn(c, rule, "wallet/txsizes", "GetMinInputVirtualSize")
	if fn == nil {
		return
	}
	token2 := map[string]string{"IsPayToTaproot": "P2TR", "IsPayToWitnessPubKeyHash": "P2WPKH", "IsPayToScriptHash": "NestedP2WPKH"}
	// values of the package's constants per kind token
	vals := map[string]map[int64]string{}
	if pk := p.ByPath[rel("wallet/txsizes")]; pk != nil {
		sc := pk.Types.Scope()
		for _, name := range sc.Names() {
			cst, ok := sc.Lookup(name).(*types.Const)
			if !ok {
				continue
			}
			v, ok := constant.Int64Val(cst.Val())
			if !ok {
				continue
			}
			for _, tk := range token2 {
				if !strings.Contains(name, tk) || (tk == "P2WPKH" && strings.Contains(name, "Nested")) {
					continue
				}
				if vals[tk] == nil {
					vals[tk] = map[int64]string{}
				}
				vals[tk][v] = name
			}
		}
	}
	// kinds whose true edge enters block b (directly, or through the blocks of a multi-expression case)
	var kindsInto func(b *ssa.BasicBlock, depth int) []string
	kindsInto = func(b *ssa.BasicBlock, depth int) []string {
		var out []string
		for _, pr := range b.Preds {
			iff, ok := pr.Instrs[len(pr.Instrs)-1].(*ssa.If)
			if !ok {
				continue
			}
			call, ok := iff.Cond.(*ssa.Call)
			if !ok || pr.Succs[0] != b {
				continue
			}
			if tk, ok := token2[calleeShort(&call.Call)]; ok {
				out = append(out, tk)
			}
		}
		return out
	}
	n := 0
	judge := func(tk string, k int64, what string, pos token.Pos) {
		n++
		_, okv := vals[tk][k]
		if tk == "NestedP2WPKH" && !okv {
			// the witness of a nested P2WPKH input is the P2WPKH witness
			if nm, isW := vals["P2WPKH"][k]; isW && strings.Contains(nm, "Witness") {
				okv = true
			}
		}
		var names []string
		for _, nm := range vals[tk] {
			names = append(names, nm)
		}
		sort.Strings(names)
		c.Check(rule, "min-input-size-constant-of-its-kind:"+tk+"/"+what, pos, okv,
			fmt.Sprintf("GetMinInputVirtualSize selects %d for %s on the arm its %s predicate leads to, which is none of that kind's constants (%s): the minimum size of such an input is wrong and the coin selector's \"does this coin pay for itself\" test drops coins that do (or keeps coins that do not)", k, what, tk, strings.Join(names, ", ")))
	}
	for _, f := range p.regionOf(fn) {
		for _, b := range f.Blocks {
			for _, ins := range b.Instrs {
				switch x := ins.(type) {
				case *ssa.Phi:
					// form 1: one variable per quantity, assigned on the arms
					for i, e := range x.Edges {
						if k, isK := constInt(e); isK {
							for _, tk := range kindsInto(b.Preds[i], 0) {
								judge(tk, k, x.Comment, e.Pos())
							}
						}
					}
				case *ssa.Call:
					// form 4: the quantities of the kind handed to a part of the package right on the arm
					if h := x.Call.StaticCallee(); h != nil && h.Pkg == fn.Pkg {
						for ai, a := range x.Call.Args {
							if k, isK := constInt(a); isK {
								for _, tk := range kindsInto(b, 0) {
									judge(tk, k, fmt.Sprintf("argument %d of %s", ai, h.Name()), x.Pos())
								}
							}
						}
					}
				case *ssa.Return:
					// form 2: a part that returns the quantities of the kind from the arm itself
					for ri := range x.Results {
						if k, isK := constInt(effectiveResult(x, ri)); isK {
							for _, tk := range kindsInto(b, 0) {
								judge(tk, k, fmt.Sprintf("result %d", ri), x.Pos())
							}
						}
					}
				}
			}
		}
	}
	// form 3: a table of {predicate, quantities} entries (a package-level composite literal: its stores are in init)
	if sp := fn.Pkg; sp != nil {
		if init := sp.Func("init"); init != nil {
			for _, b := range init.Blocks {
				for _, ins := range b.Instrs {
					st, ok := ins.(*ssa.Store)
					if !ok {
						continue
					}
					var pred *ssa.Function
					switch v := stripConv(st.Val).(type) {
					case *ssa.Function:
						pred = v
					case *ssa.MakeClosure:
						pred, _ = v.Fn.(*ssa.Function)
					}
					if pred == nil {
						continue
					}
					tk, isKind := token2[pred.Name()]
					if _, isFA := st.Addr.(*ssa.FieldAddr); !isKind || !isFA {
						continue
					}
					// the entry: the element behind the (possibly nested) field addresses
					entryOf := func(a ssa.Value) ssa.Value {
						for {
							fa, ok := a.(*ssa.FieldAddr)
							if !ok {
								return a
							}
							a = fa.X
						}
					}
					entry := entryOf(st.Addr)
					for _, b2 := range init.Blocks {
						for _, i2 := range b2.Instrs {
							st2, ok := i2.(*ssa.Store)
							if !ok || st2 == st {
								continue
							}
							fa2, ok := st2.Addr.(*ssa.FieldAddr)
							if !ok || entryOf(fa2) != entry {
								continue
							}
							if k, isK := constInt(st2.Val); isK {
								_, fname := fieldAddrName(fa2)
								judge(tk, k, fname, st2.Pos())
							}
						}
					}
				}
			}
		}
	}
	c.Floor(rule, "per-kind constants selected by GetMinInputVirtualSize", n, 4)
}

// checkFeeProductOverflowGuard: FeeForSerializeSize multiplies rate by size in int64; a product beyond 2^63 wraps
// negative. The function clamps: some branch of it is taken exactly when the computed fee is below zero.
func checkFeeProductOverflowGuard(c *Ctx, rule string) {
	p := c.P
	fn := pkgFn(c, rule, "wallet/txrules", "FeeForSerializeSize")
	if fn == nil {
		return
	}
	found := false
	var walk func(cond ssa.Value, depth int)
	walk = func(cond ssa.Value, depth int) {
		if depth > 3 {
			return
		}
		if ph, ok := cond.(*ssa.Phi); ok {
			for i, e := range ph.Edges {
				walk(e, depth+1)
				if iff, ok := ph.Block().Preds[i].Instrs[len(ph.Block().Preds[i].Instrs)-1].(*ssa.If); ok {
					walk(iff.Cond, depth+1)
				}
			}
			return
		}
		for _, taken := range []bool{true, false} {
			f, ok := p.cmpForm(cond, taken)
			if !ok || f.Rel != "<" || len(f.L.Coef) != 1 || f.L.Konst != 0 {
				continue
			}
			for _, k := range f.L.Coef {
				if k == 1 {
					found = true
				}
			}
		}
	}
	for _, f := range p.regionOf(fn) {
		for _, b := range f.Blocks {
			if iff, ok := b.Instrs[len(b.Instrs)-1].(*ssa.If); ok {
				walk(iff.Cond, 0)
			}
		}
	}
	c.Check(rule, "fee-product-overflow-guarded", fn.Pos(), found,
		"FeeForSerializeSize has no branch on \"the computed fee is negative\": rate×size beyond 2^63 wraps to a negative fee, the author's funds test passes for any coins and the change exceeds the inputs")
}

// checkRowFieldReadsAtDistinctOffsets: a row deserialiser reads each fixed-width field at its own offset; two reads of the
// same width at the same (normalised) offset decode one field twice and skip another.
func checkRowFieldReadsAtDistinctOffsets(c *Ctx, rule string, pkg string) {
	p := c.P
	n := 0
	for _, fn := range p.FuncsIn(pkg) {
		if fn.Parent() != nil || !strings.HasPrefix(fn.Name(), "deserialize") {
			continue
		}
		type rd struct {
			call *ssa.Call
			key  string
		}
		var reads []rd
		for _, ci := range callsOf(fn) {
			call, ok := ci.(*ssa.Call)
			if !ok {
				continue
			}
			nm := calleeShort(&call.Call)
			if nm != "Uint16" && nm != "Uint32" && nm != "Uint64" {
				continue
			}
			arg := stripConv(call.Call.Args[len(call.Call.Args)-1])
			sl, ok := arg.(*ssa.Slice)
			if !ok {
				continue
			}
			// inside a loop the same instruction reads many positions: not comparable
			if len(loopsOf(fn)) > 0 && innermostLoopOf(loopsOf(fn), call) != nil {
				continue
			}
			low := "0"
			if sl.Low != nil {
				low = p.linearize(sl.Low, 0).String()
			}
			// the buffer: go/ssa loads a field afresh for every use (no CSE), so name it by what it is
			base := stripConv(sl.X).Name()
			if _, f, _, okf := fieldOf(stripConv(sl.X)); okf {
				base = "field:" + f
			} else if u, isU := stripConv(sl.X).(*ssa.UnOp); isU && u.Op == token.MUL {
				if _, f, _, okf := fieldOf(u.X); okf {
					base = "field:" + f
				}
			}
			reads = append(reads, rd{call, fmt.Sprintf("%v|%s", base, low)})
		}
		seen := map[string]*ssa.Call{}
		for _, r := range reads {
			n++
			prev := seen[r.key]
			c.Check(rule, "row-field-reads-at-distinct-offsets:"+fn.Name(), r.call.Pos(), prev == nil,
				fnName(fn)+" decodes two fields from the same offset of the row ("+r.key+"): one stored value is read twice and the field next to it never — the next index of one branch is loaded (and written back) as the other's")
			if prev == nil {
				seen[r.key] = r.call
			}
		}
	}
	c.Floor(rule, "fixed-width field reads in the row deserialisers of "+pkg, n, 6)
}

// checkNextIndexGuardsStayOnTheirBranch: putChainedAddress advances the stored next index of the branch the address is
// on. Whatever condition decides whether a branch's stored index moves compares with that branch's own stored index,
// never with the other branch's.
func checkNextIndexGuardsStayOnTheirBranch(c *Ctx, rule string) {
	p := c.P
	if p.Func("waddrmgr", "", "putChainedAddress") == nil {
		c.Unresolved(rule, "waddrmgr.putChainedAddress")
		return
	}
	isTok := func(s string) bool { return s == "nextExternalIndex" || s == "nextInternalIndex" }
	// the stored index a value stands for: the row's field, or a part's parameter that carries it (by its name)
	tokOf := func(v ssa.Value) string {
		v = stripConv(v)
		if _, f, _, ok := fieldOf(v); ok && isTok(f) {
			return f
		}
		if u, ok := v.(*ssa.UnOp); ok && u.Op == token.MUL {
			if _, f, _, ok := fieldOf(u.X); ok && isTok(f) {
				return f
			}
		}
		if prm, ok := v.(*ssa.Parameter); ok && isTok(prm.Name()) {
			return prm.Name()
		}
		return ""
	}
	fieldTok := func(v ssa.Value) map[string]bool {
		out := map[string]bool{}
		for _, o := range (&Slicer{P: p, ThroughBinOp: true, ThroughDeref: true}).Origins(v) {
			if t := tokOf(o); t != "" {
				out[t] = true
			}
		}
		return out
	}
	n := 0
	for _, fn := range p.FuncsIn("waddrmgr") {
		for _, b := range fn.Blocks {
			for _, ins := range b.Instrs {
				ph, ok := ins.(*ssa.Phi)
				if !ok {
					continue
				}
				// the variable: some edge is the stored index itself, another one the index being recorded plus one
				own, bumped := "", false
				for _, e := range ph.Edges {
					if t := tokOf(e); t != "" {
						own = t
					}
					if bo, ok := stripConv(e).(*ssa.BinOp); ok && bo.Op == token.ADD {
						if k, isK := constInt(bo.Y); isK && k == 1 {
							bumped = true
						}
					}
				}
				if own == "" || !bumped {
					continue
				}
				n++
				// conditions between the phi's dominator and its edges
				dom := b.Idom()
				var bad []string
				seen := map[*ssa.BasicBlock]bool{}
				var up func(x *ssa.BasicBlock)
				up = func(x *ssa.BasicBlock) {
					if x == nil || seen[x] {
						return
					}
					seen[x] = true
					if iff, ok := x.Instrs[len(x.Instrs)-1].(*ssa.If); ok {
						inner, _ := unwrapNot(iff.Cond)
						if bo, ok := inner.(*ssa.BinOp); ok {
							for f := range fieldTok(bo.X) {
								if f != own {
									bad = append(bad, f)
								}
							}
							for f := range fieldTok(bo.Y) {
								if f != own {
									bad = append(bad, f)
								}
							}
						}
					}
					if x == dom {
						return
					}
					for _, pr := range x.Preds {
						up(pr)
					}
				}
				for _, pr := range b.Preds {
					up(pr)
				}
				c.Check(rule, "next-index-guard-stays-on-its-branch:"+own, ph.Pos(), len(bad) == 0,
					"putChainedAddress decides whether the stored "+own+" moves by comparing with the other branch's stored index ("+strings.Join(dedup(bad), ", ")+"): with the other branch ahead the persisted index stays behind the addresses issued, and after a restart the recovery's look-ahead starts too low")
			}
		}
	}
	c.Floor(rule, "stored next indices merged in putChainedAddress", n, 2)
}

// checkResurrectReportsEveryRecordedKey: a resumed recovery tells each branch's state the highest index already recorded:
// ReportFound(count-1). The guard in front of it must let every count of at least one through — it is there to keep
// count-1 from wrapping, nothing else.
func checkResurrectReportsEveryRecordedKey(c *Ctx, rule string) {
	p := c.P
	n := 0
	for _, fn := range p.regionOf(p.Func("wallet", "RecoveryManager", "Resurrect")) {
		for _, call := range callsNamed(fn, "ReportFound") {
			arg := call.Call.Args[len(call.Call.Args)-1]
			l := p.linearize(arg, 0)
			if l.Konst != -1 || len(l.Coef) != 1 {
				continue
			}
			var atom string
			for k, v := range l.Coef {
				if v == 1 {
					atom = k
				}
			}
			if atom == "" {
				continue
			}
			n++
			// nearest dominating edge whose condition is about that count
			ok, seenGuard := false, false
			for b := call.Block(); b != nil && !seenGuard; b = b.Idom() {
				d := b.Idom()
				if d == nil || len(b.Preds) != 1 {
					continue
				}
				iff, isIf := d.Instrs[len(d.Instrs)-1].(*ssa.If)
				if !isIf {
					continue
				}
				f, isCmp := p.cmpForm(iff.Cond, d.Succs[0] == b)
				if !isCmp {
					continue
				}
				if _, mentions := f.L.Coef[atom]; !mentions || len(f.L.Coef) != 1 {
					continue
				}
				seenGuard = true
				switch f.Rel {
				case "<": // -count < 0
					ok = f.L.Coef[atom] == -1 && f.L.Konst == 0
				case "!=":
					ok = f.L.Konst == 0
				}
			}
			c.Check(rule, "resurrect-reports-every-recorded-key:"+fn.Name(), call.Pos(), seenGuard && ok,
				"Resurrect reports the highest recorded index (count-1) only when the count exceeds more than zero: a branch with exactly one recorded key resumes as if nothing had been found, its horizon ends one short, and a payment to the last address of the look-ahead is missed")
		}
	}
	c.Floor(rule, "ReportFound(count-1) calls of the resumed recovery", n, 2)
}

// checkStartedFlagMeansHandlerRuns: RPCClient.Stop closes the notification channel itself exactly when the handler was
// never started — which it reads off the started flag. The flag is set only where Start goes on to launch the handler: no
// failing exit of Start lies behind the store.
func checkStartedFlagMeansHandlerRuns(c *Ctx, rule string) {
	p := c.P
	n := 0
	for _, recv := range []string{"RPCClient"} {
		st := p.Func("chain", recv, "Start")
		if st == nil {
			c.Unresolved(rule, "chain."+recv+".Start")
			continue
		}
		// the store, or the call of the part of Start that holds it
		var anchors []ssa.Instruction
		for _, f := range p.regionOf(st) {
			for _, s := range storesToFieldOwner(f, recv, "started") {
				if k, ok := constBool(s.Val); !ok || !k || s.Parent() != f {
					continue
				}
				if f == st {
					anchors = append(anchors, s)
					continue
				}
				for _, site := range p.realCallers(f) {
					if site.Parent() == st {
						anchors = append(anchors, site.(ssa.Instruction))
					}
				}
			}
		}
		for _, s := range anchors {
			n++
			q := &PathQuery{Fn: s.Parent()}
			q.Target = func(i ssa.Instruction, via *ssa.BasicBlock) bool {
				r, ok := i.(*ssa.Return)
				return ok && p.classifyReturn(r, via) == retError
			}
			bad := q.From(s)
			launches := p.mustPassToSuccess(s.Parent(), s, func(i ssa.Instruction) bool {
				g, ok := i.(*ssa.Go)
				return ok && strings.Contains(calleeShort(&g.Call), "handler")
			}, nil) == nil
			c.Check(rule, "started-flag-means-handler-runs:"+recv, s.Pos(), len(bad) == 0 && launches,
				recv+".Start sets the started flag on a path that can still fail (or does not launch the handler): after a failed Start, Stop believes a handler will close the notification channel, nobody does, and consumers of Notifications() block for ever")
		}
	}
	c.Floor(rule, "stores of the started flag in Start", n, 1)
}

// checkVersionWidthsAgree: the stored version is written and read with the same integer width.
func checkVersionWidthsAgree(c *Ctx, rule string) {
	p := c.P
	n := 0
	for _, pr := range [][3]string{{"waddrmgr", "fetchManagerVersion", "putManagerVersion"}, {"wtxmgr", "fetchVersion", "putVersion"}} {
		rd, wr := p.Func(pr[0], "", pr[1]), p.Func(pr[0], "", pr[2])
		if rd == nil || wr == nil {
			c.Unresolved(rule, pr[0]+"."+pr[1]+"/"+pr[2])
			continue
		}
		var collect func(fn *ssa.Function, prefix string, depth int) []string
		collect = func(fn *ssa.Function, prefix string, depth int) []string {
			var out []string
			for _, ci := range callsOf(fn) {
				nm := calleeShort(ci.Common())
				if strings.HasPrefix(nm, prefix) && len(nm) <= len(prefix)+2 {
					w := strings.TrimPrefix(nm, prefix)
					if w == "16" || w == "32" || w == "64" {
						out = append(out, w)
					}
					continue
				}
				// a conversion helper of the package (uint32ToBytes)
				if h := ci.Common().StaticCallee(); h != nil && h.Pkg == fn.Pkg && h != fn && depth < 2 {
					out = append(out, collect(h, prefix, depth+1)...)
				}
			}
			return out
		}
		widths := func(fn *ssa.Function, prefix string) string {
			out := collect(fn, prefix, 0)
			sort.Strings(out)
			return strings.Join(out, ",")
		}
		r, w := widths(rd, "Uint"), widths(wr, "PutUint")
		n++
		c.Check(rule, "version-read-width-is-written-width:"+pr[0], rd.Pos(), r == w && r != "",
			fmt.Sprintf("%s reads the stored version as %s-bit, %s writes it as %s-bit: a version beyond the narrower width is seen truncated, so a database written by newer software passes for an old one — it is opened, and migrated, instead of being refused", fnName(rd), r, fnName(wr), w))
	}
	c.Floor(rule, "version reader/writer pairs", n, 2)
}

// checkBroadcastErrorsAreMapped: the wallet's publish path tells "already in the mempool / already confirmed" from a
// rejection by the sentinel errors MapRPCErr produces. Every backend's SendRawTransaction hands its failures over through
// its own MapRPCErr.
func checkBroadcastErrorsAreMapped(c *Ctx, rule string) {
	p := c.P
	n := 0
	for _, fn := range p.FuncsIn("chain") {
		if fn.Parent() != nil || fn.Name() != "SendRawTransaction" || len(fn.Blocks) == 0 {
			continue
		}
		recv := recvName(fn)
		if p.Func("chain", recv, "MapRPCErr") == nil {
			continue
		}
		n++
		var bad []string
		for _, b := range fn.Blocks {
			r, ok := b.Instrs[len(b.Instrs)-1].(*ssa.Return)
			if !ok || len(r.Results) == 0 {
				continue
			}
			ev := effectiveResult(r, len(r.Results)-1)
			if isNilConst(ev) {
				continue
			}
			mapped := true
			for _, o := range (&Slicer{P: p, KeepExtract: true}).Origins(ev) {
				if call, ok := o.(*ssa.Call); ok && calleeShort(&call.Call) == "MapRPCErr" {
					continue
				}
				if isNilConst(o) {
					continue
				}
				mapped = false
			}
			if !mapped {
				bad = append(bad, p.Pos(r.Pos()))
			}
		}
		c.Check(rule, "broadcast-errors-are-mapped:"+recv, fn.Pos(), len(bad) == 0,
			recv+".SendRawTransaction returns a backend error that did not go through MapRPCErr ("+strings.Join(bad, ", ")+"): \"already in the mempool\" is no longer recognised, the publish path treats it as a rejection and forgets a valid pending payment")
	}
	c.Floor(rule, "backends whose broadcast errors are mapped", n, 3)
}
