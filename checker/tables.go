package main

import (
	"go/token"
	"sort"

	"golang.org/x/tools/go/ssa"
)

// ---------- dispatch tables ----------
//
// `switch k { case A: f(); case B: g() }` and `table[k]()` with `var table = map[K]func(){A: f, B: g}` (or an ordered
// slice of {key, value} rows scanned for the first match) are two spellings of one dispatch. The rules that enumerate
// switch arms read tables through these helpers.

type tableEntry struct {
	Key, Val ssa.Value
	Pos      token.Pos
}

// mapLiteralOf: entries of the map literal that initialises (or is) v: v is a load of a package-level variable
// initialised with a map literal, or a local map literal.
func (p *Program) mapLiteralOf(v ssa.Value) []tableEntry {
	v = stripConv(v)
	var mk *ssa.MakeMap
	switch x := v.(type) {
	case *ssa.MakeMap:
		mk = x
	case *ssa.UnOp:
		if x.Op != token.MUL {
			return nil
		}
		switch a := x.X.(type) {
		case *ssa.Global:
			mk, _ = p.globalInit(a).(*ssa.MakeMap)
		case *ssa.Alloc:
			if sts := storesTo(a); len(sts) == 1 {
				mk, _ = stripConv(sts[0].Val).(*ssa.MakeMap)
			}
		}
	}
	if mk == nil {
		return nil
	}
	var out []tableEntry
	for _, r := range usesOf(mk) {
		if mu, ok := r.(*ssa.MapUpdate); ok && mu.Map == ssa.Value(mk) {
			out = append(out, tableEntry{mu.Key, mu.Value, mu.Pos()})
		}
	}
	sort.SliceStable(out, func(i, j int) bool { return out[i].Pos < out[j].Pos })
	return out
}

// globalInit: the single value the package initialiser stores to g (nil if none / several, or if any other function
// assigns g).
func (p *Program) globalInit(g *ssa.Global) ssa.Value {
	if g.Pkg == nil {
		return nil
	}
	var val ssa.Value
	n := 0
	for _, fn := range p.RepoFuncs {
		if fn.Pkg != g.Pkg {
			continue
		}
		for _, b := range fn.Blocks {
			for _, ins := range b.Instrs {
				if st, ok := ins.(*ssa.Store); ok && st.Addr == ssa.Value(g) {
					n++
					val = st.Val
					if outermost(fn).Name() != "init" {
						return nil
					}
				}
			}
		}
	}
	if n != 1 {
		return nil
	}
	return stripConv(val)
}

// sliceLiteralRows: rows of a slice-of-struct literal ([]T{{..},{..}}): for each element, field index -> stored value.
// v is the slice value (local literal) or a load of a package-level variable initialised with one.
func (p *Program) sliceLiteralRows(v ssa.Value) []map[int]ssa.Value {
	v = stripConv(v)
	if u, ok := v.(*ssa.UnOp); ok && u.Op == token.MUL {
		switch a := u.X.(type) {
		case *ssa.Global:
			v = p.globalInit(a)
		case *ssa.Alloc:
			if sts := storesTo(a); len(sts) == 1 {
				v = stripConv(sts[0].Val)
			}
		}
	}
	sl, ok := v.(*ssa.Slice)
	if !ok {
		return nil
	}
	arr, ok := sl.X.(*ssa.Alloc)
	if !ok {
		return nil
	}
	rows := map[int64]map[int]ssa.Value{}
	for _, r := range usesOf(arr) {
		ia, ok := r.(*ssa.IndexAddr)
		if !ok {
			continue
		}
		idx, ok := constInt(ia.Index)
		if !ok {
			return nil
		}
		row := rows[idx]
		if row == nil {
			row = map[int]ssa.Value{}
			rows[idx] = row
		}
		for _, r2 := range usesOf(ia) {
			switch y := r2.(type) {
			case *ssa.FieldAddr:
				for _, r3 := range usesOf(y) {
					if st, ok := r3.(*ssa.Store); ok && st.Addr == ssa.Value(y) {
						row[y.Field] = st.Val
					}
				}
			case *ssa.Store:
				if y.Addr == ssa.Value(ia) {
					row[-1] = y.Val // non-struct element
				}
			}
		}
	}
	var keys []int64
	for k := range rows {
		keys = append(keys, k)
	}
	sort.Slice(keys, func(i, j int) bool { return keys[i] < keys[j] })
	var out []map[int]ssa.Value
	for _, k := range keys {
		out = append(out, rows[k])
	}
	return out
}

// tableLookupsIn: map lookups in fn whose map is a literal table: (lookup, entries).
type tableLookup struct {
	At      *ssa.Lookup
	Entries []tableEntry
}

func (p *Program) tableLookupsIn(fn *ssa.Function) []tableLookup {
	var out []tableLookup
	for _, b := range fn.Blocks {
		for _, ins := range b.Instrs {
			if lk, ok := ins.(*ssa.Lookup); ok {
				if es := p.mapLiteralOf(lk.X); len(es) > 0 {
					out = append(out, tableLookup{lk, es})
				}
			}
		}
	}
	return out
}

// fnValueOf: the declared function a function-typed table value denotes.
func fnValueOf(v ssa.Value) *ssa.Function {
	switch x := stripConv(v).(type) {
	case *ssa.Function:
		return x
	case *ssa.MakeClosure:
		f, _ := x.Fn.(*ssa.Function)
		return f
	}
	return nil
}

// rangeFieldValues: v reads field f of the element a loop takes from a literal slice of structs (`for _, e := range
// []T{{k1,..},{k2,..}} { use(e.f) }`): the values that field has in the literal's rows, in order. nil otherwise.
func (p *Program) rangeFieldValues(v ssa.Value) []ssa.Value {
	v = stripConv(v)
	field := -1
	var elem ssa.Value
	switch x := v.(type) {
	case *ssa.Field:
		field, elem = x.Field, x.X
		if u, ok := elem.(*ssa.UnOp); ok && u.Op == token.MUL {
			elem = u.X
		}
	case *ssa.UnOp:
		if x.Op != token.MUL {
			return nil
		}
		fa, ok := x.X.(*ssa.FieldAddr)
		if !ok {
			return nil
		}
		field, elem = fa.Field, fa.X
	default:
		return nil
	}
	// a copy of the element held in a local (entry := slice[i])
	if al, ok := elem.(*ssa.Alloc); ok {
		if sts := storesTo(al); len(sts) == 1 {
			if u, ok := sts[0].Val.(*ssa.UnOp); ok && u.Op == token.MUL {
				elem = u.X
			}
		}
	}
	ia, ok := elem.(*ssa.IndexAddr)
	if !ok {
		return nil
	}
	if _, isConst := ia.Index.(*ssa.Const); isConst {
		return nil
	}
	rows := p.sliceLiteralRows(ia.X)
	if len(rows) == 0 {
		return nil
	}
	var out []ssa.Value
	for _, r := range rows {
		val, ok := r[field]
		if !ok {
			return nil
		}
		out = append(out, val)
	}
	return out
}
