package main

import (
	"fmt"
	"go/ast"
	"go/constant"
	"go/token"
	"sort"
	"strings"

	"golang.org/x/tools/go/ssa"
)

func init() {
	register(&propSpec{
		ID: "C19",
		Explanation: "Decides the shape of the migration driver and its use, for all paths: (R1) upgrade: the 'stored > latest' branch returns ErrReversion with no path through a migration or SetVersion; the 'stored < latest' branch ranges completely over the result of VersionsToApply(stored, table), " +
			"calls each non-nil migration, returns its error with no path to SetVersion, and calls SetVersion exactly once, outside the loop, after it, with the latest version; " +
			"(R2) VersionsToApply keeps exactly the entries with number > stored (normalised comparison) and sorts the list IT RETURNS ascending by number (the comparator indexes the sorted slice); GetLatestVersion returns the maximum number; " +
			"(R3) the only production call of migration.Upgrade is inside a function literal passed to walletdb.Update together with both Open calls (one database transaction); " +
			"(R4) the wtxmgr/waddrmgr version tables are strictly ascending constants and each manager's SetVersion/CurrentVersion reach that package's version put/fetch; " +
			"(R5) the open paths take a read-only bucket and return an error when stored > latest. NOT decided: data-level effects of individual migrations.",
		Assumptions: []string{"sort.Slice semantics", "a walletdb.Update closure runs in one database transaction (C11-R1)"},
		Run:         runC19,
	})
}

func runC19(c *Ctx) {
	p := c.P
	// "or not at all": the upgrade's one database transaction rolls back on error and on panic and reports Commit's
	// result (C11-R1 on the adapter's Update, taken over), and a failed version write is reported by every Manager's
	// SetVersion (the storage error discipline of C10-R1 at those functions)
	c.Borrow(runC11, "C11-R1", "C19-R3", func(k string) bool {
		return strings.HasPrefix(k, "Update-") || strings.HasPrefix(k, "helper-forwards:walletdb.Update")
	})
	c.Borrow(runC10, "C10-R1", "C19-R2", func(k string) bool {
		if strings.Contains(k, "SetVersion") || strings.Contains(k, "putManagerVersion") || strings.Contains(k, "putVersion") {
			return true
		}
		// ... and by everything a migration runs: a step that swallows a failed write lets the driver record the version
		fnPart := k
		if i := strings.IndexByte(k, '!'); i >= 0 {
			fnPart = k[:i]
		}
		return migrationReach(c.P)[fnPart]
	})
	checkCurrentVersionPropagatesReadFailure(c, "C19-R1")
	checkVersionWidthsAgree(c, "C19-R1")
	checkLatestVersionIsATableNumber(c, "C19-R1")
	up := c.P.Func("walletdb/migration", "", "upgrade")
	vta := c.P.Func("walletdb/migration", "", "VersionsToApply")
	glv := c.P.Func("walletdb/migration", "", "GetLatestVersion")
	if up == nil || vta == nil || glv == nil {
		c.Unresolved("C19-R1", "migration.upgrade / VersionsToApply / GetLatestVersion")
		return
	}
	isSetVersion := isInvokeNamed("SetVersion")
	isMigrationCall := func(ins ssa.Instruction) bool {
		call, ok := ins.(*ssa.Call)
		if !ok || call.Call.IsInvoke() || call.Call.StaticCallee() != nil {
			return false
		}
		// dynamic call of a func(walletdb.ReadWriteBucket) error value loaded from field Migration
		_, f, _, okf := fieldOf(call.Call.Value)
		return okf && f == "Migration"
	}
	cur := func(v ssa.Value) bool { return isResultOfInvoke(p.resolveParam(v), "CurrentVersion", 0) }
	latest := func(v ssa.Value) bool { return isResultOfCall(p.resolveParam(v), "GetLatestVersion", -1) }
	// the steps of upgrade may have been extracted into helpers: "records the version" / "runs a migration" also hold for
	// a call of a helper that always does (barriers) resp. may do (targets) so
	isSetVersionMust := viaHelpers("SetVersion", isSetVersion, true)
	isSetVersionMay := viaHelpers("SetVersion", isSetVersion, false)
	isMigrationMay := viaHelpers("Migration", isMigrationCall, false)
	cmpEdge := func(from *ssa.BasicBlock, si int) string {
		iff, ok := from.Instrs[len(from.Instrs)-1].(*ssa.If)
		if !ok {
			return ""
		}
		bo, ok := iff.Cond.(*ssa.BinOp)
		if !ok {
			return ""
		}
		var x, y string
		switch {
		case cur(bo.X) && latest(bo.Y):
			x, y = "cur", "latest"
		case latest(bo.X) && cur(bo.Y):
			x, y = "latest", "cur"
		default:
			return ""
		}
		op := bo.Op
		if si == 1 {
			switch op {
			case token.GTR:
				op = token.LEQ
			case token.LSS:
				op = token.GEQ
			case token.EQL:
				op = token.NEQ
			case token.GEQ:
				op = token.LSS
			case token.LEQ:
				op = token.GTR
			}
		}
		if x == "latest" { // normalise to cur OP latest
			switch op {
			case token.GTR:
				op = token.LSS
			case token.LSS:
				op = token.GTR
			case token.GEQ:
				op = token.LEQ
			case token.LEQ:
				op = token.GEQ
			}
		}
		_ = y
		return "cur" + op.String() + "latest"
	}
	nRev, nUp := 0, 0
	for _, b := range up.Blocks {
		for si := range b.Succs {
			switch cmpEdge(b, si) {
			case "cur>latest":
				nRev++
				q := &PathQuery{Fn: up}
				q.Target = func(ins ssa.Instruction, via *ssa.BasicBlock) bool {
					if isSetVersionMay(ins) || isMigrationMay(ins) {
						return true
					}
					if r, ok := ins.(*ssa.Return); ok {
						return !isGlobalLoad(resolvePhi(effectiveResult(r, 0), r.Block(), via), "ErrReversion")
					}
					return false
				}
				hits := exploreFromBlock(q, b.Succs[si], b)
				c.Check("C19-R1", "newer-database-refused-untouched", lastPos(b), len(hits) == 0,
					"when the stored version is newer than the latest known, upgrade can run a migration, set the version, or return something other than ErrReversion")
			}
		}
	}
	// a success that did not record the version is possible only when the stored version is known not to be behind the
	// latest: walked with the set of orderings (<, =, >) the comparisons passed so far leave open, so `switch` arms, a
	// chain of early returns and a final "otherwise" all read the same
	{
		rel := map[string]uint8{"cur<latest": 1, "cur==latest": 2, "cur>latest": 4, "cur<=latest": 3, "cur>=latest": 6, "cur!=latest": 5}
		succ := p.nonErrorReturn()
		type key struct {
			b  *ssa.BasicBlock
			st uint8
		}
		seen := map[key]bool{}
		var badAt ssa.Instruction
		var walk func(b, via *ssa.BasicBlock, st uint8)
		walk = func(b, via *ssa.BasicBlock, st uint8) {
			if seen[key{b, st}] {
				return
			}
			seen[key{b, st}] = true
			for _, ins := range b.Instrs {
				if isSetVersionMust(ins) {
					return
				}
				if succ(ins, via) && st&1 != 0 && badAt == nil {
					badAt = ins
				}
			}
			for si, s := range b.Succs {
				ns := st
				if r, ok := rel[cmpEdge(b, si)]; ok {
					ns = st & r
					if ns == 0 {
						continue
					}
					if ns == 1 && st != 1 {
						nUp++
					}
				}
				walk(s, b, ns)
			}
		}
		walk(up.Blocks[0], nil, 7)
		pos := up.Pos()
		if badAt != nil {
			pos = badAt.Pos()
		}
		c.Check("C19-R1", "upgrade-records-version", pos, badAt == nil, "the upgrade branch can return success without recording the new version")
	}
	// every success of upgrade has been through the stored-vs-latest comparison: a shortcut before it ("no versions
	// declared: nothing to do") accepts a database that is newer than anything the software understands
	{
		isCmp := func(ins ssa.Instruction) bool {
			bo, ok := ins.(*ssa.BinOp)
			if !ok {
				return false
			}
			return (cur(bo.X) && latest(bo.Y)) || (latest(bo.X) && cur(bo.Y))
		}
		bad := p.mustPassToSuccess(up, nil, viaHelpers("cur-vs-latest", isCmp, true), nil)
		detail := ""
		if bad != nil {
			detail = "upgrade can return success at " + p.Pos(bad.Pos()) + " without having compared the stored version with the latest known one: a database written by newer software is accepted instead of being refused with ErrReversion"
		}
		c.Check("C19-R1", "every-success-compared-stored-with-latest", up.Pos(), bad == nil, detail)
	}
	c.Floor("C19-R1", "'stored > latest' branch", nRev, 1)
	c.Floor("C19-R1", "'stored < latest' branch", nUp, 1)
	// the part of upgrade that records the version ("core"): upgrade itself, or the private part its upgrade branch was
	// extracted into; the loop and SetVersion rules below are stated about that function
	var sets []*ssa.Call
	for _, part := range p.regionTop(up) {
		for _, ci := range callsOf(part) {
			if call, ok := ci.(*ssa.Call); ok && isSetVersion(call) {
				sets = append(sets, call)
			}
		}
	}
	core := up
	if len(sets) > 0 {
		core = sets[0].Parent()
	}
	upTop := up
	up = core
	defer func() { up = upTop }()
	// migration loop: in upgrade itself, or in a same-package helper that upgrade calls (extracted loop)
	loops := loopsOf(up)
	loopFn := up
	var mloop *Loop
	var helperCall *ssa.Call
	for _, l := range loops {
		if l.containsInstr(isMigrationCall) {
			mloop = l
		}
	}
	if mloop == nil {
		for _, ci := range callsOf(up) {
			call, ok := ci.(*ssa.Call)
			if !ok {
				continue
			}
			h := call.Call.StaticCallee()
			if h == nil || fnPkgPath(h) != fnPkgPath(up) || h == up {
				continue
			}
			for _, l := range loopsOf(h) {
				if l.containsInstr(isMigrationCall) {
					mloop, loopFn, helperCall = l, h, call
				}
			}
		}
	}
	// "the migrations run here": the loop header (same function) or the helper call
	atMigrations := func(ins ssa.Instruction) bool {
		if helperCall != nil {
			return ins == ssa.Instruction(helperCall)
		}
		return mloop != nil && ins.Block() == mloop.Header
	}
	if mloop == nil {
		c.Check("C19-R1", "migration-loop", up.Pos(), false, "upgrade has no loop that calls the migrations, neither directly nor in a helper it calls (undecided)")
	} else {
		// what is ranged over: VersionsToApply(stored, table), possibly passed through the helper's parameter
		over := mloop.OverVal
		if helperCall != nil {
			if prm, ok := over.(*ssa.Parameter); ok {
				if i := paramIndex(loopFn, prm); i >= 0 && i < len(helperCall.Call.Args) {
					over = helperCall.Call.Args[i]
				}
			}
		}
		over = p.resolveParam(over)
		if u, ok := over.(*ssa.UnOp); ok && u.Op == token.MUL {
			if dv := dominatingStoreVal(u); dv != nil {
				over = dv
			}
		}
		okOver := false
		if call, ok := over.(*ssa.Call); ok && call.Call.StaticCallee() == vta {
			okOver = cur(call.Call.Args[0]) && isResultOfInvoke(p.resolveParam(call.Call.Args[1]), "Versions", -1)
		}
		c.Check("C19-R1", "loop-over-VersionsToApply(stored,table)", mloop.Header.Instrs[0].Pos(), okOver && (mloop.Kind == "rangeindex" || mloop.Kind == "forindex"),
			"the migrations applied are not the in-order range over VersionsToApply(stored version, manager's table)")
		exits := mloop.EarlyExits(p)
		c.Check("C19-R1", "all-pending-migrations-run", mloop.Header.Instrs[0].Pos(), len(exits) == 0, "the migration loop can be left early without an error: "+strings.Join(exits, "; "))
		bad := mloop.MustPassPerIteration(p, isMigrationCall, func(from *ssa.BasicBlock, si int) bool {
			f := edgeFactOf(from, si)
			if f == nil || f.Kind != "nil" {
				return false
			}
			_, fl, _, ok := fieldOf(f.V)
			return ok && fl == "Migration"
		})
		c.Check("C19-R1", "each-non-nil-migration-called", mloop.Header.Instrs[0].Pos(), bad == "", "a pending non-nil migration can be skipped ("+bad+")")
		// migration error: every path from the error edge is an error return of the loop's function ...
		for b := range mloop.Blocks {
			for _, ins := range b.Instrs {
				call, ok := ins.(*ssa.Call)
				if !ok || !isMigrationCall(ins) {
					continue
				}
				for b2 := range mloop.Blocks {
					for si := range b2.Succs {
						f := edgeFactOf(b2, si)
						if f == nil || f.Kind != "nonnil" || f.V != ssa.Value(call) {
							continue
						}
						q := &PathQuery{Fn: loopFn}
						q.Target = func(ins ssa.Instruction, via *ssa.BasicBlock) bool {
							if isSetVersion(ins) || isMigrationCall(ins) {
								return true
							}
							if r, ok := ins.(*ssa.Return); ok {
								return p.classifyReturn(r, via) != retError
							}
							return false
						}
						hits := exploreFromBlock(q, b2.Succs[si], b2)
						c.Check("C19-R1", "failed-migration-stops-without-version-change", lastPos(b2), len(hits) == 0,
							"after a failed migration, upgrade can still set the version, run further migrations or report success")
					}
				}
			}
		}
		// ... and, when the loop lives in a helper, the helper's error stops upgrade before SetVersion
		if helperCall != nil {
			n := 0
			for _, b := range up.Blocks {
				for si := range b.Succs {
					f := edgeFactOf(b, si)
					if f == nil || f.Kind != "nonnil" || !loadIsResultOf(f.V, helperCall) {
						continue
					}
					n++
					q := &PathQuery{Fn: up}
					q.Target = func(ins ssa.Instruction, via *ssa.BasicBlock) bool {
						if isSetVersion(ins) {
							return true
						}
						if r, ok := ins.(*ssa.Return); ok {
							return p.classifyReturn(r, via) != retError
						}
						return false
					}
					hits := exploreFromBlock(q, b.Succs[si], b)
					c.Check("C19-R1", "failed-migration-helper-stops-upgrade", lastPos(b), len(hits) == 0, "an error from the migration helper does not stop upgrade before the version is recorded")
				}
			}
			if n == 0 {
				// direct `return helper(...)`-style or untested result
				c.Check("C19-R1", "failed-migration-helper-stops-upgrade", helperCall.Pos(), false, "the result of the migration helper is not tested before the version is recorded")
			}
		}
	}
	// SetVersion: once, outside any loop, after the loop, with the latest version
	c.Check("C19-R1", "single-SetVersion-site", up.Pos(), len(sets) == 1, fmt.Sprintf("upgrade has %d SetVersion call sites (expected exactly one)", len(sets)))
	for _, sv := range sets {
		inLoop := innermostLoopOf(loops, sv) != nil || sv.Parent() != up
		for f := up; f != upTop && !inLoop; { // the extracted part is itself not called from inside a loop
			sites := p.realCallers(f)
			if len(sites) != 1 {
				inLoop = true
				break
			}
			if innermostLoopOf(loopsOf(sites[0].Parent()), sites[0]) != nil {
				inLoop = true
			}
			f = sites[0].Parent()
			if !p.inRegion(upTop, f) {
				inLoop = true
			}
		}
		c.Check("C19-R1", "SetVersion-outside-loop", sv.Pos(), !inLoop,
			"the stored version is advanced inside the migration loop: a failure at a later migration leaves the version changed")
		// a failed version write is an error of the upgrade
		foundErrEdge := false
		for _, b := range up.Blocks {
			for si := range b.Succs {
				f := edgeFactOf(b, si)
				if f == nil || f.Kind != "nonnil" || !loadIsResultOf(f.V, sv) {
					continue
				}
				foundErrEdge = true
				q := &PathQuery{Fn: up, Target: p.nonErrorReturn()}
				hits := exploreFromBlock(q, b.Succs[si], b)
				c.Check("C19-R1", "failed-version-write-is-reported", lastPos(b), len(hits) == 0,
					"upgrade reports success although recording the new version failed: the enclosing transaction commits the migrated data under the old version and the migrations run again on the next start")
			}
		}
		if !foundErrEdge {
			// `return mgr.SetVersion(...)` is fine; otherwise the result is unused
			direct := false
			for _, u := range usesOf(sv) {
				if _, ok := u.(*ssa.Return); ok {
					direct = true
				}
			}
			c.Check("C19-R1", "failed-version-write-is-reported", sv.Pos(), direct, "the result of SetVersion is neither tested nor returned")
		}
		okArg := len(sv.Call.Args) == 2 && latest(sv.Call.Args[1])
		c.Check("C19-R1", "SetVersion-records-latest", sv.Pos(), okArg, "SetVersion is not called with GetLatestVersion(table)")
		if mloop != nil && !inLoop {
			// every path to SetVersion passes the migrations
			q := &PathQuery{Fn: up, Barrier: atMigrations}
			q.Target = func(ins ssa.Instruction, via *ssa.BasicBlock) bool { return ins == ssa.Instruction(sv) }
			c.Check("C19-R1", "SetVersion-after-migrations", sv.Pos(), len(q.From(nil)) == 0, "the version can be recorded before the migrations ran")
		}
	}

	// ---------- R2 ----------
	checkVersionsToApply(c, vta)
	checkGetLatest(c, glv)

	// ---------- R3 ----------
	upg := c.P.Func("walletdb/migration", "", "Upgrade")
	if upg == nil {
		c.Unresolved("C19-R3", "migration.Upgrade")
	} else {
		n := 0
		for _, cs := range p.callers(upg) {
			if strings.HasPrefix(shortPkg(fnPkgPath(cs.Parent())), "walletdb/migration") {
				continue
			}
			n++
			fn := cs.Parent()
			inUpdate := false
			if fn.Parent() != nil {
				for _, b := range fn.Parent().Blocks {
					for _, ins := range b.Instrs {
						call, ok := ins.(*ssa.Call)
						if !ok || !isTxRunner(call.Common(), true) {
							continue
						}
						for _, f := range funcArgs(call) {
							if f == fn {
								inUpdate = true
							}
						}
					}
				}
			}
			c.Check("C19-R3", "Upgrade-inside-one-update:"+fnName(fn), cs.Pos(), inUpdate, "migration.Upgrade is not called inside a function literal passed to walletdb.Update: a failed migration would not roll back")
			opens := 0
			for _, call := range callsNamed(fn, "Open") {
				pk := fnPkgPath(call.Call.StaticCallee())
				if strings.HasSuffix(pk, "/waddrmgr") || strings.HasSuffix(pk, "/wtxmgr") {
					opens++
				}
			}
			c.Check("C19-R3", "managers-opened-in-same-transaction:"+fnName(fn), cs.Pos(), opens == 2, fmt.Sprintf("%d of the two manager Open calls are in the upgrade transaction", opens))
		}
		c.Floor("C19-R3", "production calls of migration.Upgrade", n, 1)
		// Upgrade runs upgrade for every manager, stopping on error
		for _, l := range loopsOf(upg) {
			bad := l.MustPassPerIteration(p, isCallNamed("upgrade"))
			c.Check("C19-R3", "Upgrade-visits-every-manager", upg.Pos(), bad == "" && len(l.EarlyExits(p)) == 0, "Upgrade skips a manager or stops early without error")
		}
	}
	// ---------- R4 ----------
	for _, pkg := range []string{"wtxmgr", "waddrmgr"} {
		nums, pos, ok := versionTable(p, pkg)
		asc := ok && len(nums) > 0
		for i := 1; i < len(nums); i++ {
			if nums[i] <= nums[i-1] {
				asc = false
			}
		}
		c.Check("C19-R4", "version-table-strictly-ascending:"+pkg, pos, asc,
			fmt.Sprintf("the %s version table %v is not a strictly ascending constant sequence (its getLatestVersion takes the last element, the driver the maximum)", pkg, nums))
		mm := "MigrationManager"
		pairs := map[string]string{"SetVersion": "put", "CurrentVersion": "fetch"}
		for meth, verb := range pairs {
			fn := c.P.Func(pkg, mm, meth)
			if fn == nil {
				c.Unresolved("C19-R4", pkg+"."+mm+"."+meth)
				continue
			}
			okR := false
			for f := range p.reachSet(fn) {
				if fnPkgPath(f) == rel(pkg) && strings.HasPrefix(f.Name(), verb) && strings.Contains(f.Name(), "ersion") {
					okR = true
				}
			}
			c.Check("C19-R4", "manager-"+meth+"-uses-own-version-key:"+pkg, fn.Pos(), okR, pkg+"."+mm+"."+meth+" does not reach the package's version "+verb+" helper")
		}
		if vf := c.P.Func(pkg, mm, "Versions"); vf != nil {
			okV := false
			for _, b := range vf.Blocks {
				for _, ins := range b.Instrs {
					if r, ok := ins.(*ssa.Return); ok && isGlobalLoad(r.Results[0], "versions") {
						okV = true
					}
				}
			}
			c.Check("C19-R4", "manager-Versions-is-the-table:"+pkg, vf.Pos(), okV, "MigrationManager.Versions does not return the package's version table")
		}
	}
	// ---------- R5 ----------
	for _, spec := range [][2]string{{"wtxmgr", "openStore"}, {"waddrmgr", "loadManager"}} {
		fn := c.P.Func(spec[0], "", spec[1])
		if fn == nil {
			c.Unresolved("C19-R5", spec[0]+"."+spec[1])
			continue
		}
		ro := len(fn.Params) > 0 && strings.HasSuffix(fn.Params[0].Type().String(), "walletdb.ReadBucket")
		c.Check("C19-R5", "open-path-is-read-only:"+spec[1], fn.Pos(), ro, "the open path takes a bucket type that can write")
		// on stored > latest every return is an error
		n := 0
		for _, b := range fn.Blocks {
			if len(b.Instrs) == 0 {
				continue
			}
			iff, ok := b.Instrs[len(b.Instrs)-1].(*ssa.If)
			if !ok {
				continue
			}
			for si := 0; si < 2; si++ {
				f, okf := p.cmpForm(iff.Cond, si == 0)
				if !okf || f.Rel != "<" || len(f.L.Coef) != 2 || f.L.Konst != 0 {
					continue
				}
				// latest - stored < 0
				var pos, neg string
				for k, v := range f.L.Coef {
					if v == 1 {
						pos = k
					} else if v == -1 {
						neg = k
					}
				}
				isLatest := strings.Contains(pos, "getLatestVersion") || strings.Contains(pos, "latestMgrVersion")
				isStored := strings.Contains(neg, "fetchVersion") || strings.Contains(neg, "fetchManagerVersion") || strings.Contains(neg, "ersion")
				if !isLatest || !isStored {
					continue
				}
				n++
				q := &PathQuery{Fn: fn, Target: p.nonErrorReturn()}
				hits := exploreFromBlock(q, b.Succs[si], b)
				c.Check("C19-R5", "newer-version-refused:"+spec[1], iff.Cond.Pos(), len(hits) == 0, "a database whose stored version is newer than the latest known is opened without error")
			}
		}
		c.Floor("C19-R5", "'stored > latest' test in "+spec[1], n, 1)
	}
	checkMigrationRefusalBeforeWrites(c, "C19-R4")
	checkUpgradeStopsAtFirstFailure(c, "C19-R1")
	checkMigrationErrorDiscipline(c, "C19-R1")
	checkMigrationsDoNotWriteVersion(c, "C19-R1")
}

func isResultOfInvoke(v ssa.Value, method string, idx int) bool {
	v = stripConv(v)
	switch x := v.(type) {
	case *ssa.Call:
		return x.Call.IsInvoke() && x.Call.Method.Name() == method
	case *ssa.Extract:
		if call, ok := x.Tuple.(*ssa.Call); ok && call.Call.IsInvoke() && call.Call.Method.Name() == method {
			return idx < 0 || x.Index == idx
		}
	}
	return false
}

// sortedAscendingByNumber: call is sort.Slice(x, less) where less compares x[i].Number < x[j].Number on the SAME slice variable.
func sortedAscendingByNumber(p *Program, call *ssa.Call) (ssa.Value, bool, string) {
	if calleeShort(&call.Call) != "Slice" || fnPkgPath(call.Call.StaticCallee()) != "sort" {
		return nil, false, ""
	}
	sorted := sliceVarOf(stripConv(call.Call.Args[0]))
	mc, ok := stripConv(call.Call.Args[1]).(*ssa.MakeClosure)
	if !ok {
		return sorted, false, "comparator is not a function literal"
	}
	less := mc.Fn.(*ssa.Function)
	for _, b := range less.Blocks {
		for _, ins := range b.Instrs {
			r, ok := ins.(*ssa.Return)
			if !ok {
				continue
			}
			bo, ok := r.Results[0].(*ssa.BinOp)
			if !ok || bo.Op != token.LSS {
				return sorted, false, "comparator is not a '<' on the numbers"
			}
			side := func(v ssa.Value, wantParam int) (ssa.Value, bool) {
				u, ok := v.(*ssa.UnOp)
				if !ok {
					return nil, false
				}
				fa, ok := u.X.(*ssa.FieldAddr)
				if !ok {
					return nil, false
				}
				if _, f := fieldAddrName(fa); f != "Number" {
					return nil, false
				}
				ia, ok := fa.X.(*ssa.IndexAddr)
				if !ok {
					return nil, false
				}
				prm, ok := ia.Index.(*ssa.Parameter)
				if !ok || paramIndex(less, prm) != wantParam {
					return nil, false
				}
				return sliceVarOf(ia.X), true
			}
			a, okA := side(bo.X, 0)
			bb, okB := side(bo.Y, 1)
			if !okA || !okB {
				return sorted, false, "comparator does not compare element i's Number with element j's Number"
			}
			// resolve captured variable to the sorted one
			same := func(v ssa.Value) bool {
				if fv, ok := v.(*ssa.FreeVar); ok {
					for i, f := range less.FreeVars {
						if f == fv && i < len(mc.Bindings) {
							return sliceVarOf(mc.Bindings[i]) == sorted
						}
					}
				}
				return v == sorted
			}
			if !same(a) || !same(bb) {
				return sorted, false, "comparator indexes a different slice than the one being sorted"
			}
			return sorted, true, ""
		}
	}
	return sorted, false, "comparator has no return"
}

// sliceVarOf: identifies the variable holding a slice: load of alloc/freevar -> that address; parameter -> itself.
func sliceVarOf(v ssa.Value) ssa.Value {
	v = stripConv(v)
	if u, ok := v.(*ssa.UnOp); ok && u.Op == token.MUL {
		return u.X
	}
	return v
}

func checkVersionsToApply(c *Ctx, fn *ssa.Function) {
	p := c.P
	// filter: append guarded by param#0 - Number < 0
	n := 0
	for _, b := range fn.Blocks {
		for _, ins := range b.Instrs {
			call, ok := ins.(*ssa.Call)
			if !ok {
				continue
			}
			if bi, ok := call.Call.Value.(*ssa.Builtin); !ok || bi.Name() != "append" {
				continue
			}
			n++
			var seen []string
			okG := !reachableAvoiding(fn, nil, call, func(from *ssa.BasicBlock, si int) bool {
				iff, ok := from.Instrs[len(from.Instrs)-1].(*ssa.If)
				if !ok {
					return false
				}
				f, okf := p.cmpForm(iff.Cond, si == 0)
				if okf {
					seen = append(seen, f.String())
				}
				return okf && f.String() == "-1*field:Number +1*param#0 +0 < 0"
			})
			c.Check("C19-R2", "pending-iff-number-above-stored", call.Pos(), okG, "VersionsToApply keeps an entry on a path not guarded by 'number > stored version' (forms: "+strings.Join(dedup(seen), " | ")+")")
		}
	}
	c.Floor("C19-R2", "append sites in VersionsToApply", n, 1)
	for _, l := range loopsOf(fn) {
		if l.Kind == "for" {
			continue
		}
		c.Check("C19-R2", "every-table-entry-considered", l.Header.Instrs[0].Pos(), len(l.EarlyExits(p)) == 0 && l.Over == "param:versions" || strings.HasPrefix(l.Over, "param:"),
			"VersionsToApply does not consider every entry of the table")
		// every entry above stored is appended: from the '>' edge must pass append
	}
	// sort on the returned slice
	var sortCall *ssa.Call
	var sorted ssa.Value
	ok, why := false, ""
	for _, st := range sortCallsIn(p, fn) {
		sortCall, sorted, ok, why = st.call, st.sorted, st.ok, st.why
	}
	if sortCall == nil {
		c.Check("C19-R2", "pending-sorted-ascending", fn.Pos(), false, "VersionsToApply does not sort the pending migrations")
		return
	}
	c.Check("C19-R2", "pending-sorted-ascending", sortCall.Pos(), ok, "the pending migrations are not sorted ascending by number: "+why)
	// returned slice is the sorted variable, and sort happens on every path to return
	okRet := true
	for _, b := range fn.Blocks {
		for _, ins := range b.Instrs {
			if r, isR := ins.(*ssa.Return); isR {
				if sliceVarOf(r.Results[0]) != sorted {
					okRet = false
				}
			}
		}
	}
	q := &PathQuery{Fn: fn, Barrier: func(ins ssa.Instruction) bool { return ins == ssa.Instruction(sortCall) }}
	q.Target = func(ins ssa.Instruction, via *ssa.BasicBlock) bool { _, ok := ins.(*ssa.Return); return ok }
	c.Check("C19-R2", "returns-the-sorted-list", sortCall.Pos(), okRet && len(q.From(nil)) == 0, "VersionsToApply returns a list other than the one it sorted, or returns without sorting")
}

func checkGetLatest(c *Ctx, fn *ssa.Function) {
	p := c.P
	// shape (a): sort ascending then last element's Number
	for _, st := range sortCallsIn(p, fn) {
		call, sorted, ok, why := st.call, st.sorted, st.ok, st.why
		okLast := false
		for _, b := range fn.Blocks {
			for _, ins := range b.Instrs {
				r, isR := ins.(*ssa.Return)
				if !isR {
					continue
				}
				if k, isK := constInt(r.Results[0]); isK && k == 0 {
					continue
				}
				u, isU := r.Results[0].(*ssa.UnOp)
				if !isU {
					continue
				}
				fa, isFA := u.X.(*ssa.FieldAddr)
				if !isFA {
					continue
				}
				ia, isIA := fa.X.(*ssa.IndexAddr)
				if !isIA {
					continue
				}
				_, f := fieldAddrName(fa)
				idx := p.linearize(ia.Index, 0)
				if f == "Number" && sliceVarOf(ia.X) == sorted && idx.Konst == -1 && len(idx.Coef) == 1 {
					okLast = true
				}
			}
		}
		c.Check("C19-R2", "latest-is-maximum", call.Pos(), ok && okLast, "GetLatestVersion does not return the last element after an ascending sort by number ("+why+")")
		return
	}
	// shape (b): scan for the maximum
	okScan := false
	for _, l := range loopsOf(fn) {
		if l.Kind == "for" {
			continue
		}
		for _, ins := range l.Header.Instrs {
			ph, ok := ins.(*ssa.Phi)
			if !ok {
				continue
			}
			// some edge value is a Number load guarded by  phi - Number < 0
			for i, e := range ph.Edges {
				if _, f, _, okf := fieldOf(e); okf && f == "Number" {
					for _, g := range p.guardForms(l.Header.Preds[i]) {
						if strings.Contains(g, "-1*field:Number") && strings.Contains(g, "+1*phi:") && strings.HasSuffix(g, "< 0") {
							okScan = true
						}
					}
				}
			}
		}
		if len(l.EarlyExits(p)) != 0 {
			okScan = false
		}
	}
	c.Check("C19-R2", "latest-is-maximum", fn.Pos(), okScan, "GetLatestVersion neither sorts-and-takes-last nor scans for the maximum number (undecided shape)")
}

// versionTable extracts the constant Number sequence of the package-level `versions` literal.
func versionTable(p *Program, pkg string) ([]int64, token.Pos, bool) {
	pk := p.ByPath[rel(pkg)]
	if pk == nil {
		return nil, token.NoPos, false
	}
	for _, f := range pk.Syntax {
		for _, d := range f.Decls {
			gd, ok := d.(*ast.GenDecl)
			if !ok || gd.Tok != token.VAR {
				continue
			}
			for _, sp := range gd.Specs {
				vs := sp.(*ast.ValueSpec)
				for i, name := range vs.Names {
					if name.Name != "versions" || i >= len(vs.Values) {
						continue
					}
					cl, ok := vs.Values[i].(*ast.CompositeLit)
					if !ok {
						return nil, name.Pos(), false
					}
					var nums []int64
					for _, el := range cl.Elts {
						ecl, ok := el.(*ast.CompositeLit)
						if !ok {
							return nil, name.Pos(), false
						}
						found := false
						for j, fe := range ecl.Elts {
							var val ast.Expr
							if kv, ok := fe.(*ast.KeyValueExpr); ok {
								if id, ok := kv.Key.(*ast.Ident); ok && id.Name == "Number" {
									val = kv.Value
								}
							} else if j == 0 {
								val = fe
							}
							if val == nil {
								continue
							}
							tv, ok := pk.TypesInfo.Types[val]
							if !ok || tv.Value == nil {
								return nil, name.Pos(), false
							}
							k, _ := constant.Int64Val(tv.Value)
							nums = append(nums, k)
							found = true
						}
						if !found {
							return nil, name.Pos(), false
						}
					}
					return nums, name.Pos(), true
				}
			}
		}
	}
	return nil, token.NoPos, false
}

// checkUpgradeStopsAtFirstFailure: migration.Upgrade runs the managers one after the other inside the caller's single
// database transaction and relies on the returned error to have it rolled back: the first failing manager ends the
// loop with that error — no later manager is upgraded after it, and no later success can overwrite the error.
// migrationFunctions: the functions listed in the Migration slot of the components' version tables, with their private parts.
func migrationFunctions(p *Program) map[*ssa.Function]bool {
	out := map[*ssa.Function]bool{}
	for _, fn := range p.RepoFuncs {
		for _, b := range fn.Blocks {
			for _, ins := range b.Instrs {
				st, ok := ins.(*ssa.Store)
				if !ok {
					continue
				}
				fa, ok := st.Addr.(*ssa.FieldAddr)
				if !ok {
					continue
				}
				if tn, f := fieldAddrName(fa); tn != "Version" || f != "Migration" {
					continue
				}
				if g := fnValueOf(st.Val); g != nil {
					for _, part := range p.regionOf(g) {
						out[part] = true
					}
				}
			}
		}
	}
	return out
}

// checkMigrationErrorDiscipline: "if a migration fails the stored version is unchanged" presupposes that a migration
// whose write failed says so: inside the listed migration functions no error of a database write is dropped, swallowed
// (logged and replaced by success) or overwritten — otherwise upgrade records the new version over half-applied data.
func checkMigrationErrorDiscipline(c *Ctx, rule string) {
	p := c.P
	migs := migrationFunctions(p)
	c.Floor(rule, "functions listed as migrations (with their private parts)", len(migs), 6)
	ed := newErrDisc(p)
	n := 0
	for _, s := range ed.sitesIn(c10Pkgs) {
		fn := s.call.Parent()
		if !migs[outermost(fn)] && !migs[fn] {
			continue
		}
		n++
		key := fmt.Sprintf("migration-write-error-propagates:%s/%s", fnName(fn), ed.siteName(s.call))
		if !s.res.ok {
			key = "migration-write-error-propagates:" + fnName(fn) + "!" + s.res.kind
		}
		c.Check(rule, key, s.call.Pos(), s.res.ok, s.res.detail)
	}
	c.Floor(rule, "database write sites inside migration functions", n, 10)
}

// checkMigrationsDoNotWriteVersion: "if a migration fails the stored version is unchanged": the version is recorded by
// upgrade (Manager.SetVersion) after the last pending migration succeeded — and by nobody else. A migration that calls
// the component's version writer itself moves the stored version although it, or a later migration of the same upgrade,
// can still fail.
func checkMigrationsDoNotWriteVersion(c *Ctx, rule string) {
	p := c.P
	writers := map[*ssa.Function]bool{}
	for _, fn := range p.RepoFuncs {
		if fn.Name() != "SetVersion" || fn.Signature.Recv() == nil || !strings.HasSuffix(fn.Signature.Recv().Type().String(), "MigrationManager") {
			continue
		}
		for _, ci := range callsOf(fn) {
			if g := ci.Common().StaticCallee(); g != nil && p.InRepo(g) && fnPkgPath(g) == fnPkgPath(fn) {
				writers[g] = true
			}
		}
	}
	c.Floor(rule, "version writers behind MigrationManager.SetVersion", len(writers), 2)
	n := 0
	var migs []*ssa.Function
	for m := range migrationFunctions(p) {
		if m.Parent() == nil {
			migs = append(migs, m)
		}
	}
	sort.Slice(migs, func(i, j int) bool { return migs[i].Pos() < migs[j].Pos() })
	for _, m := range migs {
		n++
		bad := ""
		for w := range writers {
			if p.reachSet(m)[w] {
				bad = w.Name()
			}
		}
		c.Check(rule, "migration-leaves-version-to-the-framework:"+fnName(m), m.Pos(), bad == "",
			fnName(m)+" writes the stored version itself ("+bad+"): if it fails afterwards, or a later migration of the same upgrade fails, Upgrade reports the error with the stored version already changed")
	}
	c.Floor(rule, "migration functions examined", n, 6)
}

func checkUpgradeStopsAtFirstFailure(c *Ctx, rule string) {
	p := c.P
	up := p.Func("walletdb/migration", "", "Upgrade")
	inner := p.Func("walletdb/migration", "", "upgrade")
	if up == nil || inner == nil {
		c.Unresolved(rule, "migration.Upgrade / migration.upgrade")
		return
	}
	n := 0
	for _, l := range loopsOf(up) {
		if !l.containsInstr(func(i ssa.Instruction) bool { return p.isCallTo(i, inner) }) {
			continue
		}
		for b := range l.Blocks {
			for _, ins := range b.Instrs {
				call, ok := ins.(*ssa.Call)
				if !ok || !p.isCallTo(ins, inner) {
					continue
				}
				n++
				// from the failure edge of this call, the next iteration must be unreachable and every return carries the error
				okStop := true
				found := false
				for _, bb := range up.Blocks {
					for si := range bb.Succs {
						ef := edgeFactOf(bb, si)
						if ef == nil || ef.Kind != "nonnil" || !loadIsResultOf(ef.V, call) {
							continue
						}
						found = true
						q := &PathQuery{Fn: up}
						q.LoopExit = func(from, to *ssa.BasicBlock) bool { return to == l.Header }
						q.Target = func(i ssa.Instruction, via *ssa.BasicBlock) bool {
							r, ok := i.(*ssa.Return)
							return ok && p.classifyReturn(r, via) != retError
						}
						if len(exploreFromBlock(q, bb.Succs[si], bb)) > 0 {
							okStop = false
						}
					}
				}
				c.Check(rule, "first-failing-manager-stops-upgrade", call.Pos(), found && okStop,
					"migration.Upgrade goes on to the next manager (or can return success) after a manager's upgrade failed: the enclosing transaction commits a half-applied migration, or a newer-than-understood service does not stop the others from being migrated")
			}
		}
	}
	c.Floor(rule, "manager loops in migration.Upgrade", n, 1)
}

// migrationReach: printed names of the functions reachable (inside the repository) from the migration functions — the
// functions of the managers' migrations files.
func migrationReach(p *Program) map[string]bool {
	out := map[string]bool{}
	for _, fn := range p.RepoFuncs {
		if fn.Parent() != nil || !strings.HasSuffix(p.Fset.Position(fn.Pos()).Filename, "migrations.go") {
			continue
		}
		out[fnName(fn)] = true
		for g := range p.reachSet(fn) {
			if p.all[g] {
				out[fnName(g)] = true
			}
		}
	}
	return out
}

// sortCallsIn: the ascending-sort steps of fn: sort.Slice calls in fn itself, and calls of a private part of the package
// whose body sorts its own slice parameter that way (`sortVersions(pending)`). For each: the call in fn, the variable
// of fn that is sorted, whether the comparator is the ascending one, and the reason if not.
type sortStep struct {
	call   *ssa.Call
	sorted ssa.Value
	ok     bool
	why    string
}

func sortCallsIn(p *Program, fn *ssa.Function) []sortStep {
	var out []sortStep
	for _, ci := range callsOf(fn) {
		call, ok := ci.(*ssa.Call)
		if !ok {
			continue
		}
		g := call.Call.StaticCallee()
		if g == nil {
			continue
		}
		if calleeShort(&call.Call) == "Slice" && fnPkgPath(g) == "sort" {
			sorted, ok, why := sortedAscendingByNumber(p, call)
			out = append(out, sortStep{call, sorted, ok, why})
			continue
		}
		if len(g.Blocks) == 0 || fnPkgPath(g) != fnPkgPath(fn) || g.Object() == nil || g.Object().Exported() || g == fn {
			continue
		}
		for _, inner := range callsNamed(g, "Slice") {
			sorted, ok, why := sortedAscendingByNumber(p, inner)
			prm, isPrm := sorted.(*ssa.Parameter)
			if al, isAl := sorted.(*ssa.Alloc); isAl && isParamSpill(al) { // captured by the comparator: spilled
				for _, st := range storesTo(al) {
					if q, ok := st.Val.(*ssa.Parameter); ok {
						prm, isPrm = q, true
					}
				}
			}
			if !isPrm || prm.Parent() != g {
				continue
			}
			idx := paramIndex(g, prm)
			if idx < 0 || idx >= len(call.Call.Args) {
				continue
			}
			out = append(out, sortStep{call, sliceVarOf(stripConv(call.Call.Args[idx])), ok, why})
		}
	}
	return out
}

// checkCurrentVersionPropagatesReadFailure: "a database whose version this software cannot read is refused unmodified"
// starts where the version is read: a manager's CurrentVersion hands the read's error on. Mapped to "version 0" the
// driver sees a database older than everything, runs every migration over a format it does not understand and stamps
// its own latest version on it.
func checkCurrentVersionPropagatesReadFailure(c *Ctx, rule string) {
	p := c.P
	n := 0
	for _, fn := range p.RepoFuncs {
		if fn.Parent() != nil || fn.Name() != "CurrentVersion" || recvName(fn) != "MigrationManager" {
			continue
		}
		for _, ci := range callsOf(fn) {
			call, ok := ci.(*ssa.Call)
			if !ok || !tupleHasErr(call.Type()) {
				continue
			}
			g := call.Call.StaticCallee()
			if g == nil || fnPkgPath(g) != fnPkgPath(fn) {
				continue
			}
			n++
			// from the non-nil edge of the read's error no success return is reachable
			bad := false
			for _, b := range fn.Blocks {
				r, ok := b.Instrs[len(b.Instrs)-1].(*ssa.Return)
				if !ok || p.classifyReturn(r, nil) == retError {
					continue
				}
				// success return: reachable without having taken the nil edge of the read's error?
				if reachableAvoiding(fn, call, r, func(from *ssa.BasicBlock, si int) bool {
					ef := edgeFactOf(from, si)
					return ef != nil && ef.Kind == "nil" && loadIsResultOf(ef.V, call)
				}) {
					// a plain `return f(ns)` hands the pair on: not a success return of its own
					if ex, ok := effectiveResult(r, len(r.Results)-1).(*ssa.Extract); ok && ex.Tuple == ssa.Value(call) {
						continue
					}
					bad = true
				}
			}
			c.Check(rule, "current-version-propagates-read-failure:"+shortPkg(fnPkgPath(fn)), call.Pos(), !bad,
				fnName(fn)+" can report a version (and no error) although reading the stored version failed: an unreadable — newer — database is taken for an old one, migrated and re-stamped instead of being refused untouched")
		}
	}
	c.Floor(rule, "version reads of the migration managers", n, 2)
}
