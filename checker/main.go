package main

import (
	"encoding/json"
	"flag"
	"fmt"
	"golang.org/x/tools/go/ssa"
	"os"
	"path/filepath"
	"runtime/debug"
	"sort"
	"strconv"
	"strings"
	"time"
)

var registry = map[string]*propSpec{}

func register(s *propSpec) {
	if extra, ok := laterRules[s.ID]; ok {
		s.Explanation += " Rules added after seeded waves 8-16 (DESIGN.md 8.1f-8.1n): " + extra
	}
	registry[s.ID] = s
}

// laterRules: one-line statements of the rules added after the per-property explanations were written.
var laterRules = map[string]string{
	"C01": "coinbase-maturity comparisons in the wallet package have the canonical relation; only the owner, the expiry sweep or a confirmed spend ends a lease (C12's rules). Flag bytes are read through single-bit masks. An exported store method reports success only through its worker. The heights the rollback hands to deleteBlockRecord are those of the records it walked; the store's own errors are not dropped (C10-R1). The lease test's outpoint is indexed inside the per-output loop. A confirmed spend releases the lease of exactly the outpoint it spends. An outpoint decoded from key bytes has both its hash and its index.",
	"C02": "an iterator's reposition seeks exactly the position it is given; a rolled back spend restores every credit that still exists (existence asked of the store, not read off the amount); flag bits are typed. The rescan-finished handling always marks the wallet synced; flag bytes are read through masks. A field of Store written after opening is also reset by the rollback; the rollback deletes the block records it walked. Every output of a detached coinbase is swept for unconfirmed spenders (F46). The decode loop of the spender list of an outpoint ends only when the raw value is used up.",
	"C03": "every address built from a derived extended key is recorded for derive-on-unlock; the account-cache invalidation evicts on every path; no key is used after it or its neutered twin was zeroed; the account schema override is asked for on both branches. Import paths agree on the schema field; imports are lock-gated. A stored key pair is one key and its Neuter(); a derive-on-unlock entry is made for every object that lacks its key. An address's encrypted private key is cleared only by the watch-only conversion; a row serialiser tests its schema for presence only. Derive, commit and the commit callback of every issuing transaction happen under one wallet mutex (C09-R1). The stored next index that moves is the one of the address's own branch; an owned key is found under the pay-to-pubkey form of its address as well (F45 rule).",
	"C04": "live crypto keys captured by function literals are used under the manager mutex; the unlocked flag is set last. The secrecy class of an imported script is the caller's. Every seal uses a fresh nonce (C17-R2). Random fills cover the whole buffer and digests are compared whole (C17-R2/R3). The conversion of a running manager always wipes (C05-R3); a key counts as tested with IsPrivate only if nothing but Neuter() uses it past the private edge. A put helper stores each ciphertext under the key name of its own class. The package random source is read only through io.ReadFull.",
	"C05": "the unlocked flag is set last; evicted accounts and evicted address objects are wiped first; the wipe primitive loops over the whole slice. No live key is wiped through an aliasing accessor. A rewritten account row keeps its private key; a passphrase is refused only on digest mismatch. An address object built from a private key is in the address cache before it is handed out; a cache miss loads the address asked for. Nothing private is sealed under the public crypto key; the locked flag is tested under the manager mutex by methods that take it. A field is wiped before it is set to nil, never after.",
	"C06": "the wallet locker grants an unlock hold only when the manager is not locked; explicit PSBT inputs are distinct; input values handed to the signer are the coins' own amounts. A lease ends only by owner, expiry or confirmed spend (C12-R5). The rollback records the outpoints of vanished coinbase credits with the index at hand. addRelevantTx reports success only after the store insert; structs carried across loop iterations are not re-used stale. The unlock hold spans the creation of the transaction; a recorded unconfirmed spend releases no lease. A re-delivered credit is not written again; a record is keyed by its transaction id (C01-R6). The amount handed to a witness spend helper is inputValues[i] of the input's own i.",
	"C07": "the change output is sized 8 + prefix + script; the dust test covers the serialized output; the P2PKH script size constant covers the key sizes the wallet holds (known finding F36). SumOutputValues adds every output; each per-kind input count reaches the estimator parameter of its kind. An in-place filter leaves no stale tail. GetMinInputVirtualSize selects each kind's own constants; the fee product's overflow is guarded. The author never writes through the caller's output pointers; the dust test sees the real change script.",
	"C08": "a cache-miss load uses the address the cache was asked for; readers of hashed buckets hash. The compression choice of an imported WIF is one choice; the account invalidation evicts on every path. Same-named parameters are not passed crosswise; the sync point is written through the manager. Manager.BlockHash answers from the database; only a dry run rolls the issuing transaction back. AccountName answers from the database; NewScopedKeyManager always persists the scope. A rebuilt address object's flags are the row's; a connected block is always written (C15-R2). PutSyncedTo and updateSyncedTo report success only after their writes (C15-R3).",
	"C09": "an address-issuing transaction does not invalidate the account cache. A scope namespace is created exclusively; the two next indices are not exchanged. No commit hook releases the issuing mutex; only a dry run rolls back. Row deserialisers read each fixed-width field at its own offset. Account-cache entries are evicted only by InvalidateAccountCache. The issuing mutex is unlocked by the function activation that locked it.",
	"C10": "between a write and a success return the write's error has been looked at (rule D).",
	"C11": "the driver entry points hand create/read-only/no-freelist-sync to the opener from their own sources. Nothing in the adapter removes or overwrites the database file.",
	"C12": "the outpoints handed to a rescan and to the recovery include leased outputs; the stored expiry is the given instant; a lease is not mirrored into the timeless in-memory lock set. Wallet-level lease requests always reach the store. The lease entry points report success only after the hand-over; the lease is asked of the output being judged. Wallet.ListLeasedOutputs visits every lease. An outpoint decoded from a lease key has both its hash and its index.",
	"C13": "record key and output index of a previous-output script fetch come from one source; every input of a mined record is looked at. Flag bytes are read through masks. Summary inputs carry the debit record index. A missing label is not an error; PreviousPkScripts' loops have no early exit. putDebit always writes the debit. The unmined range callback runs only after every unmined record was read. latestTxRecord returns a record reached by a cursor step after the seek.",
	"C15": "PutSyncedTo leaves no hash above the stamped height; the bitcoind block filter announces every block it is asked to notify; a recovery batch's stamps and transactions share one database transaction. The rescan-finished handling always marks the wallet synced; a stopped chain client is detached. A block-disconnected event is always handed over by the light client. The sync stamps are read under the manager mutex in exported Manager methods. The btcd handler's queue never drops or replaces a waiting notification (C18-R5). A block stamped at the birthday is connected by the light client; every filtered block is handed over. updateSyncedTo reports success only after the Put of the stamp.",
	"C16": "the recovery starts at the birthday block the startup path may just have re-based; the compact-filter watch list covers every request component; a neutrino recovery waits for a synced backend. Row keys of caller-supplied addresses normalise pay-to-pubkey (F45); a failed recovery fails the sync attempt. A filter that cannot be fetched is an error; the length guard admits one-element filters; F5 as it shows in a recovery. Unsigned subtractions in the recovery state are guarded; the birthday search accepts an uncompared block only at a bound of the search. A retried first synchronisation consults the persisted birthday block (F47); next-index guards stay on their branch; Resurrect reports every recorded key. A corrected birthday block always moves the synced-to block; addRelevantTx credits every output. AddToBlockBatch only appends to the batch.",
	"C17": "crypto keys are selected and used under the manager mutex (C04-R6). The creating side gets the caller passphrase as well. The derived-passphrase rule also follows the generator indirection (newSecretKey / SecretKeyGenerator). ChangePassphrase reports success only with both writes done (C10-R1); the passphrase key's Encrypt/Decrypt always go through the crypto key's. newSecretKey hands the generator the caller's passphrase. The package random source is read only through io.ReadFull.",
	"C18": "a queue-owning client's shutdown always stops the queue; a transaction is announced once per pass; reorganised branches are enqueued in chain order. A goroutine start gated by an atomic flag is gated by an atomic test-and-set. The light client hands a block over before its rescan-finished, announced once, in the finished state. NeutrinoClient.Start stores fresh channels only when stopped; a queue producer waits on its own object's shutdown. RPCClient's started flag is set only where the handler is launched.",
	"C19": "the upgrade's database transaction rolls back on error and panic (C11-R1 taken over); version writers report failed writes. Everything a migration runs reports failed writes. A migration manager's CurrentVersion propagates a failed version read. The stored version is read with the width it is written with. The latest version is a Number of the version table.",
	"C20": "the function the recorded transaction is handed to cannot fail before the send without removing it; the backend's answer is the searched text in every error mapping; forgetting a transaction ends no lease. The error matcher is a substring test; only its own rescan switches a rescan-finished off. The store serialises transactions with the witness (MsgTx.Serialize only); the current error table covers every 'already ...' answer an older-generation table can produce. Every backend's broadcast errors go through its MapRPCErr. A failed send is reported as success with the record kept only for ErrTxAlreadyInMempool.",
}

func main() {
	prop := flag.String("property", "", "property id (C01..C20) or 'all'")
	tier := flag.String("tier", "", "quick|thorough")
	explain := flag.String("explain", "", "re-derive and print a violation replay file")
	dump := flag.Bool("dump", false, "print all obligations")
	probe := flag.String("probe", "", "development probes (guardedby)")
	writeNames := flag.String("write-names", "", "write the declaration snapshot of the repository (reference names for identifier canonicalisation) to this file and exit")
	flag.Parse()
	if *writeNames != "" {
		writeNamesTo = *writeNames
		if _, err := Load(repoDir(), "", ""); err != nil {
			fmt.Println(err)
			os.Exit(2)
		}
		fmt.Println("wrote", *writeNames)
		os.Exit(0)
	}
	if *tier == "" {
		*tier = os.Getenv("VERIF_TIER")
	}
	if *tier != "thorough" {
		*tier = "quick"
	}
	seed := 0
	if s := os.Getenv("VERIF_SEED"); s != "" {
		seed, _ = strconv.Atoi(s)
	}
	if *probe == "guardedby" {
		prog, err := Load(repoDir(), "", "")
		if err != nil {
			fmt.Println(err)
			os.Exit(2)
		}
		guardedByProbe(prog)
		os.Exit(0)
	}
	if *probe == "typeswitch" {
		prog, err := Load(repoDir(), "", "")
		if err != nil {
			fmt.Println(err)
			os.Exit(2)
		}
		c := newCtx(prog, "C13")
		var fns []*ssa.Function
		for _, f := range prog.RepoFuncs {
			if f.Parent() == nil {
				fns = append(fns, f)
			}
		}
		checkTypeSwitchArmsAssignSameVar(c, "probe", fns)
		for _, o := range c.Obls {
			fmt.Println(o.OK, o.Construct, o.Pos)
		}
		os.Exit(0)
	}
	if *explain != "" {
		os.Exit(doExplain(*explain))
	}
	var ids []string
	if *prop == "all" {
		for id := range registry {
			ids = append(ids, id)
		}
		sort.Strings(ids)
	} else {
		for _, id := range strings.Split(*prop, ",") {
			if registry[id] == nil {
				fmt.Fprintf(os.Stderr, "unknown property %q\n", id)
				os.Exit(2)
			}
			ids = append(ids, id)
		}
	}
	os.Exit(runProps(ids, *tier, seed, *dump))
}

func runProps(ids []string, tier string, seed int, dump bool) int {
	start := time.Now()
	repo := repoDir()
	prog, err := Load(repo, "", "")
	if err != nil {
		// cannot analyse: must not read as a pass
		code := 0
		for _, id := range ids {
			code = failAll(id, tier, seed, start, "LOAD-FAILURE: "+err.Error())
		}
		return code
	}
	exit := 0
	for _, id := range ids {
		st := time.Now()
		if len(ids) == 1 {
			st = start
		}
		code := runOne(prog, registry[id], tier, seed, st, dump)
		if code > exit {
			exit = code
		}
	}
	return exit
}

func runOne(prog *Program, spec *propSpec, tier string, seed int, start time.Time, dump bool) (code int) {
	c := newCtx(prog, spec.ID)
	func() {
		defer func() {
			if r := recover(); r != nil {
				c.Obls = append(c.Obls, Obligation{Rule: "infra", Construct: "checker-panic", OK: false,
					Detail: fmt.Sprintf("checker panicked: %v\n%s", r, debug.Stack())})
			}
		}()
		spec.Run(c)
	}()
	extra := map[string]interface{}{}
	if tier == "thorough" {
		thorough(c, spec, extra)
	}
	if dump {
		for _, o := range c.Obls {
			st := "ok  "
			if !o.OK {
				st = "FAIL"
			}
			fmt.Printf("  %s %-8s %-60s %s  %s\n", st, o.Rule, o.Construct, o.Pos, o.Detail)
			_ = o.Requires
		}
	}
	return c.finish(spec, tier, seed, start, extra)
}

// failAll writes a failing evidence file when the program could not be loaded.
func failAll(id, tier string, seed int, start time.Time, msg string) int {
	evdir := evidenceDir()
	os.MkdirAll(filepath.Join(evdir, "violations"), 0o755)
	path := filepath.Join(evdir, "violations", id+"-1.json")
	data, _ := json.MarshalIndent(map[string]interface{}{"property": id, "rule": "infra", "detail": msg}, "", " ")
	os.WriteFile(path, data, 0o644)
	ev := evidence{PropertyID: id, Tier: tier, Seed: seed, Level: "other",
		Coverage: map[string]interface{}{"explanation": "the program under /repo could not be loaded or type-checked, so no rule could decide: " + msg,
			"obligations": 1, "discharged": 0, "evaluations": 1, "distinct_nontrivial": 0},
		Assumptions: []string{}, WallS: time.Since(start).Seconds(), Violations: 1}
	d2, _ := json.MarshalIndent(ev, "", " ")
	os.WriteFile(filepath.Join(evdir, id+".json"), d2, 0o644)
	fmt.Printf("REPORT %s infra: %s\n", id, msg)
	fmt.Printf("VIOLATION property=%s replay=%s\n", id, path)
	return 1
}

func doExplain(path string) int {
	data, err := os.ReadFile(path)
	if err != nil {
		fmt.Fprintln(os.Stderr, err)
		return 2
	}
	var m map[string]interface{}
	if err := json.Unmarshal(data, &m); err != nil {
		fmt.Fprintln(os.Stderr, err)
		return 2
	}
	id, _ := m["property"].(string)
	fmt.Printf("recorded: %s\n", string(data))
	if registry[id] == nil {
		return 2
	}
	fmt.Printf("re-deriving %s against the current tree:\n", id)
	return runProps([]string{id}, "quick", 0, false)
}
