package main

import (
	"fmt"
	"sort"
	"strings"

	"golang.org/x/tools/go/ssa"
)

func init() {
	register(&propSpec{
		ID: "C09",
		Explanation: "Decides the structural closure of the duplicate-address hazard: every database transaction (walletdb.Update closure) that can reach " +
			"ScopedKeyManager.NextExternalAddresses/NextInternalAddresses on any call chain is opened, committed and has its commit callbacks run while one " +
			"common sync.Mutex field of *Wallet is held (must-hold lockset at the transaction site, propagated through all caller chains; the same mutex at every site); " +
			"every issuing call site lies under such a transaction site; the in-memory next index is advanced only inside the OnCommit callback, which re-takes the scoped " +
			"manager's write lock; nextAddresses is referenced only by the two exported issuers. NOT decided: uniqueness/gap-freeness of index arithmetic (sequential part is C03-R4), " +
			"Extend*Addresses (recovery, serialised by the single sync goroutine).",
		Assumptions: []string{
			"Go mutex semantics; bbolt runs commit handlers inside Tx.Commit, and walletdb.Update returns only after Commit returned (C11-R1)",
			"a mutex is identified by (struct type, field): one Wallet instance per database",
			"call graph (static + VTA for calls through struct fields/interfaces) over-approximates real calls",
		},
		Run: runC09,
	})
}

func runC09(c *Ctx) {
	p := c.P
	issuers := []*ssa.Function{
		p.Func("waddrmgr", "ScopedKeyManager", "NextExternalAddresses"),
		p.Func("waddrmgr", "ScopedKeyManager", "NextInternalAddresses"),
	}
	for i, f := range issuers {
		if f == nil {
			c.Unresolved("C09-R1", []string{"ScopedKeyManager.NextExternalAddresses", "ScopedKeyManager.NextInternalAddresses"}[i])
			return
		}
	}
	issuerSet := map[*ssa.Function]bool{issuers[0]: true, issuers[1]: true}

	// issuing call sites
	var issuing []ssa.CallInstruction
	for _, f := range issuers {
		issuing = append(issuing, p.callers(f)...)
	}
	sort.Slice(issuing, func(i, j int) bool { return issuing[i].Pos() < issuing[j].Pos() })
	c.Floor("C09-R1", "issuing call sites", len(issuing), 2)

	// transaction sites: every write-transaction runner call in the program whose closure may reach an issuer
	type txSite struct {
		call    *ssa.Call
		closure *ssa.Function
	}
	var txSites []txSite
	covered := map[*ssa.Function]bool{} // functions reachable from some transaction closure
	nRunners := 0
	for _, fn := range p.RepoFuncs {
		if strings.HasPrefix(fnPkgPath(fn), walletdbPath) {
			continue
		}
		for _, ci := range callsOf(fn) {
			call, ok := ci.(*ssa.Call)
			if !ok || !isTxRunner(call.Common(), true) {
				continue
			}
			nRunners++
			for _, cl := range funcArgs(call) {
				rs := p.reachSet(cl)
				reaches := false
				for f := range issuerSet {
					if rs[f] {
						reaches = true
					}
				}
				if reaches {
					txSites = append(txSites, txSite{call, cl})
					for f := range rs {
						covered[f] = true
					}
				}
			}
			// a runner whose function argument is not a literal closure cannot be resolved
			if len(funcArgs(call)) == 0 {
				c.Note("transaction runner at %s takes a non-literal function value; resolved through VTA only", p.Pos(call.Pos()))
			}
		}
	}
	sort.Slice(txSites, func(i, j int) bool { return txSites[i].call.Pos() < txSites[j].call.Pos() })
	c.Note("C09-R1: %d write-transaction runner calls examined, %d can reach an address issuer", nRunners, len(txSites))
	c.Floor("C09-R1", "address-issuing transaction sites", len(txSites), 3)

	// manual transactions (BeginReadWriteTx) that reach an issuer are not modelled: flag them
	for _, fn := range p.RepoFuncs {
		if strings.HasPrefix(fnPkgPath(fn), walletdbPath) {
			continue
		}
		for _, ci := range callsOf(fn) {
			cc := ci.Common()
			if cc.IsInvoke() && cc.Method.Name() == "BeginReadWriteTx" && cc.Method.Pkg() != nil && cc.Method.Pkg().Path() == walletdbPath {
				rs := p.reachSet(outermost(fn))
				for f := range issuerSet {
					if rs[f] {
						c.Check("C09-R1", "manual-tx:"+fnName(fn), ci.Pos(), false,
							"function opens a manual read-write transaction and can reach an address issuer; the lock span of a manual transaction is not modelled (undecided)")
					}
				}
			}
		}
	}

	// every issuing call site must lie under a transaction site
	for _, is := range issuing {
		fn := is.Parent()
		ok := covered[fn]
		c.Check("C09-R1", "issuing-site-under-tx:"+fnName(fn)+"->"+calleeDesc(is.Common()), is.Pos(), ok,
			"call that issues addresses is not reachable from any walletdb.Update closure (no transaction site to hold the address mutex around)")
	}

	// lock held at every transaction site, same mutex everywhere
	var common lockState
	type siteRes struct {
		name string
		held lockState
		why  []string
		pos  ssa.Instruction
	}
	var results []siteRes
	for _, ts := range txSites {
		held, why := p.heldUpward(ts.call, 0, map[*ssa.Function]bool{})
		// only wallet-level sync.Mutex fields count
		h := lockState{}
		for k := range held {
			if strings.HasPrefix(k, "wallet.Wallet.") && !strings.HasSuffix(k, "(R)") {
				h[k] = true
			}
		}
		results = append(results, siteRes{fnName(ts.call.Parent()), h, why, ts.call})
		if common == nil {
			common = h.clone()
		} else {
			common = intersect(common, h)
		}
	}
	// choose the mutex held at the most sites (so that one missing site is
	// reported as that site, not as "no common mutex")
	count := map[string]int{}
	for _, r := range results {
		for k := range r.held {
			count[k]++
		}
	}
	best, bestN := "", 0
	for k, n := range count {
		if n > bestN || (n == bestN && k < best) {
			best, bestN = k, n
		}
	}
	for _, r := range results {
		ok := best != "" && r.held[best]
		detail := fmt.Sprintf("held on all paths and call chains: %s", lsString(r.held))
		if !ok {
			detail = fmt.Sprintf("address-issuing transaction runs without the wallet address mutex %q held across the whole walletdb.Update call (held: %s; %s)",
				best, lsString(r.held), strings.Join(r.why, "; "))
		}
		c.Check("C09-R1", "tx-site-locked:"+r.name, r.pos.Pos(), ok, detail)
	}
	c.Note("C09-R1: common mutex = %q held at %d/%d transaction sites", best, bestN, len(results))

	// the commit callback of an issue advances the index on the *accountInfo it looked up when it derived; that is the
	// account every later request sees only as long as the cache entry is not replaced in between. Evicting an account
	// from the cache is therefore part of the same critical section: every eviction happens with the address mutex held
	// (an eviction from lock(), which an auto-lock timer runs at any time, lets a stale reader re-cache the account from
	// its old snapshot while the callback updates the orphaned object: the next request re-issues the same index)
	if best != "" {
		nEv := 0
		for _, fn := range p.FuncsIn("waddrmgr") {
			for _, call := range callsNamed(fn, "delete") {
				if len(call.Call.Args) == 0 {
					continue
				}
				if tn, f, _, okf := fieldOf(stripConv(call.Call.Args[0])); !okf || tn != "ScopedKeyManager" || f != "acctInfo" {
					continue
				}
				var sites []ssa.Instruction
				top := outermost(fn)
				if top.Object() != nil && top.Object().Exported() && fn == top {
					for _, cs := range p.realCallers(top) {
						sites = append(sites, cs)
					}
				} else {
					sites = append(sites, call)
				}
				for _, site := range sites {
					nEv++
					held, why := p.heldUpward(site, 0, map[*ssa.Function]bool{})
					c.Check("C09-R2", "account-cache-eviction-under-address-mutex:"+fnName(site.Parent()), site.Pos(), held[best],
						fmt.Sprintf("%s evicts an account from the scoped manager's cache without the address mutex %q held (held: %s; %s): an issue whose commit callback is still pending keeps updating the evicted object, memory falls behind the database and the next request hands out the same address again",
							fnName(site.Parent()), best, lsString(held), strings.Join(why, "; ")))
				}
			}
		}
		c.Floor("C09-R2", "account-cache evictions", nEv, 1)
		// ... and the cache is never replaced wholesale after construction: assigning a new map to ScopedKeyManager.acctInfo
		// evicts EVERY account of the scope at once (also those whose issue is still waiting for its commit callback),
		// whatever single account the caller meant to forget
		nRepl := 0
		for _, fn := range p.FuncsIn("waddrmgr") {
			for _, b := range fn.Blocks {
				for _, ins := range b.Instrs {
					st, ok := ins.(*ssa.Store)
					if !ok {
						continue
					}
					fa, ok := st.Addr.(*ssa.FieldAddr)
					if !ok {
						continue
					}
					if tn, f := fieldAddrName(fa); tn != "ScopedKeyManager" || f != "acctInfo" {
						continue
					}
					nRepl++
					_, fresh := fa.X.(*ssa.Alloc) // the manager being constructed in this function
					c.Check("C09-R2", "account-cache-map-assigned-only-at-construction:"+fnName(fn), st.Pos(), fresh,
						fnName(fn)+" assigns a new map to the scoped manager's account cache outside its construction: every cached account of the scope is evicted at once, including one whose address issue still waits for its commit callback")
				}
			}
		}
		c.Floor("C09-R2", "assignments of the account cache map", nRepl, 1)
	}
	// the chosen mutex must not be released inside anything a transaction closure can reach
	if best != "" {
		for f := range covered {
			if !p.InRepo(f) {
				continue
			}
			for _, b := range f.Blocks {
				for _, ins := range b.Instrs {
					if k, op := lockOp(ins); op == -1 && k == best {
						c.Check("C09-R1", "no-unlock-inside-tx:"+fnName(f), ins.Pos(), false,
							"the address mutex is released by code reachable from inside an address-issuing transaction closure")
					}
				}
			}
		}
	}

	runC09R2(c)
	// every issuing entry point decides "this call succeeded" from walletdb.Update's result: it must be the commit's
	// a dry-run import (itself an address-issuing call) never leaves its never-persisted account in the cache
	c.Borrow(func(c2 *Ctx) { checkDryRun(c2, "C09-R2") }, "C09-R2", "C09-R2", func(k string) bool {
		return strings.HasPrefix(k, "account-dry-run-always-invalidates-cache") || strings.HasPrefix(k, "only-a-dry-run-rolls-back")
	})
	c.Borrow(runC11, "C11-R1", "C09-R2", func(k string) bool {
		return strings.HasPrefix(k, "Update-success-returns-Commit-result") || strings.HasPrefix(k, "Update-returns-function-error")
	})
	checkInvalidationAlwaysEvicts(c, "C09-R2")
	checkIssuingTransactionKeepsAccountCache(c, "C09-R2")
	checkScopeNamespaceCreatedExclusively(c, "C09-R2")
	checkNoCommitHookReleasesIssuingMutex(c, "C09-R1")
	checkIssuingMutexReleasedByItsTaker(c, "C09-R1")
	checkRowFieldReadsAtDistinctOffsets(c, "C09-R2", "waddrmgr")
	checkAccountCacheEvictedOnlyByInvalidation(c, "C09-R2")
	checkSameNamedParametersNotCrossed(c, "C09-R2", "waddrmgr") // the persisted next indices of the two branches are not exchanged
	checkDryRunFlagForwardedOrFalse(c, "C09-R2")
	// nothing but the commit callback (and the loader) moves the in-memory next index: a reader that writes a
	// snapshot's index back rewinds it behind a concurrent issuer (C08-R1's rule, taken over)
	// (extendAddresses' eager stores are the recorded finding F5 of C08/C10 and are not repeated here)
	checkIndexMirrorsOnlyAtCommit(c, "C09-R2", func(top string) bool { return top == "extendAddresses" })
}

// C09-R2 / R3: callback placement and single entry.
func runC09R2(c *Ctx) {
	p := c.P
	next := p.Func("waddrmgr", "ScopedKeyManager", "nextAddresses")
	if next == nil {
		c.Unresolved("C09-R2", "ScopedKeyManager.nextAddresses")
		return
	}
	// stores to accountInfo index mirrors inside nextAddresses (incl. closures)
	nStores := 0
	var commitClosures []*ssa.Function
	for _, fn := range p.regionOf(next) {
		for _, b := range fn.Blocks {
			for _, ins := range b.Instrs {
				st, ok := ins.(*ssa.Store)
				if !ok {
					continue
				}
				fa, ok := st.Addr.(*ssa.FieldAddr)
				if !ok {
					continue
				}
				tn, field := fieldAddrName(fa)
				if tn != "accountInfo" || !isIndexMirror(field) {
					continue
				}
				nStores++
				in := inOnCommit(p, fn)
				c.Check("C09-R2", "mirror-store-in-OnCommit:nextAddresses."+field, st.Pos(), in,
					"in-memory "+field+" is advanced outside a ReadWriteTx.OnCommit callback: a second caller can derive the same index before the commit")
				if in {
					commitClosures = append(commitClosures, fn)
				}
			}
		}
	}
	c.Floor("C09-R2", "index-mirror stores in nextAddresses", nStores, 4)
	seen := map[*ssa.Function]bool{}
	for _, cl := range commitClosures {
		if seen[cl] {
			continue
		}
		seen[cl] = true
		// closure must take ScopedKeyManager.mtx write lock before the stores
		ok := false
		for _, b := range cl.Blocks {
			for _, ins := range b.Instrs {
				if k, op := lockOp(ins); op == 1 && k == "waddrmgr.ScopedKeyManager.mtx" {
					ok = true
				}
			}
		}
		c.Check("C09-R2", "OnCommit-callback-relocks:"+fnName(cl), cl.Pos(), ok,
			"the commit callback updates the account indices without re-acquiring the scoped manager's write lock")
	}
	// R3: nextAddresses referenced only from the two exported issuers
	refs := p.callers(next)
	for _, r := range refs {
		n := r.Parent().Name()
		ok := n == "NextExternalAddresses" || n == "NextInternalAddresses"
		c.Check("C09-R3", "nextAddresses-caller:"+fnName(r.Parent()), r.Pos(), ok,
			"nextAddresses is called from a function other than the two exported issuers: a new issuing path that the lockset rule does not see")
	}
	c.Floor("C09-R3", "callers of nextAddresses", len(refs), 2)
	// "afterwards the database agrees with memory": a reloaded account starts from the persisted indices of the same branch
	checkLoaderCopies(c, "C09-R2")
	// ... and nothing outside the issuing transaction may write the persisted next index back from the in-memory
	// mirror (which lags the database inside the commit window that R1's mutex protects only for the issuers)
	checkRowRewrites(c, "C09-R2")
	checkMirrorStoresOnOwnBranch(c, "C09-R2")
	checkNextIndexMirrorIsLoopVariable(c, "C09-R2")
	// R1's critical section contains the callback only if the adapter hands the callback itself to bbolt (which runs
	// commit handlers synchronously inside Commit): wrapped (e.g. `go f()`), Update returns and the mutex is released
	// while the in-memory index is still the old one
	if oc := p.Func(bdbPkg, "transaction", "OnCommit"); oc != nil {
		okPass := false
		for _, ci := range callsOf(oc) {
			call, ok := ci.(*ssa.Call)
			if !ok {
				continue
			}
			g := call.Call.StaticCallee()
			if g == nil || fnPkgPath(g) != bboltPath || g.Name() != "OnCommit" {
				continue
			}
			args := call.Call.Args
			if prm, ok := args[len(args)-1].(*ssa.Parameter); ok && paramIndex(oc, prm) == 1 {
				okPass = true
			}
		}
		c.Check("C09-R2", "adapter-passes-commit-callback-unchanged", oc.Pos(), okPass,
			"walletdb's bdb adapter does not hand the OnCommit callback itself to bbolt (it wraps or defers it): the callback that advances the in-memory address index is no longer guaranteed to have run when walletdb.Update returns, so the address mutex is released with a stale index")
	} else {
		c.Unresolved("C09-R2", "bdb.transaction.OnCommit")
	}
}

func isIndexMirror(field string) bool {
	switch field {
	case "nextExternalIndex", "nextInternalIndex", "lastExternalAddr", "lastInternalAddr":
		return true
	}
	return false
}

// inOnCommit: fn is (nested in) a function literal passed to ReadWriteTx.OnCommit.
func inOnCommit(p *Program, fn *ssa.Function) bool {
	isOnCommit := func(cc *ssa.CallCommon) bool {
		return cc.IsInvoke() && cc.Method.Name() == "OnCommit" && cc.Method.Pkg() != nil && cc.Method.Pkg().Path() == walletdbPath
	}
	// a declared unexported function / method whose every use is as the callback handed to OnCommit (bound-method value
	// `commit.apply`, or a function value), or a call from code that itself only runs as such a callback
	if top := outermost(fn); top.Object() != nil && !top.Object().Exported() && len(p.fnUsers()[top]) > 0 && !p.onCommitBusy[top] {
		if p.onCommitBusy == nil {
			p.onCommitBusy = map[*ssa.Function]bool{}
		}
		p.onCommitBusy[top] = true
		defer delete(p.onCommitBusy, top)
		all, n := true, 0
		var buf [16]*ssa.Value
		for u := range p.fnUsers()[top] {
			for _, b := range u.Blocks {
				for _, ins := range b.Instrs {
					mentions := false
					for _, op := range ins.Operands(buf[:0]) {
						if op != nil && *op != nil {
							if f, ok := (*op).(*ssa.Function); ok && p.underlying(f) == top {
								mentions = true
							}
						}
					}
					if !mentions {
						continue
					}
					n++
					switch y := ins.(type) {
					case *ssa.MakeClosure:
						okUse := len(usesOf(y)) > 0
						for _, r := range usesOf(y) {
							call, ok := r.(*ssa.Call)
							if !ok || !isOnCommit(call.Common()) {
								okUse = false
							}
						}
						if !okUse {
							all = false
						}
					case *ssa.Call:
						if isOnCommit(y.Common()) {
							continue // passed as a plain function value
						}
						if y.Call.StaticCallee() == top && inOnCommit(p, u) {
							continue
						}
						all = false
					default:
						all = false
					}
				}
			}
		}
		if all && n > 0 {
			return true
		}
	}
	for f := fn; f != nil && f.Parent() != nil; f = f.Parent() {
		for _, b := range f.Parent().Blocks {
			for _, ins := range b.Instrs {
				call, ok := ins.(*ssa.Call)
				if !ok {
					continue
				}
				cc := call.Common()
				if !(cc.IsInvoke() && cc.Method.Name() == "OnCommit" && cc.Method.Pkg() != nil && cc.Method.Pkg().Path() == walletdbPath) {
					continue
				}
				for _, a := range cc.Args {
					if mc, ok := stripConv(a).(*ssa.MakeClosure); ok && mc.Fn == f {
						return true
					}
				}
			}
		}
	}
	return false
}

// checkDryRunFlagForwardedOrFalse: a transaction created as a dry run is rolled back with everything it derived — the
// change address is not persisted and the branch index does not move — while its result looks like any other. A function
// that returns that result as a real one (funds a packet, sends, publishes) must have created it for real: wherever a
// wallet function calls one that takes a dryRun flag, it passes its own dryRun parameter on, or the constant false.
// A constant true hands the caller a change address that the next request will be issued again.
func checkDryRunFlagForwardedOrFalse(c *Ctx, rule string) {
	p := c.P
	n := 0
	for _, fn := range p.FuncsIn("wallet") {
		for _, ci := range callsOf(fn) {
			call, ok := ci.(*ssa.Call)
			if !ok {
				continue
			}
			g := call.Call.StaticCallee()
			if g == nil || fnPkgPath(g) != fnPkgPath(fn) {
				continue
			}
			idx := -1
			for i, prm := range g.Params {
				if prm.Name() == "dryRun" && isBoolType(prm.Type()) {
					idx = i
				}
			}
			if idx < 0 || idx >= len(call.Call.Args) {
				continue
			}
			n++
			a := stripConv(call.Call.Args[idx])
			okArg := false
			if k, isK := a.(*ssa.Const); isK && k.Value != nil && k.Value.String() == "false" {
				okArg = true
			}
			if prm, isPrm := a.(*ssa.Parameter); isPrm && isBoolType(prm.Type()) {
				okArg = true
			}
			if fv, isFV := a.(*ssa.FreeVar); isFV {
				if _, isPrm := freeVarRoot(fv).(*ssa.Parameter); isPrm {
					okArg = true
				}
			}
			if u, isLoad := a.(*ssa.UnOp); isLoad {
				// a field of an options/request struct the caller was handed
				if _, _, _, okf := fieldOf(u); okf {
					okArg = true
				}
				if fv, isFV := u.X.(*ssa.FreeVar); isFV {
					_ = fv
					okArg = true
				}
			}
			c.Check(rule, "dry-run-flag-forwarded-or-false:"+fnName(outermost(fn))+"->"+g.Name(), call.Pos(), okArg,
				fnName(fn)+" creates the transaction it returns as a DRY RUN: the database transaction that derived the change address is rolled back, so the address is never persisted and the change index never moves — the next request is issued the same change address")
		}
	}
	c.Floor(rule, "calls passing a dry-run flag", n, 3)
}
