package main

import (
	"fmt"
	"go/types"
	"strings"

	"golang.org/x/tools/go/ssa"
)

func init() {
	register(&propSpec{
		ID: "C02",
		Explanation: "Decides necessary steps of the reorg/conflict mechanism in wtxmgr, for all paths: (R1) every success path of insertMinedTx runs double-spend removal and, when the tx was unconfirmed, deletes the unconfirmed copy; " +
			"(R2) conflict removal is transitive: removeConflict recurses, looks up the spenders of EVERY output unconditionally and removes every found spender (shared rule with C01/C20); " +
			"(R3) rollback: the coinbase branch never re-queues the transaction and records its credits for spend-chain removal, the other branch always re-queues the record, every input and every existing credit; every collected height has its block record deleted; " +
			"all process-all loops have no early exit (a 'continue' turned into 'break' is reported); (R4) wallet.disconnectBlock reaches Store.Rollback. NOT decided: equality of final states between histories, restored amounts.",
		Assumptions: []string{"call graph over-approximates callees", "loops are identified by the type of the ranged collection"},
		Run:         runC02,
	})
}

func runC02(c *Ctx) {
	p := c.P
	// "with their credits intact": a credit carried from one store to the other keeps its change / spent markers —
	// every flag handed to a value builder or tested comes from the bit of that name (C13-R4's flag typing, taken over)
	runFlagTyping(c, "C02-R3")
	checkFlagBytesReadThroughMasks(c, "C02-R3")
	// R1
	ins := wtxFn(c, "C02-R1", "insertMinedTx")
	rds := wtxFn(c, "C02-R1", "removeDoubleSpends")
	if ins != nil && rds != nil {
		bad := p.mustPassToSuccess(ins, nil, p.reachingCall(rds), nil)
		c.Check("C02-R1", "insertMinedTx-removes-double-spends", ins.Pos(), bad == nil,
			"a success path of insertMinedTx skips removeDoubleSpends: conflicting unconfirmed transactions survive a confirmation")
		// already-unmined branch passes deleteUnminedTx
		n := 0
		for _, b := range ins.Blocks {
			for si := range b.Succs {
				f := edgeFactOf(b, si)
				if f == nil || f.Kind != "nonnil" || !isResultOfCall(f.V, "existsRawUnmined", -1) {
					continue
				}
				n++
				q := &PathQuery{Fn: ins, Barrier: isCallNamed("deleteUnminedTx"), Target: p.nonErrorReturn()}
				hits := exploreFromBlock(q, b.Succs[si], b)
				c.Check("C02-R1", "confirmed-tx-leaves-unmined-store", lastPos(b), len(hits) == 0,
					"when the confirmed transaction was known as unconfirmed, a success path does not delete the unconfirmed copy")
			}
		}
		c.Floor("C02-R1", "branch on 'was unconfirmed' in insertMinedTx", n, 1)
		bad = p.mustPassToSuccess(ins, nil, isCallNamed("updateMinedBalance"), nil)
		c.Check("C02-R1", "insertMinedTx-updates-balance", ins.Pos(), bad == nil, "a success path of insertMinedTx skips updateMinedBalance")
	}
	// R2
	checkConflictRemoval(c, "C02-R2")
	checkSpenderListDecodeRunsToExhaustion(c, "C02-R2")
	// R3
	rb := wtxFn(c, "C02-R3", "rollback")
	if rb != nil {
		// coinbase branch: no path to putRawUnmined within the iteration
		n := 0
		for _, b := range rb.Blocks {
			for si := range b.Succs {
				f := edgeFactOf(b, si)
				if f == nil || !isResultOfCall(f.V, "IsCoinBaseTx", -1) {
					continue
				}
				n++
				txLoop := innermostLoopOf(loopsOf(rb), b.Instrs[len(b.Instrs)-1])
				leave := func(from *ssa.BasicBlock, si2 int) bool {
					// stay within this iteration: do not follow the back edge to the tx loop header
					return txLoop != nil && from.Succs[si2] == txLoop.Header
				}
				if f.Kind == "true" {
					q := &PathQuery{Fn: rb, EdgeBarrier: leave}
					q.Target = func(ins ssa.Instruction, via *ssa.BasicBlock) bool { return mayCallNamed("putRawUnmined")(ins) }
					hits := exploreFromBlock(q, b.Succs[si], b)
					c.Check("C02-R3", "coinbase-never-requeued", lastPos(b), len(hits) == 0,
						"a coinbase transaction of a disconnected block can be moved to the unconfirmed store")
				} else {
					// non-coinbase: must pass putRawUnmined before the iteration ends
					q := &PathQuery{Fn: rb, Barrier: isCallNamed("putRawUnmined")}
					q.EdgeBarrier = func(from *ssa.BasicBlock, si2 int) bool { return false }
					q.LoopExit = func(from, to *ssa.BasicBlock) bool { return txLoop != nil && to == txLoop.Header }
					q.Target = p.nonErrorReturn()
					hits := exploreFromBlock(q, b.Succs[si], b)
					c.Check("C02-R3", "non-coinbase-always-requeued", lastPos(b), len(hits) == 0,
						"a non-coinbase transaction of a disconnected block can finish its rollback iteration without being moved to the unconfirmed store")
				}
			}
		}
		c.Floor("C02-R3", "coinbase branch edges in rollback", n, 2)
		checkPerIteration(c, "C02-R3", rb, "TxIn", "putRawUnminedInput", 1,
			"an input of a rolled-back transaction is not re-registered in the unconfirmed-spender index")
		// per credit of a non-coinbase tx: putRawUnminedCredit and deleteRawCredit unless no credit
		for _, l := range loopsRangingOver(rb, "TxOut") {
			if !l.containsInstr(mayCallNamed("putRawUnminedCredit")) {
				continue
			}
			for _, callee := range []string{"putRawUnminedCredit", "deleteRawCredit"} {
				bad := l.MustPassPerIteration(p, isCallNamed(callee), nilEdgeOf("existsCredit"))
				c.Check("C02-R3", "each-credit-moves-to-unmined:"+callee, l.Header.Instrs[0].Pos(), bad == "",
					"an existing credit of a rolled-back transaction is not moved to the unconfirmed credits ("+bad+")")
			}
		}
		// coinbase credits: each existing credit recorded and deleted
		nCb := 0
		for _, l := range loopsRangingOver(rb, "TxOut") {
			if l.containsInstr(mayCallNamed("putRawUnminedCredit")) || !l.containsInstr(mayCallNamed("deleteRawCredit")) {
				continue
			}
			bad := l.MustPassPerIteration(p, isCallNamed("deleteRawCredit"), nilEdgeOf("existsCredit"))
			c.Check("C02-R3", "each-coinbase-credit-deleted", l.Header.Instrs[0].Pos(), bad == "", "a coinbase credit of a disconnected block is kept ("+bad+")")
			// every output of the detached coinbase — not only the wallet's own credits — is recorded for the sweep of
			// unconfirmed spenders: whatever spends any of them depends on a coinbase that no longer exists (F46)
			isOutPointAppend := func(ins ssa.Instruction) bool {
				call, ok := ins.(*ssa.Call)
				if !ok {
					return false
				}
				if bi, isB := call.Call.Value.(*ssa.Builtin); !isB || bi.Name() != "append" {
					return false
				}
				sl, isSl := call.Type().Underlying().(*types.Slice)
				if !isSl {
					return false
				}
				nm, isNm := sl.Elem().(*types.Named)
				return isNm && nm.Obj().Name() == "OutPoint"
			}
			nCb++
			bad = l.MustPassPerIteration(p, isOutPointAppend)
			c.Check("C02-R3", "every-coinbase-output-swept-for-spenders", l.Header.Instrs[0].Pos(), bad == "",
				"the rollback records only some outputs of a detached coinbase (e.g. only those that are wallet credits) for the removal of their unconfirmed spenders: a transaction spending one of the others stays in the store, with its credits in the balance, although the coinbase it depends on no longer exists ("+bad+")")
		}
		c.Floor("C02-R3", "coinbase output loops in rollback", nCb, 1)
		checkPerIteration(c, "C02-R3", rb, "var:heightsToRemove", "deleteBlockRecord", 1, "a disconnected block keeps its block record")
		checkPerIteration(c, "C02-R3", rb, "call:fetchUnminedInputSpendTxHashes", "removeConflict", 1,
			"an unconfirmed spender of a removed coinbase output survives", nilEdgeOf("existsRawUnmined"))
		checkPerIteration(c, "C02-R3", rb, "var:coinBaseCredits", "fetchUnminedInputSpendTxHashes", 1,
			"a removed coinbase credit is not checked for unconfirmed spenders")
		bad := p.mustPassToSuccess(rb, nil, isCallNamed("putMinedBalance"), nil)
		c.Check("C02-R3", "rollback-writes-balance", rb.Pos(), bad == nil, "rollback can succeed without writing the mined balance")
	}
	runLoopCompleteness(c, "C02-R3", []string{"rollback", "removeDoubleSpends", "removeConflict", "deleteUnminedTx", "updateMinedBalance"})
	checkLoopCarriedStructs(c, "C02-R3", []string{"rollback", "updateMinedBalance"})
	checkRollbackWalk(c, "C02-R3")
	checkNoBulkOverwriteAfterElementWrite(c, "C02-R3")
	checkElementIndexFromOwnLoop(c, "C02-R3", []string{"rollback", "updateMinedBalance", "insertMinedTx", "addCredit"})

	// R4: disconnectBlock reaches Rollback
	db := p.Func("wallet", "Wallet", "disconnectBlock")
	roll := p.Func("wtxmgr", "Store", "Rollback")
	if db == nil || roll == nil {
		c.Unresolved("C02-R4", "wallet.disconnectBlock / wtxmgr.Store.Rollback")
	} else {
		c.Check("C02-R4", "disconnectBlock-reaches-Rollback", db.Pos(), p.reachSet(db)[roll], "wallet.disconnectBlock no longer reaches Store.Rollback")
		checkCoupledRollback(c, "C02-R4")
		// the same for a reorg that happened while the wallet was stopped: the startup walk finds the common block
		checkStartupWalk(c, "C02-R4")
		// disconnects are acted upon only once the wallet is marked synced: the one place that marks it always does
		checkRescanFinishedAlwaysMarksSynced(c, "C02-R4")
		checkStoreStateIsResetByRollback(c, "C02-R4")
		checkDetachedBlockRecordIsTheWalkedOne(c, "C02-R3")
		worker := wtxFn(c, "C02-R4", "rollback") // the wrapper itself where the two were folded into one
		c.Check("C02-R4", "Rollback-reaches-rollback", roll.Pos(), worker == roll || p.reachSet(roll)[worker], "Store.Rollback no longer reaches rollback")
		// ... on every success path: block records exist only for blocks that hold a wallet transaction, so no
		// property of the block at `height` itself can justify skipping the walk over the blocks above it
	}
}

// checkRollbackWalk: the store's rollback walks down over every block record at or above the target.
func checkRollbackWalk(c *Ctx, rule string) {
	// the exported entry runs the walk on every success path: block records exist only for blocks that hold a wallet
	// transaction, so no property of the block at `height` itself can justify skipping the walk over the blocks above it
	if roll := c.P.Func("wtxmgr", "Store", "Rollback"); roll != nil {
		walk := isCallNamed("rollback")
		if c.P.Func("wtxmgr", "Store", "rollback") == nil && c.P.Func("wtxmgr", "", "rollback") == nil {
			// wrapper and worker folded into one function: the walk is its loop over the block records (the iterator's step)
			walk = isCallNamed("prev")
		}
		bad := c.P.mustPassToSuccess(roll, nil, walk, nil)
		c.Check(rule, "Rollback-always-runs-rollback", roll.Pos(), bad == nil,
			"Store.Rollback can report success without running rollback (e.g. a shortcut on the block record at exactly the requested height): blocks above a wallet-empty height stay connected after a multi-block reorg")
	} else {
		c.Unresolved(rule, "wtxmgr.Store.Rollback")
	}
	checkRepositionSeeksGivenPosition(c, rule)
	checkCreditExistenceNotJudgedByAmount(c, rule)
	// an iterator is repositioned at the record it is standing on (after nested cursors moved it away), not at some other
	// key: repositioning at the rollback target lands the next prev() below the target and ends the walk after one block
	if rbf := wtxFn(c, rule, "rollback"); rbf != nil {
		nRep := 0
		for _, call := range callsNamed(rbf, "reposition") {
			nRep++
			okArg := false
			if len(call.Call.Args) >= 2 {
				recv := stripConv(call.Call.Args[0])
				if _, f, base, okf := fieldOf(stripConv(call.Call.Args[1])); okf && f == "Height" {
					// elem[.Block].Height of the same iterator
					for fa, ok := base.(*ssa.FieldAddr); ok; fa, ok = fa.X.(*ssa.FieldAddr) {
						if _, ef := fieldAddrName(fa); ef == "elem" && stripConv(fa.X) == recv {
							okArg = true
						}
					}
				}
			}
			c.Check(rule, "iterator-repositioned-at-current-record", call.Pos(), okArg,
				"rollback repositions its block iterator at a height other than that of the record it is standing on: the walk over the blocks being detached ends early (a multi-block rollback detaches only the highest block; the others stay confirmed)")
		}
		c.Floor(rule, "iterator repositionings in rollback", nRep, 1)
	}
}

var _ = ssa.NewProgram

// checkRepositionSeeksGivenPosition: an iterator's reposition method puts the cursor back on the record whose position it
// is given (the caller passes the element it is standing on, after nested cursors moved the shared cursor away): the key
// it seeks is built from its parameters unchanged. Seeking the key of a neighbouring position (height-1) makes the next
// step skip a record: a downward walk over consecutive heights leaves every other block connected.
func checkRepositionSeeksGivenPosition(c *Ctx, rule string) {
	p := c.P
	n := 0
	for _, fn := range p.FuncsIn("wtxmgr") {
		if fn.Signature.Recv() == nil || fn.Parent() != nil || !strings.HasSuffix(recvName(fn), "terator") {
			continue
		}
		// by role: a method with parameters that does nothing but seek the cursor
		var seeks []*ssa.Call
		others := 0
		for _, ci := range callsOf(fn) {
			call, ok := ci.(*ssa.Call)
			if !ok {
				continue
			}
			if call.Call.IsInvoke() && call.Call.Method.Name() == "Seek" {
				seeks = append(seeks, call)
			} else if g := call.Call.StaticCallee(); g == nil || fnPkgPath(g) != fnPkgPath(fn) {
				others++
			}
		}
		if len(seeks) != 1 || others > 0 || len(fn.Params) < 2 || fn.Signature.Results().Len() != 0 {
			continue
		}
		n++
		ok := true
		detail := ""
		kb, isCall := stripConv(seeks[0].Call.Args[0]).(*ssa.Call)
		if !isCall || kb.Call.StaticCallee() == nil {
			ok, detail = false, "the sought key is not built by a key function from the method's parameters (undecided)"
		} else {
			for i, a := range kb.Call.Args {
				a = stripConv(a)
				if _, isPrm := a.(*ssa.Parameter); isPrm {
					continue
				}
				if !isBasic(a.Type()) {
					ok, detail = false, fmt.Sprintf("argument %d of %s is not a parameter of %s", i, kb.Call.StaticCallee().Name(), fn.Name())
					continue
				}
				l := p.linearize(a, 0)
				if l.Konst != 0 || len(l.Coef) != 1 {
					ok, detail = false, fmt.Sprintf("argument %d of %s is %s, not the position the method was given", i, kb.Call.StaticCallee().Name(), l.String())
					continue
				}
				for k, v := range l.Coef {
					if v != 1 || !strings.HasPrefix(k, "param#") {
						ok, detail = false, fmt.Sprintf("argument %d of %s is %s, not the position the method was given", i, kb.Call.StaticCallee().Name(), l.String())
					}
				}
			}
		}
		c.Check(rule, "reposition-seeks-given-position:"+recvName(fn), seeks[0].Pos(), ok,
			fnName(fn)+" does not put the cursor back on the position it is given ("+detail+"): the step that follows skips a record — a rollback over consecutive heights leaves every other block connected")
	}
	c.Floor(rule, "iterator reposition methods", n, 1)
}

// checkCreditExistenceNotJudgedByAmount: while a block is rolled back, the credit an input spent is marked unspent again
// unless that credit was itself removed earlier in the same rollback. Whether it still exists must be asked of the
// store: the AMOUNT the un-spend helper returns cannot tell, because a wallet output can be worth zero. A branch on that
// amount ("0 means gone") skips the restore for a genuine zero-value credit: after the rollback it is in neither the
// unspent index nor flagged spent, its spender shows no debit for it, and the history differs from the directly built one.
func checkCreditExistenceNotJudgedByAmount(c *Ctx, rule string) {
	p := c.P
	rb := wtxFn(c, rule, "rollback")
	if rb == nil {
		return
	}
	n := 0
	for _, f := range p.regionTop(rb) {
		calls := callsNamed(f, "unspendRawCredit")
		if len(calls) == 0 {
			continue
		}
		n += len(calls)
		isAmount := func(v ssa.Value) bool {
			for _, o := range (&Slicer{P: p, KeepExtract: true}).Origins(v) {
				if ex, ok := o.(*ssa.Extract); ok && ex.Index == 0 {
					for _, call := range calls {
						if ex.Tuple == ssa.Value(call) {
							return true
						}
					}
				}
			}
			return false
		}
		var bad *ssa.If
		for _, b := range f.Blocks {
			if len(b.Instrs) == 0 {
				continue
			}
			iff, ok := b.Instrs[len(b.Instrs)-1].(*ssa.If)
			if !ok {
				continue
			}
			inner, _ := unwrapNot(iff.Cond)
			bo, ok := inner.(*ssa.BinOp)
			if !ok {
				continue
			}
			_, kx := stripConv(bo.X).(*ssa.Const)
			_, ky := stripConv(bo.Y).(*ssa.Const)
			if (ky && isAmount(bo.X)) || (kx && isAmount(bo.Y)) {
				bad = iff
			}
		}
		pos := calls[0].Pos()
		detail := ""
		if bad != nil {
			pos = bad.Cond.Pos()
			detail = fnName(f) + " decides from the AMOUNT returned by unspendRawCredit whether the credit still exists (test at " + p.Pos(bad.Cond.Pos()) + "): a wallet output worth zero is taken for a removed one and is not put back into the unspent index — after the rollback it is neither unspent nor spent, and its spender's debit is gone"
		}
		c.Check(rule, "credit-existence-not-judged-by-amount:"+f.Name(), pos, bad == nil, detail)
	}
	c.Floor(rule, "un-spend sites in rollback", n, 1)
}
