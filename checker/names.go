package main

import (
	_ "embed"
	"encoding/json"
	"fmt"
	"go/ast"
	"go/token"
	"go/types"
	"os"
	"sort"
	"strings"

	"golang.org/x/tools/go/packages"
)

// ---------- identifier canonicalisation ----------
//
// The rules name functions, struct fields, types, package-level variables and a few locals of btcwallet (the anchors of
// the properties are given by name). A consistent RENAME of any of them is behaviour-preserving, yet would make the
// anchors unresolvable. Before the analysis proper, the loaded program is therefore compared with a committed snapshot
// of the reference tree's declarations (baseline_names.json, written by `vcheck -write-names`): an identifier of the
// snapshot that is missing today is matched — by kind, type/signature, structure and callee set, never by position in
// the file — to an identifier that is new today, and if the match is unique the program is re-loaded through an overlay
// in which the new name is spelled as the old one at its declaration and every use. The analysis then runs on today's
// code with yesterday's names. On the unchanged tree nothing is missing, no overlay is built and the load is a single
// pass. What is renamed back is listed in the evidence (`canonicalised`).

//go:embed baseline_names.json
var baselineNamesJSON []byte

type funcFP struct {
	Sig     string      `json:"sig"`
	Callees []string    `json:"callees"`
	Refs    []string    `json:"refs"`   // package-level objects, fields and methods the body mentions
	Locals  [][2]string `json:"locals"` // params, results, body definitions in source order: name, type
	Stmts   int         `json:"stmts"`
}

type typeFP struct {
	Fields  [][2]string `json:"fields,omitempty"` // name, type (embedded: name = type name)
	Methods []string    `json:"methods,omitempty"`
	Under   string      `json:"under"`
}

type globalFP struct {
	Kind string `json:"kind"` // var | const
	Type string `json:"type"`
	Init string `json:"init"`
}

type pkgNames struct {
	Funcs   map[string]funcFP   `json:"funcs"` // "Recv.name" / ".name"
	Types   map[string]typeFP   `json:"types"`
	Globals map[string]globalFP `json:"globals"`
}

type nameSnapshot struct {
	Pkgs map[string]*pkgNames `json:"pkgs"`
}

// collected per package together with the objects, to produce edits
type declIndex struct {
	names   *pkgNames
	funcObj map[string]*types.Func
	funcDcl map[string]*ast.FuncDecl
	typeObj map[string]*types.TypeName
	globObj map[string]types.Object
	locals  map[string][]*types.Var // same order as funcFP.Locals
	fields  map[string][]*types.Var // per type, same order as typeFP.Fields
}

func typeStr(t types.Type) string {
	return types.TypeString(t, func(p *types.Package) string { return p.Path() })
}

func nodeText(fset *token.FileSet, src map[string][]byte, n ast.Node) string {
	if n == nil {
		return ""
	}
	p0, p1 := fset.Position(n.Pos()), fset.Position(n.End())
	b := src[p0.Filename]
	if b == nil || p0.Offset < 0 || p1.Offset > len(b) || p0.Offset > p1.Offset {
		return ""
	}
	return strings.Join(strings.Fields(string(b[p0.Offset:p1.Offset])), " ")
}

func collectDecls(pk *packages.Package, src map[string][]byte) *declIndex {
	di := &declIndex{names: &pkgNames{Funcs: map[string]funcFP{}, Types: map[string]typeFP{}, Globals: map[string]globalFP{}},
		funcObj: map[string]*types.Func{}, funcDcl: map[string]*ast.FuncDecl{}, typeObj: map[string]*types.TypeName{}, globObj: map[string]types.Object{},
		locals: map[string][]*types.Var{}, fields: map[string][]*types.Var{}}
	info := pk.TypesInfo
	for _, f := range pk.Syntax {
		for _, d := range f.Decls {
			switch x := d.(type) {
			case *ast.FuncDecl:
				obj, _ := info.Defs[x.Name].(*types.Func)
				if obj == nil || x.Name.Name == "init" || x.Name.Name == "_" {
					continue
				}
				recv := ""
				if sig := obj.Type().(*types.Signature); sig.Recv() != nil {
					t := sig.Recv().Type()
					if pt, ok := t.(*types.Pointer); ok {
						t = pt.Elem()
					}
					if n, ok := t.(*types.Named); ok {
						recv = n.Obj().Name()
					}
				}
				key := recv + "." + x.Name.Name
				fp := funcFP{Sig: typeStr(obj.Type())}
				var locs []*types.Var
				seenCallee := map[string]bool{}
				seenRef := map[string]bool{}
				if x.Body != nil {
					ast.Inspect(x, func(n ast.Node) bool {
						switch y := n.(type) {
						case *ast.Ident:
							if v, ok := info.Defs[y].(*types.Var); ok && !v.IsField() && y.Name != "_" {
								locs = append(locs, v)
							}
							if o := info.Uses[y]; o != nil && !seenRef[y.Name] {
								isLocal := false
								if lv, ok := o.(*types.Var); ok && !lv.IsField() && o.Parent() != nil && o.Parent() != o.Pkg().Scope() && o.Pkg() != nil {
									isLocal = true
								}
								if o.Pkg() == nil {
									isLocal = true // universe
								}
								if !isLocal {
									seenRef[y.Name] = true
									fp.Refs = append(fp.Refs, y.Name)
								}
							}
						case *ast.CallExpr:
							var id *ast.Ident
							switch fn := y.Fun.(type) {
							case *ast.Ident:
								id = fn
							case *ast.SelectorExpr:
								id = fn.Sel
							}
							if id != nil && !seenCallee[id.Name] {
								seenCallee[id.Name] = true
								fp.Callees = append(fp.Callees, id.Name)
							}
						case ast.Stmt:
							fp.Stmts++
						}
						return true
					})
				}
				sort.SliceStable(locs, func(i, j int) bool { return locs[i].Pos() < locs[j].Pos() })
				for _, v := range locs {
					fp.Locals = append(fp.Locals, [2]string{v.Name(), typeStr(v.Type())})
				}
				sort.Strings(fp.Callees)
				sort.Strings(fp.Refs)
				di.names.Funcs[key] = fp
				di.funcObj[key] = obj
				di.funcDcl[key] = x
				di.locals[key] = locs
			case *ast.GenDecl:
				for _, sp := range x.Specs {
					switch s := sp.(type) {
					case *ast.TypeSpec:
						tn, _ := info.Defs[s.Name].(*types.TypeName)
						if tn == nil {
							continue
						}
						fp := typeFP{Under: typeStr(tn.Type().Underlying())}
						if st, ok := tn.Type().Underlying().(*types.Struct); ok {
							fp.Under = "struct"
							var fvs []*types.Var
							for i := 0; i < st.NumFields(); i++ {
								fp.Fields = append(fp.Fields, [2]string{st.Field(i).Name(), typeStr(st.Field(i).Type())})
								fvs = append(fvs, st.Field(i))
							}
							di.fields[s.Name.Name] = fvs
						}
						if _, ok := tn.Type().Underlying().(*types.Interface); ok {
							fp.Under = "interface"
						}
						ms := types.NewMethodSet(types.NewPointer(tn.Type()))
						for i := 0; i < ms.Len(); i++ {
							fp.Methods = append(fp.Methods, ms.At(i).Obj().Name())
						}
						di.names.Types[s.Name.Name] = fp
						di.typeObj[s.Name.Name] = tn
					case *ast.ValueSpec:
						for i, id := range s.Names {
							obj := info.Defs[id]
							if obj == nil || id.Name == "_" {
								continue
							}
							kind := "var"
							if _, ok := obj.(*types.Const); ok {
								kind = "const"
							}
							init := ""
							if i < len(s.Values) {
								init = nodeText(pk.Fset, src, s.Values[i])
							} else if len(s.Values) == 0 && kind == "const" {
								init = "iota-continued"
							}
							di.names.Globals[id.Name] = globalFP{Kind: kind, Type: typeStr(obj.Type()), Init: init}
							di.globObj[id.Name] = obj
						}
					}
				}
			}
		}
	}
	return di
}

func readSources(pkgs []*packages.Package) map[string][]byte {
	src := map[string][]byte{}
	for _, pk := range pkgs {
		for _, f := range pk.CompiledGoFiles {
			if b, err := os.ReadFile(f); err == nil {
				src[f] = b
			}
		}
	}
	return src
}

func repoPackages(initial []*packages.Package) []*packages.Package {
	var out []*packages.Package
	for _, pk := range initial {
		if strings.HasPrefix(pk.PkgPath, rootMod) {
			out = append(out, pk)
		}
	}
	sort.Slice(out, func(i, j int) bool { return out[i].PkgPath < out[j].PkgPath })
	return out
}

// writeNameSnapshot: `vcheck -write-names`.
func writeNameSnapshot(initial []*packages.Package, path string) error {
	pkgs := repoPackages(initial)
	src := readSources(pkgs)
	snap := nameSnapshot{Pkgs: map[string]*pkgNames{}}
	for _, pk := range pkgs {
		snap.Pkgs[pk.PkgPath] = collectDecls(pk, src).names
	}
	b, err := json.MarshalIndent(snap, "", " ")
	if err != nil {
		return err
	}
	return os.WriteFile(path, b, 0o644)
}

func jaccard(a, b []string) float64 {
	if len(a) == 0 && len(b) == 0 {
		return 1
	}
	set := map[string]bool{}
	for _, x := range a {
		set[x] = true
	}
	inter, union := 0, len(set)
	for _, x := range b {
		if set[x] {
			inter++
		} else {
			union++
		}
	}
	return float64(inter) / float64(union)
}

type renameBack struct {
	obj      types.Object
	from, to string
	what     string
}

// canonicalOverlay compares the loaded repo packages with the snapshot and returns overlay contents that spell renamed
// identifiers with their snapshot names, plus a description of what was renamed back.
func canonicalOverlay(initial []*packages.Package) (map[string][]byte, []string) {
	if len(baselineNamesJSON) == 0 || os.Getenv("VERIF_NO_CANON") != "" {
		return nil, nil
	}
	var snap nameSnapshot
	if err := json.Unmarshal(baselineNamesJSON, &snap); err != nil || len(snap.Pkgs) == 0 {
		return nil, nil
	}
	pkgs := repoPackages(initial)
	src := readSources(pkgs)
	var renames []renameBack
	for _, pk := range pkgs {
		base := snap.Pkgs[pk.PkgPath]
		if base == nil {
			continue
		}
		cur := collectDecls(pk, src)
		qual := pk.PkgPath + "."
		// ---- types ----
		typeAlias := map[string]string{} // current name -> snapshot name
		var missT, newT []string
		for n := range base.Types {
			if _, ok := cur.names.Types[n]; !ok {
				missT = append(missT, n)
			}
		}
		for n := range cur.names.Types {
			if _, ok := base.Types[n]; !ok {
				newT = append(newT, n)
			}
		}
		sort.Strings(missT)
		sort.Strings(newT)
		usedNew := map[string]bool{}
		for _, m := range missT {
			bfp := base.Types[m]
			best, nBest := "", 0
			for _, n := range newT {
				if usedNew[n] {
					continue
				}
				cfp := cur.names.Types[n]
				if cfp.Under != bfp.Under && !(cfp.Under == "struct" && bfp.Under == "struct") {
					continue
				}
				same := false
				if bfp.Under == "struct" {
					if len(bfp.Fields) == 0 && len(cfp.Fields) == 0 {
						// a field-less struct (marker / error type): identified by its method set
						same = len(bfp.Methods) > 0 && jaccard(cfp.Methods, bfp.Methods) >= 0.8
					} else if len(cfp.Fields) == len(bfp.Fields) && len(bfp.Fields) > 0 {
						eqType, eqName := 0, 0
						for i := range bfp.Fields {
							if strings.ReplaceAll(cfp.Fields[i][1], qual+n, qual+m) == bfp.Fields[i][1] {
								eqType++
							}
							if cfp.Fields[i][0] == bfp.Fields[i][0] {
								eqName++
							}
						}
						same = eqType == len(bfp.Fields) && eqName*2 >= len(bfp.Fields)
					}
				} else {
					same = jaccard(cfp.Methods, bfp.Methods) >= 0.8 && (len(bfp.Methods) > 0 || cfp.Under == bfp.Under)
				}
				if same {
					best = n
					nBest++
				}
			}
			if nBest == 1 {
				usedNew[best] = true
				typeAlias[best] = m
				renames = append(renames, renameBack{cur.typeObj[best], best, m, "type " + pk.PkgPath + "." + best + " -> " + m})
			}
		}
		canonT := func(s string) string {
			for n, m := range typeAlias {
				s = strings.ReplaceAll(s, qual+n, qual+m)
			}
			return s
		}
		// ---- struct fields (types present under the same or an aliased name) ----
		for tn, cfp := range cur.names.Types {
			bn := tn
			if a, ok := typeAlias[tn]; ok {
				bn = a
			}
			bfp, ok := base.Types[bn]
			if !ok || bfp.Under != "struct" || cfp.Under != "struct" {
				continue
			}
			bset, cset := map[string]int{}, map[string]int{}
			for i, f := range bfp.Fields {
				bset[f[0]] = i
			}
			for i, f := range cfp.Fields {
				cset[f[0]] = i
			}
			var missF, newF []int
			for i, f := range bfp.Fields {
				if _, ok := cset[f[0]]; !ok {
					missF = append(missF, i)
				}
			}
			for i, f := range cfp.Fields {
				if _, ok := bset[f[0]]; !ok {
					newF = append(newF, i)
				}
			}
			taken := map[int]bool{}
			for _, mi := range missF {
				cand := -1
				nc := 0
				for _, ni := range newF {
					if taken[ni] || canonT(cfp.Fields[ni][1]) != bfp.Fields[mi][1] {
						continue
					}
					nc++
					cand = ni
					if ni == mi && len(cfp.Fields) == len(bfp.Fields) {
						nc = 1
						break
					}
				}
				if nc == 1 && cand >= 0 {
					taken[cand] = true
					fv := cur.fields[tn][cand]
					// an embedded field is renamed with its type
					if fv.Embedded() {
						continue
					}
					renames = append(renames, renameBack{fv, cfp.Fields[cand][0], bfp.Fields[mi][0], "field " + pk.PkgPath + "." + tn + "." + cfp.Fields[cand][0] + " -> " + bfp.Fields[mi][0]})
				}
			}
		}
		// ---- package-level variables and constants ----
		{
			var missG, newG []string
			for n := range base.Globals {
				if _, ok := cur.names.Globals[n]; !ok {
					missG = append(missG, n)
				}
			}
			for n := range cur.names.Globals {
				if _, ok := base.Globals[n]; !ok {
					newG = append(newG, n)
				}
			}
			sort.Strings(missG)
			sort.Strings(newG)
			taken := map[string]bool{}
			for _, m := range missG {
				b := base.Globals[m]
				cand, nc := "", 0
				for _, n := range newG {
					c := cur.names.Globals[n]
					if taken[n] || c.Kind != b.Kind || canonT(c.Type) != b.Type || c.Init != b.Init || b.Init == "" {
						continue
					}
					nc++
					cand = n
				}
				if nc == 1 {
					taken[cand] = true
					renames = append(renames, renameBack{cur.globObj[cand], cand, m, b.Kind + " " + pk.PkgPath + "." + cand + " -> " + m})
				}
			}
		}
		// ---- functions and methods ----
		funcAlias := map[string]string{} // current key -> snapshot key
		{
			var missF, newF []string
			for k := range base.Funcs {
				if _, ok := cur.names.Funcs[k]; !ok {
					missF = append(missF, k)
				}
			}
			for k := range cur.names.Funcs {
				ck := k
				// a method of a renamed type keeps its name: compare under the canonical receiver
				if i := strings.IndexByte(k, '.'); i > 0 {
					if a, ok := typeAlias[k[:i]]; ok {
						ck = a + k[i:]
					}
				}
				if _, ok := base.Funcs[ck]; !ok {
					newF = append(newF, k)
				} else if ck != k {
					funcAlias[k] = ck
				}
			}
			sort.Strings(missF)
			sort.Strings(newF)
			taken := map[string]bool{}
			for _, m := range missF {
				b := base.Funcs[m]
				mrecv := m[:strings.IndexByte(m, '.')]
				best, bestScore, second := "", -1.0, -1.0
				for _, n := range newF {
					if taken[n] {
						continue
					}
					nrecv := n[:strings.IndexByte(n, '.')]
					if a, ok := typeAlias[nrecv]; ok {
						nrecv = a
					}
					c := cur.names.Funcs[n]
					if nrecv != mrecv || canonT(c.Sig) != b.Sig {
						continue
					}
					sc := 0.5*jaccard(c.Callees, b.Callees) + 0.5*jaccard(c.Refs, b.Refs)
					if c.Stmts == b.Stmts {
						sc += 0.25
					}
					// twins (externalKeyPath / internalKeyPath) differ in little but their names: what the new name
					// keeps of the old one decides between otherwise equal candidates
					sc += 0.3 * nameSimilarity(n[strings.IndexByte(n, '.')+1:], m[strings.IndexByte(m, '.')+1:])
					if sc > bestScore {
						best, second, bestScore = n, bestScore, sc
					} else if sc > second {
						second = sc
					}
				}
				if best != "" && bestScore >= 0.5 && bestScore-second >= 0.1 {
					taken[best] = true
					funcAlias[best] = m
					oldName := m[strings.IndexByte(m, '.')+1:]
					newName := best[strings.IndexByte(best, '.')+1:]
					if oldName != newName {
						renames = append(renames, renameBack{cur.funcObj[best], newName, oldName, "func " + pk.PkgPath + "." + best + " -> " + oldName})
					}
				}
			}
		}
		// ---- locals, parameters and results of functions present in both ----
		for k, cfp := range cur.names.Funcs {
			bk := k
			if a, ok := funcAlias[k]; ok {
				bk = a
			}
			bfp, ok := base.Funcs[bk]
			if !ok || len(bfp.Locals) != len(cfp.Locals) || len(cfp.Locals) == 0 {
				continue
			}
			okAll, diff := true, 0
			for i := range cfp.Locals {
				if canonT(cfp.Locals[i][1]) != bfp.Locals[i][1] {
					okAll = false
					break
				}
				if cfp.Locals[i][0] != bfp.Locals[i][0] {
					diff++
				}
			}
			if !okAll || diff == 0 {
				continue
			}
			for i := range cfp.Locals {
				if cfp.Locals[i][0] != bfp.Locals[i][0] && bfp.Locals[i][0] != "_" && cfp.Locals[i][0] != "_" {
					renames = append(renames, renameBack{cur.locals[k][i], cfp.Locals[i][0], bfp.Locals[i][0], "local " + pk.PkgPath + "." + k + ": " + cfp.Locals[i][0] + " -> " + bfp.Locals[i][0]})
				}
			}
		}
	}
	if len(renames) == 0 {
		return nil, nil
	}
	// ---- edits: every identifier that denotes a renamed object, in all repo packages ----
	byObj := map[types.Object]string{}
	var notes []string
	for _, r := range renames {
		if r.obj == nil {
			continue
		}
		// renaming is a source rewrite: it must not change what any identifier refers to. A local renamed back to a name
		// that an enclosing variable also has (`for i ... { for j ... { f(i) } }` with j -> i) would capture the uses of
		// the outer one — and silently undo exactly the kind of wrong-variable slip the rules are there to see.
		if renameWouldCapture(pkgs, r.obj, r.to) {
			notes = append(notes, "NOT applied (would change a binding): "+r.what)
			continue
		}
		byObj[r.obj] = r.to
		notes = append(notes, r.what)
	}
	type edit struct {
		off, end int
		text     string
	}
	edits := map[string][]edit{}
	for _, pk := range pkgs {
		add := func(id *ast.Ident, obj types.Object) {
			to, ok := byObj[obj]
			if !ok || id.Name == to {
				return
			}
			pos := pk.Fset.Position(id.Pos())
			edits[pos.Filename] = append(edits[pos.Filename], edit{pos.Offset, pos.Offset + len(id.Name), to})
		}
		for id, obj := range pk.TypesInfo.Defs {
			if obj != nil {
				add(id, obj)
			}
		}
		for id, obj := range pk.TypesInfo.Uses {
			add(id, obj)
		}
	}
	overlay := map[string][]byte{}
	for file, es := range edits {
		b := src[file]
		if b == nil {
			continue
		}
		sort.Slice(es, func(i, j int) bool { return es[i].off > es[j].off })
		out := append([]byte{}, b...)
		last := -1
		for _, e := range es {
			if e.off == last || e.off < 0 || e.end > len(out) { // the same identifier recorded twice (embedded field: Defs and Uses)
				continue
			}
			last = e.off
			out = append(out[:e.off], append([]byte(e.text), out[e.end:]...)...)
		}
		overlay[file] = out
	}
	sort.Strings(notes)
	return overlay, notes
}

var _ = fmt.Sprintf

// nameSimilarity: length of the longest common subsequence of the two names over the longer length.
func nameSimilarity(a, b string) float64 {
	if a == "" || b == "" {
		return 0
	}
	la, lb := len(a), len(b)
	prev := make([]int, lb+1)
	cur := make([]int, lb+1)
	for i := 1; i <= la; i++ {
		for j := 1; j <= lb; j++ {
			if a[i-1] == b[j-1] {
				cur[j] = prev[j-1] + 1
			} else if prev[j] >= cur[j-1] {
				cur[j] = prev[j]
			} else {
				cur[j] = cur[j-1]
			}
		}
		prev, cur = cur, prev
	}
	m := la
	if lb > m {
		m = lb
	}
	return float64(prev[lb]) / float64(m)
}

// renameWouldCapture: giving obj the name `to` would make some identifier refer to a different object than it does now.
// Two ways: (1) inside obj's scope an identifier `to` is used that denotes another object (it would now find obj first);
// (2) a use of obj sits inside a nested scope that declares its own `to` (the use would find that one). Fields and
// methods are reached through selectors and have no such hazard.
func renameWouldCapture(pkgs []*packages.Package, obj types.Object, to string) bool {
	if v, ok := obj.(*types.Var); ok && v.IsField() {
		return false
	}
	if f, ok := obj.(*types.Func); ok {
		if sig, ok := f.Type().(*types.Signature); ok && sig.Recv() != nil {
			return false
		}
	}
	scope := obj.Parent()
	if scope == nil || obj.Pkg() == nil {
		return false
	}
	for _, pk := range pkgs {
		if pk.Types != obj.Pkg() {
			continue
		}
		for id, used := range pk.TypesInfo.Uses {
			switch {
			case id.Name == to && used != obj:
				// (1) the other object's use lies where obj is visible
				if scope == pk.Types.Scope() {
					// package-level obj: every use of a same-named local or universe object inside the package is fine
					// (locals shadow it), a same-named package-level object would be a redeclaration
					if used.Parent() == pk.Types.Scope() || used.Parent() == types.Universe {
						return true
					}
				} else if scope.Contains(id.Pos()) && id.Pos() >= obj.Pos() {
					// the use must not already be bound more closely than obj would be
					inner := pk.Types.Scope().Innermost(id.Pos())
					closer := false
					for s := inner; s != nil && s != scope; s = s.Parent() {
						if s.Lookup(to) != nil {
							closer = true
						}
					}
					if !closer {
						return true
					}
				}
			case used == obj:
				// (2) a nested scope between the use and obj's scope declares `to`
				inner := pk.Types.Scope().Innermost(id.Pos())
				for s := inner; s != nil && s != scope; s = s.Parent() {
					if o := s.Lookup(to); o != nil && o.Pos() < id.Pos() {
						return true
					}
				}
			}
		}
		// a definition of `to` in the very scope of obj (two locals ending up with one name)
		if other := scope.Lookup(to); other != nil && other != obj {
			return true
		}
	}
	return false
}
