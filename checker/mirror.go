package main

import (
	"golang.org/x/tools/go/ssa"
)

// mirrorSpec: an in-memory mirror field that must only be stored after its disk writer succeeded.
type mirrorSpec struct {
	pkg, recv, fn string   // function containing the store
	field         string   // struct field name of the mirror (last component)
	owner         string   // struct type owning the field ("" = any)
	writers       []string // callee names; the store must be dominated by the nil-error edge of a call to one of them
}

// storesToFieldOf: stores in fn (and closures) to field `field` (optionally of struct type owner).
func storesToFieldOwner(fn *ssa.Function, owner, field string) []*ssa.Store {
	var out []*ssa.Store
	for _, f := range Closures(fn) {
		for _, b := range f.Blocks {
			for _, ins := range b.Instrs {
				st, ok := ins.(*ssa.Store)
				if !ok {
					continue
				}
				fa, ok := st.Addr.(*ssa.FieldAddr)
				if !ok {
					continue
				}
				tn, fl := fieldAddrName(fa)
				if fl == field && (owner == "" || tn == owner) {
					out = append(out, st)
				}
			}
		}
	}
	return out
}

// checkMirrorAfterDisk: every store to the mirror is unreachable unless some writer call returned a nil error,
// and no later database mutator of the same operation can still fail after the store.
func checkMirrorAfterDisk(c *Ctx, rule string, specs []mirrorSpec) {
	p := c.P
	for _, sp := range specs {
		fn := p.Func(sp.pkg, sp.recv, sp.fn)
		if fn == nil {
			c.Unresolved(rule, sp.pkg+"."+sp.recv+"."+sp.fn)
			continue
		}
		stores := storesToFieldOwner(fn, sp.owner, sp.field)
		key := "mirror-after-disk:" + sp.fn + "." + sp.field
		if len(stores) == 0 {
			c.Check(rule, key, fn.Pos(), false, "no store to the in-memory mirror "+sp.field+" found in "+sp.fn+" (rule instance vanished; undecided)")
			continue
		}
		for _, st := range stores {
			okW := !reachableWithoutWriter(p, st.Parent(), st, sp.writers)
			c.Check(rule, key, st.Pos(), okW,
				"the in-memory "+sp.field+" is updated on a path where its database write ("+joinOr(sp.writers)+") has not succeeded: after a failed write / rolled-back transaction memory and disk disagree")
		}
	}
}

// reachableWithoutWriter: can `target` be reached from the entry of fn without taking the nil-error edge of a call to
// one of the writers? Path-sensitive on bool locals/parameters (the same flag tested twice is consistent).
func reachableWithoutWriter(p *Program, fn *ssa.Function, target ssa.Instruction, writers []string) bool {
	var calls []*ssa.Call
	for _, w := range writers {
		calls = append(calls, callsNamed(fn, w)...)
	}
	mi := &modeInterp{p: p, preds: map[string]bool{}, noDescend: true, depthLimit: 0,
		target: func(ins ssa.Instruction, env modeEnv) bool { return ins == target },
		cutEdge: func(from *ssa.BasicBlock, si int) bool {
			f := edgeFactOf(from, si)
			if f == nil || f.Kind != "nil" {
				return false
			}
			fromWriter := func(v ssa.Value) bool {
				for _, call := range calls {
					if loadIsResultOf(v, call) {
						return true
					}
				}
				return false
			}
			if fromWriter(f.V) {
				return true
			}
			// one check after a switch whose every arm performed its write into the same error variable: the merged
			// value is nil only if the write that ran succeeded
			if ph, ok := f.V.(*ssa.Phi); ok && len(ph.Edges) > 0 {
				for _, e := range ph.Edges {
					if !fromWriter(e) {
						return false
					}
				}
				return true
			}
			return false
		}}
	return mi.reachable(fn, modeEnv{}, 0) != nil
}

func joinOr(xs []string) string {
	s := ""
	for i, x := range xs {
		if i > 0 {
			s += " or "
		}
		s += x
	}
	return s
}
