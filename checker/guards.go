package main

import (
	"go/token"
	"strings"

	"golang.org/x/tools/go/ssa"
)

// edgeFact describes what is known about value V when the CFG edge is taken.
type edgeFact struct {
	V    ssa.Value
	Kind string // "true", "false", "nil", "nonnil"
}

// edgeFactOf returns the fact established by taking successor si of block from
// (nil if the block does not end in a recognised test).
func edgeFactOf(from *ssa.BasicBlock, si int) *edgeFact {
	if len(from.Instrs) == 0 || len(from.Succs) != 2 {
		return nil
	}
	iff, ok := from.Instrs[len(from.Instrs)-1].(*ssa.If)
	if !ok {
		return nil
	}
	return condFactOf(iff.Cond, si == 0)
}

// condFactOf is the fact established by the boolean cond having the value taken
func condFactOf(cond ssa.Value, taken bool) *edgeFact {
	inner, neg := unwrapNot(cond)
	if neg {
		taken = !taken
	}
	if b, ok := inner.(*ssa.BinOp); ok && (b.Op == token.EQL || b.Op == token.NEQ) {
		var other ssa.Value
		if isNilConst(b.Y) {
			other = b.X
		} else if isNilConst(b.X) {
			other = b.Y
		}
		if other != nil {
			nonnil := (b.Op == token.NEQ) == taken
			k := "nil"
			if nonnil {
				k = "nonnil"
			}
			return &edgeFact{other, k}
		}
		// comparison with a bool constant
		if cb, ok := constBool(b.Y); ok {
			t := ((b.Op == token.EQL) == cb) == taken
			return &edgeFact{b.X, boolKind(t)}
		}
	}
	return &edgeFact{inner, boolKind(taken)}
}

func boolKind(t bool) string {
	if t {
		return "true"
	}
	return "false"
}

// reachableAvoiding reports whether `target` can be reached from the entry of
// fn (or from the instruction after `start` if non-nil) without taking any
// edge for which cut returns true.
func reachableAvoiding(fn *ssa.Function, start ssa.Instruction, target ssa.Instruction, cut func(from *ssa.BasicBlock, si int) bool) bool {
	q := &PathQuery{Fn: fn, EdgeBarrier: cut}
	q.Target = func(ins ssa.Instruction, via *ssa.BasicBlock) bool { return ins == target }
	return len(q.From(start)) > 0
}

// isResultOfCall: v is the result (or the idx-th extracted result; idx<0 = any) of a call to a function named name.
func isResultOfCall(v ssa.Value, name string, idx int) bool {
	return isResultOfCallD(v, name, idx, 0)
}

func isResultOfCallD(v ssa.Value, name string, idx int, depth int) bool {
	v = stripConv(v)
	switch x := v.(type) {
	case *ssa.Call:
		if calleeShort(&x.Call) == name {
			return true
		}
		return forwardsResultOf(x, 0, name, idx, depth)
	case *ssa.Extract:
		if c, ok := x.Tuple.(*ssa.Call); ok {
			if calleeShort(&c.Call) == name {
				return idx < 0 || x.Index == idx
			}
			return forwardsResultOf(c, x.Index, name, idx, depth)
		}
	}
	return false
}

// forwardsResultOf: call is a call of an unexported function of the repository that hands result `idx` of a call of
// `name` back as its own result `ri` on every return that does not report an error (a lookup extracted into a part).
func forwardsResultOf(call *ssa.Call, ri int, name string, idx int, depth int) bool {
	h := call.Call.StaticCallee()
	if h == nil || depth > 2 || theProg == nil || len(h.Blocks) == 0 || h.Object() == nil || h.Object().Exported() ||
		!strings.HasPrefix(fnPkgPath(h), rootMod) {
		return false
	}
	n := 0
	for _, b := range h.Blocks {
		r, ok := b.Instrs[len(b.Instrs)-1].(*ssa.Return)
		if !ok || ri >= len(r.Results) {
			continue
		}
		if theProg.classifyReturn(r, nil) == retError {
			continue
		}
		if !isResultOfCallD(effectiveResult(r, ri), name, idx, depth+1) {
			return false
		}
		n++
	}
	return n > 0
}

// callsNamed returns calls in fn (not closures) whose callee short name is name.
func callsNamed(fn *ssa.Function, name string) []*ssa.Call {
	var out []*ssa.Call
	for _, b := range fn.Blocks {
		for _, ins := range b.Instrs {
			if c, ok := ins.(*ssa.Call); ok && calleeShort(&c.Call) == name {
				out = append(out, c)
			}
		}
	}
	return out
}

// callsNamedDeep: including nested closures.
func callsNamedDeep(fn *ssa.Function, name string) []*ssa.Call {
	var out []*ssa.Call
	for _, f := range Closures(fn) {
		out = append(out, callsNamed(f, name)...)
	}
	return out
}

// storesToVar returns stores (in fn and closures) to the local variable whose
// root alloc is a.
func storesToVar(a *ssa.Alloc) []*ssa.Store { return storesTo(a) }

// returnedAlloc: the alloc whose load is returned as result idx of fn (captured result variable).
func returnedAlloc(fn *ssa.Function, idx int) *ssa.Alloc {
	for _, b := range fn.Blocks {
		for _, ins := range b.Instrs {
			r, ok := ins.(*ssa.Return)
			if !ok || idx >= len(r.Results) {
				continue
			}
			if u, ok := r.Results[idx].(*ssa.UnOp); ok && u.Op == token.MUL {
				if a, ok := u.X.(*ssa.Alloc); ok {
					return a
				}
			}
		}
	}
	return nil
}

// successReturnPred returns a PathQuery target matching returns that are not definitely errors.
func (p *Program) nonErrorReturn() func(ins ssa.Instruction, via *ssa.BasicBlock) bool {
	return func(ins ssa.Instruction, via *ssa.BasicBlock) bool {
		r, ok := ins.(*ssa.Return)
		if !ok {
			return false
		}
		k := p.classifyReturn(r, via)
		return k != retError
	}
}

// mustPassBetween: every path from `start` (exclusive; nil = entry) to a
// non-error return passes an instruction satisfying pred. Returns the first
// offending return (nil if none).
func (p *Program) mustPassToSuccess(fn *ssa.Function, start ssa.Instruction, pred func(ssa.Instruction) bool, cut func(*ssa.BasicBlock, int) bool) ssa.Instruction {
	q := &PathQuery{Fn: fn, Barrier: pred, EdgeBarrier: cut, Target: p.nonErrorReturn()}
	hits := q.From(start)
	if len(hits) > 0 {
		return hits[0].Ins
	}
	return nil
}

// derivesFromGlobal: v (a bucket name argument) is a load of package var named g.
func isGlobalLoad(v ssa.Value, g string) bool {
	v = stripConv(v)
	if u, ok := v.(*ssa.UnOp); ok && u.Op == token.MUL {
		if gl, ok := u.X.(*ssa.Global); ok {
			return gl.Name() == g
		}
	}
	return false
}

// loadIsResultOf: v is the call's (error) result, directly or as a load of a
// local variable whose nearest dominating store (in the same function) stored
// that result.
func loadIsResultOf(v ssa.Value, call *ssa.Call) bool {
	if v == ssa.Value(call) {
		return true
	}
	if ex, ok := v.(*ssa.Extract); ok && ex.Tuple == ssa.Value(call) {
		return true
	}
	u, ok := v.(*ssa.UnOp)
	if !ok || u.Op != token.MUL {
		return false
	}
	a, ok := u.X.(*ssa.Alloc)
	if !ok {
		return false
	}
	isFromCall := func(val ssa.Value) bool {
		if val == ssa.Value(call) {
			return true
		}
		ex, ok := val.(*ssa.Extract)
		return ok && ex.Tuple == ssa.Value(call)
	}
	// nearest store before the load in its block, else walk up the dominator tree
	b := u.Block()
	idx := instrIndex(u)
	for b != nil {
		for i := idx - 1; i >= 0; i-- {
			if st, ok := b.Instrs[i].(*ssa.Store); ok && st.Addr == ssa.Value(a) {
				return isFromCall(st.Val)
			}
		}
		b = b.Idom()
		if b != nil {
			idx = len(b.Instrs)
		}
	}
	return false
}
