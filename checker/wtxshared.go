package main

import (
	"fmt"
	"strings"

	"golang.org/x/tools/go/ssa"
)

// wtxFn resolves a wtxmgr function or Store method by name.
func wtxFn(c *Ctx, rule, name string) *ssa.Function {
	fn := c.P.Func("wtxmgr", "Store", name)
	if fn == nil {
		fn = c.P.Func("wtxmgr", "", name)
	}
	if fn == nil {
		c.Unresolved(rule, "wtxmgr."+name)
	}
	return fn
}

func isCallNamed(name string) func(ssa.Instruction) bool {
	return func(ins ssa.Instruction) bool {
		c, ok := ins.(*ssa.Call)
		return ok && calleeShort(&c.Call) == name
	}
}

// nilEdgeOf: cut predicate for edges on which the result of a call to `name` is nil.
func nilEdgeOf(name string) func(from *ssa.BasicBlock, si int) bool {
	return func(from *ssa.BasicBlock, si int) bool {
		f := edgeFactOf(from, si)
		return f != nil && f.Kind == "nil" && isResultOfCall(f.V, name, -1)
	}
}

// loopsRangingOver returns range loops of fn whose element type (or origin description) matches.
func loopsRangingOver(fn *ssa.Function, over string) []*Loop {
	var out []*Loop
	for _, l := range loopsOf(fn) {
		if l.Kind != "for" && (l.elemTypeName() == over || l.Over == over) {
			out = append(out, l)
		}
	}
	return out
}

// checkPerIteration: each loop (expected >= floor) ranging over `over` in fn passes `callee` on every iteration.
func checkPerIteration(c *Ctx, rule string, fn *ssa.Function, over, callee string, floor int, detail string, skipOK ...func(*ssa.BasicBlock, int) bool) {
	if fn == nil {
		return
	}
	n := 0
	// the loop may live in fn or in a same-package helper fn calls (extracted block); a loop over a local slice is
	// recognised by role (innermost range loop over a local/parameter that contains the call), not by the variable's name
	cands := []*ssa.Function{fn}
	for _, ci := range callsOf(fn) {
		if g := ci.Common().StaticCallee(); g != nil && g != fn && g.Pkg == fn.Pkg && len(g.Blocks) > 0 {
			cands = append(cands, g)
		}
	}
	overLocal := strings.HasPrefix(over, "var:")
	for _, f := range cands {
		loops := loopsOf(f)
		for _, l := range loops {
			if l.Kind == "for" || !l.containsInstr(isCallNamed(callee)) {
				continue
			}
			match := l.elemTypeName() == over || l.Over == over
			if !match && overLocal && (strings.HasPrefix(l.Over, "var:") || strings.HasPrefix(l.Over, "param:") || strings.HasPrefix(l.Over, "call:")) {
				// innermost loop containing the call
				match = true
				for _, l2 := range loops {
					if l2 != l && l2.Kind != "for" && l2.containsInstr(isCallNamed(callee)) && len(l2.Blocks) < len(l.Blocks) && l.Blocks[l2.Header] {
						match = false
					}
				}
			}
			if !match {
				continue
			}
			n++
			bad := l.MustPassPerIteration(c.P, isCallNamed(callee), skipOK...)
			key := fmt.Sprintf("each-%s-passes-%s:%s", over, callee, fn.Name())
			c.Check(rule, key, l.Header.Instrs[0].Pos(), bad == "", detail+" ("+bad+")")
		}
		if n >= floor {
			break
		}
	}
	if n < floor {
		c.Check(rule, fmt.Sprintf("each-%s-passes-%s:%s", over, callee, fn.Name()), fn.Pos(), false,
			fmt.Sprintf("no loop over %s containing a call to %s found in %s (or a helper it calls): %s", over, callee, fn.Name(), detail))
	}
}

// checkConflictRemoval: transitive conflict removal (shared by C01, C02, C20).
func checkConflictRemoval(c *Ctx, rule string) {
	p := c.P
	rc := wtxFn(c, rule, "removeConflict")
	rds := wtxFn(c, rule, "removeDoubleSpends")
	if rc == nil || rds == nil {
		return
	}
	// removing one spender of an outpoint filters the whole list of its recorded spenders
	checkLoopsHaveNoEarlyExit(c, rule, wtxFn(c, rule, "deleteRawUnminedInput"), "removing one spender of an outpoint must consider every recorded spender (a search-and-splice that stops early deletes the whole entry when the spender is not in the list)")
	// conflicts are found through the unconfirmed-spender index only: every input of every unconfirmed transaction must be in it
	checkPerIteration(c, rule, wtxFn(c, rule, "insertMemPoolTx"), "TxIn", "putRawUnminedInput", 1,
		"an input of a newly seen unconfirmed transaction is not registered in the unconfirmed-spender index: when a conflicting transaction confirms, this one (and its descendants) survive and keep counting")
	// self recursion
	self := false
	for _, cs := range p.callers(rc) {
		if cs.Parent() == rc {
			self = true
		}
	}
	c.Check(rule, "removeConflict-recursive", rc.Pos(), self, "removeConflict no longer calls itself: descendants of a removed transaction survive (removal is one level deep)")

	// every output of the removed record has its spenders looked up, unconditionally
	checkPerIteration(c, rule, rc, "TxOut", "fetchUnminedInputSpendTxHashes", 1,
		"an output of the removed transaction can be skipped without looking up its unconfirmed spenders: descendants attached through that output survive")
	checkPerIteration(c, rule, rc, "TxOut", "deleteRawUnminedCredit", 1,
		"an output of the removed transaction can keep its unmined credit")
	checkPerIteration(c, rule, rc, "TxIn", "deleteRawUnminedInput", 1,
		"an input of the removed transaction can stay in the unconfirmed-spender index")
	// every found spender is removed recursively, unless its record is already gone
	checkPerIteration(c, rule, rc, "call:fetchUnminedInputSpendTxHashes", "removeConflict", 1,
		"a spender of the removed transaction's output can be skipped (other than 'record already removed')", nilEdgeOf("existsRawUnmined"))
	bad := p.mustPassToSuccess(rc, nil, isCallNamed("deleteRawUnmined"), nil)
	c.Check(rule, "removeConflict-deletes-record", rc.Pos(), bad == nil, "removeConflict can return success without deleting the unmined record")

	// removeDoubleSpends: each input's spenders looked up; each other spender removed
	checkPerIteration(c, rule, rds, "TxIn", "fetchUnminedInputSpendTxHashes", 1,
		"an input of the confirmed transaction can be skipped when looking for conflicting unconfirmed spenders")
	checkPerIteration(c, rule, rds, "call:fetchUnminedInputSpendTxHashes", "removeConflict", 1,
		"a conflicting unconfirmed spender can be skipped (other than the transaction itself or 'record already removed')",
		nilEdgeOf("existsRawUnmined"),
		func(from *ssa.BasicBlock, si int) bool {
			// rec.Hash == doubleSpendHash (array equality) true edge
			f := edgeFactOf(from, si)
			if f == nil || f.Kind != "true" {
				return false
			}
			b, ok := f.V.(*ssa.BinOp)
			return ok && b.Op.String() == "=="
		})

	// RemoveUnminedTx reaches removeConflict
	if rm := wtxFn(c, rule, "RemoveUnminedTx"); rm != nil {
		bad := p.mustPassToSuccess(rm, nil, p.reachingCall(rc), nil)
		c.Check(rule, "RemoveUnminedTx-reaches-removeConflict", rm.Pos(), bad == nil, "RemoveUnminedTx can succeed without the recursive conflict removal")
	}
}
