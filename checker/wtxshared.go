package main

import (
	"fmt"
	"go/types"
	"strings"
	"unicode"

	"golang.org/x/tools/go/ssa"
)

// wtxFn resolves a wtxmgr function or Store method by name.
func wtxFn(c *Ctx, rule, name string) *ssa.Function {
	fn := c.P.Func("wtxmgr", "Store", name)
	if fn == nil {
		fn = c.P.Func("wtxmgr", "", name)
	}
	if fn == nil && name != "" && unicode.IsLower(rune(name[0])) {
		// an unexported worker folded into the exported wrapper that was its only caller (rollback -> Rollback)
		up := strings.ToUpper(name[:1]) + name[1:]
		if fn = c.P.Func("wtxmgr", "Store", up); fn == nil {
			fn = c.P.Func("wtxmgr", "", up)
		}
	}
	if fn == nil {
		c.Unresolved(rule, "wtxmgr."+name)
	}
	return fn
}

// isCallNamed: a call of `name`, or of a same-package unexported helper every non-error return of which has
// passed such a call (an extracted block: `rollbackMinedTx(...)` IS "the call of putRawUnmined" for its caller).
// MUST semantics — use it for barriers. For "may" uses (targets, containment) see mayCallNamed.
func isCallNamed(name string) func(ssa.Instruction) bool {
	return func(ins ssa.Instruction) bool {
		c, ok := ins.(*ssa.Call)
		if !ok {
			return false
		}
		if calleeShort(&c.Call) == name {
			return true
		}
		return helperPasses(c.Call.StaticCallee(), c.Parent(), name, true, 0)
	}
}

// mayCallNamed: a call of `name`, or of a same-package unexported helper that (transitively, through such helpers)
// contains one.
func mayCallNamed(name string) func(ssa.Instruction) bool {
	return func(ins ssa.Instruction) bool {
		c, ok := ins.(*ssa.Call)
		if !ok {
			return false
		}
		if calleeShort(&c.Call) == name {
			return true
		}
		return helperPasses(c.Call.StaticCallee(), c.Parent(), name, false, 0)
	}
}

type helperKey struct {
	g    *ssa.Function
	name string
	must bool
}

func helperPasses(g, caller *ssa.Function, name string, must bool, depth int) bool {
	if g == nil || caller == nil || theProg == nil || depth > 3 || len(g.Blocks) == 0 || g.Parent() != nil {
		return false
	}
	if fnPkgPath(g) != fnPkgPath(caller) || g == outermost(caller) {
		return false
	}
	if obj := g.Object(); obj == nil || obj.Exported() {
		return false
	}
	if theProg.helperMemo == nil {
		theProg.helperMemo = map[helperKey]int{}
	}
	helperMemo := theProg.helperMemo // 0 unknown, 1 in progress, 2 yes
	k := helperKey{g, name, must}
	switch helperMemo[k] {
	case 1, 3:
		return false
	case 2:
		return true
	}
	helperMemo[k] = 1
	direct := func(ins ssa.Instruction) bool {
		c, ok := ins.(*ssa.Call)
		if !ok {
			return false
		}
		if calleeShort(&c.Call) == name {
			return true
		}
		return helperPasses(c.Call.StaticCallee(), g, name, must, depth+1)
	}
	res := false
	if must {
		has := false
		for _, ci := range callsOf(g) {
			if direct(ci) {
				has = true
			}
		}
		res = has && theProg.mustPassToSuccess(g, nil, direct, nil) == nil
	} else {
		for _, f := range Closures(g) {
			for _, ci := range callsOf(f) {
				if direct(ci) {
					res = true
				}
			}
		}
	}
	if res {
		helperMemo[k] = 2
	} else {
		helperMemo[k] = 3
	}
	return res
}

// nilEdgeOf: cut predicate for edges on which the result of a call to `name` is nil.
func nilEdgeOf(name string) func(from *ssa.BasicBlock, si int) bool {
	return func(from *ssa.BasicBlock, si int) bool {
		f := edgeFactOf(from, si)
		return f != nil && f.Kind == "nil" && isResultOfCall(f.V, name, -1)
	}
}

// loopsRangingOver returns range loops of fn whose element type (or origin description) matches.
func loopsRangingOver(fn *ssa.Function, over string) []*Loop {
	var out []*Loop
	fns := []*ssa.Function{fn}
	if theProg != nil && fn.Parent() == nil {
		fns = theProg.regionTop(fn) // fn and its private parts (extracted blocks)
	}
	for _, f := range fns {
		for _, l := range loopsOf(f) {
			if l.Kind != "for" && (l.elemTypeName() == over || l.Over == over) {
				out = append(out, l)
			}
		}
	}
	return out
}

// checkPerIteration: each loop (expected >= floor) ranging over `over` in fn passes `callee` on every iteration.
func checkPerIteration(c *Ctx, rule string, fn *ssa.Function, over, callee string, floor int, detail string, skipOK ...func(*ssa.BasicBlock, int) bool) {
	if fn == nil {
		return
	}
	n := 0
	// the loop may live in fn or in a same-package helper fn calls (extracted block); a loop over a local slice is
	// recognised by role (innermost range loop over a local/parameter that contains the call), not by the variable's name
	cands := []*ssa.Function{fn}
	for _, ci := range callsOf(fn) {
		if g := ci.Common().StaticCallee(); g != nil && g != fn && g.Pkg == fn.Pkg && len(g.Blocks) > 0 {
			cands = append(cands, g)
		}
	}
	overLocal := strings.HasPrefix(over, "var:")
	for _, f := range cands {
		loops := loopsOf(f)
		for _, l := range loops {
			if l.Kind == "for" || !l.containsInstr(isCallNamed(callee)) {
				continue
			}
			match := l.elemTypeName() == over || l.Over == over
			if !match && overLocal && (strings.HasPrefix(l.Over, "var:") || strings.HasPrefix(l.Over, "param:") || strings.HasPrefix(l.Over, "call:") || strings.HasPrefix(l.Over, "field:")) {
				// innermost loop containing the call
				match = true
				for _, l2 := range loops {
					if l2 != l && l2.Kind != "for" && l2.containsInstr(isCallNamed(callee)) && len(l2.Blocks) < len(l.Blocks) && l.Blocks[l2.Header] {
						match = false
					}
				}
			}
			if !match {
				continue
			}
			n++
			bad := l.MustPassPerIteration(c.P, isCallNamed(callee), skipOK...)
			key := fmt.Sprintf("each-%s-passes-%s:%s", over, callee, fn.Name())
			c.Check(rule, key, l.Header.Instrs[0].Pos(), bad == "", detail+" ("+bad+")")
		}
		if n >= floor {
			break
		}
	}
	if n < floor {
		c.Check(rule, fmt.Sprintf("each-%s-passes-%s:%s", over, callee, fn.Name()), fn.Pos(), false,
			fmt.Sprintf("no loop over %s containing a call to %s found in %s (or a helper it calls): %s", over, callee, fn.Name(), detail))
	}
}

// checkConflictRemoval: transitive conflict removal (shared by C01, C02, C20).
func checkConflictRemoval(c *Ctx, rule string) {
	p := c.P
	rc := wtxFn(c, rule, "removeConflict")
	rds := wtxFn(c, rule, "removeDoubleSpends")
	if rc == nil || rds == nil {
		return
	}
	// removing one spender of an outpoint filters the whole list of its recorded spenders
	checkLoopsHaveNoEarlyExit(c, rule, wtxFn(c, rule, "deleteRawUnminedInput"), "removing one spender of an outpoint must consider every recorded spender (a search-and-splice that stops early deletes the whole entry when the spender is not in the list)")
	// ... and the entry is rewritten (or deleted) only from the filtered list: no write of the spender record may be
	// reachable before the filter over its hashes has run (a shortcut such as "one hash left: delete the record" forgets
	// a spender that is not the one being removed)
	if dri := wtxFn(c, rule, "deleteRawUnminedInput"); dri != nil {
		hasFilter := func(f *ssa.Function) *Loop {
			for _, l := range loopsOf(f) {
				if l.containsInstr(func(ins ssa.Instruction) bool {
					call, ok := ins.(*ssa.Call)
					return ok && (calleeShort(&call.Call) == "Equal" || calleeShort(&call.Call) == "Compare")
				}) || l.containsInstr(func(ins ssa.Instruction) bool {
					bo, ok := ins.(*ssa.BinOp)
					if !ok || (bo.Op.String() != "==" && bo.Op.String() != "!=") {
						return false
					}
					_, isArr := bo.X.Type().Underlying().(*types.Array)
					return isArr
				}) {
					return l
				}
			}
			return nil
		}
		n := 0
		for _, ci := range callsOf(dri) {
			call, ok := ci.(*ssa.Call)
			if !ok || !call.Call.IsInvoke() {
				continue
			}
			m := call.Call.Method.Name()
			if m != "Delete" && m != "Put" {
				continue
			}
			n++
			okW := false
			if l := hasFilter(dri); l != nil && l.Header.Dominates(call.Block()) && !l.Blocks[call.Block()] {
				okW = true
			}
			// the filter extracted into a same-package helper whose call dominates the write
			for _, c2 := range callsOf(dri) {
				hc, ok := c2.(*ssa.Call)
				if !ok || hc == call {
					continue
				}
				h := hc.Call.StaticCallee()
				if h == nil || h.Pkg != dri.Pkg || len(h.Blocks) == 0 || hasFilter(h) == nil {
					continue
				}
				if hc.Block().Dominates(call.Block()) && (hc.Block() != call.Block() || instrIndex(hc) < instrIndex(call)) {
					okW = true
				}
			}
			c.Check(rule, "spender-record-written-only-after-filter:"+m, call.Pos(), okW,
				"deleteRawUnminedInput can "+m+" the outpoint's spender record on a path that has not compared the recorded hashes with the spender being removed: when that spender is not (the only one) in the list, another unconfirmed spender of the outpoint is forgotten and the output reads as unspent")
		}
		c.Floor(rule, "writes of the spender record in deleteRawUnminedInput", n, 2)
	}
	// a confirmed transaction's unconfirmed copy goes completely: each of its unmined credits is deleted, unconditionally
	// (the confirmation has already re-created them as mined credits; a copy left behind is counted a second time)
	checkPerIteration(c, rule, wtxFn(c, rule, "deleteUnminedTx"), "TxOut", "deleteRawUnminedCredit", 1,
		"an output of a transaction leaving the unconfirmed store can keep its unmined credit record: the same credit then exists as mined and as unmined and is counted twice once its unconfirmed spender goes away")
	// conflicts are found through the unconfirmed-spender index only: every input of every unconfirmed transaction must be in it
	checkPerIteration(c, rule, wtxFn(c, rule, "insertMemPoolTx"), "TxIn", "putRawUnminedInput", 1,
		"an input of a newly seen unconfirmed transaction is not registered in the unconfirmed-spender index: when a conflicting transaction confirms, this one (and its descendants) survive and keep counting")
	// self recursion
	self := false
	for _, cs := range p.callers(rc) {
		// directly, or from a private part of it (mutual recursion through an extracted loop)
		if u := outermost(cs.Parent()); u == rc || (u != nil && p.inRegion(rc, u)) {
			self = true
		}
	}
	c.Check(rule, "removeConflict-recursive", rc.Pos(), self, "removeConflict no longer calls itself: descendants of a removed transaction survive (removal is one level deep)")

	// every output of the removed record has its spenders looked up, unconditionally
	checkPerIteration(c, rule, rc, "TxOut", "fetchUnminedInputSpendTxHashes", 1,
		"an output of the removed transaction can be skipped without looking up its unconfirmed spenders: descendants attached through that output survive")
	checkPerIteration(c, rule, rc, "TxOut", "deleteRawUnminedCredit", 1,
		"an output of the removed transaction can keep its unmined credit")
	checkPerIteration(c, rule, rc, "TxIn", "deleteRawUnminedInput", 1,
		"an input of the removed transaction can stay in the unconfirmed-spender index")
	// every found spender is removed recursively, unless its record is already gone
	checkPerIteration(c, rule, rc, "call:fetchUnminedInputSpendTxHashes", "removeConflict", 1,
		"a spender of the removed transaction's output can be skipped (other than 'record already removed')", nilEdgeOf("existsRawUnmined"))
	bad := p.mustPassToSuccess(rc, nil, isCallNamed("deleteRawUnmined"), nil)
	c.Check(rule, "removeConflict-deletes-record", rc.Pos(), bad == nil, "removeConflict can return success without deleting the unmined record")

	// removeDoubleSpends: each input's spenders looked up; each other spender removed
	checkPerIteration(c, rule, rds, "TxIn", "fetchUnminedInputSpendTxHashes", 1,
		"an input of the confirmed transaction can be skipped when looking for conflicting unconfirmed spenders")
	checkPerIteration(c, rule, rds, "call:fetchUnminedInputSpendTxHashes", "removeConflict", 1,
		"a conflicting unconfirmed spender can be skipped (other than the transaction itself or 'record already removed')",
		nilEdgeOf("existsRawUnmined"),
		func(from *ssa.BasicBlock, si int) bool {
			// rec.Hash == doubleSpendHash (array equality) true edge
			f := edgeFactOf(from, si)
			if f == nil || f.Kind != "true" {
				return false
			}
			b, ok := f.V.(*ssa.BinOp)
			return ok && b.Op.String() == "=="
		})

	// RemoveUnminedTx reaches removeConflict
	if rm := wtxFn(c, rule, "RemoveUnminedTx"); rm != nil {
		bad := p.mustPassToSuccess(rm, nil, p.reachingCall(rc), nilEdgeOf("existsRawUnmined"))
		c.Check(rule, "RemoveUnminedTx-reaches-removeConflict", rm.Pos(), bad == nil, "RemoveUnminedTx can succeed without the recursive conflict removal (other than for a transaction that is not recorded as unmined)")
		// ... and only for a transaction that IS recorded as unmined: removeConflict deletes, recursively, every unconfirmed
		// spender of the record's outputs; handed a mined (or unknown) transaction — as the wallet does when the backend
		// answers "already confirmed" to a re-publication — it would forget that transaction's accepted children
		nCalls := 0
		for _, ci := range callsOf(rm) {
			call, ok := ci.(*ssa.Call)
			if !ok || !p.reachingCall(rc)(call) {
				continue
			}
			nCalls++
			unguarded := reachableAvoiding(rm, nil, call, func(from *ssa.BasicBlock, si int) bool {
				f := edgeFactOf(from, si)
				return f != nil && f.Kind == "nonnil" && isResultOfCall(f.V, "existsRawUnmined", -1)
			})
			c.Check(rule, "RemoveUnminedTx-only-removes-unmined-records", call.Pos(), !unguarded,
				"RemoveUnminedTx runs the recursive removal without having checked that the transaction is recorded as unmined: for an already-mined transaction every unconfirmed transaction spending its outputs is deleted (an accepted child disappears and its input is offered again)")
		}
		c.Floor(rule, "recursive removals started by RemoveUnminedTx", nCalls, 1)
	}
}

// viaHelpers lifts a predicate on instructions over extracted helpers: the result also holds for a call of a same-package
// unexported function that (must) passes an instruction satisfying it on every way to a non-error return, or (may)
// contains one — transitively through such helpers. key identifies the predicate for memoisation.
func viaHelpers(key string, base func(ssa.Instruction) bool, must bool) func(ssa.Instruction) bool {
	var lifted func(ins ssa.Instruction, depth int) bool
	var helper func(g, caller *ssa.Function, depth int) bool
	helper = func(g, caller *ssa.Function, depth int) bool {
		if g == nil || caller == nil || theProg == nil || depth > 3 || len(g.Blocks) == 0 || g.Parent() != nil {
			return false
		}
		if fnPkgPath(g) != fnPkgPath(caller) || g == outermost(caller) {
			return false
		}
		if obj := g.Object(); obj == nil || obj.Exported() {
			return false
		}
		if theProg.helperMemo == nil {
			theProg.helperMemo = map[helperKey]int{}
		}
		k := helperKey{g, "pred:" + key, must}
		switch theProg.helperMemo[k] {
		case 1, 3:
			return false
		case 2:
			return true
		}
		theProg.helperMemo[k] = 1
		inner := func(ins ssa.Instruction) bool { return lifted(ins, depth+1) }
		res := false
		if must {
			has := false
			for _, ci := range callsOf(g) {
				if inner(ci) {
					has = true
				}
			}
			res = has && theProg.mustPassToSuccess(g, nil, inner, nil) == nil
		} else {
			for _, f := range Closures(g) {
				for _, b := range f.Blocks {
					for _, ins := range b.Instrs {
						if inner(ins) {
							res = true
						}
					}
				}
			}
		}
		if res {
			theProg.helperMemo[k] = 2
		} else {
			theProg.helperMemo[k] = 3
		}
		return res
	}
	lifted = func(ins ssa.Instruction, depth int) bool {
		if base(ins) {
			return true
		}
		c, ok := ins.(*ssa.Call)
		if !ok {
			return false
		}
		return helper(c.Call.StaticCallee(), c.Parent(), depth)
	}
	return func(ins ssa.Instruction) bool { return lifted(ins, 0) }
}
