package main

import (
	"fmt"
	"go/token"
	"sort"
	"strings"

	"golang.org/x/tools/go/ssa"
)

// A tiny path-sensitive reachability analysis over boolean "mode predicates"
// (e.g. Manager.IsLocked(), Manager.WatchOnly()). Within one exploration the
// predicates are assumed stable (they read atomic flags that only change at
// the transition functions, which are analysed separately).

type boolVal int8

const (
	bUnknown boolVal = 0
	bTrue    boolVal = 1
	bFalse   boolVal = -1
)

func (b boolVal) not() boolVal { return -b }

type modeEnv map[string]boolVal

func (e modeEnv) clone() modeEnv {
	o := make(modeEnv, len(e))
	for k, v := range e {
		o[k] = v
	}
	return o
}

func (e modeEnv) key() string {
	var ks []string
	for k, v := range e {
		if v != bUnknown {
			ks = append(ks, fmt.Sprintf("%s=%d", k, v))
		}
	}
	sort.Strings(ks)
	return strings.Join(ks, ",")
}

type modeInterp struct {
	p *Program
	// predicate callee names, e.g. "IsLocked", "WatchOnly"
	preds map[string]bool
	// target instruction predicate
	target func(ssa.Instruction, modeEnv) bool
	// taintSrc: values whose flow through phis must be tracked for target (e.g. loads of private fields)
	taintSrc func(ssa.Value) bool
	// containsTarget: mode-free over-approximation used to prune the call graph
	containsTarget func(*ssa.Function) bool
	// cutEdge: CFG edges that are not followed (e.g. the success edge of a required call)
	cutEdge func(from *ssa.BasicBlock, si int) bool
	// noDescend: stay within the start function
	noDescend bool
	// functions not to descend into (transition functions)
	exempt func(*ssa.Function) bool
	// memo
	canReachTarget map[*ssa.Function]bool
	direct         map[*ssa.Function]bool
	memo           map[string]*ssa.Instruction
	depthLimit     int
	evalDepth      int
	// barrier: a path is abandoned at an instruction satisfying it (must-pass queries)
	barrier func(ssa.Instruction, modeEnv) bool
	// predField: atomic.Bool field name -> predicate name it backs (computed lazily from the predicate functions' bodies)
	predField map[string]string
}

func predName(v ssa.Value, preds map[string]bool) string {
	call, ok := v.(*ssa.Call)
	if !ok {
		return ""
	}
	n := calleeShort(&call.Call)
	if preds[n] {
		return n
	}
	return ""
}

func (mi *modeInterp) eval(v ssa.Value, env modeEnv) boolVal {
	switch x := v.(type) {
	case *ssa.Const:
		if b, ok := constBool(x); ok {
			if b {
				return bTrue
			}
			return bFalse
		}
	case *ssa.UnOp:
		if x.Op == token.NOT {
			return mi.eval(x.X, env).not()
		}
		if x.Op == token.MUL {
			// load of a bool local (alloc): single dominating store
			if a, ok := x.X.(*ssa.Alloc); ok {
				return env["v:"+a.Name()]
			}
			// load of a captured bool variable: the value(s) the enclosing function stored to it
			if fv, ok := x.X.(*ssa.FreeVar); ok {
				return mi.evalAll(freeVarStores(fv), env)
			}
			// a bool that used to be captured, now a field of the struct the method was bound on
			if vals := mi.p.boundFieldStores(x); len(vals) > 0 {
				return mi.evalAll(vals, env)
			}
			if k := condKey(x, mi.preds); k != "" {
				return env[k]
			}
		}
	case *ssa.Call:
		if n := predName(x, mi.preds); n != "" {
			return env["p:"+n]
		}
		return env["v:"+x.Name()]
	case *ssa.Phi:
		if r := env["v:"+v.Name()]; r != bUnknown {
			return r
		}
		// a bool phi (a || b, a && b) whose every incoming value is decided the same way by the mode
		return mi.evalAll(x.Edges, env)
	case *ssa.FreeVar:
		if r := env["v:"+v.Name()]; r != bUnknown {
			return r
		}
		// a bool captured by value: evaluate what the enclosing function bound
		if root := freeVarRoot(x); root != ssa.Value(x) {
			if _, isAlloc := root.(*ssa.Alloc); !isAlloc {
				return mi.evalAll([]ssa.Value{root}, env)
			}
		}
		return bUnknown
	case *ssa.Parameter:
		return env["v:"+v.Name()]
	case *ssa.BinOp:
		if k, ok := nilKey(x); ok {
			v := env[k]
			if x.Op == token.NEQ {
				return v.not()
			}
			return v
		}
		if k := condKey(x, mi.preds); k != "" {
			v := env[k]
			if x.Op == token.NEQ {
				return v.not()
			}
			return v
		}
		return env["v:"+x.Name()]
	}
	return bUnknown
}

// evalAll: the common definite value of all vs under env that does not depend on the path taken
// (only mode predicates and condition keys, no per-path "v:" facts), or unknown.
func (mi *modeInterp) evalAll(vs []ssa.Value, env modeEnv) boolVal {
	if len(vs) == 0 || mi.evalDepth > 6 {
		return bUnknown
	}
	mi.evalDepth++
	defer func() { mi.evalDepth-- }()
	stable := modeEnv{}
	for k, v := range env {
		if !strings.HasPrefix(k, "v:") && !strings.HasPrefix(k, "t:") {
			stable[k] = v
		}
	}
	res := bUnknown
	for i, v := range vs {
		r := mi.eval(v, stable)
		if r == bUnknown || (i > 0 && r != res) {
			return bUnknown
		}
		res = r
	}
	return res
}

// condKey: a stable key for conditions whose outcome is assumed consistent within one call:
// mode predicates, loads of bool struct fields, and comparisons of a value with a constant.
func condKey(v ssa.Value, preds map[string]bool) string {
	switch x := v.(type) {
	case *ssa.Call:
		if n := predName(x, preds); n != "" {
			return "p:" + n
		}
	case *ssa.UnOp:
		if x.Op == token.MUL && isBoolType(x.Type()) {
			if fa, ok := x.X.(*ssa.FieldAddr); ok {
				_, f := fieldAddrName(fa)
				return "f:" + f
			}
		}
	case *ssa.BinOp:
		if x.Op != token.EQL && x.Op != token.NEQ {
			return ""
		}
		var other ssa.Value
		var k *ssa.Const
		if c, ok := x.Y.(*ssa.Const); ok {
			other, k = x.X, c
		} else if c, ok := x.X.(*ssa.Const); ok {
			other, k = x.Y, c
		}
		if k == nil || k.Value == nil {
			return ""
		}
		switch o := other.(type) {
		case *ssa.Parameter:
			return "c:" + o.Name() + "==" + k.Value.String()
		case *ssa.Phi:
			return "c:" + o.Name() + "==" + k.Value.String()
		case *ssa.Call:
			// len(x.f) == 0
			if bi, ok := o.Call.Value.(*ssa.Builtin); ok && bi.Name() == "len" && k.Value.String() == "0" {
				if _, f, _, okf := fieldOf(o.Call.Args[0]); okf {
					return "e:" + f
				}
			}
		}
	}
	return ""
}

// nilKey: condition `x.f == nil` / `x.f != nil` on a struct field -> "n:f" (true = nil).
func nilKey(v ssa.Value) (string, bool) {
	bo, ok := v.(*ssa.BinOp)
	if !ok || (bo.Op != token.EQL && bo.Op != token.NEQ) {
		return "", false
	}
	var other ssa.Value
	if isNilConst(bo.Y) {
		other = bo.X
	} else if isNilConst(bo.X) {
		other = bo.Y
	} else {
		return "", false
	}
	if _, f, _, ok := fieldOf(other); ok {
		return "n:" + f, true
	}
	return "", false
}

// reachable: can a target instruction be executed starting at fn's entry with
// the given environment (predicate values and bool parameter values)?
// Returns the first target found (nil if none).
func (mi *modeInterp) reachable(fn *ssa.Function, env modeEnv, depth int) ssa.Instruction {
	if len(fn.Blocks) == 0 || depth > mi.depthLimit {
		return nil
	}
	mk := fnName(fn) + "|" + env.key()
	if mi.memo == nil {
		mi.memo = map[string]*ssa.Instruction{}
	}
	if r, ok := mi.memo[mk]; ok {
		if r == nil {
			return nil
		}
		return *r
	}
	mi.memo[mk] = nil // cycle guard: assume unreachable while in progress
	res := mi.explore(fn, env, depth)
	if res != nil {
		mi.memo[mk] = &res
	}
	return res
}

func (mi *modeInterp) explore(fn *ssa.Function, env0 modeEnv, depth int) ssa.Instruction {
	type state struct {
		b   *ssa.BasicBlock
		env modeEnv
	}
	seen := map[string]bool{}
	work := []state{{fn.Blocks[0], env0.clone()}}
	push := func(b *ssa.BasicBlock, from *ssa.BasicBlock, env modeEnv) {
		if mi.cutEdge != nil {
			for si, s := range from.Succs {
				if s == b && mi.cutEdge(from, si) {
					// if both successors are the same block the edge identity is ambiguous; treat as cut
					return
				}
			}
		}
		e := env.clone()
		// evaluate phis of b for the edge from->b
		idx := -1
		for i, p := range b.Preds {
			if p == from {
				idx = i
			}
		}
		if idx >= 0 {
			vals := map[string]boolVal{}
			for _, ins := range b.Instrs {
				ph, ok := ins.(*ssa.Phi)
				if !ok {
					break
				}
				if isBoolType(ph.Type()) {
					vals["v:"+ph.Name()] = mi.eval(ph.Edges[idx], env)
				}
				if mi.taintSrc != nil {
					hasSrc := false
					for _, e := range ph.Edges {
						if mi.taintSrc(e) {
							hasSrc = true
						}
						if p2, ok := e.(*ssa.Phi); ok && env["t:"+p2.Name()] != bUnknown {
							hasSrc = true
						}
					}
					if hasSrc {
						in := ph.Edges[idx]
						t := bFalse
						if mi.taintSrc(in) {
							t = bTrue
						} else if p2, ok := in.(*ssa.Phi); ok && env["t:"+p2.Name()] == bTrue {
							t = bTrue
						}
						vals["t:"+ph.Name()] = t
					}
				}
			}
			for k, v := range vals {
				e[k] = v
			}
		}
		k := fmt.Sprintf("%d|%s", b.Index, e.key())
		if seen[k] {
			return
		}
		seen[k] = true
		work = append(work, state{b, e})
	}
	for len(work) > 0 {
		st := work[len(work)-1]
		work = work[:len(work)-1]
		env := st.env
		blocked := false
		for _, ins := range st.b.Instrs {
			if mi.target(ins, env) {
				return ins
			}
			if mi.barrier != nil && mi.barrier(ins, env) {
				blocked = true
				break
			}
			switch x := ins.(type) {
			case *ssa.Store:
				// bool local variable
				if a, ok := x.Addr.(*ssa.Alloc); ok && isBoolType(x.Val.Type()) {
					env["v:"+a.Name()] = mi.eval(x.Val, env)
				}
			case *ssa.Call:
				// m.watchingOnly.Store(true): the function itself moves a mode predicate; later tests see the new value
				if f, v, ok := mi.predStore(x); ok {
					env["p:"+f] = v
				}
				if !mi.noDescend {
					if r := mi.descend(x, env, depth); r != nil {
						return r
					}
				}
			case *ssa.Defer:
				if !mi.noDescend {
					if r := mi.descendCommon(x.Common(), x, env, depth); r != nil {
						return r
					}
				}
			}
		}
		if len(st.b.Instrs) == 0 || blocked {
			continue
		}
		switch t := st.b.Instrs[len(st.b.Instrs)-1].(type) {
		case *ssa.If:
			v := mi.eval(t.Cond, env)
			switch v {
			case bTrue:
				push(st.b.Succs[0], st.b, env)
			case bFalse:
				push(st.b.Succs[1], st.b, env)
			default:
				inner, neg := unwrapNot(t.Cond)
				name := ""
				if k, ok := nilKey(inner); ok {
					name = k
					if bo := inner.(*ssa.BinOp); bo.Op == token.NEQ {
						neg = !neg
					}
				} else if k := condKey(inner, mi.preds); k != "" {
					name = k
					if bo, ok := inner.(*ssa.BinOp); ok && bo.Op == token.NEQ {
						neg = !neg
					}
				} else if _, isPhi := inner.(*ssa.Phi); isPhi {
					name = "v:" + inner.Name()
				} else if _, isPrm := inner.(*ssa.Parameter); isPrm {
					name = "v:" + inner.Name()
				} else if c, isCall := inner.(*ssa.Call); isCall && isBoolType(c.Type()) {
					name = "v:" + inner.Name()
				}
				for si := 0; si < 2; si++ {
					e := env
					if name != "" {
						e = env.clone()
						val := bTrue
						if si == 1 {
							val = bFalse
						}
						if neg {
							val = val.not()
						}
						e[name] = val
					}
					push(st.b.Succs[si], st.b, e)
				}
			}
		default:
			for _, s := range st.b.Succs {
				push(s, st.b, env)
			}
		}
	}
	return nil
}

func (mi *modeInterp) descend(call *ssa.Call, env modeEnv, depth int) ssa.Instruction {
	return mi.descendCommon(call.Common(), call, env, depth)
}

func (mi *modeInterp) descendCommon(cc *ssa.CallCommon, site ssa.CallInstruction, env modeEnv, depth int) ssa.Instruction {
	var callees []*ssa.Function
	callees = append(callees, mi.p.Callees(site)...)
	// closures passed as arguments are assumed invoked
	for _, f := range funcArgs(site) {
		callees = append(callees, f)
	}
	for _, g := range callees {
		if !mi.p.InRepo(g) || (mi.exempt != nil && mi.exempt(g)) {
			continue
		}
		if !mi.mayReach(g) {
			continue
		}
		e := modeEnv{}
		for k, v := range env {
			if strings.HasPrefix(k, "p:") {
				e[k] = v
			}
		}
		// bind bool parameters
		args := cc.Args
		off := 0
		if cc.IsInvoke() {
			off = 1
		}
		for i, prm := range g.Params {
			ai := i - off
			if ai >= 0 && ai < len(args) && isBoolType(prm.Type()) {
				e["v:"+prm.Name()] = mi.eval(args[ai], env)
			}
		}
		// free variables of closures: bool captured locals
		if r := mi.reachable(g, e, depth+1); r != nil {
			return r
		}
	}
	return nil
}

// mayReach: g (transitively, ignoring modes) contains a target.
func (mi *modeInterp) mayReach(g *ssa.Function) bool {
	if mi.direct == nil {
		mi.direct = map[*ssa.Function]bool{}
		for _, fn := range mi.p.RepoFuncs {
			for _, b := range fn.Blocks {
				for _, ins := range b.Instrs {
					_ = ins
					if mi.containsTarget(fn) {
						mi.direct[fn] = true
					}
				}
			}
		}
		mi.canReachTarget = map[*ssa.Function]bool{}
	}
	if v, ok := mi.canReachTarget[g]; ok {
		return v
	}
	res := false
	for f := range mi.p.reachSet(g) {
		if mi.direct[f] {
			res = true
			break
		}
	}
	mi.canReachTarget[g] = res
	return res
}

// predStore: call is (*atomic.Bool).Store(const) on the field that backs one of the mode predicates.
func (mi *modeInterp) predStore(call *ssa.Call) (string, boolVal, bool) {
	g := call.Call.StaticCallee()
	if g == nil || g.Name() != "Store" || g.Pkg == nil || g.Pkg.Pkg.Path() != "sync/atomic" || len(call.Call.Args) != 2 {
		return "", bUnknown, false
	}
	fa, ok := call.Call.Args[0].(*ssa.FieldAddr)
	if !ok {
		return "", bUnknown, false
	}
	b, ok := constBool(call.Call.Args[1])
	if !ok {
		return "", bUnknown, false
	}
	if mi.predField == nil {
		mi.predField = map[string]string{}
		for _, fn := range mi.p.RepoFuncs {
			if !mi.preds[fn.Name()] || fn.Signature.Recv() == nil || len(fn.Blocks) != 1 {
				continue
			}
			for _, ins := range fn.Blocks[0].Instrs {
				if c2, ok := ins.(*ssa.Call); ok {
					if h := c2.Call.StaticCallee(); h != nil && h.Name() == "Load" && len(c2.Call.Args) == 1 {
						if fa2, ok := c2.Call.Args[0].(*ssa.FieldAddr); ok {
							_, f := fieldAddrName(fa2)
							mi.predField[f] = fn.Name()
						}
					}
				}
			}
		}
	}
	_, f := fieldAddrName(fa)
	pn, ok := mi.predField[f]
	if !ok {
		return "", bUnknown, false
	}
	if b {
		return pn, bTrue, true
	}
	return pn, bFalse, true
}
