package main

import (
	"fmt"
	"go/token"
	"go/types"
	"sort"
	"strings"

	"golang.org/x/tools/go/ssa"
)

func init() {
	register(&propSpec{
		ID: "C15",
		Explanation: "Following arbitrary notification histories is NOT decided. Decided, for all paths: (R1) wherever the tip stamp moves backwards (disconnectBlock; the startup loop of syncWithChain) Manager.SetSyncedTo and Store.Rollback run in the same database transaction, " +
			"the rollback on every success path after the stamp write, with heights related as rollback = stamp height + 1; (R2) every stamp handed to SetSyncedTo has its Height, Hash and Timestamp assigned on every path (no zero hash), disconnectBlock acts only when the stored hash at that height equals the notified hash and takes the parent's hash from the manager's own recent-hash index; connectBlock stamps the notified block; " +
			"(R3) PutSyncedTo: with a birthday block set, the hash-index and stamp writes are control-dependent on the predecessor hash (height-1) being known; the pruned entry is height-MaxReorgDepth; " +
			"(R4) the startup loop walks down from the stored tip, records the backend's block as the stamp BEFORE testing equality (so the stamp is the last common block), stops at the first equal hash, and stamps/rolls back only if a mismatch was seen; " +
			"(R5) the in-memory synced-to stamp is stored only after the database write succeeded.",
		Assumptions: []string{"one wallet database transaction per walletdb.Update closure"},
		Run:         runC15,
	})
}

// stampFieldsAssigned: for a SetSyncedTo call whose stamp argument is a local BlockStamp, which fields are stored on every path before the call.
func stampArgAlloc(v ssa.Value) ssa.Value {
	v = stripConv(v)
	switch x := v.(type) {
	case *ssa.Alloc:
		return x
	case *ssa.FreeVar:
		return x
	case *ssa.Parameter:
		// a part that is handed a pointer to the stamp: the pointer stands for the variable
		if _, isPtr := x.Type().Underlying().(*types.Pointer); isPtr {
			return x
		}
	case *ssa.FieldAddr: // the stamp kept as a field of a small private struct
		if _, ok := privateFieldCell(x); ok {
			return x
		}
	}
	return nil
}

func runC15(c *Ctx) {
	p := c.P
	setSynced := p.Func("waddrmgr", "Manager", "SetSyncedTo")
	rollback := p.Func("wtxmgr", "Store", "Rollback")
	if setSynced == nil || rollback == nil {
		c.Unresolved("C15-R1", "waddrmgr.Manager.SetSyncedTo / wtxmgr.Store.Rollback")
		return
	}
	isSet := func(ins ssa.Instruction) bool { return p.isCallTo(ins, setSynced) }
	_ = rollback

	checkCoupledRollback(c, "C15-R1")
	// the store side of a (multi-block) disconnect: every block at or above the new tip is detached
	checkRollbackWalk(c, "C15-R1")
	checkReorgDisconnectHashes(c, "C15-R2")
	checkRescanFinishedCatchesUpToBackendTip(c, "C15-R2")
	checkReorgListBuiltInOneDirection(c, "C15-R2")
	checkFilteredBlocksAlwaysAnnounced(c, "C15-R2")
	checkSyncedFlagNeverClearedByWallet(c, "C15-R2")
	checkRescanFinishedAlwaysMarksSynced(c, "C15-R2")
	checkStoppedClientIsDetached(c, "C15-R2")
	checkNeutrinoProducerDiscipline(c, "C15-R2", "a")
	checkBirthdayBoundaryBlockIsConnected(c, "C15-R2")
	// (the hand-over select may give up on quit; what may not happen is a return that never got as far as the hand-over)
	checkEveryReturnPasses(c, "C15-R2", "filtered-block-always-handed-over", c.P.Func("chain", "NeutrinoClient", "onFilteredBlockConnected"),
		func(i ssa.Instruction) bool {
			if _, isSel := i.(*ssa.Select); isSel {
				return true
			}
			return mayCallNamed("dispatchRescanFinished")(i)
		},
		"NeutrinoClient.onFilteredBlockConnected can return without having offered the block to the queue (and so without recording it as the last filtered one and trying to finish the rescan): a rescan that ends on a block without wallet transactions never reports itself finished, the wallet is never marked synced, and every later disconnect is dropped")
	checkSyncStateReadUnderManagerLock(c, "C15-R5")
	// the wallet can follow the backend only if the notifications reach it in the order they were produced
	c.Borrow(runC18, "C18-R1", "C15-R2", func(k string) bool { return strings.HasPrefix(k, "direct-handoff-only-when-overflow-empty") })
	// ... and all of them: a queue that drops or replaces a waiting block notification leaves the wallet behind for good
	c.Borrow(runC18, "C18-R5", "C15-R2", func(k string) bool { return strings.HasPrefix(k, "queue-length-test-is-emptiness") })
	// the two stores move together during recovery too: a batch's stamps and the transactions found in it are written in
	// one database transaction
	c.Borrow(runC16, "C16-R5", "C15-R1", func(k string) bool { return strings.HasPrefix(k, "batch-stamps-in-same-update-after-recovery") })

	// ---------- R2 stamp completeness at every SetSyncedTo site ----------
	nSites := 0
	for _, cs := range p.callers(setSynced) {
		call, ok := cs.(*ssa.Call)
		if !ok {
			continue
		}
		fn := call.Parent()
		if shortPkg(fnPkgPath(fn)) != "wallet" {
			continue
		}
		nSites++
		al, ok := stripConv(call.Call.Args[2]).(*ssa.Alloc)
		if !ok {
			continue // stamp is a parameter / captured copy of an existing stamp
		}
		// whole-struct store?
		whole := false
		for _, st := range storesTo(al) {
			if st.Addr == ssa.Value(al) {
				whole = true
			}
		}
		if whole {
			continue
		}
		for _, field := range []string{"Height", "Hash", "Timestamp"} {
			field := field
			isFieldStore := func(ins ssa.Instruction) bool {
				st, ok := ins.(*ssa.Store)
				if !ok {
					return false
				}
				fa, ok := st.Addr.(*ssa.FieldAddr)
				if !ok || fa.X != ssa.Value(al) {
					return false
				}
				_, f := fieldAddrName(fa)
				return f == field
			}
			q := &PathQuery{Fn: fn, Barrier: isFieldStore}
			q.Target = func(ins ssa.Instruction, via *ssa.BasicBlock) bool { return ins == ssa.Instruction(call) }
			hits := q.From(al)
			c.Check("C15-R2", "stamp-field-assigned:"+fnName(fn)+"."+field, call.Pos(), len(hits) == 0,
				"SetSyncedTo is called with a block stamp whose "+field+" was never assigned on some path (a zero "+field+" is recorded as the wallet's tip and in the recent-hash index)")
		}
	}
	c.Floor("C15-R2", "SetSyncedTo call sites in wallet", nSites, 6)
	if db := walletFn(c, "C15-R2", "disconnectBlock"); db != nil {
		// a disconnect is acted on whenever it names the block the wallet remembers at that height: the only ways to report
		// success without having asked the manager for the stored hash are "the block is above the wallet's tip" (nothing
		// is known about it). A state test in front of the lookup ("not synced yet: ignore") drops real reorganisations
		// that happen while the first rescan is running: the transactions of the disconnected block stay confirmed.
		{
			q := &PathQuery{Fn: db, Barrier: isCallNamed("BlockHash")}
			q.EdgeBarrier = func(from *ssa.BasicBlock, si int) bool {
				if len(from.Instrs) == 0 {
					return false
				}
				iff, ok := from.Instrs[len(from.Instrs)-1].(*ssa.If)
				if !ok {
					return false
				}
				// the height test b.Height <= SyncedTo().Height: the edge on which the block is above the tip
				bo, ok := iff.Cond.(*ssa.BinOp)
				if !ok {
					return false
				}
				fromSynced := func(v ssa.Value) bool {
					for _, o := range (&Slicer{P: p, ThroughFieldsOfAllocs: true}).Origins(v) {
						if call, ok := o.(*ssa.Call); ok && calleeShort(&call.Call) == "SyncedTo" {
							return true
						}
						if _, _, base, okf := fieldOf(o); okf {
							if call, ok := stripConv(base).(*ssa.Call); ok && calleeShort(&call.Call) == "SyncedTo" {
								return true
							}
							if al, ok := stripConv(base).(*ssa.Alloc); ok {
								for _, st := range storesTo(al) {
									if call, ok := st.Val.(*ssa.Call); ok && calleeShort(&call.Call) == "SyncedTo" {
										return true
									}
								}
							}
						}
					}
					return false
				}
				sx, sy := fromSynced(bo.X), fromSynced(bo.Y)
				if sx == sy {
					return false
				}
				op := bo.Op
				if sx { // normalise to block OP synced
					switch op {
					case token.LSS:
						op = token.GTR
					case token.LEQ:
						op = token.GEQ
					case token.GTR:
						op = token.LSS
					case token.GEQ:
						op = token.LEQ
					}
				}
				switch op {
				case token.LEQ, token.LSS: // block <= synced: above the tip on the false edge
					return si == 1
				case token.GTR, token.GEQ:
					return si == 0
				}
				return false
			}
			q.Target = p.nonErrorReturn()
			hits := q.From(nil)
			nLookups := 0
			for _, f := range p.regionOf(db) {
				nLookups += len(callsNamed(f, "BlockHash"))
			}
			c.Check("C15-R2", "disconnect-has-remembered-hash-lookup", db.Pos(), nLookups > 0, "disconnectBlock never asks the manager for the hash it remembers at the disconnected height (undecided)")
			// one obligation per offending exit, named by the test that guards it, so that a recorded finding about one
			// of them does not hide another
			seenExit := map[string]bool{}
			for _, h := range hits {
				guard := "unconditional"
				for d := h.Ins.Block(); d != nil; d = d.Idom() {
					if len(d.Instrs) == 0 || d == h.Ins.Block() {
						continue
					}
					if iff, ok := d.Instrs[len(d.Instrs)-1].(*ssa.If); ok {
						inner, _ := unwrapNot(iff.Cond)
						if call, ok := inner.(*ssa.Call); ok {
							guard = calleeShort(&call.Call)
						} else {
							guard = "test at " + p.Pos(iff.Cond.Pos())
						}
						break
					}
				}
				if seenExit[guard] {
					continue
				}
				seenExit[guard] = true
				c.Check("C15-R2", "disconnect-looks-up-remembered-hash:exit-guarded-by-"+guard, h.Ins.Pos(), false,
					"disconnectBlock can report success at "+p.Pos(h.Ins.Pos())+" (guard: "+guard+") without having looked the disconnected block up among the hashes it remembers: a reorganisation reported while that path is taken (e.g. before the first rescan finished) is dropped, and the transactions of the disconnected block stay confirmed in a block that is no longer on the best chain")
			}
		}
		for _, dbf := range p.regionOf(db) {
			db := dbf
			for _, ci := range callsOf(db) {
				call, ok := ci.(*ssa.Call)
				if !ok || !isSet(call) {
					continue
				}
				okEq := !reachableAvoiding(db, nil, call, func(from *ssa.BasicBlock, si int) bool {
					f := edgeFactOf(from, si)
					if f == nil || f.Kind != "true" {
						return false
					}
					eq, ok := f.V.(*ssa.Call)
					if !ok || calleeShort(&eq.Call) != "Equal" {
						return false
					}
					// one side from Manager.BlockHash, other from the notified block parameter
					a, b := originKinds(p, eq.Call.Args[0]), originKinds(p, eq.Call.Args[1])
					return (a["BlockHash"] && b["param"]) || (b["BlockHash"] && a["param"])
				})
				c.Check("C15-R2", "disconnect-only-if-stored-hash-matches", call.Pos(), okEq, "disconnectBlock moves the tip although the stored hash at that height was not compared equal to the notified block's hash")
				// Hash stored into the stamp derives from BlockHash
				if al, ok := stripConv(call.Call.Args[2]).(*ssa.Alloc); ok {
					okSrc := false
					for _, st := range storesToFieldOwner(db, "BlockStamp", "Hash") {
						if fa := st.Addr.(*ssa.FieldAddr); fa.X == ssa.Value(al) && originKinds(p, st.Val)["BlockHash"] {
							okSrc = true
						}
					}
					c.Check("C15-R2", "parent-hash-from-own-index", call.Pos(), okSrc, "the new tip's hash is not taken from the manager's own recent-hash index (Manager.BlockHash)")
				}
			}
		}
	}
	if cb := walletFn(c, "C15-R2", "connectBlock"); cb != nil {
		n := 0
		for _, ci := range callsOf(cb) {
			call, ok := ci.(*ssa.Call)
			if !ok || !isSet(call) {
				continue
			}
			n++
			al, ok := stripConv(call.Call.Args[2]).(*ssa.Alloc)
			okAll := ok
			if ok {
				want := map[string]string{"Height": "Height", "Hash": "Hash", "Timestamp": "Time"}
				// the stamp variable, or — when it is filled from a conversion part (`tip := stampFromMeta(b)`) — the literal
				// that part returns
				holderFn, holder := cb, al
				for _, st := range storesTo(al) {
					if hc, isCall := stripConv(st.Val).(*ssa.Call); isCall && st.Addr == ssa.Value(al) {
						if h := hc.Call.StaticCallee(); h != nil && fnPkgPath(h) == fnPkgPath(cb) && len(h.Blocks) > 0 {
							for _, hb := range h.Blocks {
								if r, isRet := hb.Instrs[len(hb.Instrs)-1].(*ssa.Return); isRet && len(r.Results) == 1 {
									if ld, isLd := stripConv(r.Results[0]).(*ssa.UnOp); isLd {
										if ha, isAl := ld.X.(*ssa.Alloc); isAl {
											holderFn, holder = h, ha
										}
									}
								}
							}
						}
					}
				}
				for f, src := range want {
					found := false
					for _, st := range storesToFieldOwner(holderFn, "BlockStamp", f) {
						if st.Addr.(*ssa.FieldAddr).X != ssa.Value(holder) {
							continue
						}
						sl := &Slicer{P: p}
						for _, o := range sl.Origins(st.Val) {
							if _, fl, _, okf := fieldOf(o); okf && fl == src {
								found = true
							}
						}
					}
					if !found {
						okAll = false
					}
				}
			}
			c.Check("C15-R2", "connect-stamps-notified-block", call.Pos(), okAll, "connectBlock does not stamp the notified block's height, hash and time")
		}
		c.Floor("C15-R2", "SetSyncedTo in connectBlock", n, 1)
		bad := p.mustPassToSuccess(cb, nil, isSet, nil)
		c.Check("C15-R2", "connect-always-moves-tip", cb.Pos(), bad == nil, "connectBlock can succeed without moving the synced-to stamp")
	}

	// ---------- R3 PutSyncedTo ----------
	if ps := p.Func("waddrmgr", "", "PutSyncedTo"); ps != nil {
		checkPutSyncedTo(c, ps)
		if sh := p.Func("waddrmgr", "", "staleHeight"); sh != nil {
			depth, _ := constInPkg(p, "waddrmgr", "MaxReorgDepth")
			ok := false
			for _, b := range sh.Blocks {
				for _, ins := range b.Instrs {
					if r, isR := ins.(*ssa.Return); isR {
						l := p.linearize(r.Results[0], 0)
						ok = l.Coef["param#0"] == 1 && len(l.Coef) == 1 && l.Konst == -depth
					}
				}
			}
			c.Check("C15-R3", "stale-height-is-height-minus-window", sh.Pos(), ok, "staleHeight is not height - MaxReorgDepth")
		}
	} else {
		c.Unresolved("C15-R3", "waddrmgr.PutSyncedTo")
	}

	// the height -> hash index entry is (over)written unconditionally: after a reorg the same height gets a new hash
	if abh := p.Func("waddrmgr", "", "addBlockHash"); abh != nil {
		isPut := func(i ssa.Instruction) bool {
			call, ok := i.(*ssa.Call)
			return ok && call.Call.IsInvoke() && call.Call.Method.Name() == "Put"
		}
		bad := p.mustPassToSuccess(abh, nil, isPut, nil)
		c.Check("C15-R3", "addBlockHash-always-writes", abh.Pos(), bad == nil,
			"addBlockHash can succeed without writing the entry (e.g. when one already exists for the height): after a reorg the remembered hash of that height stays the orphaned block's, later disconnects are ignored as stale and the startup walk compares against the wrong chain")
	} else {
		c.Unresolved("C15-R3", "waddrmgr.addBlockHash")
	}

	// ---------- R4 startup loop ----------
	checkStartupWalk(c, "C15-R4")

	// ---------- R5 ----------
	checkMirrorAfterDisk(c, "C15-R5", []mirrorSpec{{"waddrmgr", "Manager", "SetSyncedTo", "syncedTo", "syncState", []string{"PutSyncedTo"}}})
}

// checkStartupWalk: the offline-reorg detection loop of syncWithChain (shared: C15-R4, C02-R4, C06-R1).
func checkStartupWalk(c *Ctx, rule string) {
	p := c.P
	setSynced := p.Func("waddrmgr", "Manager", "SetSyncedTo")
	if setSynced == nil {
		c.Unresolved(rule, "waddrmgr.Manager.SetSyncedTo")
		return
	}
	isSet := func(ins ssa.Instruction) bool { return p.isCallTo(ins, setSynced) }
	// ---------- R4 startup loop ----------
	if sw := walletFn(c, rule, "syncWithChain"); sw != nil {
		found := 0
		for _, fn := range p.regionOf(sw) {
			var eq *ssa.Call
			for _, call := range callsNamed(fn, "Equal") {
				a, b := originKinds(p, call.Call.Args[0]), originKinds(p, call.Call.Args[1])
				if (a["BlockHash"] && b["GetBlockHash"]) || (b["BlockHash"] && a["GetBlockHash"]) {
					eq = call
				}
			}
			if eq == nil {
				continue
			}
			found++
			loops := loopsOf(fn)
			l := innermostLoopOf(loops, eq)
			if l == nil {
				c.Check(rule, "startup-walk-is-a-loop", eq.Pos(), false, "the stored-vs-backend hash comparison at startup is not inside a loop")
				continue
			}
			// stamp stores (Hash, Height) dominate the equality test
			for _, field := range []string{"Hash", "Height", "Timestamp"} {
				ok := false
				for _, st := range storesToFieldOwner(fn, "BlockStamp", field) {
					if l.Blocks[st.Block()] && (st.Block().Dominates(eq.Block()) && (st.Block() != eq.Block() || instrIndex(st) < instrIndex(eq))) {
						ok = true
					}
				}
				c.Check(rule, "stamp-recorded-before-equality-test:"+field, eq.Pos(), ok,
					"the startup rollback loop tests for the common block before recording that block as the rollback stamp ("+field+"): the stamp ends one block above the fork point")
			}
			// the value stored to Hash is the backend hash, Height the loop variable
			// loop exits only on the equal edge (or errors)
			okExit := true
			for b := range l.Blocks {
				for si, s := range b.Succs {
					if l.Blocks[s] {
						continue
					}
					f := edgeFactOf(b, si)
					isEq := f != nil && f.V == ssa.Value(eq) && f.Kind == "true"
					if isEq {
						continue
					}
					// other exits must lead to error returns only
					q := &PathQuery{Fn: fn, Target: p.nonErrorReturn()}
					if len(exploreFromBlock(q, s, b)) > 0 && b != l.Header {
						okExit = false
					}
				}
			}
			c.Check(rule, "walk-stops-only-at-common-block", eq.Pos(), okExit, "the startup walk can stop (without error) at a height whose hash was not compared equal")
			// step is -1
			okStep := false
			for _, ins := range l.Header.Instrs {
				if ph, ok := ins.(*ssa.Phi); ok && ph.Comment == "height" {
					for _, e := range ph.Edges {
						ll := p.linearize(e, 0)
						if ll.Konst == -1 && len(ll.Coef) == 1 {
							okStep = true
						}
					}
				}
			}
			for b := range l.Blocks {
				for _, ins := range b.Instrs {
					if ph, ok := ins.(*ssa.Phi); ok {
						for _, e := range ph.Edges {
							if bo, ok := e.(*ssa.BinOp); ok && bo.X == ssa.Value(ph) {
								if k, ok := constInt(bo.Y); ok && k == 1 && bo.Op.String() == "-" {
									okStep = true
								}
							}
						}
					}
				}
			}
			c.Check(rule, "walk-descends-by-one", eq.Pos(), okStep, "the startup walk does not descend one height at a time")
			// stamp/rollback only if a mismatch was seen: SetSyncedTo guarded by the rollback flag being true
			for _, ci := range callsOf(fn) {
				call, ok := ci.(*ssa.Call)
				if !ok || !isSet(call) {
					continue
				}
				okFlag := !reachableAvoiding(fn, nil, call, func(from *ssa.BasicBlock, si int) bool {
					f := edgeFactOf(from, si)
					if f == nil || f.Kind != "true" {
						return false
					}
					// flag variable: captured bool whose only non-constant-false store is `true` on the mismatch edge
					u, ok := f.V.(*ssa.UnOp)
					if !ok {
						return false
					}
					addr := u.X
					trueStores := 0
					flagStores := freeVarStoreInstrsAll(addr)
					if fc, ok := privateFieldCell(addr); ok { // the flag kept as a field of the walk's own small struct
						flagStores = p.fieldCellStores(fc)
					}
					for _, st := range flagStores {
						if b, isC := constBool(st.Val); isC && b {
							trueStores++
							// that store must be on the mismatch (Equal false) side
							if st.Parent() == fn && reachableAvoiding(fn, nil, st, func(from *ssa.BasicBlock, si int) bool {
								ff := edgeFactOf(from, si)
								return ff != nil && ff.V == ssa.Value(eq) && ff.Kind == "false"
							}) {
								return false
							}
						}
					}
					return trueStores > 0
				})
				c.Check(rule, "rollback-only-after-mismatch", call.Pos(), okFlag, "the startup code re-stamps / rolls back although no stored hash differed from the backend's")
			}
		}
		c.Floor(rule, "startup stored-vs-backend comparisons", found, 1)
		// ... and it comes first: nothing that scans the backend's chain forward and advances the synced-to stamp
		// (recovery) may run before it. Such a step continues from the remembered tip — a stale one too, PutSyncedTo
		// only requires a predecessor to exist — and leaves the new tip on the best chain, so the walk that follows stops
		// at once and the stale block below stays.
		filterBlocks := map[*ssa.Function]bool{}
		for _, f := range p.RepoFuncs {
			if f.Name() == "FilterBlocks" && shortPkg(fnPkgPath(f)) == "chain" {
				filterBlocks[f] = true
			}
		}
		isWalkBase := func(ins ssa.Instruction) bool {
			call, ok := ins.(*ssa.Call)
			if !ok {
				return false
			}
			var compares func(f *ssa.Function, depth int) bool
			compares = func(f *ssa.Function, depth int) bool {
				for _, ec := range callsNamed(f, "Equal") {
					a, b := originKinds(p, ec.Call.Args[0]), originKinds(p, ec.Call.Args[1])
					if (a["BlockHash"] && b["GetBlockHash"]) || (b["BlockHash"] && a["GetBlockHash"]) {
						return true
					}
				}
				// the comparison loop lifted into a private part of the startup path that the closure calls
				if depth < 2 {
					for _, ci := range callsOf(f) {
						if g := ci.Common().StaticCallee(); g != nil && g != f && len(g.Blocks) > 0 && p.inRegion(sw, g) && compares(g, depth+1) {
							return true
						}
					}
				}
				return false
			}
			for _, cl := range funcArgs(call) {
				for _, f := range Closures(cl) {
					if compares(f, 0) {
						return true
					}
				}
			}
			return false
		}
		// the walk may sit in an extracted part: a call of a helper that always runs it is the walk
		isWalkLifted := viaHelpers("startup-walk", isWalkBase, true)
		isWalk := func(ins ssa.Instruction) bool { return isWalkLifted(ins) }
		// the database transaction that runs the walk always unconfirms what the store holds above the block the walk
		// ended on — also when no stored hash differed: a relevant transaction is recorded when it is announced, before
		// its block is connected, so the store can be ahead of the synced-to block; if that block was reorganised out
		// while the wallet was stopped, the walk sees nothing wrong (the tip is still on the chain) and only the
		// unconditional rollback removes the stale confirmation
		if rbFn := p.Func("wtxmgr", "Store", "Rollback"); rbFn != nil {
			nWalkTx := 0
			for _, part := range p.regionTop(sw) {
				for _, ci := range callsOf(part) {
					call, ok := ci.(*ssa.Call)
					if !ok || !isWalkBase(call) {
						continue
					}
					for _, cl := range funcArgs(call) {
						nWalkTx++
						bad := p.mustPassToSuccess(cl, nil, viaHelpers("Store.Rollback", func(ins ssa.Instruction) bool { return p.isCallTo(ins, rbFn) }, true), nil)
						detail := ""
						if bad != nil {
							detail = "the startup reorg check can finish at " + p.Pos(bad.Pos()) + " without rolling the transaction store back to the block it ended on: a transaction recorded in a block above the synced-to block (announced before its block was connected) stays confirmed in that block when the block was reorganised out while the wallet was stopped"
						}
						c.Check(rule, "startup-always-unconfirms-above-stamp", call.Pos(), bad == nil, detail)
					}
				}
			}
			c.Floor(rule, "database transactions running the startup walk", nWalkTx, 1)
		}
		nScan := 0
		for _, part := range p.regionTop(sw) {
			for _, ci := range callsOf(part) {
				call, ok := ci.(*ssa.Call)
				if !ok || isWalk(call) {
					continue
				}
				g := call.Call.StaticCallee()
				if g == nil || !p.InRepo(g) || !p.reachSet(g)[setSynced] {
					continue
				}
				scans := false
				for fb := range filterBlocks {
					if p.reachSet(g)[fb] {
						scans = true
					}
				}
				if !scans {
					for h := range p.reachSet(g) { // through the chain.Interface method
						if h.Name() == "FilterBlocks" {
							scans = true
						}
					}
				}
				if !scans {
					continue
				}
				nScan++
				after := p.precededInRegion(sw, call, func(f *ssa.Function, at ssa.Instruction) bool {
					for _, c2 := range callsOf(f) {
						if isWalk(c2) && c2.Block().Dominates(at.Block()) && (c2.Block() != at.Block() || instrIndex(c2) < instrIndex(at)) {
							return true
						}
					}
					return false
				}, 0)
				c.Check(rule, "startup-walk-precedes-forward-scan:"+g.Name(), call.Pos(), after,
					"syncWithChain runs "+g.Name()+" (which scans the backend's chain forward and advances the synced-to stamp) before comparing the remembered blocks with the backend's chain: the new blocks are stamped on top of a stale tip, the comparison then starts at a block that IS on the best chain and never reaches the stale one below it")
			}
		}
		c.Floor(rule, "forward-scanning steps of syncWithChain", nScan, 1)
	}

}

func freeVarStoreInstrsAll(addr ssa.Value) []*ssa.Store {
	switch a := addr.(type) {
	case *ssa.Alloc:
		return storesTo(a)
	case *ssa.FreeVar:
		if r, ok := freeVarRoot(a).(*ssa.Alloc); ok {
			return storesTo(r)
		}
		return freeVarStoreInstrs(a)
	}
	return nil
}

// txOfBucket: the transaction value a bucket argument was obtained from (tx.ReadWriteBucket(key)).
func txOfBucket(v ssa.Value) ssa.Value {
	v = stripConv(v)
	if call, ok := v.(*ssa.Call); ok && call.Call.IsInvoke() && (call.Call.Method.Name() == "ReadWriteBucket" || call.Call.Method.Name() == "ReadBucket") {
		return call.Call.Value
	}
	return nil
}

// originKinds: set of callee names / "param" appearing in the backward slice of v.
func originKinds(p *Program, v ssa.Value) map[string]bool {
	out := map[string]bool{}
	sl := &Slicer{P: p, ThroughFieldsOfAllocs: true, ThroughDeref: true}
	for _, o := range sl.Origins(v) {
		switch x := o.(type) {
		case *ssa.FieldAddr:
			var base ssa.Value = x
			for {
				fa, ok := base.(*ssa.FieldAddr)
				if !ok {
					break
				}
				base = fa.X
			}
			if al, ok := base.(*ssa.Alloc); ok && isParamSpill(al) {
				out["param"] = true
			}
			if _, ok := base.(*ssa.Parameter); ok {
				out["param"] = true
			}
		case *ssa.Call:
			out[calleeShort(&x.Call)] = true
		case *ssa.Parameter:
			out["param"] = true
		case *ssa.Extract:
			if call, ok := x.Tuple.(*ssa.Call); ok {
				out[calleeShort(&call.Call)] = true
			}
		default:
			// field of a parameter struct (b.Hash)
			if _, _, base, ok := fieldOf(o); ok {
				for k := range originKinds(p, base) {
					out[k] = true
				}
				if u, ok := base.(*ssa.UnOp); ok {
					if _, isP := u.X.(*ssa.Alloc); isP {
						out["param"] = out["param"] || isParamSpill(u.X.(*ssa.Alloc))
					}
				}
				if al, ok := base.(*ssa.Alloc); ok && isParamSpill(al) {
					out["param"] = true
				}
			}
		}
	}
	return out
}

// isParamSpill: alloc that holds a spilled parameter (address-taken parameter).
func isParamSpill(a *ssa.Alloc) bool {
	for _, st := range storesTo(a) {
		if _, ok := st.Val.(*ssa.Parameter); ok && st.Addr == ssa.Value(a) {
			return true
		}
	}
	return false
}

// heightsCoupled: rollback height == stamp height + 1.
func heightsCoupled(p *Program, fn *ssa.Function, stamp ssa.Value, rbArg ssa.Value) (bool, string) {
	rl := p.linearize(rbArg, 0)
	if stamp == nil {
		return false, "the stamp passed to SetSyncedTo is not a local value (undecided)"
	}
	// case 1: rollback arg reads stamp.Height + 1 from the same variable
	if rl.Konst == 1 && len(rl.Coef) == 1 && rl.Coef["field:Height"] == 1 {
		if bo, ok := stripConv(rbArg).(*ssa.BinOp); ok {
			if u, ok := stripConv(bo.X).(*ssa.UnOp); ok {
				if fa, ok := u.X.(*ssa.FieldAddr); ok && sameVar(fa.X, stamp) {
					return true, ""
				}
			}
		}
	}
	// the rollback argument reads the stamp's own Height: only "+1" is right (handled above)
	readsStamp := false
	{
		sl := &Slicer{P: p, ThroughBinOp: true}
		for _, o := range sl.Origins(rbArg) {
			if u, ok := o.(*ssa.UnOp); ok {
				if fa, ok := u.X.(*ssa.FieldAddr); ok && sameVar(fa.X, stamp) {
					readsStamp = true
				}
			}
		}
	}
	if readsStamp {
		return false, "the store rollback height (" + rl.String() + ") is read from the new tip stamp itself without adding 1: the block AT the new tip (still on the best chain) is rolled back too"
	}
	// case 2: stamp.Height was stored from an expression E and rollback arg == E + 1
	for _, f := range Closures(outermost(fn)) {
		for _, st := range storesToFieldOwner(f, "BlockStamp", "Height") {
			if fa := st.Addr.(*ssa.FieldAddr); sameVar(fa.X, stamp) {
				sl := p.linearize(st.Val, 0)
				d := rl.add(sl, -1)
				if len(d.Coef) == 0 && d.Konst == 1 {
					return true, ""
				}
				return false, fmt.Sprintf("store rollback height (%s) is not stamp height (%s) + 1: transactions of the block at the new tip+1.. must be rolled back, no more and no less", rl.String(), sl.String())
			}
		}
	}
	// case 3: the stamp variable is a copy of an immutable struct value V (`stamp := fork.stamp`) and the rollback
	// argument is V.Height + 1 read from that same value
	if al, ok := stamp.(*ssa.Alloc); ok && rl.Konst == 1 && len(rl.Coef) == 1 && rl.Coef["field:Height"] == 1 {
		if bo, ok := stripConv(rbArg).(*ssa.BinOp); ok {
			hp := valuePath(stripConv(bo.X))
			for _, st := range storesTo(al) {
				if vp := valuePath(stripConv(st.Val)); vp != "" && hp == vp+".Height" {
					return true, ""
				}
			}
		}
	}
	return false, "cannot relate the rollback height " + rl.String() + " to the stamp's height (undecided)"
}

// valuePath: a chain of field selections on an SSA value (no loads: the value cannot change), "" otherwise.
func valuePath(v ssa.Value) string {
	switch x := v.(type) {
	case *ssa.Field:
		b := valuePath(x.X)
		if b == "" {
			return ""
		}
		_, name, _, ok := fieldOf(x)
		if !ok {
			return ""
		}
		return b + "." + name
	case *ssa.Extract, *ssa.Call, *ssa.Parameter:
		return fmt.Sprintf("%p", v)
	case *ssa.UnOp:
		// a load of (a field of) a local struct that is assigned once, whole, and only read afterwards
		if x.Op != token.MUL {
			return ""
		}
		path := ""
		addr := x.X
		for {
			fa, ok := addr.(*ssa.FieldAddr)
			if !ok {
				break
			}
			_, name := fieldAddrName(fa)
			path = "." + name + path
			addr = fa.X
		}
		al, ok := addr.(*ssa.Alloc)
		if !ok || !readOnlyAfterInit(al) {
			return ""
		}
		return fmt.Sprintf("%p", al) + path
	}
	return ""
}

// readOnlyAfterInit: the local is stored to exactly once (as a whole) and otherwise only read, field by field or whole.
func readOnlyAfterInit(al *ssa.Alloc) bool {
	stores := 0
	var onlyReads func(v ssa.Value) bool
	onlyReads = func(v ssa.Value) bool {
		for _, u := range usesOf(v) {
			switch y := u.(type) {
			case *ssa.UnOp, *ssa.DebugRef:
			case *ssa.FieldAddr:
				if !onlyReads(y) {
					return false
				}
			case *ssa.Store:
				if y.Addr != v || v != ssa.Value(al) {
					return false
				}
				stores++
			default:
				return false
			}
		}
		return true
	}
	return onlyReads(al) && stores == 1
}

func sameVar(a, b ssa.Value) bool {
	if a == b {
		return true
	}
	if fa, ok := a.(*ssa.FieldAddr); ok {
		if fb, ok := b.(*ssa.FieldAddr); ok {
			ca, okA := privateFieldCell(fa)
			cb, okB := privateFieldCell(fb)
			return okA && okB && ca == cb
		}
		return false
	}
	ra, rb := a, b
	if fv, ok := a.(*ssa.FreeVar); ok {
		ra = freeVarRoot(fv)
	}
	if fv, ok := b.(*ssa.FreeVar); ok {
		rb = freeVarRoot(fv)
	}
	return ra == rb
}

var _ = strings.Contains

// checkCoupledRollback: tip stamp and store rollback move together (shared by C15-R1 and C02-R4).
func checkCoupledRollback(c *Ctx, rule string) {
	p := c.P
	setSynced := p.Func("waddrmgr", "Manager", "SetSyncedTo")
	rollback := p.Func("wtxmgr", "Store", "Rollback")
	if setSynced == nil || rollback == nil {
		c.Unresolved(rule, "waddrmgr.Manager.SetSyncedTo / wtxmgr.Store.Rollback")
		return
	}
	isSet := func(ins ssa.Instruction) bool { return p.isCallTo(ins, setSynced) }
	isRb := func(ins ssa.Instruction) bool { return p.isCallTo(ins, rollback) }
	// ---------- R1 coupled rollback ----------
	nCoupled := 0
	for _, fn := range p.FuncsIn("wallet") {
		var sets, rbs []*ssa.Call
		for _, ci := range callsOf(fn) {
			if call, ok := ci.(*ssa.Call); ok {
				if isSet(call) {
					sets = append(sets, call)
				}
				if isRb(call) {
					rbs = append(rbs, call)
				}
			}
		}
		if len(rbs) == 0 {
			continue
		}
		name := fnName(fn)
		c.Check(rule, "rollback-coupled-with-stamp:"+name, rbs[0].Pos(), len(sets) > 0,
			"the transaction store is rolled back in a function that does not move the address manager's synced-to stamp in the same database transaction")
		if len(sets) == 0 {
			continue
		}
		nCoupled++
		for _, s := range sets {
			bad := p.mustPassToSuccess(fn, s, isRb, nil)
			c.Check(rule, "stamp-write-followed-by-rollback:"+name, s.Pos(), bad == nil,
				"after moving the synced-to stamp backwards a success return is reachable without rolling the transaction store back to the same point")
			// same transaction: both namespace arguments come from ReadWriteBucket calls on the same tx value
			for _, rb := range rbs {
				// (a part that is handed both buckets: what its one caller hands over)
				t1, t2 := txOfBucket(p.resolveParam(stripConv(s.Call.Args[1]))), txOfBucket(p.resolveParam(stripConv(rb.Call.Args[1])))
				c.Check(rule, "same-database-transaction:"+name, rb.Pos(), t1 != nil && t1 == t2, "stamp write and store rollback do not use buckets of the same database transaction")
				// heights: rollback = stamp height + 1
				stamp := stampArgAlloc(s.Call.Args[2])
				okH, detail := heightsCoupled(p, fn, stamp, rb.Call.Args[2])
				c.Check(rule, "rollback-height-is-stamp-height-plus-1:"+name, rb.Pos(), okH, detail)
			}
		}
	}
	c.Floor(rule, "coupled stamp+rollback sites", nCoupled, 2)
	// re-basing the sync point: a function that hands the SAME block stamp to SetBirthdayBlock and to SetSyncedTo moves
	// the synced-to stamp to wherever the new birthday block is — possibly far below the recorded transactions — and
	// must roll the transaction store back to that point in the same database transaction
	setBday := p.Func("waddrmgr", "Manager", "SetBirthdayBlock")
	nRebase := 0
	for _, fn := range p.FuncsIn("wallet") {
		for _, ci := range callsOf(fn) {
			s, ok := ci.(*ssa.Call)
			if !ok || !isSet(s) || setBday == nil {
				continue
			}
			same := false
			stampRoot := func(v ssa.Value) ssa.Value {
				v = stripConv(v)
				if u, ok := v.(*ssa.UnOp); ok && u.Op == token.MUL {
					return u.X
				}
				return v
			}
			for _, c2 := range callsOf(fn) {
				b, ok := c2.(*ssa.Call)
				if !ok || !p.isCallTo(b, setBday) || len(b.Call.Args) < 3 || len(s.Call.Args) < 3 {
					continue
				}
				if stampRoot(b.Call.Args[2]) == stampRoot(s.Call.Args[2]) {
					same = true
				}
			}
			if !same {
				continue
			}
			nRebase++
			bad := p.mustPassToSuccess(fn, s, isRb, nil)
			c.Check(rule, "sync-point-rebase-rolls-store-back:"+fnName(fn), s.Pos(), bad == nil,
				fnName(fn)+" rewinds the synced-to stamp to a relocated birthday block without rolling the transaction store back to it: the start-up reorg check starts at that block, so transactions recorded above it in blocks that were reorged out meanwhile stay confirmed in stale blocks")
		}
	}
	c.Floor(rule, "sync-point re-basing sites", nRebase, 1)

}

// checkReorgDisconnectHashes: the bitcoind client reconstructs a reorg itself: it walks the stale branch down to the
// common ancestor and reports one BlockDisconnected per stale block from its running (hash, height) stamp. The wallet
// acts on a disconnect only if the hash is the one it stored for that height, so each step of the walk must leave the
// stamp's hash equal to the hash of the block it stepped to: the hash the new current header was fetched by (or that
// header's own BlockHash) — not a field of the fetched header, which names the block one further down.
func checkReorgDisconnectHashes(c *Ctx, rule string) {
	p := c.P
	fn := p.Func("chain", "BitcoindClient", "reorg")
	if fn == nil {
		c.Unresolved(rule, "chain.BitcoindClient.reorg")
		return
	}
	loops := loopsOf(fn)
	n := 0
	for _, b := range fn.Blocks {
		for _, ins := range b.Instrs {
			st, ok := ins.(*ssa.Store)
			if !ok {
				continue
			}
			fa, ok := st.Addr.(*ssa.FieldAddr)
			if !ok {
				continue
			}
			if tn, f := fieldAddrName(fa); tn != "BlockStamp" || f != "Hash" {
				continue
			}
			l := innermostLoopOf(loops, st)
			if l == nil {
				continue
			}
			n++
			// the header fetch of this step: the GetBlockHeader call in the loop that dominates the store
			var fetch *ssa.Call
			for bb := range l.Blocks {
				for _, i2 := range bb.Instrs {
					if call, ok := i2.(*ssa.Call); ok && calleeShort(&call.Call) == "GetBlockHeader" && call.Block().Dominates(st.Block()) {
						fetch = call
					}
				}
			}
			okV := false
			why := "no header fetch dominates the update"
			if fetch != nil {
				why = "the stored hash is " + describeValue(st.Val)
				arg := fetch.Call.Args[len(fetch.Call.Args)-1]
				v := stripConv(st.Val)
				if ld, ok := v.(*ssa.UnOp); ok && ld.Op == token.MUL && ld.X == arg {
					okV = true // the hash the header was looked up by
				}
				if call, ok := v.(*ssa.Call); ok && calleeShort(&call.Call) == "BlockHash" {
					for _, o := range (&Slicer{P: p, KeepExtract: true, ThroughDeref: true}).Origins(call.Call.Args[0]) {
						if ex, ok := o.(*ssa.Extract); ok && ex.Tuple == ssa.Value(fetch) {
							okV = true // the fetched header's own hash
						}
					}
				}
			}
			c.Check(rule, "reorg-step-keeps-hash-of-the-block-stepped-to", st.Pos(), okV,
				"BitcoindClient.reorg moves its current-block stamp one block down but sets the stamp's hash to something other than the hash of that block ("+why+"): the following BlockDisconnected notifications pair each height with a neighbouring block's hash, the wallet ignores them, and a reorg deeper than one block leaves the lower stale blocks (and the transactions confirmed in them) in place")
		}
	}
	c.Floor(rule, "stamp hash updates in the reorg walk", n, 1)
}

// checkRescanFinishedCatchesUpToBackendTip: block-connected notifications that arrive while the wallet is still rescanning
// are dropped when their predecessor is unknown ("we'll catch up once we process RescanFinished"). That promise holds
// only if the catch-up at RescanFinished goes to the backend's CURRENT tip: the height it catches up to must depend on
// the backend's best height, not only on the height the (earlier started) rescan reports. Otherwise a block connected in
// between stays missing and every later block fails the predecessor check.
func checkRescanFinishedCatchesUpToBackendTip(c *Ctx, rule string) {
	p := c.P
	fn := walletFn(c, rule, "handleChainNotifications")
	if fn == nil {
		return
	}
	n := 0
	setSynced := p.Func("waddrmgr", "Manager", "SetSyncedTo")
	isCatchUp := func(call *ssa.Call) bool {
		// by role: a call of a function (usually a local function literal) that records block stamps it fetches from
		// the backend by height
		for _, g := range p.Callees(call) {
			if !p.InRepo(g) || setSynced == nil || !p.reachSet(g)[setSynced] {
				continue
			}
			for _, cl := range Closures(g) {
				for _, ci := range callsOf(cl) {
					if calleeShort(ci.Common()) == "GetBlockHash" {
						return true
					}
				}
			}
		}
		return false
	}
	for _, f := range p.regionOf(fn) {
		for _, ci := range callsOf(f) {
			call, ok := ci.(*ssa.Call)
			if !ok || len(call.Call.Args) == 0 || !isCatchUp(call) {
				continue
			}
			// only the catch-up in the finished-rescan arm: its height derives from a RescanFinished notification
			arg := call.Call.Args[len(call.Call.Args)-1]
			fromNtfn, fromBackend := false, false
			for _, o := range (&Slicer{P: p, KeepExtract: true, ThroughDeref: true}).Origins(arg) {
				if _, fld, base, ok := fieldOf(o); ok && fld == "Height" {
					if strings.Contains(base.Type().String(), "RescanFinished") {
						fromNtfn = true
					}
				}
				if ex, ok := o.(*ssa.Extract); ok {
					if cc, ok := ex.Tuple.(*ssa.Call); ok && (calleeShort(&cc.Call) == "GetBestBlock" || calleeShort(&cc.Call) == "BlockStamp") {
						fromBackend = true
					}
				}
			}
			if !fromNtfn && !fromBackend {
				continue
			}
			n++
			c.Check(rule, "finished-rescan-catches-up-to-backend-tip", call.Pos(), fromBackend,
				"at RescanFinished the wallet catches up only to the height the rescan reports: a block that connected while the rescan ran (dropped because its predecessor was unknown) is never recorded, every later block fails the predecessor check and the wallet stays behind the backend until restart")
		}
	}
	c.Floor(rule, "catch-up calls at rescan end", n, 1)
}

// checkReorgListBuiltInOneDirection: BitcoindClient.reorg collects the new branch's blocks in one list — walking from
// the new tip towards the common ancestor, in two loops — and then replays the list from its front, numbering the blocks
// with consecutive heights. Every insertion into that list therefore uses the same end (sibling agreement of the two
// collecting loops): an insertion at the other end in one of them replays blocks under the wrong heights.
func checkReorgListBuiltInOneDirection(c *Ctx, rule string) {
	p := c.P
	fn := p.Func("chain", "BitcoindClient", "reorg")
	if fn == nil {
		c.Unresolved(rule, "chain.BitcoindClient.reorg")
		return
	}
	byList := map[ssa.Value]map[string]int{}
	var pos token.Pos
	for _, ci := range callsOf(fn) {
		call, ok := ci.(*ssa.Call)
		if !ok {
			continue
		}
		g := call.Call.StaticCallee()
		if g == nil || fnPkgPath(g) != "container/list" || !strings.HasPrefix(g.Name(), "Push") {
			continue
		}
		l := stripConv(call.Call.Args[0])
		if byList[l] == nil {
			byList[l] = map[string]int{}
		}
		byList[l][g.Name()]++
		pos = call.Pos()
	}
	n := 0
	for _, methods := range byList {
		n++
		var ms []string
		for m, k := range methods {
			ms = append(ms, fmt.Sprintf("%s x%d", m, k))
		}
		sort.Strings(ms)
		c.Check(rule, "reorg-block-list-built-in-one-direction", pos, len(methods) == 1,
			"BitcoindClient.reorg inserts into the list of blocks to replay at both ends ("+strings.Join(ms, ", ")+"): the list is replayed from the front with consecutive heights, so after a reorg deeper than one block the wallet is told to connect the new branch's blocks under wrong heights")
	}
	c.Floor(rule, "block lists built by reorg", n, 1)
	_ = p
}

// checkFilteredBlocksAlwaysAnnounced: the bitcoind client announces a connected block to the wallet from the function
// that filters it; the wallet accepts a block only on top of the previous one, so a block that is filtered without
// being announced (too old to be interesting, nothing to watch...) stalls the wallet behind the backend for good. When
// asked to notify, every path of the block filter reaches the block-connected notification.
func checkFilteredBlocksAlwaysAnnounced(c *Ctx, rule string) {
	p := c.P
	fb := p.Func("chain", "BitcoindClient", "filterBlock")
	if fb == nil {
		c.Unresolved(rule, "chain.BitcoindClient.filterBlock")
		return
	}
	var notify *ssa.Parameter
	for _, prm := range fb.Params {
		if isBoolType(prm.Type()) {
			notify = prm
		}
	}
	if notify == nil {
		c.Check(rule, "filtered-block-always-announced", fb.Pos(), false, "filterBlock has no notify flag (undecided)")
		return
	}
	announce := viaHelpers("onBlockConnected", isCallNamed("onBlockConnected"), true)
	q := &PathQuery{Fn: fb, Barrier: announce}
	q.EdgeBarrier = func(from *ssa.BasicBlock, si int) bool {
		if len(from.Instrs) == 0 {
			return false
		}
		iff, ok := from.Instrs[len(from.Instrs)-1].(*ssa.If)
		return ok && stripConv(iff.Cond) == ssa.Value(notify) && si == 1
	}
	q.Target = func(ins ssa.Instruction, _ *ssa.BasicBlock) bool { _, isRet := ins.(*ssa.Return); return isRet }
	hits := q.From(nil)
	detail := ""
	if len(hits) > 0 {
		detail = "filterBlock, asked to notify, can return at " + p.Pos(hits[0].Ins.Pos()) + " without announcing the block: the wallet never sees it, refuses every later block (its predecessor is unknown) and stays behind the backend's tip"
	}
	c.Check(rule, "filtered-block-always-announced", fb.Pos(), len(hits) == 0, detail)
}

// checkPutSyncedTo: the rules on the writer of the sync point, stated over PutSyncedTo and the private parts it may have
// been split into. Heights inside a part are read in the caller's terms (a part's parameter stands for the argument at
// its only call site), so `fetchBlockHash(ns, height-1)` in an extracted predecessor check is the same obligation as
// `fetchBlockHash(ns, bs.Height-1)` in the body.
func checkPutSyncedTo(c *Ctx, ps *ssa.Function) {
	p := c.P
	parts := p.regionTop(ps)
	lin := func(v ssa.Value) string { return p.linearizeResolved(v).String() }
	const H = "+1*field:Height"
	isWrite := isCallNamedAny("addBlockHash", "updateSyncedTo")
	retTarget := func(ins ssa.Instruction, _ *ssa.BasicBlock) bool { _, ok := ins.(*ssa.Return); return ok }
	// lookups of the hash index, by the height they ask for
	type lookup struct {
		call *ssa.Call
		fn   *ssa.Function
		at   string
	}
	var lookups []lookup
	for _, f := range parts {
		for _, call := range callsNamed(f, "fetchBlockHash") {
			lookups = append(lookups, lookup{call, f, lin(call.Call.Args[1])})
		}
	}
	isPred := func(ins ssa.Instruction) bool {
		for _, l := range lookups {
			if ins == ssa.Instruction(l.call) && l.at == H+" -1" {
				return true
			}
		}
		return false
	}
	// parts (other than PutSyncedTo) that perform the predecessor lookup: a call of one stands for the lookup
	predParts := map[*ssa.Function]bool{}
	for _, l := range lookups {
		if l.at == H+" -1" && l.fn != ps {
			predParts[l.fn] = true
		}
	}
	callsPredPart := func(ins ssa.Instruction) bool {
		cc, ok := ins.(*ssa.Call)
		return ok && predParts[cc.Call.StaticCallee()]
	}
	// (a) with a birthday block set, the predecessor is looked up before anything is written
	n := 0
	for _, f := range parts {
		for _, b := range f.Blocks {
			for si := range b.Succs {
				ef := edgeFactOf(b, si)
				if ef == nil || ef.Kind != "nil" || !isResultOfCall(ef.V, "FetchBirthdayBlock", 1) {
					continue
				}
				n++
				q := &PathQuery{Fn: f, Barrier: func(ins ssa.Instruction) bool { return isPred(ins) || callsPredPart(ins) }}
				if f == ps {
					q.Target = func(ins ssa.Instruction, _ *ssa.BasicBlock) bool { return isWrite(ins) }
				} else {
					q.Target = retTarget // a part must not come back to its caller without having looked
				}
				hits := exploreFromBlock(q, b.Succs[si], b)
				okPre := len(hits) == 0
				if f != ps {
					// ... and PutSyncedTo runs that part before it writes
					// (under whatever condition PutSyncedTo asks at all — `Height > 0` today, which the rule on the
					// body does not constrain either: no write comes before the call of the part)
					part := f
					sites := 0
					for _, ci := range callsOf(ps) {
						if p.isCallTo(ci, part) {
							sites++
						}
						if !isWrite(ci) {
							continue
						}
						q2 := &PathQuery{Fn: ps}
						q2.Target = func(ins ssa.Instruction, _ *ssa.BasicBlock) bool { return p.isCallTo(ins, part) }
						if len(q2.From(ci)) > 0 {
							okPre = false
						}
					}
					if sites == 0 {
						okPre = false
					}
				}
				c.Check("C15-R3", "predecessor-check-before-stamp-write", lastPos(b), okPre,
					"with a birthday block set, PutSyncedTo can write the hash index / stamp without having looked up the predecessor hash at height-1")
			}
		}
	}
	c.Floor("C15-R3", "'birthday block set' branch in PutSyncedTo", n, 1)
	// (b) a failed predecessor lookup refuses the stamp: neither a write nor a success is reachable from it. Inside a
	// part the failure travels to the caller as the part's error result; in PutSyncedTo that result is a failure signal
	failsClosed := func(f *ssa.Function, isSignal func(ssa.Value) bool) (int, bool) {
		edges, ok := 0, true
		for _, b := range f.Blocks {
			for si := range b.Succs {
				ef := edgeFactOf(b, si)
				if ef == nil || ef.Kind != "nonnil" || !isSignal(ef.V) {
					continue
				}
				edges++
				q := &PathQuery{Fn: f}
				q.Target = func(ins ssa.Instruction, via *ssa.BasicBlock) bool {
					return isWrite(ins) || p.nonErrorReturn()(ins, via)
				}
				if len(exploreFromBlock(q, b.Succs[si], b)) > 0 {
					ok = false
				}
			}
		}
		return edges, ok
	}
	nPred := 0
	for _, l := range lookups {
		if l.at != H+" -1" {
			continue
		}
		nPred++
		lk := l
		isErrOf := func(call *ssa.Call) func(ssa.Value) bool {
			return func(v ssa.Value) bool { return loadIsResultOf(v, call) }
		}
		edges, okB := failsClosed(lk.fn, isErrOf(lk.call))
		if edges == 0 {
			// no test in the part: the error must be what the part returns
			okB = false
			for _, b := range lk.fn.Blocks {
				if r, isR := b.Instrs[len(b.Instrs)-1].(*ssa.Return); isR {
					if ei := errResultIndex(lk.fn.Signature); ei >= 0 && ei < len(r.Results) && loadIsResultOf(effectiveResult(r, ei), lk.call) {
						okB = true
					}
				}
			}
		}
		if lk.fn != ps {
			sites := 0
			for _, ci := range callsOf(ps) {
				cs, isCall := ci.(*ssa.Call)
				if !isCall || !p.isCallTo(cs, lk.fn) {
					continue
				}
				sites++
				e2, ok2 := failsClosed(ps, isErrOf(cs))
				if e2 == 0 || !ok2 {
					okB = false
				}
			}
			if sites == 0 {
				okB = false
			}
		}
		c.Check("C15-R3", "unknown-predecessor-refused", lk.call.Pos(), okB, "a stamp whose predecessor is unknown can still be written / reported as success")
	}
	c.Floor("C15-R3", "predecessor lookups in PutSyncedTo", nPred, 1)
	// writes both the hash index and the stamp on success
	for _, w := range []string{"addBlockHash", "updateSyncedTo"} {
		bad := p.mustPassToSuccess(ps, nil, viaHelpers(w, isCallNamed(w), true), nil)
		c.Check("C15-R3", "success-writes:"+w, ps.Pos(), bad == nil, "PutSyncedTo can succeed without "+w)
	}
	checkStampWriteUnconditional(c, "C15-R3")
	for _, f := range parts {
		for _, call := range callsNamed(f, "addBlockHash") {
			okA := lin(call.Call.Args[1]) == H+" +0"
			_, fld, _, okf := fieldOf(p.resolveParam(call.Call.Args[2]))
			c.Check("C15-R3", "hash-index-keyed-by-stamp", call.Pos(), okA && okf && fld == "Hash", "the recent-hash index entry is not (stamp.Height -> stamp.Hash)")
		}
	}
	// the sweep above the stamp: a counter that starts at stamp.Height+1 and steps by one
	sweepCounter := func(v ssa.Value) (*ssa.Phi, bool) {
		ph, ok := stripConv(v).(*ssa.Phi)
		if !ok {
			return nil, false
		}
		init, step := false, false
		for _, e := range ph.Edges {
			if lin(e) == H+" +1" {
				init = true
			}
			if bo, ok := stripConv(e).(*ssa.BinOp); ok && bo.Op == token.ADD && stripConv(bo.X) == ssa.Value(ph) {
				if k, isK := constInt(bo.Y); isK && k == 1 {
					step = true
				}
			}
		}
		return ph, init && step
	}
	nStale := 0
	for _, f := range parts {
		for _, call := range callsNamed(f, "deleteBlockHash") {
			if _, isSweep := sweepCounter(call.Call.Args[1]); isSweep {
				continue
			}
			nStale++
			okS := false
			if sc, ok := stripConv(p.resolveParam(call.Call.Args[1])).(*ssa.Call); ok && calleeShort(&sc.Call) == "staleHeight" {
				okS = lin(sc.Call.Args[0]) == H+" +0"
			}
			c.Check("C15-R3", "prunes-stale-height", call.Pos(), okS, "the pruned hash-index entry is neither staleHeight(stamp.Height) nor an entry above the stamp")
		}
	}
	c.Floor("C15-R3", "stale-height prunings in PutSyncedTo", nStale, 1)
	// no hash stays recorded above the stamp: moving the sync point DOWN (a rollback) must take the hashes of the rolled
	// back blocks with it. The writer only tests that SOME hash exists at height-1, so a left-over entry lets a later
	// block be stamped on top of a block of the old chain, and the entries in between are never corrected. Every
	// successful PutSyncedTo passes a loop that deletes the entries from stamp.Height+1 upwards and is left only when
	// the lookup at the counter finds nothing (or with an error).
	{
		// a lookup of the counter: fetchBlockHash(ctr), or a predicate part `hasX(ns, h) bool { _, err := fetchBlockHash(ns, h); return err == nil }`
		isPredicateOf := func(g *ssa.Function) bool {
			if g == nil || len(g.Blocks) == 0 || g.Signature.Results().Len() != 1 || !isBoolType(g.Signature.Results().At(0).Type()) {
				return false
			}
			calls := callsNamed(g, "fetchBlockHash")
			if len(calls) != 1 {
				return false
			}
			if _, isPrm := stripConv(calls[0].Call.Args[1]).(*ssa.Parameter); !isPrm {
				return false
			}
			for _, b := range g.Blocks {
				if r, ok := b.Instrs[len(b.Instrs)-1].(*ssa.Return); ok {
					bo, isBo := r.Results[0].(*ssa.BinOp)
					if !isBo || bo.Op != token.EQL || !isNilConst(bo.Y) || !loadIsResultOf(bo.X, calls[0]) {
						return false
					}
				}
			}
			return true
		}
		okSweep := false
		detail := "PutSyncedTo has no loop deleting the hash entries from stamp.Height+1 upwards: after the sync point was moved down, the hashes of the rolled back blocks stay recorded, a block notified for a later height passes the predecessor check on top of a stale hash, and the heights in between keep the old chain's hashes"
		for _, f := range parts {
			for _, l := range loopsOf(f) {
				var ctr *ssa.Phi
				for _, ins := range l.Header.Instrs {
					if v, isV := ins.(ssa.Value); isV {
						if ph, ok := sweepCounter(v); ok {
							ctr = ph
						}
					}
				}
				if ctr == nil {
					continue
				}
				deletes := 0
				var lookup, predicate *ssa.Call
				for b := range l.Blocks {
					for _, ins := range b.Instrs {
						call, ok := ins.(*ssa.Call)
						if !ok || len(call.Call.Args) < 2 || stripConv(call.Call.Args[1]) != ssa.Value(ctr) {
							continue
						}
						switch {
						case calleeShort(&call.Call) == "deleteBlockHash":
							deletes++
						case calleeShort(&call.Call) == "fetchBlockHash":
							lookup = call
						case isPredicateOf(call.Call.StaticCallee()):
							predicate = call
						}
					}
				}
				if deletes == 0 || (lookup == nil && predicate == nil) {
					continue
				}
				// left only over the lookup's not-found edge, or towards an error return
				okExits := true
				for b := range l.Blocks {
					for si, succ := range b.Succs {
						if l.Blocks[succ] {
							continue
						}
						if ef := edgeFactOf(b, si); ef != nil {
							if ef.Kind == "nonnil" && lookup != nil {
								if ex, ok := ef.V.(*ssa.Extract); ok && ex.Tuple == ssa.Value(lookup) {
									continue
								}
							}
							if ef.Kind == "false" && predicate != nil && ef.V == ssa.Value(predicate) {
								continue
							}
						}
						q := &PathQuery{Fn: f, Target: p.nonErrorReturn()}
						if len(exploreFromBlock(q, succ, b)) > 0 {
							okExits = false
							detail = "the sweep of hash entries above the stamp can be left at " + p.Pos(lastPos(b)) + " before it found the first missing height: entries of rolled back blocks above that point stay recorded"
						}
					}
				}
				// each iteration deletes the entry it found
				if bad := l.MustPassPerIteration(p, func(ins ssa.Instruction) bool {
					call, ok := ins.(*ssa.Call)
					return ok && calleeShort(&call.Call) == "deleteBlockHash"
				}); bad != "" {
					okExits = false
					detail = "an iteration of the sweep above the stamp can skip the deletion (" + bad + ")"
				}
				hdr := l.Header
				if bad := p.mustPassToSuccess(f, nil, func(ins ssa.Instruction) bool { return ins.Block() == hdr }, nil); bad != nil {
					okExits = false
					detail = fnName(f) + " can succeed at " + p.Pos(bad.Pos()) + " without sweeping the hash entries above the stamp"
				}
				if f != ps {
					part := f
					if bad := p.mustPassToSuccess(ps, nil, func(ins ssa.Instruction) bool { return p.isCallTo(ins, part) }, nil); bad != nil {
						okExits = false
						detail = "PutSyncedTo can succeed at " + p.Pos(bad.Pos()) + " without sweeping the hash entries above the stamp"
					}
				}
				if okExits {
					okSweep = true
				}
			}
		}
		c.Check("C15-R3", "no-hash-left-above-stamp", ps.Pos(), okSweep, detail)
	}
}

// checkSyncedFlagNeverClearedByWallet: while the wallet is not marked "chain synced" it ignores block-disconnected
// notifications (known finding F38 covers the window before the first rescan has finished). That window must not be
// re-opened: inside the wallet package the flag is only ever SET (the RescanFinished arm); a later rescan of an already
// synced wallet — a reconnect, an explicit Rescan — that cleared it again would drop every reorganisation reported
// while it runs, leaving the disconnected block's transactions confirmed.
func checkSyncedFlagNeverClearedByWallet(c *Ctx, rule string) {
	p := c.P
	set := p.Func("wallet", "Wallet", "SetChainSynced")
	if set == nil {
		c.Unresolved(rule, "wallet.Wallet.SetChainSynced")
		return
	}
	n := 0
	for _, fn := range p.FuncsIn("wallet") {
		for _, ci := range callsOf(fn) {
			call, ok := ci.(*ssa.Call)
			if !ok || !p.isCallTo(call, set) || len(call.Call.Args) < 2 {
				continue
			}
			n++
			k, isK := stripConv(call.Call.Args[1]).(*ssa.Const)
			okArg := isK && k.Value != nil && k.Value.String() == "true"
			c.Check(rule, "synced-flag-never-cleared-by-wallet:"+fnName(outermost(fn)), call.Pos(), okArg,
				fnName(fn)+" can mark an already synced wallet as not synced again: block-disconnected notifications arriving until the flag is set back are ignored, so a reorganisation reported during that time leaves its transactions confirmed in a block that is no longer on the best chain")
		}
	}
	c.Floor(rule, "settings of the chain-synced flag inside the wallet", n, 1)
}

// checkRescanFinishedAlwaysMarksSynced: the wallet acts on block-disconnected notifications only once it is marked
// synced (known finding F38 is about the time before that), and the only place that marks it is the handling of the
// rescan-finished notification. That handling therefore marks the wallet synced on EVERY path — whatever the catch-up
// that precedes it returned — before the notification is passed on: a transient backend error at that moment must not
// leave the flag down for the rest of the process' life, with every later disconnect ignored.
func checkRescanFinishedAlwaysMarksSynced(c *Ctx, rule string) {
	p := c.P
	set := p.Func("wallet", "Wallet", "SetChainSynced")
	hcn := p.Func("wallet", "Wallet", "handleChainNotifications")
	if set == nil || hcn == nil {
		c.Unresolved(rule, "wallet.Wallet.SetChainSynced / handleChainNotifications")
		return
	}
	n := 0
	for _, fn := range p.regionOf(hcn) {
		for _, b := range fn.Blocks {
			for _, ins := range b.Instrs {
				ta, ok := ins.(*ssa.TypeAssert)
				if !ok || !strings.HasSuffix(ta.AssertedType.String(), "chain.RescanFinished") {
					continue
				}
				// the arm: the successor taken when the assertion holds
				var arm *ssa.BasicBlock
				for si := range b.Succs {
					if f := edgeFactOf(b, si); f != nil && f.Kind == "true" {
						if ex, ok := f.V.(*ssa.Extract); ok && ex.Tuple == ssa.Value(ta) {
							arm = b.Succs[si]
						}
					}
				}
				if arm == nil {
					continue
				}
				q := &PathQuery{Fn: fn}
				q.Barrier = func(i ssa.Instruction) bool {
					call, ok := i.(*ssa.Call)
					if !ok || !p.isCallTo(call, set) || len(call.Call.Args) < 2 {
						return false
					}
					k, isK := stripConv(call.Call.Args[1]).(*ssa.Const)
					return isK && k.Value != nil && k.Value.String() == "true"
				}
				// passing the notification on (the send into the rescan notification channel) ends the handling
				q.Target = func(i ssa.Instruction, _ *ssa.BasicBlock) bool {
					var chans []ssa.Value
					switch x := i.(type) {
					case *ssa.Send:
						chans = append(chans, x.Chan)
					case *ssa.Select:
						for _, st := range x.States {
							if st.Send != nil {
								chans = append(chans, st.Chan)
							}
						}
					}
					for _, ch := range chans {
						if _, f, _, ok := fieldOf(stripConv(ch)); ok && f == "rescanNotifications" {
							return true
						}
					}
					return false
				}
				n++
				hits := exploreFromBlock(q, arm, b)
				pos := ta.Pos()
				if len(hits) > 0 {
					pos = hits[0].Ins.Pos()
				}
				c.Check(rule, "rescan-finished-always-marks-synced", pos, len(hits) == 0,
					"the rescan-finished notification can be passed on without the wallet having been marked chain-synced (the marking depends on something that can fail): the flag is set nowhere else, so from then on every block-disconnected notification is ignored and a reorganisation leaves its transactions confirmed in blocks that left the chain")
			}
		}
	}
	c.Floor(rule, "handlings of the rescan-finished notification", n, 1)
}

// checkStoppedClientIsDetached: the wallet attaches a chain client only when none is attached (SynchronizeRPC returns at
// once while the client field is non-nil — that field IS the "attached" flag), and everything that follows the backend
// (the notification handler, the startup reorg check) is started by the attachment. Whoever stops the attached client
// must therefore clear the field in the same critical section; otherwise the client handed in after a reconnect is
// silently ignored, nothing consumes its notifications, and a reorganisation that happened while disconnected is never
// rolled back.
func checkStoppedClientIsDetached(c *Ctx, rule string) {
	p := c.P
	attach := p.Func("wallet", "Wallet", "SynchronizeRPC")
	if attach == nil {
		c.Unresolved(rule, "wallet.Wallet.SynchronizeRPC")
		return
	}
	// the guard field: a field of the receiver whose non-nil edge leads to a return without anything being stored to it
	guard := ""
	for _, attach := range p.regionOf(attach) { // the test may sit in a private part (attachChainClient)
		for _, b := range attach.Blocks {
			for si := range b.Succs {
				ef := edgeFactOf(b, si)
				if ef == nil || ef.Kind != "nonnil" {
					continue
				}
				_, f, _, ok := fieldOf(stripConv(ef.V))
				if !ok {
					continue
				}
				if len(storesToFieldOwner(attach, "Wallet", f)) == 0 {
					continue
				}
				// on that edge the function returns without attaching
				q := &PathQuery{Fn: attach}
				q.Target = func(ins ssa.Instruction, _ *ssa.BasicBlock) bool {
					st, ok := ins.(*ssa.Store)
					if !ok {
						return false
					}
					fa, ok := st.Addr.(*ssa.FieldAddr)
					if !ok {
						return false
					}
					_, f2 := fieldAddrName(fa)
					return f2 == f
				}
				if len(exploreFromBlock(q, b.Succs[si], b)) == 0 {
					guard = f
				}
			}
		}
	}
	if guard == "" {
		c.Check(rule, "attach-guard-field", attach.Pos(), false, "SynchronizeRPC's already-attached test could not be identified (undecided)")
		return
	}
	n := 0
	for _, fn := range p.FuncsIn("wallet") {
		for _, ci := range callsOf(fn) {
			call, ok := ci.(*ssa.Call)
			if !ok || !call.Call.IsInvoke() || call.Call.Method.Name() != "Stop" {
				continue
			}
			_, f, _, ok := fieldOf(stripConv(call.Call.Value))
			if !ok || f != guard {
				continue
			}
			n++
			q := &PathQuery{Fn: fn}
			q.Barrier = func(ins ssa.Instruction) bool {
				st, ok := ins.(*ssa.Store)
				if !ok || !isNilConst(st.Val) {
					return false
				}
				fa, ok := st.Addr.(*ssa.FieldAddr)
				if !ok {
					return false
				}
				_, f2 := fieldAddrName(fa)
				return f2 == guard
			}
			q.Target = func(ins ssa.Instruction, _ *ssa.BasicBlock) bool {
				_, isR := ins.(*ssa.Return)
				return isR
			}
			hits := q.From(call)
			c.Check(rule, "stopped-client-is-detached:"+fnName(fn), call.Pos(), len(hits) == 0,
				fnName(fn)+" stops the attached chain client but can return with "+guard+" still set: SynchronizeRPC ignores every client handed in afterwards, no notification handler or startup reorg check runs for it, and the wallet stays on whatever branch it was on when it was stopped")
		}
	}
	c.Floor(rule, "places that stop the attached chain client", n, 1)
}
