package main

import (
	"fmt"
	"go/token"
	"go/types"
	"sort"
	"strings"

	"golang.org/x/tools/go/ssa"
)

func init() {
	register(&propSpec{
		ID: "C05",
		Explanation: "'The current passphrase always unlocks, any other fails' is a value property of scrypt/secretbox (its structural part is C17): NOT decided. Decided: (R1) lock gating by a path-sensitive reachability analysis over the two mode predicates IsLocked()/WatchOnly(): " +
			"starting from every exported function and method of waddrmgr (other than the transition functions Unlock/ChangePassphrase/Lock/Close/ConvertToWatchingOnly/Create/Open), in the modes (locked, not watching-only) and (watching-only), no instruction that USES private material " +
			"(a non-nil-test read of cryptoKeyPriv, cryptoKeyScript, masterKeyPriv, accountInfo.acctKeyPriv, managedAddress.privKeyCT, baseScriptAddress.scriptClearText or the derived-key cache) is reachable, through any call chain; " +
			"(R2) lock wipes every holder: each clear-text holder (hand-confirmed table, plus any struct field inferred to receive decrypted/private-key material) is zeroed - and nil-ed/purged where readers test emptiness - by code reachable from Manager.lock(), for all instances (loops over every scoped manager, account and address; type switch covers the address types holding private keys); " +
			"(R3) Lock/Close/ConvertToWatchingOnly and every failure exit of Unlock reach lock(); ChangePassphrase swaps the in-memory master key only after both database writes, zeroes the old key, and the cached passphrase hash uses the stored salt and the new passphrase (shared with C17-R5).",
		Assumptions: []string{"IsLocked()/WatchOnly() are stable during one API call (they only change in the transition functions)", "zero.* and Zero() methods really clear memory (not optimised away)"},
		Run:         runC05,
	})
}

// private-material holders: struct type -> field -> required wipe kinds.
var privHolders = map[string][]string{
	"Manager.masterKeyPriv":             {"zero"},
	"Manager.cryptoKeyPriv":             {"zero"},
	"Manager.cryptoKeyScript":           {"zero"},
	"Manager.hashedPrivPassphrase":      {"zero"},
	"accountInfo.acctKeyPriv":           {"zero", "nil"},
	"managedAddress.privKeyCT":          {"zero", "nil"},
	"baseScriptAddress.scriptClearText": {"zero", "nil"},
	"ScopedKeyManager.privKeyCache":     {"purge"},
}

func holderKeyOfAddr(v ssa.Value) string {
	fa, ok := v.(*ssa.FieldAddr)
	if !ok {
		return ""
	}
	tn, f := fieldAddrName(fa)
	return tn + "." + f
}

// isPrivLoad: v is a load of a private holder field (other than the passphrase hash).
func isPrivLoad(v ssa.Value) bool {
	ld, ok := v.(*ssa.UnOp)
	if !ok || ld.Op != token.MUL {
		return false
	}
	k := holderKeyOfAddr(ld.X)
	_, ok = privHolders[k]
	// scriptClearText also caches NON-secret witness scripts (decrypted with the public crypto key while locked);
	// whether a script is secret is decided by the key passed to unlock(), i.e. by uses of cryptoKeyScript.
	return ok && k != "Manager.hashedPrivPassphrase" && k != "baseScriptAddress.scriptClearText"
}

// benignUse: the instruction only tests, measures or wipes the value.
func benignUse(u ssa.Instruction, v ssa.Value) bool {
	switch x := u.(type) {
	case *ssa.BinOp:
		return isNilConst(x.X) || isNilConst(x.Y)
	case *ssa.Call:
		n := calleeShort(&x.Call)
		return n == "Zero" || n == "Bytes" || n == "Bytea32" || n == "Bytea64" || n == "len" || n == "Marshal" || n == "Range" || n == "Delete"
	case *ssa.FieldAddr:
		_, f := fieldAddrName(x)
		return f == "Parameters" // public scrypt parameters of the master key
	case *ssa.DebugRef, *ssa.Phi:
		return true // phis are followed path-sensitively
	}
	return false
}

// privUse: ins uses private material in the given path environment.
func privUse(ins ssa.Instruction, env modeEnv) bool {
	if _, isPhi := ins.(*ssa.Phi); isPhi {
		return false
	}
	for _, op := range ins.Operands(nil) {
		v := *op
		if v == nil {
			continue
		}
		if isPrivLoad(v) && !benignUse(ins, v) {
			return true
		}
		if ph, ok := v.(*ssa.Phi); ok && env["t:"+ph.Name()] == bTrue && !benignUse(ins, v) {
			return true
		}
	}
	return false
}

// isPrivUse (mode-free): the function-level over-approximation.
func isPrivUse(ins ssa.Instruction) bool {
	v, ok := ins.(ssa.Value)
	if !ok || !isPrivLoad(v) {
		return false
	}
	for _, u := range usesOf(v) {
		if _, isPhi := u.(*ssa.Phi); isPhi {
			return true
		}
		if !benignUse(u, v) {
			return true
		}
	}
	return false
}

func containsPrivUse(fn *ssa.Function) bool {
	for _, b := range fn.Blocks {
		for _, ins := range b.Instrs {
			if isPrivUse(ins) {
				return true
			}
		}
	}
	return false
}

var c05Exempt = map[string]string{
	"lock": "the wipe itself", "Lock": "transition", "Unlock": "transition: derives the keys from the supplied passphrase", "ChangePassphrase": "transition: uses a key derived from the supplied old passphrase",
	"Close": "wipe", "ConvertToWatchingOnly": "transition", "Create": "creation", "createManagerKeyScope": "creation (keys are parameters)", "loadManager": "open", "Open": "open", "newManager": "constructor",
	"Validate":            "signs a caller-supplied challenge with the cached buffer and returns only an error; with a wiped buffer the check fails closed (not a reveal point)",
	"NewScopedKeyManager": "crypto-gated: decrypting the root key with the zeroed crypto key fails authentication and is reported as ErrLocked (confirmed by reading)",
}

func runC05(c *Ctx) {
	p := c.P
	checkLockGating(c, "C05-R1")

	// ---------- R2 ----------
	lock := p.Func("waddrmgr", "Manager", "lock")
	if lock == nil {
		c.Unresolved("C05-R2", "waddrmgr.Manager.lock")
		return
	}
	wipeFns := map[*ssa.Function]bool{lock: true}
	for f := range p.reachSet(lock) {
		if p.InRepo(f) {
			wipeFns[f] = true
		}
	}
	kinds := map[string]map[string]bool{}
	mark := func(k, kind string) {
		if kinds[k] == nil {
			kinds[k] = map[string]bool{}
		}
		kinds[k][kind] = true
	}
	for f := range wipeFns {
		for _, b := range f.Blocks {
			for _, ins := range b.Instrs {
				switch x := ins.(type) {
				case *ssa.Call:
					n := calleeShort(&x.Call)
					isZero := n == "Zero" || n == "Bytes" || n == "Bytea32" || n == "Bytea64" || n == "BigInt"
					isPurge := n == "Delete" || n == "Purge" || n == "LoadAndDelete"
					if !isZero && !isPurge {
						continue
					}
					args := append([]ssa.Value{}, x.Call.Args...)
					if x.Call.IsInvoke() {
						args = append(args, x.Call.Value)
					}
					for _, a := range args {
						a = stripConv(a)
						k := holderKeyOfAddr(a)
						if k == "" {
							if ld, ok := a.(*ssa.UnOp); ok && ld.Op == token.MUL {
								k = holderKeyOfAddr(ld.X)
							}
						}
						// closure-captured cache: manager.privKeyCache.Delete inside Range callback
						if k == "" {
							sl := &Slicer{P: p, ThroughDeref: true}
							for _, o := range sl.Origins(a) {
								if ld, ok := o.(*ssa.UnOp); ok && ld.Op == token.MUL {
									if kk := holderKeyOfAddr(ld.X); kk != "" {
										k = kk
									}
								}
							}
						}
						if k != "" {
							if isZero {
								mark(k, "zero")
							} else {
								mark(k, "purge")
							}
						}
					}
				case *ssa.Store:
					if k := holderKeyOfAddr(x.Addr); k != "" && isNilConst(x.Val) {
						mark(k, "nil")
					}
				}
			}
		}
	}
	var hk []string
	for k := range privHolders {
		hk = append(hk, k)
	}
	sort.Strings(hk)
	for _, k := range hk {
		for _, need := range privHolders[k] {
			c.Check("C05-R2", "lock-wipes:"+k+"/"+need, lock.Pos(), kinds[k][need],
				"Manager.lock() does not reach a '"+need+"' of the clear-text holder "+k+" (private material survives Lock in memory"+map[string]string{"nil": "; readers that test emptiness will keep using a zeroed buffer", "zero": "", "purge": ""}[need]+")")
		}
	}
	// inferred holders must be in the table
	inferred := inferHolders(p)
	for _, k := range inferred {
		_, ok := privHolders[k]
		c.Check("C05-R2", "inferred-holder-is-wiped:"+k, lock.Pos(), ok, "struct field "+k+" receives decrypted / private-key material but is not in the set of holders that Manager.lock() wipes")
	}
	c.Note("C05-R2: inferred clear-text holders: %v", inferred)
	c.Floor("C05-R2", "inferred clear-text holders", len(inferred), 4)
	// lock iterates over all scoped managers / accounts / addresses and the type switch covers key-holding address types
	nLoops := 0
	for _, l := range loopsOf(lock) {
		if l.Kind == "for" {
			continue
		}
		nLoops++
		c.Check("C05-R2", "lock-loop-complete:"+l.Over, l.Header.Instrs[0].Pos(), len(l.EarlyExitsAny(p)) == 0, "a wipe loop in Manager.lock() can be left early")
	}
	c.Floor("C05-R2", "wipe loops in lock()", nLoops, 3)
	// every scoped manager gets every wipe: inside a loop over the scoped managers, each per-scope wipe (the loops over
	// the scope's accounts and addresses, the purge of its derived-key cache) is reached in every iteration — no shortcut
	// on some other state of the scope ("no account loaded, so nothing to clear") may skip it
	nPerScope := 0
	all := loopsOf(lock)
	for _, outer := range all {
		if outer.Kind == "for" || !strings.Contains(outer.Over, "scopedManagers") {
			continue
		}
		for _, inner := range all {
			if inner == outer || inner.Kind == "for" || !outer.Blocks[inner.Header] {
				continue
			}
			// directly nested only
			direct := true
			for _, mid := range all {
				if mid != inner && mid != outer && outer.Blocks[mid.Header] && mid.Blocks[inner.Header] {
					direct = false
				}
			}
			if !direct {
				continue
			}
			nPerScope++
			h := inner.Header
			bad := outer.MustPassPerIteration(p, func(i ssa.Instruction) bool { return i.Block() == h })
			c.Check("C05-R2", "every-scope-gets-wipe:"+inner.Over, h.Instrs[0].Pos(), bad == "",
				"Manager.lock() can skip the wipe loop over "+inner.Over+" for some scoped manager ("+bad+"): clear-text keys of that scope survive Lock")
		}
		for b := range outer.Blocks {
			for _, ins := range b.Instrs {
				if call, ok := ins.(*ssa.Call); ok && calleeShort(&call.Call) == "Range" {
					nPerScope++
					bad := outer.MustPassPerIteration(p, func(i ssa.Instruction) bool { return i == ssa.Instruction(call) })
					c.Check("C05-R2", "every-scope-gets-wipe:privKeyCache", call.Pos(), bad == "",
						"Manager.lock() can skip purging the derived private key cache of some scoped manager ("+bad+")")
				}
			}
		}
	}
	c.Floor("C05-R2", "per-scope wipes in lock()", nPerScope, 3)
	checkZeroMethodsWipeInPlace(c, "C05-R2")
	checkEvictedAccountsAreWiped(c, "C05-R2")
	checkEvictedAddressesAreWiped(c, "C05-R2")
	checkWipePrimitiveCoversWholeSlice(c, "C05-R2")
	checkUnlockedFlagSetLast(c, "C05-R3")
	// a passphrase change leaves the keys of an unlocked manager usable: no live key is wiped through an alias
	checkNoWipeThroughAlias(c, "C05-R3")
	// Lock() reaches what the address cache holds: an object with key material is in the cache before it is handed out,
	// and a lookup never replaces a cached object by a fresh one (C08-R4's rule)
	checkKeyedAddressRegisteredBeforeHandOut(c, "C05-R2")
	checkCacheMissLoadsSameAddress(c, "C05-R2")
	// every place the managers keep address OBJECTS (which carry clear-text keys once unlocked) is visited by lock():
	// the address cache, but also the per-account "last address" objects, which loadAccountInfo rebuilds from the
	// private account key and which are not part of the address cache
	{
		isAddrHolder := func(t types.Type) bool {
			s := t.String()
			return strings.HasSuffix(s, "waddrmgr.ManagedAddress") || strings.HasSuffix(s, "waddrmgr.managedAddress")
		}
		var fields [][2]string
		for _, tn := range []string{"ScopedKeyManager", "accountInfo"} {
			nt := p.Named("waddrmgr", tn)
			if nt == nil {
				continue
			}
			st, ok := nt.Underlying().(*types.Struct)
			if !ok {
				continue
			}
			for i := 0; i < st.NumFields(); i++ {
				ft := st.Field(i).Type()
				hold := isAddrHolder(ft)
				if m, ok := ft.Underlying().(*types.Map); ok && isAddrHolder(m.Elem()) {
					hold = true
				}
				if sl, ok := ft.Underlying().(*types.Slice); ok && isAddrHolder(sl.Elem()) {
					hold = true
				}
				if hold {
					fields = append(fields, [2]string{tn, st.Field(i).Name()})
				}
			}
		}
		c.Floor("C05-R2", "fields that hold managed address objects", len(fields), 3)
		// calls that wipe an address object, reachable in lock(): (*managedAddress).lock / (*scriptAddress).lock
		for _, fl := range fields {
			visited := false
			for _, f := range Closures(lock) {
				for _, ci := range callsOf(f) {
					call, ok := ci.(*ssa.Call)
					if !ok || calleeShort(&call.Call) != "lock" || len(call.Call.Args) == 0 {
						continue
					}
					for _, o := range (&Slicer{P: p, ThroughRange: true, ThroughFieldsOfAllocs: true}).Origins(call.Call.Args[0]) {
						if tn, fld, _, okf := fieldOf(o); okf && tn == fl[0] && fld == fl[1] {
							visited = true
						}
					}
				}
			}
			c.Check("C05-R2", "lock-visits-address-objects-in:"+fl[0]+"."+fl[1], lock.Pos(), visited,
				"Manager.lock() does not wipe the address objects kept in "+fl[0]+"."+fl[1]+": their clear-text private keys survive Lock in memory")
		}
	}
	// the kinds of address object that cache clear-text material: every concrete type of the package that is a
	// ManagedAddress and has a lock method of its own or through an embedded base (computed, not listed: a new script
	// address kind embedding baseScriptAddress inherits the cache and must be wiped too)
	var wipeKinds []string
	if pk := p.ByPath[rel("waddrmgr")]; pk != nil {
		var iface *types.Interface
		if o := pk.Types.Scope().Lookup("ManagedAddress"); o != nil {
			iface, _ = o.Type().Underlying().(*types.Interface)
		}
		for _, name := range pk.Types.Scope().Names() {
			tn, ok := pk.Types.Scope().Lookup(name).(*types.TypeName)
			if !ok || iface == nil {
				continue
			}
			if _, isStruct := tn.Type().Underlying().(*types.Struct); !isStruct {
				continue
			}
			ptr := types.NewPointer(tn.Type())
			if !types.Implements(ptr, iface) {
				continue
			}
			if types.NewMethodSet(ptr).Lookup(pk.Types, "lock") != nil {
				wipeKinds = append(wipeKinds, name)
			}
		}
	}
	c.Floor("C05-R2", "address object kinds with a lock method", len(wipeKinds), 2)
	for _, tn := range wipeKinds {
		found := false
		for _, b := range lock.Blocks {
			for _, ins := range b.Instrs {
				if ta, ok := ins.(*ssa.TypeAssert); ok {
					if pt, ok := ta.AssertedType.(*types.Pointer); ok {
						if n, ok := pt.Elem().(*types.Named); ok && n.Obj().Name() == tn {
							found = true
						}
					}
				}
			}
		}
		c.Check("C05-R2", "lock-type-switch-covers:"+tn, lock.Pos(), found, "Manager.lock() has no case for *"+tn+": its clear-text key/script is not wiped")
	}
	// address-level lock functions: zero AND nil
	for _, spec := range [][2]string{{"managedAddress", "privKeyCT"}, {"baseScriptAddress", "scriptClearText"}} {
		fn := p.Func("waddrmgr", spec[0], "lock")
		if fn == nil {
			c.Unresolved("C05-R2", spec[0]+".lock")
			continue
		}
		z, n := false, false
		// (the zero-then-nil pair may sit in a private part of lock: `wipePrivKey()`)
		var lockBlocks []*ssa.BasicBlock
		for _, lf := range p.regionOf(fn) {
			if lf.Parent() != nil {
				continue // a function literal runs when it is called or deferred, not where it stands: not "zero, then nil"
			}
			lockBlocks = append(lockBlocks, lf.Blocks...)
		}
		for _, b := range lockBlocks {
			for _, ins := range b.Instrs {
				switch x := ins.(type) {
				case *ssa.Call:
					if calleeShort(&x.Call) == "Bytes" {
						if ld, ok := x.Call.Args[0].(*ssa.UnOp); ok && holderKeyOfAddr(ld.X) == spec[0]+"."+spec[1] {
							z = true
						}
					}
				case *ssa.Store:
					if holderKeyOfAddr(x.Addr) == spec[0]+"."+spec[1] && isNilConst(x.Val) {
						n = true
					}
				}
			}
		}
		c.Check("C05-R2", "address-lock-zeroes-and-nils:"+spec[0], fn.Pos(), z && n,
			spec[0]+".lock must zero AND nil "+spec[1]+": unlock() re-decrypts only when the buffer is empty, so a zeroed-but-kept buffer is later returned as the key")
	}

	// ---------- R3 ----------
	// In the mode "unlocked, not watching-only, not closed" every success return of Lock, Close and ConvertToWatchingOnly has
	// passed lock() — directly or inside a same-package helper that itself always passes it in that mode.
	{
		unlockedMode := modeEnv{"p:IsLocked": bFalse, "p:WatchOnly": bFalse, "f:closed": bFalse}
		lockFn := p.Func("waddrmgr", "Manager", "lock")
		var alwaysWipes func(g *ssa.Function, env modeEnv, depth int) bool
		memo := map[string]int{}
		passes := func(ins ssa.Instruction, env modeEnv, depth int) bool {
			call, ok := ins.(*ssa.Call)
			if !ok {
				return false
			}
			g := call.Call.StaticCallee()
			if g == nil {
				return false
			}
			if g == lockFn {
				return true
			}
			return g.Pkg != nil && lockFn != nil && g.Pkg == lockFn.Pkg && depth < 3 && alwaysWipes(g, env, depth+1)
		}
		alwaysWipes = func(g *ssa.Function, env modeEnv, depth int) bool {
			stable := modeEnv{}
			for k, v := range env {
				if !strings.HasPrefix(k, "v:") && !strings.HasPrefix(k, "t:") {
					stable[k] = v
				}
			}
			mk := fnName(g) + "|" + stable.key()
			if v, ok := memo[mk]; ok {
				return v == 1
			}
			memo[mk] = 0
			if len(g.Blocks) == 0 || !p.reachSet(g)[lockFn] {
				return false
			}
			mi := &modeInterp{p: p, preds: map[string]bool{"IsLocked": true, "WatchOnly": true}, noDescend: true,
				containsTarget: func(*ssa.Function) bool { return true },
				barrier:        func(i ssa.Instruction, e modeEnv) bool { return passes(i, e, depth) },
				target: func(ins ssa.Instruction, _ modeEnv) bool {
					r, ok := ins.(*ssa.Return)
					if !ok {
						return false
					}
					k := p.classifyReturn(r, nil)
					return k != retError
				}}
			ok := mi.reachable(g, stable, 0) == nil
			if ok {
				memo[mk] = 1
			}
			return ok
		}
		for _, name := range []string{"Lock", "Close", "ConvertToWatchingOnly"} {
			fn := p.Func("waddrmgr", "Manager", name)
			if fn == nil || lockFn == nil {
				c.Unresolved("C05-R3", "Manager."+name)
				continue
			}
			c.Check("C05-R3", name+"-reaches-lock", fn.Pos(), alwaysWipes(fn, unlockedMode, 0), "Manager."+name+" can succeed on an unlocked, non-watching-only manager without wiping private material (lock())")
		}
	}
	if ul := p.Func("waddrmgr", "Manager", "Unlock"); ul != nil {
		hits := failureExitsWithoutLock(p, ul, 0, map[*ssa.Function]int{})
		detail := ""
		if len(hits) > 0 {
			detail = "Unlock has a failure exit at " + p.Pos(hits[0].Ins.Pos()) + " that does not call lock(): keys decrypted so far stay in memory while the manager reports locked"
		}
		c.Check("C05-R3", "every-Unlock-failure-relocks", ul.Pos(), len(hits) == 0, detail)
	} else {
		c.Unresolved("C05-R3", "Manager.Unlock")
	}
	checkPassphraseChange(c, "C05-R3")
	checkSaltedHash(c, "C05-R3")
	checkChangeVerifiesOldPassphrase(c, "C05-R3")
	// "any other passphrase fails": the key is stretched from exactly the bytes given, by creation and verification alike
	c.Borrow(runC17, "C17-R3", "C05-R3", func(k string) bool {
		return strings.HasPrefix(k, "kdf-gets-exact-passphrase") || strings.HasPrefix(k, "deriveKey-caller-passes-own-passphrase") ||
			strings.HasPrefix(k, "invalid-password-only-on-digest-mismatch") // "the current passphrase always unlocks": refused only when the digest differs
	})
	// ... whatever accounts exist: a rewritten account row (rename) keeps the encrypted private key it had
	// "while locked, private decryption fails": nothing private is sealed under the public crypto key, which stays in
	// memory while locked (C04-R2's rule; called directly — C04 takes a rule of C05 over)
	c.Borrow(func(c2 *Ctx) { checkPublicClassPlaintext(c2, "C05-R1") }, "C05-R1", "C05-R1", func(k string) bool {
		return strings.HasPrefix(k, "public-class-seals-neutered-key")
	})
	checkLockStateTestedUnderManagerMutex(c, "C05-R3")
	checkWipePrecedesDroppingReference(c, "C05-R3")
	checkRowRewrites(c, "C05-R3")
	checkAccountWithoutPrivateKey(c, "C05-R3")
	checkPendingDerivationsHaveAccounts(c, "C05-R3")
	checkPendingQueueOnlyDrainedByUnlock(c, "C05-R3")
	checkUnlockLoopsComplete(c, "C05-R3")
}

// inferHolders: struct fields of waddrmgr types that receive decrypted or private-key material.
func inferHolders(p *Program) []string {
	set := map[string]bool{}
	isSecretSource := func(v ssa.Value) bool {
		sl := &Slicer{P: p, KeepExtract: true, ThroughCallArgs: func(call *ssa.Call, arg ssa.Value) bool {
			n := calleeShort(&call.Call)
			return n == "NewKeyFromString" || n == "string" || n == "PrivKeyFromBytes"
		}}
		for _, o := range sl.Origins(v) {
			var call *ssa.Call
			switch x := o.(type) {
			case *ssa.Call:
				call = x
			case *ssa.Extract:
				call, _ = x.Tuple.(*ssa.Call)
				if x.Index != 0 {
					call = nil
				}
			}
			if call == nil {
				continue
			}
			n := calleeShort(&call.Call)
			switch n {
			case "Decrypt":
				// exclude decrypts under the public crypto key
				recv := call.Call.Value
				if !call.Call.IsInvoke() && len(call.Call.Args) > 0 {
					recv = call.Call.Args[0]
				}
				if _, f, _, ok := fieldOf(recv); ok && (f == "cryptoKeyPub" || f == "masterKeyPub") {
					continue
				}
				if _, isPhi := recv.(*ssa.Phi); isPhi {
					continue // script/public selection: handled by the table entry for scriptClearText
				}
				return true
			case "ECPrivKey", "PrivKeyFromBytes":
				return true
			case "Serialize":
				if f := call.Call.StaticCallee(); f != nil && recvName(f) == "PrivateKey" {
					return true
				}
			}
		}
		return false
	}
	for _, fn := range p.FuncsIn("waddrmgr") {
		for _, b := range fn.Blocks {
			for _, ins := range b.Instrs {
				switch x := ins.(type) {
				case *ssa.Store:
					k := holderKeyOfAddr(x.Addr)
					if k == "" || strings.HasPrefix(k, ".") {
						continue
					}
					if isSecretSource(x.Val) {
						set[k] = true
					}
				case *ssa.Call:
					n := calleeShort(&x.Call)
					// cache.Put(key, &cachedKey{key: *privKey}) and key.CopyBytes(decrypted)
					if n == "CopyBytes" || n == "Put" {
						recv := x.Call.Value
						args := x.Call.Args
						if !x.Call.IsInvoke() && len(args) > 0 {
							recv = args[0]
							args = args[1:]
						}
						var k string
						if ld, ok := stripConv(recv).(*ssa.UnOp); ok {
							k = holderKeyOfAddr(ld.X)
						}
						if k == "" {
							continue
						}
						for _, a := range args {
							if isSecretSource(a) || allocHoldsSecret(a, isSecretSource) {
								set[k] = true
							}
						}
					}
				}
			}
		}
	}
	var out []string
	for k := range set {
		out = append(out, k)
	}
	sort.Strings(out)
	return out
}

// allocHoldsSecret: v is a pointer to a local struct one of whose fields was stored a secret.
func allocHoldsSecret(v ssa.Value, isSecret func(ssa.Value) bool) bool {
	a, ok := stripConv(v).(*ssa.Alloc)
	if !ok {
		return false
	}
	for _, u := range usesOf(a) {
		if fa, ok := u.(*ssa.FieldAddr); ok {
			for _, uu := range usesOf(fa) {
				if st, ok := uu.(*ssa.Store); ok && isSecret(st.Val) {
					return true
				}
			}
		}
	}
	return false
}

// checkPassphraseChange: in ChangePassphrase the in-memory master keys are replaced only after both database writes, and the old key is zeroed.
func checkPassphraseChange(c *Ctx, rule string) {
	p := c.P
	cp := p.Func("waddrmgr", "Manager", "ChangePassphrase")
	if cp == nil {
		c.Unresolved(rule, "Manager.ChangePassphrase")
		return
	}
	n := 0
	for _, field := range []string{"masterKeyPriv", "masterKeyPub", "privPassphraseSalt", "hashedPrivPassphrase"} {
		for _, st := range storesToFieldOwner(cp, "Manager", field) {
			n++
			for _, w := range []string{"putCryptoKeys", "putMasterKeyParams"} {
				ok := !reachableWithoutWriter(p, cp, st, []string{w})
				c.Check(rule, "passphrase-memory-after-disk:"+field+"/"+w, st.Pos(), ok,
					"ChangePassphrase replaces the in-memory "+field+" on a path where "+w+" has not succeeded")
			}
		}
	}
	c.Floor(rule, "in-memory key replacements in ChangePassphrase", n, 4)
	// crypto key ciphertext copies (copy(m.cryptoKeyPrivEncrypted, encPriv)) after both writes
	for _, call := range callsNamed(cp, "copy") {
		_, f, _, ok := fieldOf(call.Call.Args[0])
		if !ok || !strings.HasPrefix(f, "cryptoKey") {
			continue
		}
		for _, w := range []string{"putCryptoKeys", "putMasterKeyParams"} {
			okW := !reachableWithoutWriter(p, cp, call, []string{w})
			c.Check(rule, "passphrase-memory-after-disk:"+f+"/"+w, call.Pos(), okW,
				"ChangePassphrase overwrites the in-memory "+f+" before "+w+" succeeded: if that write fails and the transaction rolls back, memory holds keys encrypted under a master key the database never stored")
		}
	}
	// old master key zeroed before replacement; when locked the new clear key is zeroed
	for _, field := range []string{"masterKeyPriv", "masterKeyPub"} {
		for _, st := range storesToFieldOwner(cp, "Manager", field) {
			// a Zero call on the old value dominates the store
			ok := false
			for _, call := range callsNamed(cp, "Zero") {
				recv := call.Call.Args[0]
				if _, f, _, okf := fieldOf(recv); okf && f == field && call.Block().Dominates(st.Block()) {
					ok = true
				}
			}
			c.Check(rule, "old-master-key-zeroed:"+field, st.Pos(), ok, "the old "+field+" is replaced without being zeroed")
		}
	}
	okLockedZero := false
	for _, b := range cp.Blocks {
		for si := range b.Succs {
			f := edgeFactOf(b, si)
			if f != nil && f.Kind == "true" && isResultOfCall(f.V, "IsLocked", -1) {
				for _, ins := range b.Succs[si].Instrs {
					call, ok := ins.(*ssa.Call)
					if !ok || calleeShort(&call.Call) != "Zero" {
						continue
					}
					// the key being zeroed must be the NEW master key, i.e. the value that is later installed as m.masterKeyPriv
					for _, st := range storesToFieldOwner(cp, "Manager", "masterKeyPriv") {
						if st.Val == call.Call.Args[0] {
							okLockedZero = true
						}
					}
				}
			}
		}
	}
	c.Check(rule, "new-key-zeroed-when-locked", cp.Pos(), okLockedZero, "when the passphrase is changed while locked, the freshly derived clear master key is not zeroed")
}

// checkLockGating: path-sensitive lock gating of every use of private material (shared by C05-R1 and C04-R6).
func checkLockGating(c *Ctx, rule string) {
	p := c.P
	// ---------- R1 ----------
	exempt := func(f *ssa.Function) bool {
		_, ok := c05Exempt[outermost(f).Name()]
		return ok && shortPkg(fnPkgPath(f)) == "waddrmgr"
	}
	nUse := 0
	for _, fn := range p.FuncsIn("waddrmgr") {
		for _, b := range fn.Blocks {
			for _, ins := range b.Instrs {
				if isPrivUse(ins) {
					nUse++
				}
			}
		}
	}
	c.Floor(rule, "private-material use sites in waddrmgr", nUse, 20)
	modes := []struct {
		name string
		env  modeEnv
	}{
		// p:IsPrivate=false: while locked / watching-only no private extended key exists, because the private account
		// key is only ever selected under the unlocked guard (obligation C03-R3) and lock() wipes it (R2).
		{"locked", modeEnv{"p:IsLocked": bTrue, "p:WatchOnly": bFalse, "p:IsPrivate": bFalse}},
		{"watching-only", modeEnv{"p:IsLocked": bTrue, "p:WatchOnly": bTrue, "p:IsPrivate": bFalse}},
	}
	nEntry := 0
	interps := map[string]*modeInterp{}
	for _, m := range modes {
		interps[m.name] = &modeInterp{p: p, preds: map[string]bool{"IsLocked": true, "WatchOnly": true, "IsPrivate": true}, target: privUse, taintSrc: isPrivLoad, containsTarget: containsPrivUse, exempt: exempt, depthLimit: 6}
	}
	for _, fn := range p.FuncsIn("waddrmgr") {
		if fn.Parent() != nil || fn.Object() == nil || exempt(fn) {
			continue
		}
		// API boundary: exported functions/methods, and methods implementing the exported address interfaces
		if !fn.Object().Exported() {
			continue
		}
		nEntry++
		for _, m := range modes {
			mi := interps[m.name]
			hit := mi.reachable(fn, m.env, 0)
			detail := ""
			if hit != nil {
				k := ""
				for _, op := range hit.Operands(nil) {
					if *op != nil && isPrivLoad(*op) {
						k = holderKeyOfAddr((*op).(*ssa.UnOp).X)
					}
				}
				detail = fmt.Sprintf("while the manager is %s, %s can reach a use of private material %s in %s at %s (the operation does not fail with a locked / watching-only error first)",
					m.name, fnName(fn), k, fnName(hit.Parent()), p.Pos(hit.Pos()))
			}
			c.Check(rule, "no-private-use-while-"+m.name+":"+fnName(fn), fn.Pos(), hit == nil, detail)
		}
	}
	c.Floor(rule, "exported entry points analysed", nEntry, 100)

}

// failureExitsWithoutLock: failure returns of fn reachable without passing lock(). A step of the unlock extracted into a
// same-package helper that itself re-locks on each of its failure exits counts as having re-locked when the caller
// returns on that helper's error (`if err := m.unlockScope(...); err != nil { return err }`, `return m.check(...)`).
func failureExitsWithoutLock(p *Program, fn *ssa.Function, depth int, memo map[*ssa.Function]int) []pathHit {
	relocks := func(v ssa.Value) bool {
		v = stripConv(v)
		if ex, ok := v.(*ssa.Extract); ok {
			v = ex.Tuple
		}
		call, ok := v.(*ssa.Call)
		if !ok {
			return false
		}
		h := call.Call.StaticCallee()
		if h == nil || len(h.Blocks) == 0 || h.Parent() != nil || fnPkgPath(h) != fnPkgPath(fn) || h.Object() == nil || h.Object().Exported() || depth > 3 {
			return false
		}
		if errResultIndex(h.Signature) < 0 {
			return false
		}
		switch memo[h] {
		case 1:
			return false
		case 2:
			return true
		case 3:
			return false
		}
		memo[h] = 1
		ok2 := len(failureExitsWithoutLock(p, h, depth+1, memo)) == 0
		if ok2 {
			memo[h] = 2
		} else {
			memo[h] = 3
		}
		return ok2
	}
	q := &PathQuery{Fn: fn, Barrier: isCallNamed("lock")}
	q.EdgeBarrier = func(from *ssa.BasicBlock, si int) bool {
		f := edgeFactOf(from, si)
		if f == nil {
			return false
		}
		if f.Kind == "true" && isResultOfCall(f.V, "WatchOnly", -1) {
			return true
		}
		if f.Kind == "nonnil" && isErrorType(f.V.Type()) {
			v := f.V
			if u, ok := v.(*ssa.UnOp); ok && u.Op == token.MUL {
				if dv := dominatingStoreVal(u); dv != nil {
					v = dv
				}
			}
			return relocks(v)
		}
		return false
	}
	ei := errResultIndex(fn.Signature)
	q.Target = func(ins ssa.Instruction, via *ssa.BasicBlock) bool {
		r, ok := ins.(*ssa.Return)
		if !ok || p.classifyReturn(r, via) == retSuccess {
			return false
		}
		if ei >= 0 && ei < len(r.Results) && relocks(effectiveResult(r, ei)) {
			return false
		}
		return true
	}
	return q.From(nil)
}

// checkEvictedAccountsAreWiped: Manager.lock() wipes the account objects it finds in the cache. An account that leaves the
// cache while it may hold its private key is out of lock()'s reach from then on, so whoever removes it wipes it first:
// every path to a delete on ScopedKeyManager.acctInfo has passed Zero() of an acctKeyPriv, or has found the entry absent.
func checkEvictedAccountsAreWiped(c *Ctx, rule string) {
	p := c.P
	n := 0
	for _, fn := range p.FuncsIn("waddrmgr") {
		for _, call := range callsNamed(fn, "delete") {
			if len(call.Call.Args) == 0 {
				continue
			}
			if tn, f, _, okf := fieldOf(stripConv(call.Call.Args[0])); !okf || tn != "ScopedKeyManager" || f != "acctInfo" {
				continue
			}
			n++
			zeroes := func(ins ssa.Instruction) bool {
				z, ok := ins.(*ssa.Call)
				if !ok || calleeShort(&z.Call) != "Zero" || len(z.Call.Args) == 0 {
					return false
				}
				_, f, _, okf := fieldOf(stripConv(z.Call.Args[0]))
				return okf && f == "acctKeyPriv"
			}
			noKeyEdge := func(from *ssa.BasicBlock, si int) bool {
				ef := edgeFactOf(from, si)
				if ef == nil {
					return false
				}
				// entry not cached: the comma-ok of the lookup is false, or the looked-up account / its key is nil
				if ex, ok := ef.V.(*ssa.Extract); ok && ex.Index == 1 && ef.Kind == "false" {
					if _, isLk := ex.Tuple.(*ssa.Lookup); isLk {
						return true
					}
				}
				if ef.Kind == "nil" {
					if _, f, _, okf := fieldOf(stripConv(ef.V)); okf && f == "acctKeyPriv" {
						return true // no private key to wipe
					}
				}
				return false
			}
			// the wipe may sit in a method of the account object: a callee that zeroes the key on every path on which
			// there is one
			wipers := map[*ssa.Function]bool{}
			for _, g := range p.FuncsIn("waddrmgr") {
				if g.Parent() != nil || len(g.Blocks) == 0 || len(callsNamed(g, "Zero")) == 0 {
					continue
				}
				qg := &PathQuery{Fn: g, Barrier: zeroes, EdgeBarrier: noKeyEdge}
				qg.Target = func(ins ssa.Instruction, _ *ssa.BasicBlock) bool { _, isRet := ins.(*ssa.Return); return isRet }
				if len(qg.From(nil)) == 0 {
					wipers[g] = true
				}
			}
			q := &PathQuery{Fn: fn, Barrier: func(ins ssa.Instruction) bool {
				if zeroes(ins) {
					return true
				}
				if cc, ok := ins.(*ssa.Call); ok && wipers[cc.Call.StaticCallee()] {
					return true
				}
				return false
			}}
			q.EdgeBarrier = noKeyEdge
			q.Target = func(ins ssa.Instruction, _ *ssa.BasicBlock) bool { return ins == ssa.Instruction(call) }
			c.Check(rule, "evicted-account-wiped-first:"+fnName(fn), call.Pos(), len(q.From(nil)) == 0,
				fnName(fn)+" removes an account from the scoped manager's cache without wiping its private account key: evicted while unlocked, the object keeps the clear-text key and Lock() no longer reaches it")
		}
	}
	c.Floor(rule, "account-cache evictions", n, 1)
}

// checkUnlockLoopsComplete: Unlock restores the private account key of EVERY cached account that has one and derives
// EVERY pending address: its loops over the scoped managers, the cached accounts and the pending derivations have no
// exit other than an error (a `break` where a `continue` is meant leaves the accounts visited later — map order! —
// without their key although the manager reports unlocked).
func checkUnlockLoopsComplete(c *Ctx, rule string) {
	p := c.P
	ul := p.Func("waddrmgr", "Manager", "Unlock")
	if ul == nil {
		c.Unresolved(rule, "Manager.Unlock")
		return
	}
	n := 0
	for _, f := range p.regionOf(ul) {
		idx := map[string]int{}
		for _, l := range loopsOf(f) {
			if l.Kind == "for" {
				continue
			}
			n++
			key := f.Name() + "/range:" + l.Over
			idx[key]++
			if idx[key] > 1 {
				key = fmt.Sprintf("%s#%d", key, idx[key])
			}
			exits := l.EarlyExits(p)
			c.Check(rule, "unlock-loop-visits-every-element:"+key, l.Header.Instrs[0].Pos(), len(exits) == 0,
				"a loop of Manager.Unlock can be left before all of its elements were handled without reporting an error: "+strings.Join(exits, "; "))
		}
	}
	c.Floor(rule, "range loops of Unlock", n, 3)
}

// checkInvalidationAlwaysEvicts: a function whose job is to drop an account from the scoped manager's cache (it deletes
// from acctInfo and does nothing else with the database) drops it whatever state the cached object is in: every path to
// its return passes the delete, except over the edge on which the lookup found no entry. An early return for accounts
// "with nothing to wipe" (no private key: imported xpub accounts, any account of a locked manager) leaves the stale
// object cached: after a rolled-back import the next import under the same number derives from the old key.
func checkInvalidationAlwaysEvicts(c *Ctx, rule string) {
	p := c.P
	n := 0
	for _, fn := range p.FuncsIn("waddrmgr") {
		if fn.Parent() != nil || fn.Signature.Recv() == nil || recvName(fn) != "ScopedKeyManager" || fn.Signature.Results().Len() != 0 {
			continue
		}
		var del *ssa.Call
		for _, call := range callsNamed(fn, "delete") {
			if len(call.Call.Args) > 0 {
				if tn, f, _, okf := fieldOf(stripConv(call.Call.Args[0])); okf && tn == "ScopedKeyManager" && f == "acctInfo" {
					del = call
				}
			}
		}
		if del == nil {
			continue
		}
		n++
		q := &PathQuery{Fn: fn, Barrier: func(ins ssa.Instruction) bool { return ins == ssa.Instruction(del) }}
		q.EdgeBarrier = func(from *ssa.BasicBlock, si int) bool {
			ef := edgeFactOf(from, si)
			if ef == nil {
				return false
			}
			if ex, ok := ef.V.(*ssa.Extract); ok && ex.Index == 1 && ef.Kind == "false" {
				if lk, isLk := ex.Tuple.(*ssa.Lookup); isLk {
					_, f, _, okf := fieldOf(stripConv(lk.X))
					return okf && f == "acctInfo"
				}
			}
			return false
		}
		q.Target = func(ins ssa.Instruction, _ *ssa.BasicBlock) bool { _, isRet := ins.(*ssa.Return); return isRet }
		hits := q.From(nil)
		detail := ""
		if len(hits) > 0 {
			detail = fnName(fn) + " can return at " + p.Pos(hits[0].Ins.Pos()) + " with the account still cached: an invalidation that depends on the state of the cached object (e.g. only accounts holding a private key) leaves a stale account behind after a rolled-back import, and the next account created under that number derives its addresses from the old key"
		}
		c.Check(rule, "invalidation-always-evicts:"+fn.Name(), del.Pos(), len(hits) == 0, detail)
	}
	c.Floor(rule, "account-cache invalidation functions", n, 1)
}

// checkUnlockedFlagSetLast: the locked flag is read without the manager mutex by the scoped managers' import / account
// paths, which then seal new material with the private crypto key. The flag may therefore say "unlocked" only once
// everything an unlocked manager needs is in place: from the store of `false` into the flag no error return and no
// re-lock is reachable — nothing that can fail comes after it. Clearing it right after the passphrase checked out opens a
// window in which a concurrent import is accepted and sealed under the still blank (all-zero) crypto key.
func checkUnlockedFlagSetLast(c *Ctx, rule string) {
	p := c.P
	n := 0
	for _, fn := range p.FuncsIn("waddrmgr") {
		for _, ci := range callsOf(fn) {
			call, ok := ci.(*ssa.Call)
			if !ok || calleeShort(&call.Call) != "Store" || len(call.Call.Args) != 2 {
				continue
			}
			if _, f, _, okf := fieldOf(stripConv(call.Call.Args[0])); !okf || f != "locked" {
				if fa, isFA := stripConv(call.Call.Args[0]).(*ssa.FieldAddr); !isFA {
					continue
				} else if _, f2 := fieldAddrName(fa); f2 != "locked" {
					continue
				}
			}
			k, isK := stripConv(call.Call.Args[1]).(*ssa.Const)
			if !isK || k.Value == nil || k.Value.String() != "false" {
				continue
			}
			n++
			q := &PathQuery{Fn: fn}
			q.Target = func(ins ssa.Instruction, via *ssa.BasicBlock) bool {
				if r, ok := ins.(*ssa.Return); ok {
					return fn.Signature.Results().Len() > 0 && p.classifyReturn(r, via) != retSuccess
				}
				if cc, ok := ins.(*ssa.Call); ok && calleeShort(&cc.Call) == "lock" {
					return true
				}
				return false
			}
			hits := q.From(call)
			detail := ""
			if len(hits) > 0 {
				detail = fnName(fn) + " flags the manager unlocked and can still fail / re-lock afterwards (at " + p.Pos(hits[0].Ins.Pos()) + "): between the two, callers that only read the flag treat a manager whose private crypto key is not loaded yet as unlocked and seal secrets under the blank key"
			}
			c.Check(rule, "unlocked-flag-set-last:"+fnName(fn), call.Pos(), len(hits) == 0, detail)
		}
	}
	c.Floor(rule, "sites clearing the locked flag", n, 1)
}

// checkEvictedAddressesAreWiped: lock() wipes the clear-text key of every address object in the scoped manager's address
// cache; an object removed from that cache is out of its reach. A function that evicts an entry (delete on
// ScopedKeyManager.addrs) locks the looked-up object first: every path to the delete passes a call of an address
// `lock` method (on the value looked up in that map), except where nothing was cached.
func checkEvictedAddressesAreWiped(c *Ctx, rule string) {
	p := c.P
	n := 0
	for _, fn := range p.FuncsIn("waddrmgr") {
		for _, call := range callsNamed(fn, "delete") {
			if len(call.Call.Args) == 0 {
				continue
			}
			if tn, f, _, okf := fieldOf(stripConv(call.Call.Args[0])); !okf || tn != "ScopedKeyManager" || f != "addrs" {
				continue
			}
			n++
			locksCached := func(ins ssa.Instruction) bool {
				lc, ok := ins.(*ssa.Call)
				if !ok || calleeShort(&lc.Call) != "lock" || len(lc.Call.Args) == 0 {
					return false
				}
				for _, o := range (&Slicer{P: p, KeepExtract: true}).Origins(lc.Call.Args[0]) {
					if lk, ok := o.(*ssa.Lookup); ok {
						if _, f, _, okf := fieldOf(stripConv(lk.X)); okf && f == "addrs" {
							return true
						}
					}
					ta, isTA := o.(*ssa.TypeAssert)
					if ex, isEx := o.(*ssa.Extract); isEx && !isTA {
						ta, isTA = ex.Tuple.(*ssa.TypeAssert)
						if lc2, ok := ex.Tuple.(*ssa.Call); ok && calleeShort(&lc2.Call) == "loadAndCacheAddress" {
							return true
						}
					}
					if isTA {
						for _, o2 := range (&Slicer{P: p, KeepExtract: true}).Origins(ta.X) {
							if lk, ok := o2.(*ssa.Lookup); ok {
								if _, f, _, okf := fieldOf(stripConv(lk.X)); okf && f == "addrs" {
									return true
								}
							}
							// ... or the object the function itself just loaded into the cache
							if ex, ok := o2.(*ssa.Extract); ok {
								if lc2, ok := ex.Tuple.(*ssa.Call); ok && calleeShort(&lc2.Call) == "loadAndCacheAddress" {
									return true
								}
							}
						}
					}
				}
				return false
			}
			nLock := 0
			for _, ci := range callsOf(fn) {
				if locksCached(ci) {
					nLock++
				}
				// the wipe as a private helper that is handed the cached object and locks it (type switch inside)
				if hc, ok := ci.(*ssa.Call); ok {
					g := hc.Call.StaticCallee()
					if g == nil || len(g.Blocks) == 0 || fnPkgPath(g) != fnPkgPath(fn) || len(callsNamed(g, "lock")) == 0 {
						continue
					}
					for i, a := range hc.Call.Args {
						fromCache := false
						for _, o := range (&Slicer{P: p, KeepExtract: true}).Origins(a) {
							if lk, ok := o.(*ssa.Lookup); ok {
								if _, f, _, okf := fieldOf(stripConv(lk.X)); okf && f == "addrs" {
									fromCache = true
								}
							}
						}
						if !fromCache || i >= len(g.Params) {
							continue
						}
						// ... and the helper locks what it is handed
						for _, lc := range callsNamed(g, "lock") {
							if len(lc.Call.Args) == 0 {
								continue
							}
							for _, o := range (&Slicer{P: p, KeepExtract: true}).Origins(lc.Call.Args[0]) {
								if o == ssa.Value(g.Params[i]) {
									nLock++
								}
								if ta, ok := o.(*ssa.TypeAssert); ok && stripConv(ta.X) == ssa.Value(g.Params[i]) {
									nLock++
								}
								if ex, ok := o.(*ssa.Extract); ok {
									if ta, ok := ex.Tuple.(*ssa.TypeAssert); ok && stripConv(ta.X) == ssa.Value(g.Params[i]) {
										nLock++
									}
								}
							}
						}
					}
				}
			}
			c.Check(rule, "evicted-address-wiped-first:"+fnName(fn), call.Pos(), nLock > 0,
				fnName(fn)+" removes an address object from the scoped manager's cache without locking it first: evicted while the manager is unlocked, the object keeps its clear-text private key (or script) and Lock() no longer reaches it")
		}
	}
	c.Floor(rule, "address-cache evictions", n, 1)
}

// checkWipePrimitiveCoversWholeSlice: every variable-length wipe (passphrase buffers, clear-text scripts, serialised
// keys) goes through zero.Bytes. Its length argument is unbounded (a secret script may be several kilobytes), so it
// can only clear all of it with a loop over the slice (or the clear builtin): a fixed number of block copies clears a
// prefix and leaves the tail of a long secret in memory after Lock.
func checkWipePrimitiveCoversWholeSlice(c *Ctx, rule string) {
	p := c.P
	fn := p.Func("internal/zero", "", "Bytes")
	if fn == nil {
		c.Unresolved(rule, "internal/zero.Bytes")
		return
	}
	ok := len(callsNamed(fn, "clear")) > 0
	for _, l := range loopsOf(fn) {
		// the loop writes into the parameter slice (element store, or copy into it) and has no exit other than its
		// header's
		writes := l.containsInstr(func(ins ssa.Instruction) bool {
			switch x := ins.(type) {
			case *ssa.Store:
				if ia, isIA := x.Addr.(*ssa.IndexAddr); isIA {
					for _, o := range (&Slicer{P: p}).Origins(ia.X) {
						if _, isPrm := o.(*ssa.Parameter); isPrm {
							return true
						}
					}
				}
			case *ssa.Call:
				if calleeShort(&x.Call) == "copy" && len(x.Call.Args) == 2 {
					for _, o := range (&Slicer{P: p}).Origins(x.Call.Args[0]) {
						if _, isPrm := o.(*ssa.Parameter); isPrm {
							return true
						}
					}
				}
			}
			return false
		})
		if writes && len(l.EarlyExitsAny(p)) == 0 {
			ok = true
		}
	}
	c.Check(rule, "wipe-primitive-covers-whole-slice", fn.Pos(), ok,
		"zero.Bytes does not loop over the slice it is given (and does not use clear): only a fixed-size prefix is wiped, so the tail of a long secret (a clear-text script of more than two blocks) survives Lock() in memory")
}
