package main

import (
	"fmt"

	"golang.org/x/tools/go/ssa"
)

var c10Pkgs = map[string]bool{
	rel("wtxmgr"): true, rel("waddrmgr"): true, rel("walletdb/bdb"): true,
	rel("walletdb/migration"): true, rel("wallet"): true, rel("walletdb"): true,
}

func init() {
	register(&propSpec{
		ID: "C10",
		Explanation: "Decides the structural clause of C10 that the property's rationale singles out: no error produced by a database write " +
			"(walletdb/bbolt mutator) is dropped or swallowed anywhere between the bucket call and the API boundary, for every call site and every " +
			"path of every function in wtxmgr, waddrmgr, walletdb, walletdb/bdb, walletdb/migration and wallet (rule C10-R1, whole-program fixpoint of " +
			"write-error carriers + per-site path check), and that the managers' in-memory mirrors are stored only after the corresponding disk write " +
			"succeeded within the operation (C10-R2). NOT decided: state equality after rollback, retry equivalence, faults inside bbolt.",
		Assumptions: []string{
			"call graph (static + VTA) over-approximates real callees; no reflection/unsafe in the analysed packages",
			"a logger call counts as handling only in functions that have no error result",
			"tolerated (callee, sentinel) pairs are the frozen table in errdisc.go, one reason each",
		},
		Run: runC10,
	})
}

func runC10(c *Ctx) {
	ed := newErrDisc(c.P)
	sites := ed.sitesIn(c10Pkgs)
	stats := map[string]int{}
	for _, s := range sites {
		fn := s.call.Parent()
		key := fmt.Sprintf("%s/%s", fnName(fn), ed.siteName(s.call))
		if !s.res.ok {
			// failing sites are keyed by enclosing function + kind only (not by callee), so that extracting or
			// renaming the called helper does not turn a known finding into a new violation
			key = fnName(fn) + "!" + s.res.kind + "-write-error"
		}
		pos := s.call.Pos()
		c.Check("C10-R1", key, pos, s.res.ok, s.res.detail)
		if s.res.ok {
			stats[s.res.how]++
		} else {
			stats[s.res.kind]++
		}
	}
	ncar := 0
	for range ed.carriers {
		ncar++
	}
	c.Note("C10-R1: %d write-error carrier functions, %d call sites: %v", ncar, len(sites), stats)
	c.Floor("C10-R1", "write-error carrier functions", ncar, 250)
	c.Floor("C10-R1", "carrier call sites in the six packages", len(sites), 380)
	runC10R2(c)
}

// C10-R2: memory after disk (shared with C08-R2 / C05-R3 / C15-R5).
func runC10R2(c *Ctx) {
	checkMirrorAfterDisk(c, "C10-R2", addrMgrMirrors)
	checkWatchOnlyFlag(c, "C10-R2")
	checkPassphraseChange(c, "C10-R2")
	checkAddrCacheAfterLastWrite(c, "C10-R2")
	// R3: an operation that swaps in-memory keys eagerly (Manager.ChangePassphrase) must be the last fallible step of
	// its enclosing database transaction: otherwise a later failure rolls the database back while memory keeps the swap.
	cp := c.P.Func("waddrmgr", "Manager", "ChangePassphrase")
	if cp == nil {
		c.Unresolved("C10-R3", "waddrmgr.Manager.ChangePassphrase")
	} else {
		ed := newErrDisc(c.P)
		n := 0
		for _, cs := range c.P.callers(cp) {
			call, ok := cs.(*ssa.Call)
			if !ok || shortPkg(fnPkgPath(call.Parent())) != "wallet" {
				continue
			}
			n++
			fn := call.Parent()
			// after this call succeeded (nil edge / direct return), no further write-error carrier call may follow in the closure
			q := &PathQuery{Fn: fn}
			q.Target = func(ins ssa.Instruction, via *ssa.BasicBlock) bool {
				c2, ok := ins.(*ssa.Call)
				return ok && c2 != call && ed.isCarrierSite(c2)
			}
			hits := q.From(call)
			detail := ""
			if len(hits) > 0 {
				detail = "after Manager.ChangePassphrase has replaced the in-memory master key, the same database transaction performs another fallible write (" + ed.siteName(hits[0].Ins.(*ssa.Call)) + " at " + c.P.Pos(hits[0].Ins.Pos()) +
					"): if it fails the transaction rolls back but memory keeps the new key (old passphrase rejected until restart)"
			}
			role := "first"
			if len(hits) == 0 {
				role = "last"
			}
			c.Check("C10-R3", "key-swap-is-last-write-of-transaction:"+fnName(fn)+"/"+role, call.Pos(), len(hits) == 0, detail)
		}
		c.Floor("C10-R3", "wallet-level ChangePassphrase call sites", n, 3)
	}
	c.Advisory("ScopedKeyManager.addrs (address-object cache) is deliberately not a tracked mirror: nextAddresses caches each read-back address before commit; after a rollback the next committed request re-issues exactly that address (see DESIGN.md C10-R2)")
}
