package main

import (
	"fmt"
)

var c10Pkgs = map[string]bool{
	rel("wtxmgr"): true, rel("waddrmgr"): true, rel("walletdb/bdb"): true,
	rel("walletdb/migration"): true, rel("wallet"): true, rel("walletdb"): true,
}

func init() {
	register(&propSpec{
		ID: "C10",
		Explanation: "Decides the structural clause of C10 that the property's rationale singles out: no error produced by a database write " +
			"(walletdb/bbolt mutator) is dropped or swallowed anywhere between the bucket call and the API boundary, for every call site and every " +
			"path of every function in wtxmgr, waddrmgr, walletdb, walletdb/bdb, walletdb/migration and wallet (rule C10-R1, whole-program fixpoint of " +
			"write-error carriers + per-site path check), and that the managers' in-memory mirrors are stored only after the corresponding disk write " +
			"succeeded within the operation (C10-R2). NOT decided: state equality after rollback, retry equivalence, faults inside bbolt.",
		Assumptions: []string{
			"call graph (static + VTA) over-approximates real callees; no reflection/unsafe in the analysed packages",
			"a logger call counts as handling only in functions that have no error result",
			"tolerated (callee, sentinel) pairs are the frozen table in errdisc.go, one reason each",
		},
		Run: runC10,
	})
}

func runC10(c *Ctx) {
	ed := newErrDisc(c.P)
	sites := ed.sitesIn(c10Pkgs)
	stats := map[string]int{}
	for _, s := range sites {
		fn := s.call.Parent()
		key := fmt.Sprintf("%s/%s", fnName(fn), ed.siteName(s.call))
		if !s.res.ok {
			key += "!" + s.res.kind
		}
		pos := s.call.Pos()
		c.Check("C10-R1", key, pos, s.res.ok, s.res.detail)
		if s.res.ok {
			stats[s.res.how]++
		} else {
			stats[s.res.kind]++
		}
	}
	ncar := 0
	for range ed.carriers {
		ncar++
	}
	c.Note("C10-R1: %d write-error carrier functions, %d call sites: %v", ncar, len(sites), stats)
	c.Floor("C10-R1", "write-error carrier functions", ncar, 250)
	c.Floor("C10-R1", "carrier call sites in the six packages", len(sites), 380)
	runC10R2(c)
}

func runC10R2(c *Ctx) {}
