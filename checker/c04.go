package main

import (
	"fmt"
	"go/token"
	"sort"
	"strings"

	"golang.org/x/tools/go/ssa"
)

func init() {
	register(&propSpec{
		ID: "C04",
		Explanation: "Byte-level absence of secrets in a file image is a runtime fact: NOT decided. Decided is the encrypt-before-put discipline over the address-manager namespace: (R1) ciphertext slots: every argument that fills a persisted key/script/hash slot of the persistence helpers originates (through all call chains, phis and parameters) only from nil, " +
			"from the result of an Encrypt call under the key class of that slot (public / private / script crypto key, master keys for the crypto-key slots), from a stored ciphertext field, or from bytes read back from the same database; " +
			"(R2) no value originating from a private/script Decrypt, a private-key serialisation or a passphrase parameter reaches the key or value argument of a database Put; " +
			"(R3) address rows, the used-address index and the address->account index are keyed by SHA-256 of the address id; (R4) only the persistence layer (waddrmgr/db.go, migrations) and two listed sites call database mutators in waddrmgr; " +
			"(R5) ConvertToWatchingOnly deletes the private keys and sets the flag on disk before any in-memory change, and deletePrivateKeys deletes every main-bucket secret, every scope's coin-type private key and rewrites account/address rows with a nil private slot; " +
			"(R6) encryption under the private/script keys is unreachable while locked (a zeroed key would seal secrets under a publicly known key) and live crypto keys are never wiped through an aliasing accessor outside the wipe functions (shared with C05-R1).",
		Assumptions: []string{"snacl Encrypt output is ciphertext (C17)", "slot key classes are derived from the helpers' parameter names (…Pub…, …Priv…, …Script…, …Hash…)"},
		Run:         runC04,
	})
}

// slotClass: key class required for a ciphertext parameter, from its name ("" = not a ciphertext slot).
func slotClass(fn, param string) string {
	lp := strings.ToLower(param)
	if fn == "putMasterKeyParams" {
		return "" // scrypt parameters, public by design
	}
	isCipher := strings.Contains(lp, "enc")
	if !isCipher {
		return ""
	}
	if fn == "putCryptoKeys" {
		switch {
		case strings.Contains(lp, "pub"):
			return "masterPub"
		default:
			return "masterPriv"
		}
	}
	switch {
	case strings.Contains(lp, "priv"):
		return "priv"
	case strings.Contains(lp, "script"):
		return "script"
	case strings.Contains(lp, "pub"), strings.Contains(lp, "hash"):
		return "pub"
	}
	return ""
}

// keyClassOf: class of the key used as receiver of an Encrypt call: by field name / parameter name.
func keyClassOf(p *Program, recv ssa.Value, depth int) map[string]bool {
	out := map[string]bool{}
	name := func(n string) {
		ln := strings.ToLower(n)
		switch {
		case strings.Contains(ln, "masterkeypub"):
			out["masterPub"] = true
		case strings.Contains(ln, "masterkeypriv"), strings.Contains(ln, "newmasterkey"), ln == "secretkey":
			out["masterPriv"] = true
		case strings.Contains(ln, "cryptokeypub"):
			out["pub"] = true
		case strings.Contains(ln, "cryptokeypriv"):
			out["priv"] = true
		case strings.Contains(ln, "cryptokeyscript"):
			out["script"] = true
		default:
			out["?"+n] = true
		}
	}
	sl := &Slicer{P: p, KeepExtract: true, InterProc: true}
	for _, o := range sl.Origins(recv) {
		switch x := o.(type) {
		case *ssa.Parameter:
			name(x.Name())
		case *ssa.Extract:
			if call, ok := x.Tuple.(*ssa.Call); ok {
				n := calleeShort(&call.Call)
				if n == "newSecretKey" || n == "NewSecretKey" {
					// a freshly derived master key: class by the variable it is assigned to is unknown; ChangePassphrase's newMasterKey
					out["masterAny"] = true
				} else if n == "selectCryptoKey" {
					out["selected"] = true
				} else if cl := freshKeyClass(p, x); cl != "" {
					out[cl] = true
				} else {
					out["?call:"+n] = true
				}
			}
		case *ssa.Call:
			out["?call:"+calleeShort(&x.Call)] = true
		default:
			if _, f, _, ok := fieldOf(o); ok {
				name(f)
			} else if a, ok := o.(*ssa.Alloc); ok {
				name(a.Comment)
			} else {
				out["?"+describeValue(o)] = true
			}
		}
	}
	return out
}

func classOK(want string, got map[string]bool) bool {
	for g := range got {
		switch {
		case g == want:
		case want == "script" && g == "pub": // non-secret scripts are stored under the public crypto key
		case (want == "masterPub" || want == "masterPriv") && g == "masterAny":
		case g == "selected":
		default:
			return false
		}
	}
	return len(got) > 0
}

func runC04(c *Ctx) {
	p := c.P
	// ---------- R1 ----------
	nSlots, nSites := 0, 0
	for _, helper := range p.FuncsIn("waddrmgr") {
		if helper.Parent() != nil {
			continue
		}
		hn := helper.Name()
		if !(strings.HasPrefix(hn, "put") || strings.HasPrefix(hn, "serialize")) {
			continue
		}
		for pi, prm := range helper.Params {
			want := slotClass(hn, prm.Name())
			if want == "" {
				continue
			}
			nSlots++
			for _, cs := range p.callers(helper) {
				call, ok := cs.(*ssa.Call)
				if !ok || pi >= len(call.Call.Args) {
					continue
				}
				caller := call.Parent()
				if strings.Contains(outermost(caller).Name(), "igrat") || strings.HasPrefix(outermost(caller).Name(), "upgrade") {
					continue
				}
				nSites++
				bad := slotOrigins(p, call.Call.Args[pi], want, 0, map[ssa.Value]bool{})
				c.Check("C04-R1", fmt.Sprintf("ciphertext-slot:%s.%s<-%s", hn, prm.Name(), outermost(caller).Name()), call.Pos(), len(bad) == 0,
					fmt.Sprintf("the %s slot %s of %s is filled, in %s, from something that is not ciphertext under the %s key class: %s", want, prm.Name(), hn, fnName(caller), want, strings.Join(bad, "; ")))
			}
		}
	}
	c.Floor("C04-R1", "ciphertext slots of persistence helpers", nSlots, 14)
	c.Floor("C04-R1", "slot-filling call sites", nSites, 25)
	checkCiphertextFieldSlots(c, "C04-R1")
	// what is written is ciphertext only if no two seals share key and nonce: the nonce of every seal is freshly read
	// from the random source (C17-R2's rule)
	c.Borrow(runC17, "C17-R2", "C04-R1", func(k string) bool {
		return strings.HasPrefix(k, "nonce-") || strings.HasPrefix(k, "random-fill-covers-whole-buffer") || strings.HasPrefix(k, "random-source-read-only-through-ReadFull")
	})
	// what the stored key parameters carry about the passphrase is the digest of the DERIVED key, nothing cheaper
	c.Borrow(runC17, "C17-R3", "C04-R2", func(k string) bool {
		return strings.HasPrefix(k, "full-width-digest-compare") || strings.HasPrefix(k, "compare-after-successful-derivation")
	})
	// "after conversion to watching-only no call returns private material": the conversion of a running, unlocked manager
	// always wipes what is in memory (C05-R3's rule)
	c.Borrow(runC05, "C05-R3", "C04-R5", func(k string) bool { return k == "ConvertToWatchingOnly-reaches-lock" })
	checkScriptSecrecyClassIsCallers(c, "C04-R1")
	checkKeySlotGetsItsOwnClass(c, "C04-R1")

	// ---------- R2 ----------
	nPut := 0
	for _, fn := range p.FuncsIn("waddrmgr") {
		if strings.Contains(outermost(fn).Name(), "igrat") {
			continue
		}
		for _, ci := range callsOf(fn) {
			call, ok := ci.(*ssa.Call)
			if !ok {
				continue
			}
			name, isSrc := isDBSource(call.Common())
			if !isSrc || !strings.HasSuffix(name, ".Put") {
				continue
			}
			nPut++
			var bad []string
			for _, a := range call.Call.Args {
				bad = append(bad, secretOrigins(p, a)...)
			}
			c.Check("C04-R2", "no-plaintext-into-Put:"+fnName(fn), call.Pos(), len(bad) == 0, "a database Put receives clear-text secret material: "+strings.Join(dedup(bad), "; "))
		}
	}
	c.Floor("C04-R2", "database Put calls in waddrmgr", nPut, 25)
	checkPublicClassPlaintext(c, "C04-R2")
	checkNoKeyMaterialInNames(c, "C04-R2")

	// ---------- R3 ----------
	for _, name := range []string{"putAddress", "markAddressUsed"} {
		fn := p.Func("waddrmgr", "", name)
		if fn == nil {
			c.Unresolved("C04-R3", "waddrmgr."+name)
			continue
		}
		n := 0
		for _, ci := range callsOf(fn) {
			call, ok := ci.(*ssa.Call)
			if !ok {
				continue
			}
			if nm, isSrc := isDBSource(call.Common()); !isSrc || !strings.HasSuffix(nm, ".Put") {
				continue
			}
			n++
			c.Check("C04-R3", "row-key-is-sha256-of-address-id:"+name, call.Pos(), fromSha256OfParam(p, fn, call.Call.Args[0]),
				name+" stores under a key that is not sha256(address id): address hashes / public keys would be readable from the row keys")
		}
		c.Floor("C04-R3", "Put calls in "+name, n, 1)
	}
	if pa := p.Func("waddrmgr", "", "putAddress"); pa != nil {
		ok := false
		for _, call := range callsNamed(pa, "putAddrAccountIndex") {
			if a := p.argNamed(call, "addrHash", 3); a != nil {
				ok = fromSha256OfParam(p, pa, a)
			}
		}
		c.Check("C04-R3", "account-index-keyed-by-hash", pa.Pos(), ok, "the address->account index is not keyed by sha256(address id)")
		checkHashedBucketKeys(c, "C04-R3")
	}

	// ---------- R4 ----------
	nMut := 0
	allowedOutside := map[string]string{
		"NewScopedKeyManager": "writes the scope's address schema",
		"NeuterRootKey":       "deletes the encrypted master HD private key",
	}
	for _, fn := range p.FuncsIn("waddrmgr") {
		for _, ci := range callsOf(fn) {
			name, ok := isDBSource(ci.Common())
			if !ok {
				continue
			}
			nMut++
			// the persistence layer, by role (not by file name): package-level functions — no receiver — that are
			// handed the bucket they write to. The managers' methods are the logic layer above it.
			top := outermost(fn)
			okSite := false
			if top.Signature.Recv() == nil {
				for _, prm := range top.Params {
					if strings.Contains(prm.Type().String(), "walletdb.ReadWriteBucket") || strings.Contains(prm.Type().String(), "walletdb.ReadBucket") {
						okSite = true
					}
				}
			}
			if _, ok := allowedOutside[outermost(fn).Name()]; ok {
				okSite = true
			}
			if !okSite {
				c.Check("C04-R4", "db-mutator-outside-persistence-layer:"+fnName(fn)+"/"+name, ci.Pos(), false,
					"a database mutator is called from a manager method instead of a persistence helper (a package-level function that is handed the bucket): the encrypt-before-put discipline is only enforced at the helpers' slots")
			}
		}
	}
	c.Check("C04-R4", "db-mutators-confined", token.NoPos, true, "")
	c.Floor("C04-R4", "database mutator call sites in waddrmgr", nMut, 60)

	// ---------- R5 ----------
	checkWatchOnlyFlag(c, "C04-R5")
	if dp := p.Func("waddrmgr", "", "deletePrivateKeys"); dp != nil {
		deleted := map[string]bool{}
		for _, f := range Closures(dp) {
			for _, ci := range callsOf(f) {
				call, ok := ci.(*ssa.Call)
				if !ok {
					continue
				}
				if nm, isSrc := isDBSource(call.Common()); isSrc && strings.HasSuffix(nm, ".Delete") {
					deleted[valueDesc(call.Call.Args[0])] = true
					// one Delete in a loop over a literal list of keys deletes each listed key
					for _, kv := range p.rangeFieldValues(call.Call.Args[0]) {
						deleted[valueDesc(kv)] = true
					}
				}
			}
		}
		for _, want := range []string{"masterPrivKeyName", "cryptoPrivKeyName", "cryptoScriptKeyName", "masterHDPrivName", "coinTypePrivKeyName"} {
			c.Check("C04-R5", "deletePrivateKeys-deletes:"+want, dp.Pos(), deleted["waddrmgr."+want], "deletePrivateKeys does not delete "+want+": after conversion to watching-only the secret is still in the file")
		}
		checkMainBucketDeletes(c, "C04-R5")
		checkStripperCoversRowKinds(c, "C04-R5")
		checkConversionSuccessMeansStripped(c, "C04-R5")
		checkInitAccountsConversion(c, "C04-R5")
		// every success path passes the per-scope walk; row rewrites are checked by the row-rewrite rule (nil private slot)
		checkRowRewrites(c, "C04-R5")
		for _, cl := range Closures(dp) {
			for _, l := range loopsOf(cl) {
				if l.Kind != "for" && len(l.EarlyExits(p)) > 0 {
					c.Check("C04-R5", "deletePrivateKeys-loop-complete", l.Header.Instrs[0].Pos(), false, "a loop in deletePrivateKeys can stop early")
				}
			}
		}
	} else {
		c.Unresolved("C04-R5", "waddrmgr.deletePrivateKeys")
	}

	// ---------- R6 ----------
	checkLockGating(c, "C04-R6")
	checkUnlockRestoresWipedKeys(c, "C04-R7")
	checkSnaclErrors(c, "C04-R7")
	checkSelectedKeyUsedUnderLock(c, "C04-R6")
	checkLiveKeysUsedUnderLock(c, "C04-R6")
	checkUnlockedFlagSetLast(c, "C04-R6")
	checkNoKeyUseAfterZero(c, "C04-R2") // a key wiped before it is used seals under the all-zero key
	checkNoWipeThroughAlias(c, "C04-R6")
}

// slotOrigins returns descriptions of origins of v that are not acceptable ciphertext sources for a slot of class want.
func slotOrigins(p *Program, v ssa.Value, want string, depth int, seen map[ssa.Value]bool) []string {
	var bad []string
	if depth > 6 {
		return nil
	}
	sl := &Slicer{P: p, KeepExtract: true, ThroughCallArgs: func(call *ssa.Call, arg ssa.Value) bool {
		n := calleeShort(&call.Call)
		return n == "append" || n == "copy" // data-carrying builtins: the result contains the arguments
	}}
	for _, o := range sl.Origins(v) {
		if seen[o] {
			continue
		}
		seen[o] = true
		switch x := o.(type) {
		case *ssa.Const:
			if x.Value != nil && x.Value.String() != "0" {
				bad = append(bad, "constant "+x.Value.String())
			}
		case *ssa.Extract:
			call, ok := x.Tuple.(*ssa.Call)
			if !ok {
				bad = append(bad, describeValue(o))
				continue
			}
			n := calleeShort(&call.Call)
			switch {
			case n == "Encrypt" && x.Index == 0:
				recv := call.Call.Value
				if !call.Call.IsInvoke() && len(call.Call.Args) > 0 {
					recv = call.Call.Args[0]
				}
				got := keyClassOf(p, recv, 0)
				if !classOK(want, got) {
					var gs []string
					for g := range got {
						gs = append(gs, g)
					}
					sort.Strings(gs)
					bad = append(bad, fmt.Sprintf("Encrypt under key class %v at %s", gs, p.Pos(call.Pos())))
				}
			case strings.HasPrefix(n, "fetch") || strings.HasPrefix(n, "deserialize"):
				// bytes read back from the database
			default:
				// a private part that seals and hands the ciphertexts back: what it can return in that position
				if g := call.Call.StaticCallee(); g != nil && len(g.Blocks) > 0 && fnPkgPath(g) == fnPkgPath(call.Parent()) && g.Object() != nil && !g.Object().Exported() && depth < 5 {
					for _, gb := range g.Blocks {
						if r, isR := gb.Instrs[len(gb.Instrs)-1].(*ssa.Return); isR && x.Index < len(r.Results) {
							if isNilConst(r.Results[x.Index]) {
								continue
							}
							bad = append(bad, slotOrigins(p, r.Results[x.Index], want, depth+1, seen)...)
						}
					}
					continue
				}
				bad = append(bad, "result of "+n+" at "+p.Pos(call.Pos()))
			}
		case *ssa.Call:
			n := calleeShort(&x.Call)
			if n == "Get" || strings.HasPrefix(n, "fetch") || n == "append" || n == "make" {
				continue
			}
			bad = append(bad, "result of "+n+" at "+p.Pos(x.Pos()))
		case *ssa.Parameter:
			fn := x.Parent()
			// obligation moves to all callers
			sites := p.callers(fn)
			if len(sites) == 0 {
				// ForEach callbacks (k, v) read from the database
				if fn.Parent() != nil {
					continue
				}
				bad = append(bad, "parameter "+x.Name()+" of "+fnName(fn)+" (no callers found)")
				continue
			}
			idx := paramIndex(fn, x)
			for _, cs := range sites {
				args := cs.Common().Args
				ai := idx
				if cs.Common().IsInvoke() {
					ai = idx - 1
				}
				if ai < 0 || ai >= len(args) {
					continue
				}
				if strings.Contains(outermost(cs.Parent()).Name(), "igrat") || strings.HasSuffix(p.Fset.Position(cs.Pos()).Filename, "_test.go") {
					continue
				}
				bad = append(bad, slotOrigins(p, args[ai], want, depth+1, seen)...)
			}
		default:
			if _, f, _, ok := fieldOf(o); ok {
				lf := strings.ToLower(f)
				if strings.Contains(lf, "encrypted") || strings.Contains(lf, "enc") || f == "rawData" {
					continue // stored ciphertext field of a row / managed address
				}
				bad = append(bad, "field "+f)
				continue
			}
			if _, ok := o.(*ssa.Alloc); ok {
				continue
			}
			bad = append(bad, describeValue(o))
		}
	}
	return bad
}

// secretOrigins: descriptions of clear-text secret sources in the provenance of v.
func secretOrigins(p *Program, v ssa.Value) []string {
	var out []string
	sl := &Slicer{P: p, KeepExtract: true, ThroughBinOp: true, InterProc: true,
		ThroughCallArgs: func(call *ssa.Call, arg ssa.Value) bool {
			n := calleeShort(&call.Call)
			// data-carrying helpers: the result contains the argument
			return n == "append" || n == "copy" || strings.HasPrefix(n, "serialize") || n == "string" || n == "Sum256" == false && (n == "Bytes" || n == "String")
		}}
	for _, o := range sl.Origins(v) {
		switch x := o.(type) {
		case *ssa.Extract:
			call, ok := x.Tuple.(*ssa.Call)
			if !ok || x.Index != 0 {
				continue
			}
			n := calleeShort(&call.Call)
			if n == "Decrypt" {
				recv := call.Call.Value
				if !call.Call.IsInvoke() && len(call.Call.Args) > 0 {
					recv = call.Call.Args[0]
				}
				if _, f, _, okf := fieldOf(recv); okf && (f == "cryptoKeyPub" || f == "masterKeyPub") {
					continue
				}
				out = append(out, "Decrypt result at "+p.Pos(call.Pos()))
			}
			if n == "ECPrivKey" {
				out = append(out, "private key at "+p.Pos(call.Pos()))
			}
		case *ssa.Call:
			n := calleeShort(&x.Call)
			if n == "Serialize" {
				if f := x.Call.StaticCallee(); f != nil && recvName(f) == "PrivateKey" {
					out = append(out, "private key serialisation at "+p.Pos(x.Pos()))
				}
			}
		case *ssa.Parameter:
			ln := strings.ToLower(x.Name())
			if strings.Contains(ln, "passphrase") || ln == "seed" || ln == "rootkey" {
				out = append(out, "parameter "+x.Name()+" of "+fnName(x.Parent()))
			}
		}
	}
	return out
}

func fromSha256OfParam(p *Program, fn *ssa.Function, v ssa.Value) bool {
	sl := &Slicer{P: p}
	for _, o := range sl.Origins(v) {
		a, ok := o.(*ssa.Alloc)
		if !ok {
			// slice of alloc
			if s, ok := o.(*ssa.Slice); ok {
				a, _ = s.X.(*ssa.Alloc)
			}
		}
		if a == nil {
			if call, ok := o.(*ssa.Call); ok && calleeShort(&call.Call) == "Sum256" {
				if _, isP := call.Call.Args[0].(*ssa.Parameter); isP {
					return true
				}
			}
			continue
		}
		for _, st := range storesTo(a) {
			if call, ok := st.Val.(*ssa.Call); ok && calleeShort(&call.Call) == "Sum256" {
				if _, isP := call.Call.Args[0].(*ssa.Parameter); isP {
					return true
				}
			}
		}
	}
	return false
}

// freshKeyClass: k is a freshly generated crypto key (result of the newCryptoKey hook). Its class is the
// putCryptoKeys slot into which its sealed form (masterKey.Encrypt(k.Bytes())) is persisted in the same function.
func freshKeyClass(p *Program, k ssa.Value) string {
	var sealed []ssa.Value
	for _, u := range usesOf(k) {
		bc, ok := u.(*ssa.Call)
		if !ok || calleeShort(&bc.Call) != "Bytes" {
			continue
		}
		for _, uu := range usesOf(bc) {
			ec, ok := uu.(*ssa.Call)
			if !ok || calleeShort(&ec.Call) != "Encrypt" {
				continue
			}
			for _, r := range usesOf(ec) {
				if ex, ok := r.(*ssa.Extract); ok && ex.Index == 0 {
					sealed = append(sealed, ex)
				}
			}
		}
	}
	if len(sealed) == 0 {
		return ""
	}
	var fn *ssa.Function
	if ins, ok := k.(ssa.Instruction); ok {
		fn = ins.Parent()
	}
	if fn == nil {
		return ""
	}
	for _, f := range Closures(outermost(fn)) {
		for _, call := range callsNamed(f, "putCryptoKeys") {
			callee := call.Call.StaticCallee()
			for i, a := range call.Call.Args {
				sl := &Slicer{P: p, KeepExtract: true}
				for _, o := range sl.Origins(a) {
					for _, sv := range sealed {
						if o == sv && i < len(callee.Params) {
							ln := strings.ToLower(callee.Params[i].Name())
							switch {
							case strings.Contains(ln, "pub"):
								return "pub"
							case strings.Contains(ln, "script"):
								return "script"
							case strings.Contains(ln, "priv"):
								return "priv"
							}
						}
					}
				}
			}
		}
	}
	// the sealed key travels to the writer inside a struct (blobs grouped and handed to a helper that persists them):
	// the field it was stored into, where that field is handed to putCryptoKeys
	for _, sv := range sealed {
		for _, u := range usesOf(sv) {
			st, ok := u.(*ssa.Store)
			if !ok {
				continue
			}
			fa, ok := st.Addr.(*ssa.FieldAddr)
			if !ok {
				continue
			}
			tn, fld := fieldAddrName(fa)
			for _, g := range p.FuncsIn("waddrmgr") {
				for _, call := range callsNamed(g, "putCryptoKeys") {
					callee := call.Call.StaticCallee()
					for i, a := range call.Call.Args {
						if tn2, f2, _, okf := fieldOf(stripConv(a)); okf && tn2 == tn && f2 == fld && callee != nil && i < len(callee.Params) {
							ln := strings.ToLower(callee.Params[i].Name())
							switch {
							case strings.Contains(ln, "pub"):
								return "pub"
							case strings.Contains(ln, "script"):
								return "script"
							case strings.Contains(ln, "priv"):
								return "priv"
							}
						}
					}
				}
			}
		}
	}
	return ""
}

// checkNoWipeThroughAlias: live crypto keys are never wiped through an aliasing accessor outside the wipe functions
// (cryptoKey.Bytes() hands out the live array: zeroing what it returned zeroes the key while the manager still reports
// unlocked — every private-key operation then fails or seals under the all-zero key).
func checkNoWipeThroughAlias(c *Ctx, rule string) {
	p := c.P
	nZero := 0
	for _, fn := range p.FuncsIn("waddrmgr") {
		top := outermost(fn).Name()
		for _, ci := range callsOf(fn) {
			call, ok := ci.(*ssa.Call)
			if !ok {
				continue
			}
			n := calleeShort(&call.Call)
			if n != "Bytes" && n != "Bytea32" && n != "Bytea64" {
				continue
			}
			callee := call.Call.StaticCallee()
			if callee == nil || !strings.HasSuffix(fnPkgPath(callee), "internal/zero") {
				continue
			}
			nZero++
			sl := &Slicer{P: p, ThroughDeref: true}
			alias := ""
			for _, o := range sl.Origins(call.Call.Args[0]) {
				if oc, ok := o.(*ssa.Call); ok && calleeShort(&oc.Call) == "Bytes" {
					recv := oc.Call.Value
					if !oc.Call.IsInvoke() && len(oc.Call.Args) > 0 {
						recv = oc.Call.Args[0]
					}
					if _, f, _, okf := fieldOf(recv); okf && strings.HasPrefix(f, "cryptoKey") {
						alias = f
					}
				}
			}
			okZ := alias == "" || top == "lock" || top == "Close"
			c.Check(rule, "no-wipe-through-alias:"+fnName(fn), call.Pos(), okZ,
				"zero.Bytes wipes the bytes returned by "+alias+".Bytes(), which alias the live key: the key is all-zero while the manager still reports unlocked, and later secrets are sealed under a publicly known key")
		}
	}
	c.Floor(rule, "zeroing calls examined", nZero, 15)
}
