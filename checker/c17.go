package main

import (
	"fmt"
	"go/token"
	"go/types"
	"strings"

	"golang.org/x/tools/go/ssa"
)

func init() {
	register(&propSpec{
		ID: "C17",
		Explanation: "Round-trip and tamper detection are properties of secretbox/scrypt (trusted). Decided is that snacl cannot discard their verdicts: (R1) CryptoKey.Decrypt returns data only on the true outcome of secretbox.Open and returns that call's output; " +
			"every slice/allocation bound derived from the input length is covered by a dominating length check (a truncated ciphertext yields an error, never a panic); nonce = first 24 bytes, box = rest; " +
			"(R2) Encrypt seals under a nonce filled by io.ReadFull from the package random source whose error is propagated; the random source is only ever its crypto/rand initialiser; output = nonce||box; " +
			"(R3) DeriveKey returns nil only if a constant-time comparison of the FULL digest of the derived key with the FULL stored digest equals 1, after key derivation succeeded; " +
			"(R4) Marshal and Unmarshal traverse the same (field, width, byte order) sequence and the length check equals the marshalled size; " +
			"(R5) the address manager treats a DeriveKey error as failure (and re-locks on Unlock), and every cached salted passphrase hash is computed from the salt stored alongside it and the passphrase that derives the current master key. NOT decided: the cryptography itself.",
		Assumptions: []string{"x/crypto secretbox, scrypt and crypto/subtle semantics"},
		Run:         runC17,
	})
}

func snaclMethod(c *Ctx, rule, recv, name string) *ssa.Function {
	fn := c.P.Func("snacl", recv, name)
	if fn == nil {
		c.Unresolved(rule, "snacl."+recv+"."+name)
	}
	return fn
}

// lenAtomOfParam: linear atom for len(param) as produced by linearize.
func lenAtom(i int) string { return fmt.Sprintf("call:len(+1*param#%d +0)", i) }

// boundsCovered: every Slice / MakeSlice in fn whose bound depends (linearly)
// on the length of a []byte parameter is dominated by a guard implying the
// bound is within range. Returns descriptions of uncovered bounds.
func boundsCovered(p *Program, fn *ssa.Function) (checked int, bad []string) {
	implies := func(b *ssa.BasicBlock, need Lin) bool {
		// need: "need < 0" must follow from some dominating guard
		for d := b; d != nil; d = d.Idom() {
			if len(d.Instrs) == 0 {
				continue
			}
			iff, ok := d.Instrs[len(d.Instrs)-1].(*ssa.If)
			if !ok {
				continue
			}
			for si := 0; si < 2; si++ {
				if !edgeDominates(d, si, b) {
					continue
				}
				f, ok := p.cmpForm(iff.Cond, si == 0)
				if !ok {
					continue
				}
				switch f.Rel {
				case "<":
					if sameCoefs(f.L, need) && f.L.Konst >= need.Konst {
						return true
					}
				case "==":
					// X + k == 0 pins X: need = a*X + k2 < 0
					for _, g := range []Lin{f.L, f.L.scale(-1)} {
						if sameCoefs(g, need) {
							// need - g = const difference; g == 0 so need = need.Konst - g.Konst
							if need.Konst-g.Konst < 0 {
								return true
							}
						}
					}
				}
			}
		}
		return false
	}
	isParamLen := func(l Lin) bool {
		for k := range l.Coef {
			if strings.HasPrefix(k, "call:len(+1*param#") {
				return true
			}
		}
		return false
	}
	for _, b := range fn.Blocks {
		for _, ins := range b.Instrs {
			switch x := ins.(type) {
			case *ssa.MakeSlice:
				for _, bound := range []ssa.Value{x.Len, x.Cap} {
					l := p.linearize(bound, 0)
					if !isParamLen(l) {
						continue
					}
					checked++
					// need l >= 0  <=>  -l - 1 < 0
					need := l.scale(-1)
					need.Konst--
					if !implies(b, need) {
						bad = append(bad, fmt.Sprintf("allocation size %s at %s is not covered by a length check (negative for short inputs: panic)", l.String(), p.Pos(x.Pos())))
					}
				}
			case *ssa.Slice:
				// slicing a parameter-derived byte slice with constant bounds: need len(param) >= bound
				base := stripConv(x.X)
				prm, ok := base.(*ssa.Parameter)
				if !ok {
					continue
				}
				if _, isSlice := prm.Type().Underlying().(*types.Slice); !isSlice {
					continue
				}
				pi := paramIndex(fn, prm)
				for _, bound := range []ssa.Value{x.Low, x.High} {
					if bound == nil {
						continue
					}
					k, isK := constInt(bound)
					if !isK || k == 0 {
						continue
					}
					checked++
					// need len - k >= 0  <=>  -len + k - 1 < 0
					need := newLin()
					need.Coef[lenAtom(pi)] = -1
					need.Konst = k - 1
					if !implies(b, need) {
						bad = append(bad, fmt.Sprintf("slice bound %d on the input at %s is not covered by a length check", k, p.Pos(x.Pos())))
					}
				}
			}
		}
	}
	// the decoding steps may sit in a private part that is handed the input: its constant bounds on that parameter are
	// covered by the length check that dominates the part's only call site
	for _, g := range p.regionTop(fn) {
		if g == fn {
			continue
		}
		sites := p.realCallers(g)
		if len(sites) != 1 || sites[0].Parent() != fn {
			continue
		}
		for _, gb := range g.Blocks {
			for _, ins := range gb.Instrs {
				x, ok := ins.(*ssa.Slice)
				if !ok {
					continue
				}
				prm, ok := stripConv(x.X).(*ssa.Parameter)
				if !ok {
					continue
				}
				if _, isSlice := prm.Type().Underlying().(*types.Slice); !isSlice {
					continue
				}
				gi := paramIndex(g, prm)
				if gi < 0 || gi >= len(sites[0].Common().Args) {
					continue
				}
				fprm, ok := stripConv(sites[0].Common().Args[gi]).(*ssa.Parameter)
				if !ok || fprm.Parent() != fn {
					continue
				}
				pi := paramIndex(fn, fprm)
				for _, bound := range []ssa.Value{x.Low, x.High} {
					if bound == nil {
						continue
					}
					k, isK := constInt(bound)
					if !isK || k == 0 {
						continue
					}
					checked++
					need := newLin()
					need.Coef[lenAtom(pi)] = -1
					need.Konst = k - 1
					if !implies(sites[0].Block(), need) {
						bad = append(bad, fmt.Sprintf("slice bound %d on the input at %s (in %s, called from %s) is not covered by a length check", k, p.Pos(x.Pos()), g.Name(), fn.Name()))
					}
				}
			}
		}
	}
	return
}

func sameCoefs(a, b Lin) bool {
	if len(a.Coef) != len(b.Coef) {
		return false
	}
	for k, v := range a.Coef {
		if b.Coef[k] != v {
			return false
		}
	}
	return true
}

func runC17(c *Ctx) {
	p := c.P
	// ---------- R1 Decrypt ----------
	if dec := snaclMethod(c, "C17-R1", "CryptoKey", "Decrypt"); dec != nil {
		opens := callsNamed(dec, "Open")
		c.Floor("C17-R1", "secretbox.Open calls in Decrypt", len(opens), 1)
		for _, open := range opens {
			for _, b := range dec.Blocks {
				for _, ins := range b.Instrs {
					r, ok := ins.(*ssa.Return)
					if !ok {
						continue
					}
					if p.classifyReturn(r, nil) == retError {
						continue
					}
					okG := !reachableAvoiding(dec, nil, r, func(from *ssa.BasicBlock, si int) bool {
						f := edgeFactOf(from, si)
						if f == nil || f.Kind != "true" {
							return false
						}
						ex, ok := f.V.(*ssa.Extract)
						return ok && ex.Tuple == ssa.Value(open) && ex.Index == 1
					})
					c.Check("C17-R1", "data-only-on-authenticated-open", r.Pos(), okG, "Decrypt can return data without the authenticator check of secretbox.Open having succeeded")
					ex, isEx := effectiveResult(r, 0).(*ssa.Extract)
					c.Check("C17-R1", "returns-opened-plaintext", r.Pos(), isEx && ex.Tuple == ssa.Value(open) && ex.Index == 0, "Decrypt's success result is not the output of secretbox.Open")
				}
			}
			// out argument nil, box = in[24:], nonce copied from in[:24], key = receiver
			okOut := isNilConst(open.Call.Args[0])
			c.Check("C17-R1", "open-appends-to-nil", open.Pos(), okOut, "secretbox.Open is given a pre-sized output buffer derived from the input length instead of nil")
			okBox := false
			if sl, ok := open.Call.Args[1].(*ssa.Slice); ok {
				if prm, ok := sl.X.(*ssa.Parameter); ok && paramIndex(dec, prm) == 1 && sl.High == nil {
					if k, ok := constInt(sl.Low); ok && k == 24 {
						okBox = true
					}
				}
			}
			c.Check("C17-R1", "box-is-input-after-nonce", open.Pos(), okBox, "the sealed box passed to secretbox.Open is not in[NonceSize:]")
			okKey := false
			sl := &Slicer{P: p}
			for _, o := range sl.Origins(open.Call.Args[3]) {
				if prm, ok := o.(*ssa.Parameter); ok && paramIndex(dec, prm) == 0 {
					okKey = true
				}
			}
			c.Check("C17-R1", "opens-with-own-key", open.Pos(), okKey, "secretbox.Open is not called with the receiver key")
		}
		n, bad := boundsCovered(p, dec)
		c.Check("C17-R1", "input-length-bounds-covered:Decrypt", dec.Pos(), len(bad) == 0, strings.Join(bad, "; "))
		c.Floor("C17-R1", "input-length dependent bounds in Decrypt", n, 2)
		// nonce copy: copy(nonce[:], in[:24])
		okCopy := false
		for _, call := range callsNamed(dec, "copy") {
			if sl, ok := call.Call.Args[1].(*ssa.Slice); ok {
				if prm, ok := sl.X.(*ssa.Parameter); ok && paramIndex(dec, prm) == 1 && sl.Low == nil {
					if k, ok := constInt(sl.High); ok && k == 24 {
						okCopy = true
					}
				}
			}
		}
		c.Check("C17-R1", "nonce-is-first-24-bytes", dec.Pos(), okCopy, "the nonce is not copied from in[:NonceSize]")
	}
	// ---------- R2 Encrypt ----------
	if enc := snaclMethod(c, "C17-R2", "CryptoKey", "Encrypt"); enc != nil {
		seals := callsNamed(enc, "Seal")
		c.Floor("C17-R2", "secretbox.Seal calls in Encrypt", len(seals), 1)
		for _, seal := range seals {
			nonce := seal.Call.Args[2] // *[24]byte alloc
			var rf *ssa.Call
			fromPrng := func(call *ssa.Call) bool {
				if mi, ok := call.Call.Args[0].(*ssa.UnOp); ok {
					if g, ok := mi.X.(*ssa.Global); ok && g.Name() == "prng" {
						return true
					}
				}
				return false
			}
			// a private part `readRandom(buf) error` that fills its whole argument by io.ReadFull from the package's
			// random source and returns that call's error
			randomFiller := func(h *ssa.Function) bool {
				if h == nil || len(h.Blocks) == 0 || h.Object() == nil || h.Object().Exported() || fnPkgPath(h) != fnPkgPath(enc) || len(h.Params) != 1 {
					return false
				}
				var inner *ssa.Call
				for _, call := range callsNamed(h, "ReadFull") {
					if prm, ok := call.Call.Args[1].(*ssa.Parameter); ok && prm == h.Params[0] && fromPrng(call) {
						inner = call
					}
				}
				if inner == nil {
					return false
				}
				for _, b := range h.Blocks {
					r, ok := b.Instrs[len(b.Instrs)-1].(*ssa.Return)
					if !ok {
						continue
					}
					ex, ok := effectiveResult(r, len(r.Results)-1).(*ssa.Extract)
					if !ok || ex.Tuple != ssa.Value(inner) || ex.Index != 1 {
						return false
					}
				}
				return true
			}
			viaPart := false
			for _, ci := range callsOf(enc) {
				call, ok := ci.(*ssa.Call)
				if !ok || len(call.Call.Args) == 0 {
					continue
				}
				isRF := calleeShort(&call.Call) == "ReadFull" && len(call.Call.Args) == 2 && fromPrng(call)
				isPart := !isRF && randomFiller(call.Call.StaticCallee())
				if !isRF && !isPart {
					continue
				}
				buf := call.Call.Args[len(call.Call.Args)-1]
				if sl, ok := buf.(*ssa.Slice); ok && sl.X == nonce && sl.Low == nil && sl.High == nil {
					rf, viaPart = call, isPart
				}
			}
			c.Check("C17-R2", "nonce-filled-from-random-source", seal.Pos(), rf != nil, "the nonce passed to secretbox.Seal is not filled completely by io.ReadFull from the package random source")
			if rf != nil {
				// seal only on the err == nil edge of ReadFull
				ok := !reachableAvoiding(enc, nil, seal, func(from *ssa.BasicBlock, si int) bool {
					f := edgeFactOf(from, si)
					if f == nil || f.Kind != "nil" {
						return false
					}
					if viaPart {
						return loadIsResultOf(f.V, rf)
					}
					ex, ok := f.V.(*ssa.Extract)
					return ok && ex.Tuple == ssa.Value(rf) && ex.Index == 1
				})
				c.Check("C17-R2", "nonce-read-error-propagated", rf.Pos(), ok, "Encrypt seals even if reading the random nonce failed (fixed/partial nonce)")
			}
			okOut := isNilConst(seal.Call.Args[0])
			okMsg := false
			if prm, ok := seal.Call.Args[1].(*ssa.Parameter); ok && paramIndex(enc, prm) == 1 {
				okMsg = true
			}
			c.Check("C17-R2", "seals-the-plaintext", seal.Pos(), okOut && okMsg, "secretbox.Seal is not called as Seal(nil, in, nonce, key)")
			// result = append(nonce[:], blob...)
			okRes := false
			for _, b := range enc.Blocks {
				for _, ins := range b.Instrs {
					r, ok := ins.(*ssa.Return)
					if !ok || p.classifyReturn(r, nil) == retError {
						continue
					}
					if ap, ok := effectiveResult(r, 0).(*ssa.Call); ok {
						if bi, ok := ap.Call.Value.(*ssa.Builtin); ok && bi.Name() == "append" {
							s0, ok0 := ap.Call.Args[0].(*ssa.Slice)
							if ok0 && s0.X == nonce && ap.Call.Args[1] == ssa.Value(seal) {
								okRes = true
							}
						}
					}
				}
			}
			c.Check("C17-R2", "ciphertext-is-nonce-then-box", seal.Pos(), okRes, "Encrypt does not return nonce || box")
		}
		// prng only assigned its initialiser
		g := c.P.Global("snacl", "prng")
		if g == nil {
			c.Unresolved("C17-R2", "snacl.prng")
		} else {
			nst := 0
			okInit := true
			for _, fn := range p.RepoFuncs {
				for _, b := range fn.Blocks {
					for _, ins := range b.Instrs {
						st, ok := ins.(*ssa.Store)
						if !ok || st.Addr != ssa.Value(g) {
							continue
						}
						nst++
						src := ""
						if u, ok := stripConv(st.Val).(*ssa.UnOp); ok {
							if gg, ok := u.X.(*ssa.Global); ok {
								src = gg.Pkg.Pkg.Path() + "." + gg.Name()
							}
						}
						if fn.Name() != "init" || src != "crypto/rand.Reader" {
							okInit = false
						}
					}
				}
			}
			c.Check("C17-R2", "random-source-is-crypto-rand", g.Pos(), okInit && nst == 1, fmt.Sprintf("the package random source is assigned %d times / not only from crypto/rand.Reader in its initialiser", nst))
		}
	}
	// ---------- R3 DeriveKey ----------
	if dk := snaclMethod(c, "C17-R3", "SecretKey", "DeriveKey"); dk != nil {
		// the digest comparison(s) DeriveKey decides by: in DeriveKey itself or in a private part that answers true
		// exactly when the comparison returned 1; `at` is the instruction in DeriveKey that stands for it
		type cmpSite struct {
			at  ssa.Instruction
			cmp *ssa.Call
		}
		var cmps []cmpSite
		seenCmp := map[*ssa.Call]bool{}
		for _, b := range dk.Blocks {
			for si := range b.Succs {
				if at, cmp, ok := digestMatchEdge(p, b, si); ok && !seenCmp[cmp] {
					seenCmp[cmp] = true
					cmps = append(cmps, cmpSite{at, cmp})
				}
			}
		}
		c.Floor("C17-R3", "constant-time comparisons in DeriveKey", len(cmps), 1)
		for _, cs := range cmps {
			cmp := cs.cmp
			for _, b := range dk.Blocks {
				for _, ins := range b.Instrs {
					r, ok := ins.(*ssa.Return)
					if !ok || p.classifyReturn(r, nil) == retError {
						continue
					}
					okG := !reachableAvoiding(dk, nil, r, func(from *ssa.BasicBlock, si int) bool {
						_, c2, ok := digestMatchEdge(p, from, si)
						return ok && c2 == cmp
					})
					c.Check("C17-R3", "nil-only-if-digest-matches", r.Pos(), okG, "DeriveKey can return nil without the digest comparison having returned 1")
				}
			}
			// both operands whole-array slices; one from Sum256(Key[:]) (directly or through a private part that returns
			// exactly that), other field Digest
			isKeySum := func(v ssa.Value) bool {
				call, ok := v.(*ssa.Call)
				if !ok {
					return false
				}
				if calleeShort(&call.Call) == "Sum256" {
					ks, ok := call.Call.Args[0].(*ssa.Slice)
					return ok && ks.Low == nil && ks.High == nil
				}
				h := call.Call.StaticCallee()
				if h == nil || len(h.Blocks) != 1 || h.Object() == nil || h.Object().Exported() || !strings.HasSuffix(fnPkgPath(h), "/snacl") {
					return false
				}
				r, ok := h.Blocks[0].Instrs[len(h.Blocks[0].Instrs)-1].(*ssa.Return)
				if !ok || len(r.Results) != 1 {
					return false
				}
				inner, ok := r.Results[0].(*ssa.Call)
				if !ok || calleeShort(&inner.Call) != "Sum256" {
					return false
				}
				ks, ok := inner.Call.Args[0].(*ssa.Slice)
				if !ok || ks.Low != nil || ks.High != nil {
					return false
				}
				_, f, _, okf := fieldOf(ks.X)
				if fa, isFA := ks.X.(*ssa.FieldAddr); isFA {
					_, f = fieldAddrName(fa)
					okf = true
				}
				return okf && f == "Key"
			}
			full := func(v ssa.Value) (string, bool) {
				sl, ok := v.(*ssa.Slice)
				if !ok || sl.Low != nil || sl.High != nil || sl.Max != nil {
					return "", false
				}
				switch x := sl.X.(type) {
				case *ssa.Alloc:
					for _, st := range storesTo(x) {
						if isKeySum(st.Val) {
							return "sum256(key)", true
						}
					}
				case *ssa.FieldAddr:
					_, f := fieldAddrName(x)
					return "field:" + f, true
				}
				return "", false
			}
			a, okA := full(cmp.Call.Args[0])
			b, okB := full(cmp.Call.Args[1])
			okOps := okA && okB && ((a == "sum256(key)" && b == "field:Digest") || (b == "sum256(key)" && a == "field:Digest"))
			c.Check("C17-R3", "full-width-digest-compare", cmp.Pos(), okOps, fmt.Sprintf("the digest comparison does not compare the full SHA-256 of the whole derived key with the full stored digest (operands: %q, %q)", a, b))
			// after deriveKey succeeded
			dks := callsNamed(dk, "deriveKey")
			okD := len(dks) == 1
			if okD {
				okD = !reachableAvoiding(dk, nil, cs.at, func(from *ssa.BasicBlock, si int) bool {
					f := edgeFactOf(from, si)
					return f != nil && f.Kind == "nil" && loadIsResultOf(f.V, dks[0])
				})
			}
			c.Check("C17-R3", "compare-after-successful-derivation", cmp.Pos(), okD, "the digest is compared although key derivation failed or did not run")
		}
	}
	// every caller of deriveKey hands it the passphrase it was itself given, unchanged (NewSecretKey and DeriveKey must
	// agree on what "the passphrase" is: a creator that derives from the raw bytes and a verifier that trims them accept
	// near misses and reject exact passphrases)
	if dkf := snaclMethod(c, "C17-R3", "SecretKey", "deriveKey"); dkf != nil {
		nCallers := 0
		for _, cs := range p.callers(dkf) {
			call, ok := cs.(*ssa.Call)
			if !ok || len(call.Call.Args) < 2 {
				continue
			}
			nCallers++
			caller := call.Parent()
			okArg := false
			for _, o := range (&Slicer{P: p}).Origins(call.Call.Args[1]) {
				if prm, ok := o.(*ssa.Parameter); ok && prm.Parent() == caller {
					okArg = true
				} else {
					okArg = false
					break
				}
			}
			c.Check("C17-R3", "deriveKey-caller-passes-own-passphrase:"+caller.Name(), call.Pos(), okArg,
				fnName(caller)+" derives the key from something other than the passphrase it was given (a trimmed / normalised / copied variant): creation and verification disagree on the passphrase")
		}
		c.Floor("C17-R3", "callers of SecretKey.deriveKey", nCallers, 2)
	}
	// the passphrase reaches the KDF unmodified
	if dkf := snaclMethod(c, "C17-R3", "SecretKey", "deriveKey"); dkf != nil {
		n := 0
		for _, call := range callsNamed(dkf, "Key") {
			if callee := call.Call.StaticCallee(); callee == nil || !strings.HasSuffix(fnPkgPath(callee), "scrypt") {
				continue
			}
			n++
			okP := false
			if ld, ok := call.Call.Args[0].(*ssa.UnOp); ok {
				if prm, ok := ld.X.(*ssa.Parameter); ok && paramIndex(dkf, prm) == 1 {
					okP = true
				}
			}
			c.Check("C17-R3", "kdf-gets-exact-passphrase", call.Pos(), okP, "the passphrase is transformed before key stretching (trimmed/normalised): near-miss passphrases derive the same key")
			okSalt := false
			if sl0, ok := call.Call.Args[1].(*ssa.Slice); ok && sl0.Low == nil && sl0.High == nil {
				if fa, ok := sl0.X.(*ssa.FieldAddr); ok {
					_, f := fieldAddrName(fa)
					okSalt = f == "Salt"
				}
			}
			c.Check("C17-R3", "kdf-uses-stored-salt-and-parameters", call.Pos(), okSalt, "the key is not stretched with the full stored salt")
		}
		c.Floor("C17-R3", "scrypt.Key calls", n, 1)
	}

	// ---------- R4 layout agreement ----------
	ma := snaclMethod(c, "C17-R4", "SecretKey", "Marshal")
	un := snaclMethod(c, "C17-R4", "SecretKey", "Unmarshal")
	if ma != nil && un != nil {
		sm, lm := layoutSeq(p, ma)
		su, lu := layoutSeq(p, un)
		c.Check("C17-R4", "marshal-unmarshal-layout-agrees", ma.Pos(), sm == su && sm != "" && strings.Count(sm, ";") >= 4,
			"Marshal and Unmarshal disagree on the field sequence / widths / byte order: marshal ["+sm+"] unmarshal ["+su+"]")
		c.Check("C17-R4", "length-check-equals-marshalled-size", un.Pos(), lm == lu && lm > 0, fmt.Sprintf("Unmarshal's length check (%d) differs from Marshal's buffer size (%d)", lu, lm))
		n, bad := boundsCovered(p, un)
		c.Check("C17-R4", "input-length-bounds-covered:Unmarshal", un.Pos(), len(bad) == 0, strings.Join(bad, "; "))
		c.Floor("C17-R4", "input-length dependent bounds in Unmarshal", n, 1)
	}
	checkDeriveKeyUse(c, "C17-R5")
	checkDerivedPassphraseIsCallersOwn(c, "C17-R3")
	checkCryptoKeyHoldersAreDistinct(c, "C17-R1")
	// sealed under the right key: a crypto key is selected and used with the manager mutex held, so a concurrent Lock()
	// cannot zero it between selection and use (C04-R6's rules)
	checkRandomFillCoversWholeBuffer(c, "C17-R2")
	checkRandomSourceReadOnlyThroughReadFull(c, "C17-R2")
	checkSelectedKeyUsedUnderLock(c, "C17-R1")
	checkLiveKeysUsedUnderLock(c, "C17-R1")
	checkSaltedHash(c, "C17-R5")
	checkInvalidPasswordOnlyOnDigestMismatch(c, "C17-R3")
	checkChangeVerifiesOldPassphrase(c, "C17-R5")
	checkGeneratorGetsCallersPassphrase(c, "C17-R3")
	// "stored parameters and ciphertexts stay bound to the current passphrase": a passphrase change that reports success
	// has written both the re-sealed crypto keys and the new key parameters (C10-R1's rule, for ChangePassphrase)
	c.Borrow(runC10, "C10-R1", "C17-R5", func(k string) bool { return strings.Contains(k, "ChangePassphrase") })
	// the passphrase-derived key's own entry points are forwarders: every plaintext, the empty one included, is sealed
	checkMustPassOnSuccess(c, "C17-R1", "secret-key-encrypt-always-seals", snaclMethod(c, "C17-R1", "SecretKey", "Encrypt"), "Encrypt",
		"SecretKey.Encrypt can report success without sealing (a shortcut for some inputs, e.g. the empty plaintext): the result carries neither nonce nor authenticator, two encryptions are identical and Decrypt rejects it")
	checkMustPassOnSuccess(c, "C17-R1", "secret-key-decrypt-always-opens", snaclMethod(c, "C17-R1", "SecretKey", "Decrypt"), "Decrypt",
		"SecretKey.Decrypt can report success without opening the box: data is returned that no authenticator vouches for")
	checkNoOverRejectingLengthGuard(c, "C17-R1")
	checkSnaclErrors(c, "C17-R3")
	checkSelectedKeyUsedUnderLock(c, "C17-R5")
}

// layoutSeq renders the ordered (op, field, width) sequence of a marshal/unmarshal function and the total size constant.
func layoutSeq(p *Program, fn *ssa.Function) (string, int64) {
	var parts []string
	var size int64
	fieldOfAddr := func(v ssa.Value) string {
		sl := &Slicer{P: p}
		for _, o := range sl.Origins(v) {
			if tn, f, _, ok := fieldOf(o); ok && tn == "Parameters" {
				return f
			}
		}
		// slice of field address
		if s, ok := v.(*ssa.Slice); ok {
			if fa, ok := s.X.(*ssa.FieldAddr); ok {
				_, f := fieldAddrName(fa)
				return f
			}
		}
		return ""
	}
	offsetOf := func(v ssa.Value) int64 {
		var off int64
		for i := 0; i < 16; i++ {
			sl, ok := v.(*ssa.Slice)
			if !ok {
				break
			}
			if sl.Low != nil {
				if k, ok := constInt(sl.Low); ok {
					off += k
				}
			}
			v = sl.X
		}
		return off
	}
	bufArg := func(call *ssa.Call) ssa.Value {
		// the argument that is a slice of the marshalled buffer (not of a struct field)
		for _, a := range call.Call.Args {
			if sl, ok := a.(*ssa.Slice); ok {
				if _, isField := sl.X.(*ssa.FieldAddr); !isField {
					return a
				}
			}
		}
		return nil
	}
	widthOf := func(v ssa.Value) int64 {
		if s, ok := v.(*ssa.Slice); ok && s.High != nil {
			if k, ok := constInt(s.High); ok {
				lo := int64(0)
				if s.Low != nil {
					lo, _ = constInt(s.Low)
				}
				return k - lo
			}
		}
		return -1
	}
	for _, b := range fn.Blocks {
		for _, ins := range b.Instrs {
			switch x := ins.(type) {
			case *ssa.MakeSlice:
				if k, ok := constInt(x.Len); ok {
					size = k
				}
			case *ssa.Alloc:
				// make([]byte, <const>) is lowered to new [N]byte + slice
				if x.Heap && x.Comment == "makeslice" {
					if arr, ok := x.Type().Underlying().(*types.Pointer).Elem().Underlying().(*types.Array); ok {
						size = arr.Len()
					}
				}
			case *ssa.If:
				if f, ok := p.cmpForm(x.Cond, true); ok && (f.Rel == "!=" || f.Rel == "==") && len(f.L.Coef) == 1 {
					k := f.L.Konst
					if k < 0 {
						k = -k
					}
					for a := range f.L.Coef {
						if strings.HasPrefix(a, "call:len(") {
							size = k
						}
					}
				}
			case *ssa.Call:
				name := calleeShort(&x.Call)
				// the steps may sit in a private part (a method of the parameters struct): spliced in at the call
				if g := x.Call.StaticCallee(); g != nil && g != fn && g.Pkg == fn.Pkg && len(g.Blocks) > 0 && p.inRegion(fn, g) {
					sub, sz := layoutSeq(p, g)
					if sub != "" {
						parts = append(parts, sub)
					}
					if sz > 0 {
						size = sz
					}
					continue
				}
				switch name {
				case "copy":
					f := fieldOfAddr(x.Call.Args[0])
					w := widthOf(x.Call.Args[0])
					if f == "" {
						f = fieldOfAddr(x.Call.Args[1])
						w = widthOf(x.Call.Args[1])
						if w < 0 {
							w = widthOf(x.Call.Args[0])
						}
					} else if w < 0 {
						w = widthOf(x.Call.Args[1])
					}
					if f != "" {
						off := int64(-1)
						if ba := bufArg(x); ba != nil {
							off = offsetOf(ba)
						}
						parts = append(parts, fmt.Sprintf("bytes:%s@%d:%d", f, off, w))
					}
				case "PutUint64", "PutUint32":
					// a loop over a small local array of the fields (`for i, v := range [...]int{N, R, P}`): one step per
					// element, at the offset the loop index gives
					if elems, c0, k0, ok := unrolledArrayWrites(p, fn, x); ok {
						for k, e := range elems {
							f := ""
							for _, o := range (&Slicer{P: p}).Origins(e) {
								if _, fl, _, ok := fieldOf(o); ok {
									f = fl
								}
							}
							parts = append(parts, fmt.Sprintf("%s:%s:%s@%d", strings.TrimPrefix(name, "Put"), receiverGlobal(x), f, k0+c0*int64(k)))
						}
						continue
					}
					// value arg derives from field
					f := ""
					sl := &Slicer{P: p}
					for _, o := range sl.Origins(x.Call.Args[len(x.Call.Args)-1]) {
						if _, fl, _, ok := fieldOf(o); ok {
							f = fl
						}
					}
					order := receiverGlobal(x)
					off := int64(-1)
					if ba := bufArg(x); ba != nil {
						off = offsetOf(ba)
					}
					parts = append(parts, fmt.Sprintf("%s:%s:%s@%d", strings.TrimPrefix(name, "Put"), order, f, off))
				case "Uint64", "Uint32":
					// stored into which field?
					f := ""
					for _, u := range usesOf(x) {
						var cur ssa.Value = x
						_ = cur
						if cv, ok := u.(*ssa.Convert); ok {
							for _, uu := range usesOf(cv) {
								if st, ok := uu.(*ssa.Store); ok {
									if fa, ok := st.Addr.(*ssa.FieldAddr); ok {
										_, f = fieldAddrName(fa)
									}
								}
							}
						}
						if st, ok := u.(*ssa.Store); ok {
							if fa, ok := st.Addr.(*ssa.FieldAddr); ok {
								_, f = fieldAddrName(fa)
							}
						}
					}
					off := int64(-1)
					if ba := bufArg(x); ba != nil {
						off = offsetOf(ba)
					}
					parts = append(parts, fmt.Sprintf("%s:%s:%s@%d", name, receiverGlobal(x), f, off))
				}
			}
		}
	}
	return strings.Join(parts, ";"), size
}

// unrolledArrayWrites: put is a PutUintNN(buf[lo:hi], uint(v)) inside a loop in which v is the element of a local array at
// the loop's index and lo is linear in that index: the values stored into the array's elements (in index order), the
// stride and the base offset.
func unrolledArrayWrites(p *Program, fn *ssa.Function, put *ssa.Call) ([]ssa.Value, int64, int64, bool) {
	if innermostLoopOf(loopsOf(fn), put) == nil || len(put.Call.Args) < 2 {
		return nil, 0, 0, false
	}
	val := stripConv(put.Call.Args[len(put.Call.Args)-1])
	var arrAlloc *ssa.Alloc
	var index ssa.Value
	switch x := val.(type) {
	case *ssa.UnOp:
		// *(&arr[i])
		if ia, ok := x.X.(*ssa.IndexAddr); ok && x.Op == token.MUL {
			arrAlloc, _ = ia.X.(*ssa.Alloc)
			index = ia.Index
		}
	case *ssa.Index:
		// (*arr)[i]: go/ssa ranges over a copy of the array value
		if ld, ok := x.X.(*ssa.UnOp); ok && ld.Op == token.MUL {
			arrAlloc, _ = ld.X.(*ssa.Alloc)
			index = x.Index
		}
	}
	if arrAlloc == nil || index == nil {
		return nil, 0, 0, false
	}
	arr, ok := arrAlloc.Type().Underlying().(*types.Pointer).Elem().Underlying().(*types.Array)
	if !ok || arr.Len() > 8 {
		return nil, 0, 0, false
	}
	elems := make([]ssa.Value, arr.Len())
	// the array the loop reads may be a copy (of a copy) of the literal: follow whole-array stores back
	src := arrAlloc
	for hops := 0; hops < 4 && src != nil; hops++ {
		var next *ssa.Alloc
		for _, u := range usesOf(src) {
			switch x := u.(type) {
			case *ssa.IndexAddr:
				k, isK := constInt(x.Index)
				if !isK || k < 0 || k >= arr.Len() {
					continue
				}
				for _, uu := range usesOf(x) {
					if st, ok := uu.(*ssa.Store); ok && st.Addr == ssa.Value(x) && elems[k] == nil {
						elems[k] = st.Val
					}
				}
			case *ssa.Store:
				if x.Addr == ssa.Value(src) {
					if ld, ok := x.Val.(*ssa.UnOp); ok && ld.Op == token.MUL {
						if a2, ok := ld.X.(*ssa.Alloc); ok {
							next = a2
						}
					}
				}
			}
		}
		src = next
	}
	for _, e := range elems {
		if e == nil {
			return nil, 0, 0, false
		}
	}
	var buf *ssa.Slice
	for _, a := range put.Call.Args {
		if sl, ok := a.(*ssa.Slice); ok {
			buf = sl
		}
	}
	if buf == nil || buf.Low == nil {
		return nil, 0, 0, false
	}
	low := p.linearize(buf.Low, 0)
	idx := p.linearize(index, 0)
	if len(low.Coef) != 1 || len(idx.Coef) != 1 {
		return nil, 0, 0, false
	}
	for a, c0 := range low.Coef {
		if idx.Coef[a] != 1 {
			return nil, 0, 0, false
		}
		// go/ssa rotates range loops: the index is "counter + 1"; element k is read when counter = k - idx.Konst
		return elems, c0, low.Konst - c0*idx.Konst, true
	}
	return nil, 0, 0, false
}

func receiverGlobal(call *ssa.Call) string {
	if len(call.Call.Args) == 0 {
		return ""
	}
	v := call.Call.Args[0]
	if u, ok := v.(*ssa.UnOp); ok && u.Op == token.MUL {
		if g, ok := u.X.(*ssa.Global); ok {
			return g.Name()
		}
	}
	if g, ok := v.(*ssa.Global); ok {
		return g.Name()
	}
	return v.Type().String()
}

// checkDeriveKeyUse: waddrmgr treats a DeriveKey error as failure; Unlock re-locks.
func checkDeriveKeyUse(c *Ctx, rule string) {
	p := c.P
	n := 0
	for _, fn := range p.FuncsIn("waddrmgr") {
		for _, call := range callsNamed(fn, "DeriveKey") {
			if recvName(call.Call.StaticCallee()) != "SecretKey" {
				continue
			}
			n++
			// on the error edge every return is an error return
			found := false
			for _, b := range fn.Blocks {
				for si := range b.Succs {
					f := edgeFactOf(b, si)
					if f == nil || f.Kind != "nonnil" || !loadIsResultOf(f.V, call) {
						continue
					}
					found = true
					q := &PathQuery{Fn: fn, Target: p.nonErrorReturn()}
					hits := exploreFromBlock(q, b.Succs[si], b)
					c.Check(rule, "DeriveKey-error-is-failure:"+fn.Name(), call.Pos(), len(hits) == 0, "a failed passphrase check (DeriveKey error) can lead to a success return")
					if fn.Name() == "Unlock" {
						q2 := &PathQuery{Fn: fn, Barrier: isCallNamed("lock")}
						q2.Target = func(ins ssa.Instruction, via *ssa.BasicBlock) bool { _, ok := ins.(*ssa.Return); return ok }
						hits = exploreFromBlock(q2, b.Succs[si], b)
						c.Check(rule, "wrong-passphrase-relocks:Unlock", call.Pos(), len(hits) == 0, "Unlock returns after a failed passphrase check without re-locking the manager")
					}
				}
			}
			if !found {
				c.Check(rule, "DeriveKey-error-is-failure:"+fn.Name(), call.Pos(), false, "the result of DeriveKey is not tested")
			}
		}
	}
	c.Floor(rule, "DeriveKey call sites in waddrmgr", n, 3)
}

// checkSaltedHash: every store to Manager.hashedPrivPassphrase is sha512(salt || passphrase) where the salt is the one
// stored alongside (field privPassphraseSalt, or the local copied into it in the same function) and the passphrase is the
// parameter that derives the current master key (passed to DeriveKey / newSecretKey in the same function).
func checkSaltedHash(c *Ctx, rule string) {
	p := c.P
	n := 0
	// the salted buffer is hashed before it is wiped: between building it and hashing it no zeroing call takes it
	nSum := 0
	for _, fn := range p.FuncsIn("waddrmgr") {
		for _, sum := range callsNamed(fn, "Sum512") {
			buf := sum.Call.Args[0]
			ap, ok := buf.(*ssa.Call)
			if !ok || calleeShort(&ap.Call) != "append" {
				continue
			}
			nSum++
			q := &PathQuery{Fn: fn, Barrier: func(i ssa.Instruction) bool { return i == ssa.Instruction(sum) },
				Target: func(i ssa.Instruction, _ *ssa.BasicBlock) bool {
					call, ok := i.(*ssa.Call)
					if !ok {
						return false
					}
					g := call.Call.StaticCallee()
					if g == nil || g.Pkg == nil || !strings.HasSuffix(g.Pkg.Pkg.Path(), "internal/zero") {
						return false
					}
					for _, a := range call.Call.Args {
						if a == buf {
							return true
						}
					}
					return false
				}}
			c.Check(rule, "salted-buffer-hashed-before-wiped:"+fn.Name(), sum.Pos(), len(q.From(ap)) == 0,
				"the salted passphrase buffer is zeroed before it is hashed in "+fnName(fn)+": the cached hash depends only on the passphrase's length, so any wrong passphrase of the same length is accepted by the already-unlocked fast path")
		}
	}
	c.Floor(rule, "salted passphrase hashes", nSum, 2)
	for _, fn := range p.FuncsIn("waddrmgr") {
		if fn.Name() == "lock" || fn.Name() == "init" {
			continue
		}
		stores := storesToField(fn, "hashedPrivPassphrase")
		for _, st := range stores {
			// find Sum512 calls feeding the stored value (directly, or inside a same-package helper whose result is stored)
			sl := &Slicer{P: p, ThroughReturns: func(callee *ssa.Function) bool { return fnPkgPath(callee) == fnPkgPath(fn) }}
			var sums []*ssa.Call
			for _, o := range sl.Origins(st.Val) {
				if call, ok := o.(*ssa.Call); ok && calleeShort(&call.Call) == "Sum512" {
					sums = append(sums, call)
				}
			}
			if len(sums) == 0 {
				continue // e.g. struct literal in newManager (zero value)
			}
			n++
			for _, sum := range sums {
				ap, ok := sum.Call.Args[0].(*ssa.Call)
				if !ok || calleeShort(&ap.Call) != "append" {
					c.Check(rule, "salted-hash-shape:"+fn.Name(), sum.Pos(), false, "cached passphrase hash is not sha512(append(salt, passphrase...))")
					continue
				}
				saltOK, passOK := false, false
				saltArg, passArg := ap.Call.Args[0], ap.Call.Args[1]
				if sum.Parent() != fn {
					// the hash is computed in a helper: map its parameters back to the arguments at the call site in fn
					h := sum.Parent()
					var site *ssa.Call
					for _, cs := range p.callers(h) {
						if c2, ok := cs.(*ssa.Call); ok && c2.Parent() == fn {
							site = c2
						}
					}
					subst := func(v ssa.Value) ssa.Value {
						if site == nil {
							return v
						}
						root := v
						if sl2, ok := v.(*ssa.Slice); ok {
							root = sl2.X
						}
						if u, ok := root.(*ssa.UnOp); ok {
							root = u.X
						}
						if prm, ok := root.(*ssa.Parameter); ok {
							if i := paramIndex(h, prm); i >= 0 && i < len(site.Call.Args) {
								return site.Call.Args[i]
							}
						}
						return v
					}
					passArg = subst(passArg)
					if s0, ok := saltArg.(*ssa.Slice); ok {
						if fa, ok := s0.X.(*ssa.FieldAddr); ok {
							// m.privPassphraseSalt[:] inside a method helper: the receiver is fn's manager
							_, f := fieldAddrName(fa)
							saltOK = f == "privPassphraseSalt" && len(storesToField(fn, "privPassphraseSalt")) == 0
						}
					}
				}
				if ss, ok := saltArg.(*ssa.Slice); ok && !saltOK {
					switch x := ss.X.(type) {
					case *ssa.FieldAddr:
						_, f := fieldAddrName(x)
						// using the stored salt is right only if this function does not replace it
						saltOK = f == "privPassphraseSalt" && len(storesToField(fn, "privPassphraseSalt")) == 0
					case *ssa.Alloc:
						// local salt must be the value stored into privPassphraseSalt in this function
						for _, s2 := range storesToField(fn, "privPassphraseSalt") {
							if u, ok := s2.Val.(*ssa.UnOp); ok && u.X == ssa.Value(x) {
								saltOK = true
							}
						}
					}
				}
				// the store may sit in a private part that is handed the passphrase (markUnlocked(passphrase)): the
				// passphrase then is the argument at the part's only call site, and the key derivation it must agree with
				// is in that caller
				searchFn := fn
				if r := p.resolveParam(passArg); r != passArg {
					passArg = r
					if pf := valueParent(r); pf != nil {
						searchFn = pf
					}
				}
				// identify the passphrase variable: a parameter, or the spill slot of an address-taken parameter
				var passVar ssa.Value
				switch x := passArg.(type) {
				case *ssa.Parameter:
					passVar = x
				case *ssa.UnOp:
					if al, ok := x.X.(*ssa.Alloc); ok {
						passVar = al
					}
				}
				if passVar != nil {
					for _, name := range []string{"DeriveKey", "newSecretKey", "NewSecretKey"} {
						if searchFn.Name() == "ChangePassphrase" && name == "DeriveKey" {
							// there the NEW master key is the one created by newSecretKey
							continue
						}
						for _, dk := range callsNamed(searchFn, name) {
							for _, a := range dk.Call.Args {
								if a == passVar {
									passOK = true
								}
								if al, ok := a.(*ssa.Alloc); ok {
									for _, s3 := range storesTo(al) {
										if s3.Val == passVar {
											passOK = true
										}
									}
								}
							}
						}
					}
				}
				// the derivation in a private part that is handed the passphrase variable (deriveKeys(&passphrase)): the part
				// hands that very parameter to the derivation
				if passVar != nil && !passOK {
					for _, ci := range callsOf(searchFn) {
						pc, isCall := ci.(*ssa.Call)
						if !isCall {
							continue
						}
						h := pc.Call.StaticCallee()
						if h == nil || len(h.Blocks) == 0 || h.Object() == nil || h.Object().Exported() || fnPkgPath(h) != fnPkgPath(searchFn) || len(h.Params) != len(pc.Call.Args) {
							continue
						}
						for ai, a := range pc.Call.Args {
							if a != passVar {
								continue
							}
							for _, name := range []string{"DeriveKey", "newSecretKey", "NewSecretKey"} {
								for _, dk := range callsNamed(h, name) {
									for _, da := range dk.Call.Args {
										if da == ssa.Value(h.Params[ai]) {
											passOK = true
										}
									}
								}
							}
						}
					}
				}
				c.Check(rule, "salted-hash-uses-stored-salt:"+fn.Name(), sum.Pos(), saltOK,
					"the cached passphrase hash is computed with a salt other than the one stored alongside it: every later fast-path Unlock compares against a mismatching hash")
				c.Check(rule, "salted-hash-uses-current-passphrase:"+fn.Name(), sum.Pos(), passOK,
					"the cached passphrase hash is computed from a passphrase other than the one that derives the current master key: the fast-path Unlock accepts the wrong passphrase")
			}
		}
	}
	c.Floor(rule, "stores of the cached passphrase hash", n, 2)
	// fast path compares the full hash
	if ul := c.P.Func("waddrmgr", "Manager", "Unlock"); ul != nil {
		ok := false
		var blocks []*ssa.BasicBlock
		for _, f := range c.P.regionOf(ul) { // the fast path may sit in an extracted part of Unlock
			blocks = append(blocks, f.Blocks...)
		}
		for _, b := range blocks {
			for _, ins := range b.Instrs {
				bo, isB := ins.(*ssa.BinOp)
				if !isB || (bo.Op != token.NEQ && bo.Op != token.EQL) {
					continue
				}
				_, f1, _, ok1 := fieldOf(bo.X)
				_, f2, _, ok2 := fieldOf(bo.Y)
				if (ok1 && f1 == "hashedPrivPassphrase") || (ok2 && f2 == "hashedPrivPassphrase") {
					if arr, isArr := bo.X.Type().Underlying().(*types.Array); isArr && arr.Len() == 64 {
						ok = true
					}
				}
			}
		}
		c.Check(rule, "fast-path-compares-full-hash:Unlock", ul.Pos(), ok, "Unlock's already-unlocked fast path does not compare the full 64-byte salted hash")
	}
}

// checkInvalidPasswordOnlyOnDigestMismatch: creation (NewSecretKey) accepts every passphrase, so verification must too:
// DeriveKey may answer "invalid password" only on the edge where the derived key's digest differs from the stored one.
// An earlier rejection (empty, too short, too long...) makes a key that was created and used with such a passphrase
// unopenable after restart: "the same passphrase re-derives the same key" fails at that boundary.
func checkInvalidPasswordOnlyOnDigestMismatch(c *Ctx, rule string) {
	_ = c.P
	dk := snaclMethod(c, rule, "SecretKey", "DeriveKey")
	if dk == nil {
		return
	}
	mismatch := func(from *ssa.BasicBlock, si int) bool {
		iff, ok := from.Instrs[len(from.Instrs)-1].(*ssa.If)
		if !ok {
			return false
		}
		cond, _ := unwrapNot(iff.Cond)
		bo, ok := cond.(*ssa.BinOp)
		if !ok {
			if call, isCall := cond.(*ssa.Call); isCall && calleeShort(&call.Call) == "Equal" {
				return true
			}
			return false
		}
		return isResultOfCall(bo.X, "ConstantTimeCompare", -1) || isResultOfCall(bo.Y, "ConstantTimeCompare", -1)
	}
	mismatch0 := mismatch
	mismatch = func(from *ssa.BasicBlock, si int) bool {
		if mismatch0(from, si) {
			return true
		}
		// the comparison lives in a private part that answers true exactly on a match: its false edge
		if ef := edgeFactOf(from, si); ef != nil && ef.Kind == "false" {
			if hc, ok := ef.V.(*ssa.Call); ok && digestMatcher(c.P, hc.Call.StaticCallee()) != nil {
				return true
			}
		}
		return false
	}
	n := 0
	for _, b := range dk.Blocks {
		r, ok := b.Instrs[len(b.Instrs)-1].(*ssa.Return)
		if !ok || len(r.Results) == 0 {
			continue
		}
		for _, pr := range append([]*ssa.BasicBlock{nil}, b.Preds...) {
			if !isGlobalLoad(resolvePhi(effectiveResult(r, len(r.Results)-1), b, pr), "ErrInvalidPassword") {
				continue
			}
			n++
			okR := !reachableAvoiding(dk, nil, r, mismatch)
			c.Check(rule, "invalid-password-only-on-digest-mismatch", r.Pos(), okR,
				"SecretKey.DeriveKey can answer ErrInvalidPassword without having compared the derived key's digest with the stored one (a rejection by shape: empty / short / long passphrase), although NewSecretKey creates keys from such passphrases: the exact passphrase stops working after restart")
			break
		}
	}
	c.Floor(rule, "ErrInvalidPassword returns in DeriveKey", n, 1)
}

// checkChangeVerifiesOldPassphrase: "accepts only the exact passphrase": Manager.ChangePassphrase proves knowledge of the
// old passphrase by deriving the old master key from it — on every path that goes on to write new key material,
// unlocked or not. A shortcut that takes the in-memory master key instead lets any "old passphrase" re-key an unlocked
// wallet.
func checkChangeVerifiesOldPassphrase(c *Ctx, rule string) {
	p := c.P
	cp := p.Func("waddrmgr", "Manager", "ChangePassphrase")
	if cp == nil {
		c.Unresolved(rule, "Manager.ChangePassphrase")
		return
	}
	if len(cp.Params) < 3 {
		c.Unresolved(rule, "old-passphrase parameter of ChangePassphrase")
		return
	}
	old := cp.Params[2] // recv, ns, oldPassphrase
	verifies := func(ins ssa.Instruction) bool {
		call, ok := ins.(*ssa.Call)
		if !ok || calleeShort(&call.Call) != "DeriveKey" || len(call.Call.Args) < 2 {
			return false
		}
		a := call.Call.Args[len(call.Call.Args)-1]
		if al, ok := a.(*ssa.Alloc); ok {
			for _, st := range storesTo(al) {
				if st.Val == ssa.Value(old) {
					return true
				}
			}
		}
		return false
	}
	n := 0
	for _, w := range []string{"putMasterKeyParams", "putCryptoKeys"} {
		for _, call := range callsNamed(cp, w) {
			n++
			q := &PathQuery{Fn: cp, Barrier: verifies}
			q.Target = func(ins ssa.Instruction, _ *ssa.BasicBlock) bool { return ins == ssa.Instruction(call) }
			c.Check(rule, "old-passphrase-verified-before:"+w, call.Pos(), len(q.From(nil)) == 0,
				"Manager.ChangePassphrase can reach "+w+" without having derived the old master key from the given old passphrase (SecretKey.DeriveKey(&oldPassphrase)): on that path any value is accepted as the old passphrase")
		}
	}
	c.Floor(rule, "key-material writes in ChangePassphrase", n, 2)
}

// checkDerivedPassphraseIsCallersOwn: the address manager checks a passphrase by handing it to DeriveKey. What it hands
// over is the caller's passphrase and nothing else: followed back through the package's own call chain (loadManager <-
// Open), every value that can reach the passphrase argument is a parameter — never a literal or a default put in its
// place. A fallback ("an empty passphrase means the well-known default") makes a manager created with that default open
// with the empty passphrase as well: the key accepts a passphrase it was not created from.
func checkDerivedPassphraseIsCallersOwn(c *Ctx, rule string) {
	p := c.P
	n := 0
	var bad func(v ssa.Value, fn *ssa.Function, depth int) string
	bad = func(v ssa.Value, fn *ssa.Function, depth int) string {
		if depth > 4 {
			return ""
		}
		for _, o := range (&Slicer{P: p}).Origins(v) {
			switch x := o.(type) {
			case *ssa.Const:
				if x.Value != nil {
					return "the constant " + x.Value.String() + " in " + fnName(fn)
				}
			case *ssa.Global:
				return "the package variable " + x.Name() + " in " + fnName(fn)
			case *ssa.Parameter:
				f := x.Parent()
				if f == nil || f.Object() == nil || f.Object().Exported() || f.Parent() != nil {
					continue
				}
				idx := paramIndex(f, x)
				for _, cs := range p.realCallers(f) {
					if idx < len(cs.Common().Args) {
						if b := bad(cs.Common().Args[idx], cs.Parent(), depth+1); b != "" {
							return b
						}
					}
				}
			case *ssa.UnOp:
				if g, isG := x.X.(*ssa.Global); isG {
					return "the package variable " + g.Name() + " in " + fnName(fn)
				}
			case *ssa.Call:
				// a value computed from the passphrase (trimmed, normalised, re-encoded) is another passphrase: the side
				// that creates the key and the side that checks it must both use the caller's bytes as they are
				if x.Type().String() == "[]byte" && !x.Call.IsInvoke() {
					return "the result of " + calleeShort(&x.Call) + " in " + fnName(fn)
				}
			}
		}
		return ""
	}
	for _, fn := range p.FuncsIn("waddrmgr") {
		var sites []*ssa.Call
		for _, call := range callsNamed(fn, "DeriveKey") {
			if recvName(call.Call.StaticCallee()) == "SecretKey" && len(call.Call.Args) >= 2 {
				sites = append(sites, call)
			}
		}
		// the creating side: snacl.NewSecretKey(passphrase, ...), argument shifted into DeriveKey's position
		for _, call := range callsNamed(fn, "NewSecretKey") {
			if g := call.Call.StaticCallee(); g != nil && strings.HasSuffix(fnPkgPath(g), "/snacl") && len(call.Call.Args) >= 1 {
				sites = append(sites, call)
			}
		}
		// ... through the package's own generator indirection: newSecretKey(&pass, cfg) / the SecretKeyGenerator variable
		viaGen := map[*ssa.Call]bool{}
		for _, ci := range callsOf(fn) {
			call, ok := ci.(*ssa.Call)
			if !ok || len(call.Call.Args) == 0 {
				continue
			}
			isGen := false
			if g := call.Call.StaticCallee(); g != nil {
				if fnPkgPath(g) == fnPkgPath(fn) && g.Name() == "newSecretKey" {
					isGen = true
				}
			} else if !call.Call.IsInvoke() && strings.HasSuffix(call.Call.Value.Type().String(), "SecretKeyGenerator") {
				isGen = true
			}
			if isGen {
				sites = append(sites, call)
				viaGen[call] = true
			}
		}
		for _, call := range sites {
			passIdx := 1
			if calleeShort(&call.Call) == "NewSecretKey" || viaGen[call] {
				passIdx = 0
			}
			n++
			// the argument is the address of the passphrase variable: what is stored there
			var vals []ssa.Value
			if al, ok := stripConv(call.Call.Args[passIdx]).(*ssa.Alloc); ok {
				for _, st := range storesTo(al) {
					vals = append(vals, st.Val)
				}
			} else {
				vals = append(vals, call.Call.Args[passIdx])
			}
			why := ""
			for _, v := range vals {
				if b := bad(v, fn, 0); b != "" {
					why = b
				}
			}
			c.Check(rule, "derived-passphrase-is-callers-own:"+fn.Name(), call.Pos(), why == "",
				fnName(fn)+" can check a passphrase that is not the one its caller supplied ("+why+" can take its place): a key created from that value is then accepted for another input as well")
		}
	}
	c.Floor(rule, "passphrase checks in waddrmgr", n, 3)
}

// checkCryptoKeyHoldersAreDistinct: the manager keeps one crypto key per class (public, private, script); "decryption
// under any other key fails" needs them to be different keys — different objects to begin with: Unlock fills the private
// key holder IN PLACE, so two fields that were given one placeholder object end up holding the same key. No function
// stores one value into two of the crypto-key fields.
func checkCryptoKeyHoldersAreDistinct(c *Ctx, rule string) {
	p := c.P
	holders := map[string]bool{"cryptoKeyPub": true, "cryptoKeyPriv": true, "cryptoKeyScript": true}
	n := 0
	for _, fn := range p.FuncsIn("waddrmgr") {
		byVal := map[ssa.Value][]string{}
		for _, b := range fn.Blocks {
			for _, ins := range b.Instrs {
				st, ok := ins.(*ssa.Store)
				if !ok {
					continue
				}
				fa, ok := st.Addr.(*ssa.FieldAddr)
				if !ok {
					continue
				}
				tn, fld := fieldAddrName(fa)
				if tn != "Manager" || !holders[fld] {
					continue
				}
				v := stripConv(st.Val)
				if mi, isMI := v.(*ssa.MakeInterface); isMI {
					v = stripConv(mi.X)
				}
				byVal[v] = append(byVal[v], fld)
			}
		}
		if len(byVal) == 0 {
			continue
		}
		n++
		shared := ""
		for _, flds := range byVal {
			seen := map[string]bool{}
			for _, f := range flds {
				seen[f] = true
			}
			if len(seen) > 1 {
				shared = strings.Join(flds, " and ")
			}
		}
		c.Check(rule, "crypto-key-holders-are-distinct-objects:"+fn.Name(), fn.Pos(), shared == "",
			fnName(fn)+" gives the manager's "+shared+" one and the same key object: once one of them is filled in place (Unlock), data sealed under one key class opens under the other")
	}
	c.Floor(rule, "functions installing the manager's crypto keys", n, 1)
}

// digestMatcher: a private bool method/function of the snacl package that answers true exactly on the edge (or as the
// value) of `subtle.ConstantTimeCompare(...) == 1`: the comparison moved into a part. Returns the comparison call.
func digestMatcher(p *Program, h *ssa.Function) *ssa.Call {
	if h == nil || len(h.Blocks) == 0 || h.Object() == nil || h.Object().Exported() || !strings.HasSuffix(fnPkgPath(h), "/snacl") {
		return nil
	}
	res := h.Signature.Results()
	if res.Len() != 1 || !isBoolType(res.At(0).Type()) {
		return nil
	}
	var cmp *ssa.Call
	for _, call := range callsNamed(h, "ConstantTimeCompare") {
		cmp = call
	}
	if cmp == nil {
		return nil
	}
	isMatch := func(v ssa.Value, val bool) bool {
		f, ok := p.cmpForm(v, val)
		if !ok || f.Rel != "==" || len(f.L.Coef) != 1 || f.L.Konst != -1 {
			return false
		}
		inner, _ := unwrapNot(v)
		bo, ok := inner.(*ssa.BinOp)
		return ok && (bo.X == ssa.Value(cmp) || bo.Y == ssa.Value(cmp))
	}
	// no return that can be true is reachable without the match (as its value, or as a guarding edge)
	q := &PathQuery{Fn: h}
	q.EdgeBarrier = func(from *ssa.BasicBlock, si int) bool {
		iff, ok := from.Instrs[len(from.Instrs)-1].(*ssa.If)
		return ok && isMatch(iff.Cond, si == 0)
	}
	q.Target = func(i ssa.Instruction, _ *ssa.BasicBlock) bool {
		r, ok := i.(*ssa.Return)
		if !ok {
			return false
		}
		v := effectiveResult(r, 0)
		if bv, isC := constBool(v); isC {
			return bv
		}
		return !isMatch(v, true)
	}
	if len(q.From(nil)) > 0 {
		return nil
	}
	return cmp
}

// digestMatchEdge: the edge of fn on which the digest comparison returned 1 — `ConstantTimeCompare(..) == 1` tested in fn
// itself, or the true edge of a call of a digestMatcher part. Also returns the instruction in fn that stands for the
// comparison (the call itself, or the call of the part).
func digestMatchEdge(p *Program, from *ssa.BasicBlock, si int) (ssa.Instruction, *ssa.Call, bool) {
	iff, ok := from.Instrs[len(from.Instrs)-1].(*ssa.If)
	if !ok {
		return nil, nil, false
	}
	if f, okf := p.cmpForm(iff.Cond, si == 0); okf && f.Rel == "==" && len(f.L.Coef) == 1 && f.L.Konst == -1 {
		inner, _ := unwrapNot(iff.Cond)
		if bo, ok := inner.(*ssa.BinOp); ok {
			for _, side := range []ssa.Value{bo.X, bo.Y} {
				if call, ok := side.(*ssa.Call); ok && calleeShort(&call.Call) == "ConstantTimeCompare" {
					return call, call, true
				}
			}
		}
	}
	if ef := edgeFactOf(from, si); ef != nil && ef.Kind == "true" {
		if hc, ok := ef.V.(*ssa.Call); ok {
			if cmp := digestMatcher(p, hc.Call.StaticCallee()); cmp != nil {
				return hc, cmp, true
			}
		}
	}
	return nil, nil, false
}

// checkRandomFillCoversWholeBuffer: every key, nonce and salt the package draws from its random source is filled
// completely: the buffer handed to io.ReadFull is a whole array (no bounds), or the parameter of a filler part. A slice
// that starts at the array's length is empty — ReadFull succeeds, the "random" key stays all zero, every wallet created
// seals its keys under a publicly known crypto key.
func checkRandomFillCoversWholeBuffer(c *Ctx, rule string) {
	p := c.P
	n := 0
	whole := func(v ssa.Value) bool {
		switch x := stripConv(v).(type) {
		case *ssa.Slice:
			return x.Low == nil && x.High == nil && x.Max == nil
		case *ssa.Parameter:
			return true
		}
		return false
	}
	// fillers: functions of the package that hand one of their own parameters to io.ReadFull as the buffer; their call
	// sites are fill sites too
	fillers := map[*ssa.Function]int{}
	for _, fn := range p.FuncsIn("snacl") {
		for _, call := range callsNamed(fn, "ReadFull") {
			if len(call.Call.Args) != 2 {
				continue
			}
			if prm, ok := stripConv(call.Call.Args[1]).(*ssa.Parameter); ok {
				for i, q := range fn.Params {
					if q == prm {
						fillers[fn] = i
					}
				}
			}
		}
	}
	for _, fn := range p.FuncsIn("snacl") {
		for _, ci := range callsOf(fn) {
			call, isCall := ci.(*ssa.Call)
			if !isCall {
				continue
			}
			var buf ssa.Value
			if calleeShort(&call.Call) == "ReadFull" && len(call.Call.Args) == 2 {
				buf = call.Call.Args[1]
			} else if h := call.Call.StaticCallee(); h != nil {
				if i, isFiller := fillers[h]; isFiller && i < len(call.Call.Args) {
					buf = call.Call.Args[i]
				}
			}
			if buf == nil {
				continue
			}
			n++
			c.Check(rule, "random-fill-covers-whole-buffer:"+fn.Name(), call.Pos(), whole(buf),
				fnName(fn)+" reads random bytes into a part of its buffer only (a re-sliced array): the rest — possibly all of it — stays zero")
		}
	}
	c.Floor(rule, "random fills in snacl", n, 3)
}
