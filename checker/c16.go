package main

import (
	"fmt"
	"go/constant"
	"go/token"
	"go/types"
	"os"
	"sort"
	"strings"

	"golang.org/x/tools/go/ssa"
)

func init() {
	register(&propSpec{
		ID: "C16",
		Explanation: "Completeness over all usage patterns is NOT decided, and the birthday-block binary search clause (monotone timestamps) is numeric: not applicable. Decided, for all paths of the recovery loop: " +
			"(R1) expand before filter: every path to chainClient.FilterBlocks (from entry and from the retry jump) passes the complete loop that expands every scope's horizons; " +
			"(R2) consume the whole response: from a non-nil response every path to the retry jump or the success return passes extendFoundAddresses, the complete loop registering every found outpoint as watched, and the complete loop recording every relevant transaction; the batch is re-sliced from BatchIndex+1; " +
			"(R3) order inside extendFoundAddresses per scope and branch: report every found index -> NextUnfound -> Extend*Addresses(last found, clamped at 0) -> MarkUsed for every found address; " +
			"(R4) branch consistency: no call, map update or path construction mixes external-branch and internal-branch values (sibling agreement of the duplicated external/internal code), and the key-path helpers use their own branch constant; " +
			"(R5) recovery(): the synced-to stamps of the batch are written in the same update as recoverScopedAddresses, after it; expandScopeHorizons registers exactly `window` valid children (counter advanced only on the valid path) with AddAddr.",
		Assumptions: []string{"chain.BlockFilterer and BranchRecoveryState arithmetic are not modelled"},
		Run:         runC16,
	})
}

// branchTokens: which of External / Internal occur in the provenance of v (field names, callee names, receivers).
func branchTokens(p *Program, v ssa.Value) map[string]bool {
	out := map[string]bool{}
	tok := func(s string) {
		if strings.Contains(s, "External") || strings.Contains(s, "external") {
			out["External"] = true
		}
		if strings.Contains(s, "Internal") || strings.Contains(s, "internal") {
			// InternalAccount is a DerivationPath field unrelated to the branch
			if !strings.Contains(s, "InternalAccount") {
				out["Internal"] = true
			}
		}
	}
	sl := &Slicer{P: p, ThroughBinOp: true, ThroughRange: true, ThroughDeref: true,
		ThroughCallArgs: func(call *ssa.Call, arg ssa.Value) bool { return true }}
	for _, o := range sl.Origins(v) {
		switch x := o.(type) {
		case *ssa.Call:
			tok(calleeShort(&x.Call))
			// receiver field
			if len(x.Call.Args) > 0 {
				if fa, ok := x.Call.Args[0].(*ssa.FieldAddr); ok {
					_, f := fieldAddrName(fa)
					tok(f)
				}
			}
		case *ssa.FieldAddr:
			_, f := fieldAddrName(x)
			tok(f)
		default:
			if _, f, _, ok := fieldOf(o); ok {
				tok(f)
			}
		}
	}
	return out
}

func tokensString(m map[string]bool) string {
	var ks []string
	for k := range m {
		ks = append(ks, k)
	}
	sort.Strings(ks)
	return strings.Join(ks, "+")
}

func runC16(c *Ctx) {
	p := c.P
	rsa := walletFn(c, "C16-R1", "recoverScopedAddresses")
	if rsa != nil {
		loops := loopsOf(rsa)
		var expandLoop, opLoop, txLoop *Loop
		for _, l := range loops {
			if l.Kind == "for" {
				continue
			}
			switch {
			case l.containsInstr(isCallNamed("expandScopeHorizons")) && expandLoop == nil && l.Kind == "rangeiter":
				if expandLoop == nil || len(l.Blocks) < len(expandLoop.Blocks) {
					expandLoop = l
				}
			}
		}
		// choose innermost loops by their distinguishing call
		pick := func(name string) *Loop {
			var best *Loop
			for _, l := range loops {
				if l.Kind != "for" && l.containsInstr(isCallNamed(name)) {
					if best == nil || len(l.Blocks) < len(best.Blocks) {
						best = l
					}
				}
			}
			return best
		}
		expandLoop, opLoop, txLoop = pick("expandScopeHorizons"), pick("AddWatchedOutPoint"), pick("addRelevantTx")
		var filter *ssa.Call
		for _, ci := range callsOf(rsa) {
			if call, ok := ci.(*ssa.Call); ok && isInvokeNamed("FilterBlocks")(call) {
				filter = call
			}
		}
		if filter == nil || expandLoop == nil {
			c.Check("C16-R1", "recovery-loop-shape", rsa.Pos(), false, "recoverScopedAddresses has no FilterBlocks call or no horizon-expansion loop (undecided)")
		} else {
			// every path to FilterBlocks passes the expansion loop header since entry / since the previous response
			inHeader := func(l *Loop) func(ssa.Instruction) bool {
				return func(ins ssa.Instruction) bool { return ins.Block() == l.Header }
			}
			q := &PathQuery{Fn: rsa, Barrier: inHeader(expandLoop)}
			q.Target = func(ins ssa.Instruction, via *ssa.BasicBlock) bool { return ins == ssa.Instruction(filter) }
			c.Check("C16-R1", "expand-before-first-filter", filter.Pos(), len(q.From(nil)) == 0, "FilterBlocks can be requested without the scopes' horizons having been expanded")
			c.Check("C16-R1", "expand-before-every-retry-filter", filter.Pos(), len(q.From(filter)) == 0, "after processing a response, FilterBlocks can be requested again without re-expanding the horizons (newly found addresses' look-ahead is not watched)")
			bad := expandLoop.MustPassPerIteration(p, isCallNamed("expandScopeHorizons"))
			c.Check("C16-R1", "every-scope-expanded", expandLoop.Header.Instrs[0].Pos(), bad == "" && len(expandLoop.EarlyExits(p)) == 0 && strings.Contains(expandLoop.Over, "scopedMgrs"),
				"the horizon-expansion loop does not expand every scoped manager ("+bad+")")
			// the filter request is built from the (remaining) batch and the recovery state
			okReq := false
			if len(filter.Call.Args) == 1 {
				if rq, ok := filter.Call.Args[0].(*ssa.Call); ok && calleeShort(&rq.Call) == "newFilterBlocksRequest" {
					okReq = true
				}
			}
			c.Check("C16-R1", "filter-request-from-current-state", filter.Pos(), okReq, "the filter request is not built by newFilterBlocksRequest from the current batch and recovery state")

			// R2: from the non-nil response edge
			n := 0
			for _, b := range rsa.Blocks {
				for si := range b.Succs {
					f := edgeFactOf(b, si)
					if f == nil || f.Kind != "nonnil" {
						continue
					}
					ex, ok := f.V.(*ssa.Extract)
					if !ok || ex.Tuple != ssa.Value(filter) || ex.Index != 0 {
						continue
					}
					n++
					type need struct {
						name string
						pred func(ssa.Instruction) bool
						msg  string
					}
					needs := []need{{"extendFoundAddresses", isCallNamed("extendFoundAddresses"), "found addresses are not extended/marked used"}}
					if opLoop != nil {
						needs = append(needs, need{"watch-found-outpoints", inHeader(opLoop), "found outpoints are not registered as watched (their later spends go unnoticed)"})
					}
					if txLoop != nil {
						needs = append(needs, need{"record-relevant-transactions", inHeader(txLoop), "relevant transactions of the block are not recorded"})
					}
					for _, nd := range needs {
						q := &PathQuery{Fn: rsa, Barrier: nd.pred}
						q.Target = func(ins ssa.Instruction, via *ssa.BasicBlock) bool {
							if ins == ssa.Instruction(filter) {
								return true // reached the next request
							}
							return p.nonErrorReturn()(ins, via)
						}
						hits := exploreFromBlock(q, b.Succs[si], b)
						detail := nd.msg
						if len(hits) > 0 {
							detail += " on the path reaching " + p.Pos(hits[0].Ins.Pos())
						}
						c.Check("C16-R2", "response-consumed:"+nd.name, lastPos(b), len(hits) == 0, "after a filter response, "+detail)
					}
				}
			}
			c.Floor("C16-R2", "non-nil response branch", n, 1)
			c.Check("C16-R2", "loops-present", rsa.Pos(), opLoop != nil && txLoop != nil, "the loops over FoundOutPoints / RelevantTxns were not found")
			if opLoop != nil {
				bad := opLoop.MustPassPerIteration(p, isCallNamed("AddWatchedOutPoint"))
				c.Check("C16-R2", "every-found-outpoint-watched", opLoop.Header.Instrs[0].Pos(), bad == "" && len(opLoop.EarlyExits(p)) == 0 && strings.Contains(opLoop.Over, "FoundOutPoints"), "a found outpoint can be skipped ("+bad+")")
			}
			if txLoop != nil {
				bad := txLoop.MustPassPerIteration(p, isCallNamed("addRelevantTx"))
				c.Check("C16-R2", "every-relevant-tx-recorded", txLoop.Header.Instrs[0].Pos(), bad == "" && len(txLoop.EarlyExits(p)) == 0 && strings.Contains(txLoop.Over, "RelevantTxns"), "a relevant transaction can be skipped ("+bad+")")
			}
			// batch re-sliced from BatchIndex+1
			okSlice := false
			for _, b := range rsa.Blocks {
				for _, ins := range b.Instrs {
					if sl, ok := ins.(*ssa.Slice); ok && sl.Low != nil && sl.High == nil {
						if p.linearize(sl.Low, 0).String() == "+1*field:BatchIndex +1" {
							okSlice = true
						}
					}
				}
			}
			c.Check("C16-R2", "batch-resumes-after-matched-block", rsa.Pos(), okSlice, "the remaining batch is not batch[BatchIndex+1:] (the matched block is rescanned forever or a block is skipped)")
		}
	}

	// ---------- R3 order inside extendFoundAddresses ----------
	if efa := c.P.Func("wallet", "", "extendFoundAddresses"); efa != nil {
		efaLoops := loopsOf(efa)
		// an "extend site" of a branch: the call of Extend<Branch>Addresses inside the per-scope loop, or — when the two
		// per-branch bodies are one shared private helper — the helper's call of its function parameter, taken once per
		// call site of the helper with the method that call site passes.
		type extSite struct {
			unit   *ssa.Function // function holding the report / extend / mark sequence
			e      *ssa.Call     // the extend call in unit
			inEfa  *ssa.Call     // the call in extendFoundAddresses that runs the sequence for this branch
			branch string        // branch record handed to a shared helper ("" when the sequence is inline)
		}
		sites := map[string][]extSite{}
		brOf := func(name string) string {
			for _, br := range []string{"External", "Internal"} {
				if name == "Extend"+br+"Addresses" {
					return br
				}
			}
			return ""
		}
		for _, f := range p.regionOf(efa) {
			for _, ci := range callsOf(f) {
				call, ok := ci.(*ssa.Call)
				if !ok {
					continue
				}
				if br := brOf(calleeShort(&call.Call)); br != "" && call.Call.StaticCallee() != nil {
					if f == efa {
						sites[br] = append(sites[br], extSite{unit: f, e: call, inEfa: call})
					} else {
						for _, cs := range p.realCallers(f) {
							if cc, ok := cs.(*ssa.Call); ok && cc.Parent() == efa {
								sites[br] = append(sites[br], extSite{unit: f, e: call, inEfa: cc})
							}
						}
					}
					continue
				}
				// a call of a function-typed parameter of a private part: resolved per call site of the part
				prm, ok := call.Call.Value.(*ssa.Parameter)
				if !ok || call.Call.IsInvoke() || f == efa || f.Parent() != nil {
					continue
				}
				idx := paramIndex(f, prm)
				for _, cs := range p.realCallers(f) {
					cc, ok := cs.(*ssa.Call)
					if !ok || cc.Parent() != efa || idx < 0 || idx >= len(cc.Call.Args) {
						continue
					}
					g := p.underlying(fnValueOf(cc.Call.Args[idx]))
					if g == nil {
						continue
					}
					br := brOf(g.Name())
					if br == "" {
						continue
					}
					branch := ""
					for _, a := range cc.Call.Args {
						if _, fld, _, ok := fieldOf(stripConv(a)); ok && strings.HasSuffix(fld, "Branch") {
							branch = fld
						}
					}
					sites[br] = append(sites[br], extSite{unit: f, e: call, inEfa: cc, branch: branch})
				}
			}
		}
		for _, br := range []string{"External", "Internal"} {
			ext := sites[br]
			if len(ext) != 1 {
				c.Check("C16-R3", "extend-call:"+br, efa.Pos(), false, fmt.Sprintf("%d calls to Extend%sAddresses", len(ext), br))
				continue
			}
			st := ext[0]
			e, unit := st.e, st.unit
			outer := innermostLoopOf(efaLoops, st.inEfa)
			if outer == nil {
				c.Check("C16-R3", "extend-per-scope:"+br, e.Pos(), false, "Extend"+br+"Addresses is not inside the per-scope loop")
				continue
			}
			c.Check("C16-R3", "scope-loop-over-found:"+br, outer.Header.Instrs[0].Pos(), strings.Contains(outer.Over, "Found"+br+"Addrs") && len(outer.EarlyExits(p)) == 0 &&
				(st.branch == "" || st.branch == br+"Branch"),
				"the per-scope loop does not range completely over Found"+br+"Addrs ("+outer.Over+"), or hands the other branch's record to the shared per-branch step")
			// report loop and mark loop: inside the per-scope loop when the sequence is inline, the helper's loops otherwise
			loops := efaLoops
			if unit != efa {
				loops = loopsOf(unit)
			}
			var rep, mark *Loop
			for _, l := range loops {
				if unit == efa && (l == outer || !outer.Blocks[l.Header]) {
					continue
				}
				if l.containsInstr(isCallNamed("ReportFound")) {
					rep = l
				}
				if l.containsInstr(isCallNamed("MarkUsed")) {
					mark = l
				}
			}
			okOrder := rep != nil && mark != nil
			if okOrder {
				// from the start of the per-scope step to Extend: passes report loop header and NextUnfound
				type start struct{ b, via *ssa.BasicBlock }
				var starts []start
				if unit == efa {
					for _, entry := range outer.bodyEntries() {
						starts = append(starts, start{entry, outer.Header})
					}
				} else {
					starts = append(starts, start{unit.Blocks[0], nil})
				}
				for _, nd := range []func(ssa.Instruction) bool{func(i ssa.Instruction) bool { return i.Block() == rep.Header }, isCallNamed("NextUnfound")} {
					for _, sp := range starts {
						q := &PathQuery{Fn: unit, Barrier: nd}
						q.Target = func(ins ssa.Instruction, via *ssa.BasicBlock) bool { return ins == ssa.Instruction(e) }
						if len(exploreFromBlock(q, sp.b, sp.via)) > 0 {
							okOrder = false
						}
					}
				}
				// NextUnfound after the report loop: the call is not inside rep and rep.Header dominates it
				for _, nu := range callsNamed(unit, "NextUnfound") {
					if (unit != efa || outer.Blocks[nu.Block()]) && !(rep.Header.Dominates(nu.Block()) && !rep.Blocks[nu.Block()]) {
						okOrder = false
					}
				}
				// from Extend to the next scope: passes mark loop header
				q := &PathQuery{Fn: unit, Barrier: func(i ssa.Instruction) bool { return i.Block() == mark.Header }}
				if unit == efa {
					q.LoopExit = func(from, to *ssa.BasicBlock) bool { return to == outer.Header }
				}
				q.Target = p.nonErrorReturn()
				if len(q.From(e)) > 0 {
					okOrder = false
				}
				bad1 := rep.MustPassPerIteration(p, isCallNamed("ReportFound"))
				bad2 := mark.MustPassPerIteration(p, isCallNamed("MarkUsed"))
				if bad1 != "" || bad2 != "" || len(rep.EarlyExits(p)) > 0 || len(mark.EarlyExits(p)) > 0 {
					okOrder = false
				}
				// a shared step runs to completion for the scope: its failure leaves the per-scope loop with the error
				if unit != efa && len(outer.EarlyExits(p)) > 0 {
					okOrder = false
				}
			}
			c.Check("C16-R3", "report-then-extend-then-mark:"+br, e.Pos(), okOrder,
				"per scope the "+br+" branch does not run: report every found index -> NextUnfound -> Extend"+br+"Addresses -> MarkUsed for every found address")
			// argument: NextUnfound clamped (n-1 when n>0)
			okArg := false
			if ph, ok := e.Call.Args[len(e.Call.Args)-1].(*ssa.Phi); ok {
				var forms []string
				for _, ed := range ph.Edges {
					forms = append(forms, p.linearize(ed, 0).String())
				}
				sort.Strings(forms)
				okArg = len(forms) == 2 && forms[0] == "+1*call:NextUnfound() +0" && forms[1] == "+1*call:NextUnfound() -1" ||
					len(forms) == 2 && strings.HasSuffix(forms[0], " +0") && strings.HasSuffix(forms[1], " -1") && strings.Contains(forms[0], "NextUnfound") && strings.Contains(forms[1], "NextUnfound")
			}
			c.Check("C16-R3", "extend-to-last-found:"+br, e.Pos(), okArg, "Extend"+br+"Addresses is not called with NextUnfound()-1 (clamped at 0): the persisted next index would not end above the highest used address")
		}
	} else {
		c.Unresolved("C16-R3", "wallet.extendFoundAddresses")
	}

	// ---------- R4 branch consistency ----------
	nB := 0
	var fns []*ssa.Function
	for _, name := range []string{"extendFoundAddresses", "expandScopeHorizons", "newFilterBlocksRequest"} {
		if f := c.P.Func("wallet", "", name); f != nil {
			fns = append(fns, f)
		} else {
			c.Unresolved("C16-R4", "wallet."+name)
		}
	}
	if f := c.P.Func("wallet", "RecoveryManager", "Resurrect"); f != nil {
		fns = append(fns, f)
	} else {
		c.Unresolved("C16-R4", "wallet.RecoveryManager.Resurrect")
	}
	for _, fn := range fns {
		for _, f := range Closures(fn) {
			for _, b := range f.Blocks {
				for _, ins := range b.Instrs {
					toks := map[string]bool{}
					what := ""
					switch x := ins.(type) {
					case *ssa.Call:
						name := calleeShort(&x.Call)
						what = name
						add := func(m map[string]bool) {
							for k := range m {
								toks[k] = true
							}
						}
						if strings.Contains(name, "External") || strings.Contains(name, "external") {
							toks["External"] = true
						}
						if (strings.Contains(name, "Internal") || strings.Contains(name, "internal")) && !strings.Contains(name, "InternalAccount") {
							toks["Internal"] = true
						}
						args := x.Call.Args
						if x.Call.IsInvoke() {
							add(branchTokens(p, x.Call.Value))
						}
						for _, a := range args {
							add(branchTokens(p, a))
						}
					case *ssa.MapUpdate:
						what = "map update"
						for _, v := range []ssa.Value{x.Map, x.Key, x.Value} {
							for k := range branchTokens(p, v) {
								toks[k] = true
							}
						}
					default:
						continue
					}
					if len(toks) == 0 {
						continue
					}
					nB++
					c.Check("C16-R4", "branch-consistent:"+fn.Name()+"/"+what, ins.Pos(), len(toks) == 1,
						"external-branch and internal-branch values are mixed in one operation ("+tokensString(toks)+"): the look-ahead of one branch is driven by the other branch's progress")
				}
			}
		}
	}
	c.Floor("C16-R4", "branch-typed operations", nB, 20)
	for name, want := range map[string]string{"externalKeyPath": "ExternalBranch", "internalKeyPath": "InternalBranch"} {
		fn := c.P.Func("wallet", "", name)
		if fn == nil {
			c.Unresolved("C16-R4", "wallet."+name)
			continue
		}
		wv, okc := constInPkg(p, "waddrmgr", want)
		ok := false
		for _, st := range storesToFieldOwner(fn, "DerivationPath", "Branch") {
			if k, isK := constInt(st.Val); isK && okc && k == wv {
				ok = true
			}
		}
		okIdx := false
		for _, st := range storesToFieldOwner(fn, "DerivationPath", "Index") {
			if prm, isP := st.Val.(*ssa.Parameter); isP && paramIndex(fn, prm) == 0 {
				okIdx = true
			}
		}
		c.Check("C16-R4", "key-path-branch-constant:"+name, fn.Pos(), ok && okIdx, name+" does not build the path with Branch="+want+" and the given index")
	}

	checkIssuerAddrType(c, "C16-R4")
	checkFilterConsultsOutpointSets(c, "C16-R2")
	checkFilterBlockVisitsEveryTx(c, "C16-R2")
	checkWatchedAddressSetOnlyGrows(c, "C16-R6")
	checkAddrTypeFollowsBranch(c, "C16-R4")
	checkRecoveryStartsAtCurrentBirthdayBlock(c, "C16-R6")
	checkAddressLookupsNormalisePayToPubKey(c, "C16-R2")
	checkRecoveryFailureFailsSync(c, "C16-R6")
	checkFilterFetchFailureIsAnError(c, "C16-R2")
	checkUnsignedSubtractionsAreGuarded(c, "C16-R1")
	checkBirthdaySearchGivesUpOnlyAtABound(c, "C16-R6")
	checkBlockBatchOnlyGrowsInAdd(c, "C16-R5")
	checkFirstSyncRetryConsultsPersistedBirthdayBlock(c, "C16-R6")
	checkNextIndexGuardsStayOnTheirBranch(c, "C16-R4")
	if sb := c.P.Func("wallet", "walletBirthdayStore", "SetBirthdayBlock"); sb != nil {
		nBody := 0
		for _, f := range c.P.regionOf(sb) {
			if len(callsNamed(f, "SetBirthdayBlock")) == 0 {
				continue
			}
			nBody++
			checkMustPassOnSuccess(c, "C16-R6", "birthday-block-rebase-moves-synced-to", f, "SetSyncedTo",
				"walletBirthdayStore.SetBirthdayBlock can report success without moving the synced-to block to the corrected birthday block: the recovery starts above it and the blocks in between are never scanned")
		}
		c.Floor("C16-R6", "database transactions of walletBirthdayStore.SetBirthdayBlock", nBody, 1)
	} else {
		c.Unresolved("C16-R6", "wallet.walletBirthdayStore.SetBirthdayBlock")
	}
	checkNoEarlySuccessExit(c, "C16-R2", "relevant-tx-credits-every-output", c.P.Func("wallet", "Wallet", "addRelevantTx"), "TxOut",
		"addRelevantTx can report success before every output of the transaction was looked at: an output after one that is skipped gets no credit")
	checkResurrectReportsEveryRecordedKey(c, "C16-R6")
	checkFilterLengthGuardAdmitsOneElement(c, "C16-R2")
	// "interrupted-and-resumed recoveries": a batch that fails is rolled back and repeated by the next attempt in the same
	// process; the repetition re-derives and re-stores what the failed batch found only if the manager's in-memory indices
	// went back with the database. The extension used by the recovery advances them eagerly (finding F5, here as it
	// shows in a recovery: C08-R1's rule, for the extension path only)
	checkIndexMirrorsOnlyAtCommit(c, "C16-R3", func(top string) bool { return top != "extendAddresses" })
	checkWatchListCoversEveryRequestComponent(c, "C16-R1")
	checkNeutrinoRecoveryWaitsForBackend(c, "C16-R6")
	checkBirthdayMargin(c, "C16-R6")
	checkFoundIndexSetsAccumulate(c, "C16-R2")
	checkFilterRequestCarriesEveryAddress(c, "C16-R1")
	checkRecoveryWindowForms(c, "C16-R6")
	// ---------- R5 ----------
	if rec := walletFn(c, "C16-R5", "recovery"); rec != nil {
		n := 0
		for _, f := range c.P.regionOf(rec) {
			calls := callsNamed(f, "recoverScopedAddresses")
			if len(calls) == 0 {
				continue
			}
			n++
			var stampLoop *Loop
			for _, l := range loopsOf(f) {
				if l.containsInstr(isCallNamed("SetSyncedTo")) {
					stampLoop = l
				}
			}
			ok := stampLoop != nil
			if ok {
				// stamps only after recoverScopedAddresses succeeded, every block stamped
				q := &PathQuery{Fn: f, Barrier: func(i ssa.Instruction) bool { return i == ssa.Instruction(calls[0]) }}
				q.Target = func(ins ssa.Instruction, via *ssa.BasicBlock) bool { return isCallNamed("SetSyncedTo")(ins) }
				if len(q.From(nil)) > 0 {
					ok = false
				}
				if stampLoop.MustPassPerIteration(p, isCallNamed("SetSyncedTo")) != "" || len(stampLoop.EarlyExits(p)) > 0 {
					ok = false
				}
				bad := p.mustPassToSuccess(f, calls[0], func(i ssa.Instruction) bool { return i.Block() == stampLoop.Header }, nil)
				if bad != nil {
					ok = false
				}
			}
			c.Check("C16-R5", "batch-stamps-in-same-update-after-recovery", calls[0].Pos(), ok && inTxRunner(f),
				"the batch's synced-to stamps are not written for every block, after recoverScopedAddresses, inside the same walletdb.Update")
		}
		c.Floor("C16-R5", "recovery batch transactions", n, 1)
	}
	if esh := c.P.Func("wallet", "", "expandScopeHorizons"); esh != nil {
		n := 0
		for _, l := range loopsOf(esh) {
			if l.Kind != "for" || !l.containsInstr(isCallNamed("AddAddr")) {
				continue
			}
			n++
			// loop condition: count < window (window from ExtendHorizon #1)
			okCond := false
			counterAtom := "" // the loop-carried counter is identified by its role in the loop condition, not by its name
			if iff, ok := l.Header.Instrs[len(l.Header.Instrs)-1].(*ssa.If); ok {
				if f, okf := p.cmpForm(iff.Cond, true); okf && f.Rel == "<" && f.L.Konst == 0 && len(f.L.Coef) == 2 && f.L.Coef["call:ExtendHorizon#1"] == -1 {
					for a, cf := range f.L.Coef {
						if strings.HasPrefix(a, "phi:") && cf == 1 {
							counterAtom = a
							okCond = true
						}
					}
				}
			}
			formSeen := ""
			if iff, ok := l.Header.Instrs[len(l.Header.Instrs)-1].(*ssa.If); ok {
				if f, okf := p.cmpForm(iff.Cond, true); okf {
					formSeen = f.String()
				}
			}
			c.Check("C16-R5", "horizon-expansion-counts-to-window", l.Header.Instrs[0].Pos(), okCond, "the horizon expansion loop does not run while count < window returned by ExtendHorizon (condition form: "+formSeen+")")
			// the counter is advanced only on iterations that registered an address
			var countPhi *ssa.Phi
			for _, ins := range l.Header.Instrs {
				if ph, ok := ins.(*ssa.Phi); ok && counterAtom != "" && "phi:"+ph.Comment == counterAtom {
					countPhi = ph
				}
			}
			okCount := countPhi != nil
			if okCount {
				for i, e := range countPhi.Edges {
					pred := l.Header.Preds[i]
					if !l.Blocks[pred] {
						continue
					}
					ll := p.linearize(e, 0)
					inc := ll.Konst == 1
					// does this back edge come from a path through AddAddr?
					passed := !reachableAvoidingInstr(esh, l, pred, isCallNamed("AddAddr"))
					if inc != passed {
						okCount = false
					}
				}
			}
			c.Check("C16-R5", "counter-advances-only-with-registered-address", l.Header.Instrs[0].Pos(), okCount,
				"the look-ahead counter is advanced without registering an address (or an address is registered without counting): fewer/more than `window` valid children are watched")
		}
		c.Floor("C16-R5", "horizon expansion loops", n, 2)
	} else {
		c.Unresolved("C16-R5", "wallet.expandScopeHorizons")
	}
}

// inTxRunner: closure f is passed to a write-transaction runner.
func inTxRunner(f *ssa.Function) bool {
	if f.Parent() == nil {
		return false
	}
	for _, b := range f.Parent().Blocks {
		for _, ins := range b.Instrs {
			call, ok := ins.(*ssa.Call)
			if !ok || !isTxRunner(call.Common(), true) {
				continue
			}
			for _, g := range funcArgs(call) {
				if g == f {
					return true
				}
			}
		}
	}
	return false
}

// reachableAvoidingInstr: within loop l, can block `to` be reached from the body entry without passing an instruction satisfying pred?
func reachableAvoidingInstr(fn *ssa.Function, l *Loop, to *ssa.BasicBlock, pred func(ssa.Instruction) bool) bool {
	for _, entry := range l.bodyEntries() {
		q := &PathQuery{Fn: fn, Barrier: pred}
		q.EdgeBarrier = func(from *ssa.BasicBlock, si int) bool {
			return !l.Blocks[from.Succs[si]] || from.Succs[si] == l.Header
		}
		q.Target = func(ins ssa.Instruction, via *ssa.BasicBlock) bool {
			return ins.Block() == to && ins == to.Instrs[len(to.Instrs)-1]
		}
		if len(exploreFromBlock(q, entry, l.Header)) > 0 {
			return true
		}
	}
	return false
}

// checkRecoveryStartsAtCurrentBirthdayBlock: the startup path may MOVE the birthday block (a reorganisation reaching
// below it re-bases the birthday block onto the fork point) before it starts the recovery. The recovery skips every block
// below the stamp it is handed, so that stamp must be able to be the block just recorded: every block stamp cell that
// the startup path hands to SetBirthdayBlock is one the recovery's stamp argument can come from (the same variable, or
// a variable that is assigned from it). Otherwise the new chain's blocks between the fork point and the old birthday
// height are marked synced without being filtered, and payments in them are never found.
func checkRecoveryStartsAtCurrentBirthdayBlock(c *Ctx, rule string) {
	p := c.P
	syn := p.Func("wallet", "Wallet", "syncWithChain")
	setBday := p.Func("waddrmgr", "Manager", "SetBirthdayBlock")
	if syn == nil || setBday == nil {
		c.Unresolved(rule, "wallet.syncWithChain / waddrmgr.Manager.SetBirthdayBlock")
		return
	}
	// the cell (variable) a value is read from: the allocation, parameter or captured variable behind its loads
	// (a field of a small private struct — a closure's captured variables spelled as fields — is a cell of its own)
	var cellOf func(v ssa.Value, depth int) interface{}
	cellOf = func(v ssa.Value, depth int) interface{} {
		v = stripConv(v)
		if fc, ok := privateFieldCell(v); ok {
			return fc
		}
		if depth > 4 {
			return v
		}
		switch x := v.(type) {
		case *ssa.UnOp:
			if x.Op == token.MUL {
				return cellOf(x.X, depth+1)
			}
		case *ssa.FreeVar:
			if r := freeVarRoot(x); r != ssa.Value(x) {
				return cellOf(r, depth+1)
			}
		case *ssa.Alloc:
			// a parameter spilled to the stack stands for the parameter
			if isParamSpill(x) {
				for _, st := range storesTo(x) {
					if prm, ok := st.Val.(*ssa.Parameter); ok {
						return prm
					}
				}
			}
		}
		return v
	}
	region := p.regionOf(syn)
	storesIntoCell := func(cell interface{}) []ssa.Value {
		var out []ssa.Value
		for _, f := range region {
			for _, b := range f.Blocks {
				for _, ins := range b.Instrs {
					if st, ok := ins.(*ssa.Store); ok && cellOf(st.Addr, 0) == cell {
						_, isFA := stripConv(st.Addr).(*ssa.FieldAddr)
						if _, isFC := cell.(fieldCell); !isFA || isFC {
							out = append(out, st.Val)
						}
					}
				}
			}
		}
		return out
	}
	// cells the recovery's stamp can come from: its own variable, and transitively every variable assigned into it
	var rec *ssa.Call
	for _, f := range region {
		for _, call := range callsNamed(f, "recovery") {
			rec = call
		}
	}
	if rec == nil {
		c.Check(rule, "recovery-call", syn.Pos(), false, "syncWithChain does not start the recovery (undecided)")
		return
	}
	arg := p.argNamed(rec, "birthdayBlock", 2)
	if arg == nil {
		c.Check(rule, "recovery-call", rec.Pos(), false, "the recovery's birthday stamp argument could not be identified (undecided)")
		return
	}
	from := map[interface{}]bool{}
	var grow func(v ssa.Value, depth int)
	grow = func(v ssa.Value, depth int) {
		cell := cellOf(v, 0)
		if from[cell] || depth > 6 {
			return
		}
		from[cell] = true
		for _, sv := range storesIntoCell(cell) {
			grow(sv, depth+1)
		}
		if ph, ok := cell.(*ssa.Phi); ok {
			for _, e := range ph.Edges {
				grow(e, depth+1)
			}
		}
		// the stamp handed into a private part of the startup path: what its call sites pass
		if prm, ok := cell.(*ssa.Parameter); ok && prm.Parent() != syn && p.inRegion(syn, prm.Parent()) {
			idx := paramIndex(prm.Parent(), prm)
			for _, cs := range p.realCallers(prm.Parent()) {
				if args := cs.Common().Args; idx >= 0 && idx < len(args) {
					grow(args[idx], depth+1)
				}
			}
		}
		// the stamp handed back by a private part of the startup path: what that part can return
		var call *ssa.Call
		idx := 0
		switch x := cell.(type) {
		case *ssa.Extract:
			call, _ = x.Tuple.(*ssa.Call)
			idx = x.Index
		case *ssa.Call:
			call = x
		}
		if call != nil {
			if g := call.Call.StaticCallee(); g != nil && len(g.Blocks) > 0 && p.inRegion(syn, g) {
				for _, b := range g.Blocks {
					if r, ok := b.Instrs[len(b.Instrs)-1].(*ssa.Return); ok && idx < len(r.Results) {
						grow(r.Results[idx], depth+1)
					}
				}
			}
		}
	}
	grow(arg, 0)
	n := 0
	for _, f := range region {
		for _, ci := range callsOf(f) {
			call, ok := ci.(*ssa.Call)
			if !ok || !p.isCallTo(call, setBday) {
				continue
			}
			stamp := p.argNamed(call, "block", 2)
			if stamp == nil {
				continue
			}
			n++
			cell := cellOf(stamp, 0)
			c.Check(rule, "recovery-starts-at-recorded-birthday-block:"+fnName(f), call.Pos(), from[cell],
				fnName(f)+" records a new birthday block, but the recovery that follows is handed a stamp that cannot be that block: it skips the blocks below the OLD birthday height, so after a reorganisation reaching below the birthday block the new chain's blocks above the fork point are marked synced without being scanned")
		}
	}
	c.Floor(rule, "birthday-block recordings on the startup path", n, 2)
}

// checkWatchListCoversEveryRequestComponent: on the compact-filter backends a block is fetched and looked at only if its
// filter matches the watch list built from the filter request. That list is built from EVERY address-carrying component
// of the request — both branches' address sets and the watched outpoints: each map-typed field of the request is ranged
// over by the builder, every iteration appending to the list. A component ranged over twice in place of another drops
// that branch: payments to it in blocks that touch nothing else of the wallet are never found.
func checkWatchListCoversEveryRequestComponent(c *Ctx, rule string) {
	p := c.P
	fn := p.Func("chain", "", "buildFilterBlocksWatchList")
	if fn == nil {
		c.Unresolved(rule, "chain.buildFilterBlocksWatchList")
		return
	}
	// the map-typed fields of the request struct
	var fields []string
	if len(fn.Params) > 0 {
		t := fn.Params[0].Type()
		if pt, ok := t.Underlying().(*types.Pointer); ok {
			t = pt.Elem()
		}
		if st, ok := t.Underlying().(*types.Struct); ok {
			for i := 0; i < st.NumFields(); i++ {
				if _, isMap := st.Field(i).Type().Underlying().(*types.Map); isMap {
					fields = append(fields, st.Field(i).Name())
				}
			}
		}
	}
	// an append to the list: the builtin, or a private helper that hands back its list argument extended on every success
	var isAppend func(ins ssa.Instruction) bool
	isAppend = func(ins ssa.Instruction) bool {
		call, ok := ins.(*ssa.Call)
		if !ok {
			return false
		}
		if calleeShort(&call.Call) == "append" {
			return true
		}
		g := call.Call.StaticCallee()
		if g == nil || len(g.Blocks) == 0 || !p.inRegion(fn, g) {
			return false
		}
		q := &PathQuery{Fn: g, Target: p.nonErrorReturn()}
		hits := q.From(nil)
		for _, h := range hits {
			r, ok := h.Ins.(*ssa.Return)
			if !ok {
				return false
			}
			okR := false
			for _, rv := range r.Results {
				if ac, ok := stripConv(rv).(*ssa.Call); ok && calleeShort(&ac.Call) == "append" && len(ac.Call.Args) > 0 {
					if _, isPrm := p.slicerFirstParam(ac.Call.Args[0]); isPrm {
						okR = true
					}
				}
			}
			if !okR {
				return false
			}
		}
		return len(hits) > 0
	}
	ranged := map[string]bool{}
	for _, f := range p.regionOf(fn) {
		for _, l := range loopsOf(f) {
			if l.Kind == "for" {
				continue
			}
			appends := l.containsInstr(isAppend)
			if !appends {
				continue
			}
			for _, fld := range fields {
				if strings.HasSuffix(l.Over, "field:"+fld) || strings.HasSuffix(l.Over, "."+fld) || strings.Contains(l.Over, fld) {
					if bad := l.MustPassPerIteration(p, isAppend); bad == "" {
						ranged[fld] = true
					}
				}
			}
		}
	}
	for _, fld := range fields {
		c.Check(rule, "watch-list-covers-request-component:"+fld, fn.Pos(), ranged[fld],
			"the compact-filter watch list is not built from the request's "+fld+": blocks whose only wallet-relevant content concerns that component never match their filter, are never fetched, and the addresses they pay (and every later index only they bring into the window) are never found")
	}
	c.Floor(rule, "address-carrying components of the filter request", len(fields), 3)
}

// checkNeutrinoRecoveryWaitsForBackend: the recovery reads the backend's best height once, at its start, and scans with
// its look-ahead up to that height only; what arrives later comes through the ordinary rescan, which has no look-ahead.
// A light client that is still catching up therefore has to be waited for: the recovery is reachable without the
// wait-until-synced step only over the edge on which "this is a recovery on the neutrino backend" is false.
func checkNeutrinoRecoveryWaitsForBackend(c *Ctx, rule string) {
	p := c.P
	sw := p.Func("wallet", "Wallet", "syncWithChain")
	if sw == nil {
		c.Unresolved(rule, "wallet.Wallet.syncWithChain")
		return
	}
	fromBackEnd := func(v ssa.Value) bool {
		for _, o := range (&Slicer{P: p, ThroughBinOp: true}).Origins(v) {
			if call, ok := o.(*ssa.Call); ok && call.Call.IsInvoke() && call.Call.Method.Name() == "BackEnd" {
				return true
			}
		}
		return false
	}
	isNeutrinoRecovery := func(v ssa.Value) bool {
		if fromBackEnd(v) {
			return true
		}
		// `backend == "neutrino" && window > 0`: the short-circuit's merge, controlled by the backend test
		if ph, ok := stripConv(v).(*ssa.Phi); ok {
			if d := ph.Block().Idom(); d != nil && len(d.Instrs) > 0 {
				if iff, ok := d.Instrs[len(d.Instrs)-1].(*ssa.If); ok && fromBackEnd(iff.Cond) {
					return true
				}
			}
		}
		return false
	}
	n := 0
	for _, part := range p.regionOf(sw) {
		for _, call := range callsNamed(part, "recovery") {
			n++
			// (the recovery may be started from a private part of the startup path: then the wait precedes the part's call)
			waited := func(f *ssa.Function, at ssa.Instruction) bool {
				q := &PathQuery{Fn: f, Barrier: isCallNamed("waitUntilBackendSynced")}
				tgt := at
				q.Target = func(ins ssa.Instruction, _ *ssa.BasicBlock) bool { return ins == tgt }
				q.EdgeBarrier = func(from *ssa.BasicBlock, si int) bool {
					if len(from.Instrs) == 0 {
						return false
					}
					iff, ok := from.Instrs[len(from.Instrs)-1].(*ssa.If)
					if !ok {
						return false
					}
					inner, neg := unwrapNot(iff.Cond)
					if !isNeutrinoRecovery(inner) {
						return false
					}
					// the edge on which the flag is false
					if neg {
						return si == 0
					}
					return si == 1
				}
				return len(q.From(nil)) == 0
			}
			skipped := !p.precededInRegion(sw, call, waited, 0)
			c.Check(rule, "neutrino-recovery-waits-for-synced-backend", call.Pos(), !skipped,
				"syncWithChain can start the recovery on the neutrino backend without having waited for the backend to be synced: the look-ahead scan stops at the light client's current height, the rest of the chain is only rescanned for already known addresses, and addresses used beyond them are never found")
		}
	}
	c.Floor(rule, "recovery starts in syncWithChain", n, 1)
}

// slicerFirstParam: v is (a conversion / load of the spill of) a parameter of its function.
func (p *Program) slicerFirstParam(v ssa.Value) (*ssa.Parameter, bool) {
	v = stripConv(v)
	if prm, ok := v.(*ssa.Parameter); ok {
		return prm, true
	}
	if u, ok := v.(*ssa.UnOp); ok && u.Op == token.MUL {
		if al, ok := u.X.(*ssa.Alloc); ok && isParamSpill(al) {
			for _, st := range storesTo(al) {
				if prm, ok := st.Val.(*ssa.Parameter); ok {
					return prm, true
				}
			}
		}
	}
	return nil, false
}

// checkRecoveryFailureFailsSync: an interrupted recovery (backend error, wallet locked, shutdown) is resumed by the next
// synchronisation attempt from the last committed batch — provided the attempt it interrupted FAILS. If the startup path
// carries on after a failed recovery it submits the final rescan (which knows only the addresses found so far and has no
// look-ahead) and the wallet ends up marked synced to the tip: every later recovery starts above the unscanned blocks and
// what they pay is never found. Rule: after the call to the recovery, nothing but an error return is reachable unless the
// edge on which its error is nil was taken.
func checkRecoveryFailureFailsSync(c *Ctx, rule string) {
	p := c.P
	syn := p.Func("wallet", "Wallet", "syncWithChain")
	if syn == nil {
		c.Unresolved(rule, "wallet.Wallet.syncWithChain")
		return
	}
	n := 0
	for _, f := range p.regionOf(syn) {
		for _, call := range callsNamed(f, "recovery") {
			if call.Call.Signature().Results().Len() != 1 {
				continue
			}
			n++
			q := &PathQuery{Fn: f, Target: p.nonErrorReturn()}
			q.EdgeBarrier = func(from *ssa.BasicBlock, si int) bool {
				ef := edgeFactOf(from, si)
				return ef != nil && ef.Kind == "nil" && loadIsResultOf(ef.V, call)
			}
			hits := q.From(call)
			pos := call.Pos()
			if len(hits) > 0 {
				pos = hits[0].Ins.Pos()
			}
			c.Check(rule, "recovery-failure-fails-sync:"+fnName(f), pos, len(hits) == 0,
				fnName(f)+" can carry on and report success after the recovery returned an error: the final rescan and the synced-to stamps move past blocks the recovery never scanned with its look-ahead, and the resumed recovery starts above them")
		}
	}
	c.Floor(rule, "recovery calls on the startup path", n, 1)
}

// checkFilterFetchFailureIsAnError: a compact filter that could not be fetched must fail the filter request (the batch is
// rolled back and repeated) — answered as "no filter", the block is skipped as if nothing in it concerned the wallet and
// the recovery moves its sync point past it. The function that polls the chain service for a filter never returns
// (nil, nil): where its filter result is nil, its error result is not the nil constant.
func checkFilterFetchFailureIsAnError(c *Ctx, rule string) {
	p := c.P
	n := 0
	for _, fn := range p.FuncsIn("chain") {
		if fn.Signature.Results().Len() != 2 || !isErrorType(fn.Signature.Results().At(1).Type()) {
			continue
		}
		if len(callsNamed(fn, "GetCFilter")) == 0 {
			continue
		}
		if !strings.HasSuffix(fn.Signature.Results().At(0).Type().String(), "gcs.Filter") {
			continue
		}
		n++
		var bad ssa.Instruction
		for _, b := range fn.Blocks {
			r, ok := b.Instrs[len(b.Instrs)-1].(*ssa.Return)
			if !ok || len(r.Results) != 2 {
				continue
			}
			if len(b.Preds) == 0 && b != fn.Blocks[0] {
				continue // the recover block of a function with defers
			}
			if isNilConst(stripConv(effectiveResult(r, 0))) && isNilConst(stripConv(effectiveResult(r, 1))) {
				bad = r
			}
		}
		pos := fn.Pos()
		if bad != nil {
			pos = bad.Pos()
		}
		c.Check(rule, "filter-fetch-failure-is-an-error:"+fn.Name(), pos, bad == nil,
			fnName(fn)+" can answer (nil, nil) when the filter could not be fetched: FilterBlocks takes a nil filter for an empty one, skips the block, and the recovery marks it scanned — what it pays is never found")
	}
	c.Floor(rule, "functions fetching a compact filter for a block", n, 1)
}

// checkFilterLengthGuardAdmitsOneElement: before a raw filter is decoded, a length guard skips blocks whose filter is too
// short to hold anything. The shortest filter that holds ONE element is 1 byte of count plus the Golomb-Rice code of one
// value: a terminating quotient bit and P remainder bits — 1 + ceil((P+1)/8) bytes with the builder's DefaultP. The guard's
// skip edge must not admit that length, or a block whose only script is the payment to the wallet is never looked at.
func checkFilterLengthGuardAdmitsOneElement(c *Ctx, rule string) {
	p := c.P
	var defaultP int64 = -1
	for _, pk := range p.SSA.AllPackages() {
		if pk.Pkg != nil && strings.HasSuffix(pk.Pkg.Path(), "btcutil/gcs/builder") {
			if cst, ok := pk.Pkg.Scope().Lookup("DefaultP").(*types.Const); ok {
				defaultP, _ = constant.Int64Val(cst.Val())
			}
		}
	}
	if defaultP < 0 {
		c.Unresolved(rule, "gcs/builder.DefaultP")
		return
	}
	minOne := 1 + (defaultP+1+7)/8
	n := 0
	for _, fn := range p.FuncsIn("chain") {
		for _, dec := range callsNamed(fn, "FromNBytes") {
			if len(dec.Call.Args) < 3 {
				continue
			}
			data := p.linearize(dec.Call.Args[2], 0) // only to name the operand; compared through len() below
			_ = data
			for _, b := range fn.Blocks {
				if len(b.Instrs) == 0 || !b.Dominates(dec.Block()) {
					continue
				}
				iff, ok := b.Instrs[len(b.Instrs)-1].(*ssa.If)
				if !ok {
					continue
				}
				// the edge that does NOT lead to the decoding is the skip edge
				for si := range b.Succs {
					if s := b.Succs[si]; s == dec.Block() || (b.Dominates(s) && s.Dominates(dec.Block())) {
						continue
					}
					f, ok := p.cmpForm(iff.Cond, si == 0)
					if os.Getenv("VERIF_DEBUG") != "" {
						fmt.Println("DEBUG guard", fn.Name(), ok, f.L.String(), f.Rel)
					}
					if !ok || len(f.L.Coef) != 1 {
						continue
					}
					var coef int64
					isLen := false
					for k, v := range f.L.Coef {
						coef = v
						isLen = strings.HasPrefix(k, "call:len(") && strings.Contains(k, "Data")
					}
					if !isLen || (coef != 1 && coef != -1) {
						continue
					}
					// a*len + k REL 0  ->  the largest length the skip edge admits
					maxSkipped := int64(-1)
					switch {
					case coef == 1 && f.Rel == "<":
						maxSkipped = -f.L.Konst - 1
					case coef == 1 && f.Rel == "<=":
						maxSkipped = -f.L.Konst
					case coef == 1 && f.Rel == "==":
						maxSkipped = -f.L.Konst
					default:
						continue
					}
					n++
					c.Check(rule, "filter-length-guard-admits-one-element:"+fn.Name(), iff.Pos(), maxSkipped < minOne,
						fmt.Sprintf("%s skips a block without decoding its filter when the filter is up to %d bytes long; a filter holding one element is %d bytes (count byte + Golomb-Rice code with P=%d): a block whose only script pays the wallet is never fetched", fnName(fn), maxSkipped, minOne, defaultP))
				}
			}
		}
	}
	c.Floor(rule, "length guards in front of a raw filter's decoding", n, 1)
}
