package main

import (
	"fmt"
	"go/token"
	"go/types"
	"os"
	"path/filepath"
	"sort"
	"strings"

	"golang.org/x/tools/go/callgraph"
	"golang.org/x/tools/go/callgraph/cha"
	"golang.org/x/tools/go/callgraph/vta"
	"golang.org/x/tools/go/packages"
	"golang.org/x/tools/go/ssa"
	"golang.org/x/tools/go/ssa/ssautil"
)

const rootMod = "github.com/btcsuite/btcwallet"

var subModules = []string{"wtxmgr", "walletdb", "wallet/txauthor", "wallet/txrules", "wallet/txsizes"}

// Program is the unified, type-checked view of all six btcwallet modules
// loaded from the working tree under RepoDir.
type Program struct {
	RepoDir string
	Fset    *token.FileSet
	Pkgs    []*packages.Package // repo packages only
	ByPath  map[string]*packages.Package
	SSA     *ssa.Program
	SSAPkg  map[string]*ssa.Package
	// All functions (incl. anonymous) whose source is under RepoDir.
	RepoFuncs []*ssa.Function
	all       map[*ssa.Function]bool
	cha       *callgraph.Graph
	vta       *callgraph.Graph
	Files     int
	GOOS      string
	GOARCH    string

	nnErrCache   map[*ssa.Function]int
	nnPresCache  map[*ssa.Function]int
	sites        map[ssa.CallInstruction][]*ssa.Function
	reachCache   map[*ssa.Function]map[*ssa.Function]bool
	callerIdx    map[*ssa.Function][]ssa.CallInstruction
	users        map[*ssa.Function]map[*ssa.Function]bool
	regions      map[*ssa.Function][]*ssa.Function
	linFrames    []linFrame
	helperMemo   map[helperKey]int
	Canon        []string
	boundMemo    map[[2]interface{}][]ssa.Value
	onCommitBusy map[*ssa.Function]bool
}

func repoDir() string {
	if d := os.Getenv("VERIF_REPO"); d != "" {
		return d
	}
	return "/repo"
}

// writeUnifiedMod writes a scratch go.mod/go.sum that replaces the five
// sub-modules with their working-tree directories, so that one load sees
// /repo's sources for every module.
func writeUnifiedMod(repo, scratch string) (string, error) {
	mod, err := os.ReadFile(filepath.Join(repo, "go.mod"))
	if err != nil {
		return "", err
	}
	var b strings.Builder
	b.Write(mod)
	b.WriteString("\nreplace (\n")
	for _, m := range subModules {
		fmt.Fprintf(&b, "\t%s/%s => %s\n", rootMod, m, filepath.Join(repo, m))
	}
	b.WriteString(")\n")
	modPath := filepath.Join(scratch, "root.mod")
	if err := os.WriteFile(modPath, []byte(b.String()), 0o644); err != nil {
		return "", err
	}
	// go.sum: union of all module go.sum files.
	seen := map[string]bool{}
	var sum strings.Builder
	for _, m := range append([]string{"."}, subModules...) {
		data, err := os.ReadFile(filepath.Join(repo, m, "go.sum"))
		if err != nil {
			continue
		}
		for _, l := range strings.Split(string(data), "\n") {
			if l != "" && !seen[l] {
				seen[l] = true
				sum.WriteString(l + "\n")
			}
		}
	}
	if err := os.WriteFile(filepath.Join(scratch, "root.sum"), []byte(sum.String()), 0o644); err != nil {
		return "", err
	}
	return modPath, nil
}

// Load loads the unified program. goos/goarch may be empty for defaults.
func Load(repo, goos, goarch string) (*Program, error) {
	scratch, err := os.MkdirTemp("", "vcheck-mod-")
	if err != nil {
		return nil, err
	}
	defer os.RemoveAll(scratch)
	modPath, err := writeUnifiedMod(repo, scratch)
	if err != nil {
		return nil, err
	}
	env := []string{}
	for _, e := range os.Environ() {
		k := strings.SplitN(e, "=", 2)[0]
		switch k {
		case "GOFLAGS", "GOWORK", "GOPROXY", "GOSUMDB", "GOTOOLCHAIN", "GOOS", "GOARCH", "CGO_ENABLED":
			continue
		}
		env = append(env, e)
	}
	env = append(env, "GOFLAGS=-mod=mod", "GOWORK=off", "GOPROXY=off", "GOSUMDB=off", "GOTOOLCHAIN=local", "CGO_ENABLED=0")
	if goos != "" {
		env = append(env, "GOOS="+goos)
	}
	if goarch != "" {
		env = append(env, "GOARCH="+goarch)
	}
	fset := token.NewFileSet()
	cfg := &packages.Config{
		Mode:       packages.LoadAllSyntax,
		Dir:        repo,
		Env:        env,
		Fset:       fset,
		Tests:      false,
		BuildFlags: []string{"-modfile=" + modPath},
	}
	patterns := []string{"./..."}
	for _, m := range subModules {
		patterns = append(patterns, rootMod+"/"+m+"/...")
	}
	initial, err := packages.Load(cfg, patterns...)
	if err != nil {
		return nil, fmt.Errorf("packages.Load: %w", err)
	}
	p := &Program{RepoDir: repo, Fset: fset, ByPath: map[string]*packages.Package{}, SSAPkg: map[string]*ssa.Package{}, GOOS: goos, GOARCH: goarch}
	var errs []string
	collectErrs := func(pkgs []*packages.Package) []string {
		var es []string
		packages.Visit(pkgs, nil, func(pk *packages.Package) {
			for _, e := range pk.Errors {
				es = append(es, pk.PkgPath+": "+e.Error())
			}
		})
		return es
	}
	errs = collectErrs(initial)
	if len(errs) == 0 && writeNamesTo != "" {
		if err := writeNameSnapshot(initial, writeNamesTo); err != nil {
			return nil, err
		}
	}
	// identifier canonicalisation (names.go): renamed declarations are spelled with their reference names again
	if len(errs) == 0 && writeNamesTo == "" {
		if overlay, notes := canonicalOverlay(initial); len(overlay) > 0 {
			fset2 := token.NewFileSet()
			cfg2 := *cfg
			cfg2.Fset = fset2
			cfg2.Overlay = overlay
			again, err2 := packages.Load(&cfg2, patterns...)
			if err2 == nil && len(collectErrs(again)) == 0 {
				initial, fset = again, fset2
				p.Fset = fset2
				p.Canon = notes
			} else {
				p.Canon = []string{"canonicalisation abandoned: the program does not type-check with the reference names restored (a name collision); analysing it as written"}
			}
		}
	}
	if len(errs) > 0 {
		sort.Strings(errs)
		if len(errs) > 10 {
			errs = errs[:10]
		}
		return nil, fmt.Errorf("type-check/load errors:\n  %s", strings.Join(errs, "\n  "))
	}
	absRepo, _ := filepath.Abs(repo)
	absRepo, _ = filepath.EvalSymlinks(absRepo)
	for _, pk := range initial {
		if !strings.HasPrefix(pk.PkgPath, rootMod) {
			continue
		}
		for _, f := range pk.CompiledGoFiles {
			rf, _ := filepath.EvalSymlinks(f)
			if !strings.HasPrefix(rf, absRepo+string(filepath.Separator)) {
				return nil, fmt.Errorf("package %s file %s is not under %s (module-cache copy loaded?)", pk.PkgPath, f, absRepo)
			}
			p.Files++
		}
		p.Pkgs = append(p.Pkgs, pk)
		p.ByPath[pk.PkgPath] = pk
	}
	// also verify that imported btcwallet packages (deps of deps) resolve to repo
	packages.Visit(initial, nil, func(pk *packages.Package) {
		if strings.HasPrefix(pk.PkgPath, rootMod) && p.ByPath[pk.PkgPath] == nil {
			errs = append(errs, "btcwallet package outside initial set: "+pk.PkgPath)
		}
	})
	if len(errs) > 0 {
		return nil, fmt.Errorf("%s", strings.Join(errs, "; "))
	}
	sort.Slice(p.Pkgs, func(i, j int) bool { return p.Pkgs[i].PkgPath < p.Pkgs[j].PkgPath })
	if len(p.Pkgs) < 25 {
		return nil, fmt.Errorf("only %d btcwallet packages loaded (floor 25)", len(p.Pkgs))
	}

	prog, _ := ssautil.AllPackages(initial, ssa.InstantiateGenerics)
	prog.Build()
	p.SSA = prog
	for _, pk := range p.Pkgs {
		sp := prog.Package(pk.Types)
		if sp == nil {
			return nil, fmt.Errorf("no SSA package for %s", pk.PkgPath)
		}
		p.SSAPkg[pk.PkgPath] = sp
	}
	p.all = ssautil.AllFunctions(prog)
	for fn := range p.all {
		if p.InRepo(fn) {
			p.RepoFuncs = append(p.RepoFuncs, fn)
		}
	}
	sort.Slice(p.RepoFuncs, func(i, j int) bool {
		a, b := p.RepoFuncs[i], p.RepoFuncs[j]
		if a.Pos() != b.Pos() {
			return a.Pos() < b.Pos()
		}
		return a.String() < b.String()
	})
	theProg = p
	return p, nil
}

// writeNamesTo: when set (vcheck -write-names), Load writes the declaration snapshot of the loaded tree there.
var writeNamesTo string

// theProg: the program under analysis (set by Load; predicates built without a *Program use it to look into helpers).
var theProg *Program

// InRepo reports whether fn's package is a btcwallet package.
func (p *Program) InRepo(fn *ssa.Function) bool {
	pk := fnPkg(fn)
	return pk != nil && strings.HasPrefix(pk.Path(), rootMod)
}

func fnPkg(fn *ssa.Function) *types.Package {
	for fn != nil {
		if fn.Pkg != nil {
			return fn.Pkg.Pkg
		}
		if fn.Parent() != nil {
			fn = fn.Parent()
			continue
		}
		if o := fn.Origin(); o != nil && o != fn {
			fn = o
			continue
		}
		if fn.Object() != nil {
			return fn.Object().Pkg()
		}
		return nil
	}
	return nil
}

func fnPkgPath(fn *ssa.Function) string {
	if pk := fnPkg(fn); pk != nil {
		return pk.Path()
	}
	return ""
}

// CHA returns the class-hierarchy call graph (cached).
func (p *Program) CHA() *callgraph.Graph {
	if p.cha == nil {
		p.cha = cha.CallGraph(p.SSA)
	}
	return p.cha
}

// VTA returns the variable-type-analysis call graph (cached).
func (p *Program) VTA() *callgraph.Graph {
	if p.vta == nil {
		p.vta = vta.CallGraph(p.all, p.CHA())
	}
	return p.vta
}

// Pos renders a position relative to the repo.
func (p *Program) Pos(pos token.Pos) string {
	if !pos.IsValid() {
		return "?"
	}
	ps := p.Fset.Position(pos)
	rel, err := filepath.Rel(p.RepoDir, ps.Filename)
	if err != nil {
		rel = ps.Filename
	}
	return fmt.Sprintf("%s:%d", rel, ps.Line)
}

// Func finds a package-level function or method: Func("wtxmgr", "Store", "Balance")
// or Func("wtxmgr", "", "openStore"). pkg is relative to the root module
// ("" for root).
func (p *Program) Func(pkg, recv, name string) *ssa.Function {
	path := rootMod
	if pkg != "" {
		path += "/" + pkg
	}
	sp := p.SSAPkg[path]
	if sp == nil {
		return nil
	}
	if recv == "" {
		if f := sp.Func(name); f != nil {
			return f
		}
		// a package-level function turned into a method (same body, first parameter became the receiver): the only
		// method of that name in the package
		var found *ssa.Function
		n := 0
		for _, m := range sp.Members {
			t, ok := m.(*ssa.Type)
			if !ok {
				continue
			}
			if f := p.Func(pkg, t.Name(), name); f != nil {
				found = f
				n++
			}
		}
		if n == 1 {
			return found
		}
		return nil
	}
	t := sp.Type(recv)
	if t == nil {
		return nil
	}
	// a method turned into a package-level function whose first parameter is the former receiver
	if f := sp.Func(name); f != nil && f.Signature.Recv() == nil && len(f.Params) > 0 {
		pt := f.Params[0].Type()
		if ptr, ok := pt.(*types.Pointer); ok {
			pt = ptr.Elem()
		}
		if types.Identical(pt, t.Type()) && !p.hasMethod(t.Type(), name) {
			return f
		}
	}
	named := t.Type()
	for _, typ := range []types.Type{named, types.NewPointer(named)} {
		ms := p.SSA.MethodSets.MethodSet(typ)
		for i := 0; i < ms.Len(); i++ {
			if ms.At(i).Obj().Name() == name {
				fn := p.SSA.MethodValue(ms.At(i))
				if fn != nil && fn.Synthetic == "" {
					return fn
				}
				if fn != nil {
					// wrapper (e.g. promoted or pointer wrapper): find the declared one
					if obj, ok := ms.At(i).Obj().(*types.Func); ok {
						if f := p.SSA.FuncValue(obj); f != nil {
							return f
						}
					}
				}
			}
		}
	}
	return nil
}

func (p *Program) hasMethod(named types.Type, name string) bool {
	for _, typ := range []types.Type{named, types.NewPointer(named)} {
		ms := p.SSA.MethodSets.MethodSet(typ)
		for i := 0; i < ms.Len(); i++ {
			if ms.At(i).Obj().Name() == name {
				return true
			}
		}
	}
	return false
}

// Named returns a named type from a repo package.
func (p *Program) Named(pkg, name string) *types.Named {
	path := rootMod
	if pkg != "" {
		path += "/" + pkg
	}
	pk := p.ByPath[path]
	if pk == nil {
		return nil
	}
	o := pk.Types.Scope().Lookup(name)
	if o == nil {
		return nil
	}
	n, _ := o.Type().(*types.Named)
	return n
}

// Global returns a package-level variable.
func (p *Program) Global(pkg, name string) *ssa.Global {
	path := rootMod
	if pkg != "" {
		path += "/" + pkg
	}
	sp := p.SSAPkg[path]
	if sp == nil {
		return nil
	}
	return sp.Var(name)
}

// FuncsIn returns all functions (including closures) in the given repo-relative package.
func (p *Program) FuncsIn(pkg string) []*ssa.Function {
	path := rootMod
	if pkg != "" {
		path += "/" + pkg
	}
	var out []*ssa.Function
	for _, fn := range p.RepoFuncs {
		if fnPkgPath(fn) == path {
			out = append(out, fn)
		}
	}
	return out
}

// Closures returns fn and all anonymous functions nested in it (transitively).
func Closures(fn *ssa.Function) []*ssa.Function {
	out := []*ssa.Function{fn}
	for _, a := range fn.AnonFuncs {
		out = append(out, Closures(a)...)
	}
	return out
}

// outermost returns the top-level declared function enclosing fn.
func outermost(fn *ssa.Function) *ssa.Function {
	for fn.Parent() != nil {
		fn = fn.Parent()
	}
	return fn
}

// fnName gives a short stable name: pkg.(Recv).Name[$n]
func fnName(fn *ssa.Function) string {
	if fn == nil {
		return "<nil>"
	}
	s := fn.String()
	s = strings.ReplaceAll(s, rootMod+"/", "")
	s = strings.ReplaceAll(s, rootMod, "btcwallet")
	return s
}
