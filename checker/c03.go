package main

import (
	"fmt"
	"go/token"
	"go/types"
	"sort"
	"strings"

	"golang.org/x/tools/go/ssa"
)

func init() {
	register(&propSpec{
		ID: "C03",
		Explanation: "Elliptic-curve derivation and 'same addresses from the same seed' are values: NOT decided. Decided: (R1) derivation-path provenance: every hierarchical derivation uses the one legacy derivation method; coin-type keys are purpose'+coin' (hardened offsets) chained on each other, account keys account', addresses branch then index with the second derivation on the result of the first; " +
			"(R2) key/address same origin: in newManagedAddress the stored ciphertext's plaintext, the stored public key and the address all come from the one private key parameter, encrypted under the private crypto key; " +
			"(R3) private-account-key selection (path-sensitive): in nextAddresses and extendAddresses, when the manager is unlocked and the account has a private key the derivation receiver is the private account key, and when locked / watch-only it never is (sibling agreement of the two issuers; the contradiction 'select the key exactly when it is nil' is reported); " +
			"(R4) consecutive indices: the index recorded in the derivation path, in the derive-on-unlock record and written to disk is exactly the child index that was derived, advanced by one per issued address, starting from the branch's own next index; " +
			"(R5) every address type of the scope schemas has a case in the address constructor; (R6) address-level lock() zeroes AND nils the clear-text key so the next unlock re-decrypts it; (R7) re-persisting an account row keeps its address schema and every other field.",
		Assumptions: []string{"hdkeychain/btcec are trusted", "mode predicates are stable within one call"},
		Run:         runC03,
	})
}

const hardened = 2147483648

func isDerive(ins ssa.Instruction) (*ssa.Call, bool) {
	call, ok := ins.(*ssa.Call)
	if !ok {
		return nil, false
	}
	f := call.Call.StaticCallee()
	if f == nil || !strings.HasSuffix(fnPkgPath(f), "hdkeychain") {
		return nil, false
	}
	n := f.Name()
	if n == "Derive" || n == "DeriveNonStandard" || n == "Child" {
		return call, true
	}
	return nil, false
}

func runC03(c *Ctx) {
	p := c.P
	// ---------- R1 ----------
	methods := map[string]int{}
	type dsite struct {
		fn   string
		call *ssa.Call
	}
	var sites []dsite
	for _, fn := range p.FuncsIn("waddrmgr") {
		if strings.Contains(fn.Name(), "igrat") {
			continue
		}
		for _, b := range fn.Blocks {
			for _, ins := range b.Instrs {
				if call, ok := isDerive(ins); ok {
					methods[call.Call.StaticCallee().Name()]++
					sites = append(sites, dsite{outermost(fn).Name(), call})
				}
			}
		}
	}
	c.Floor("C03-R1", "hierarchical derivation calls", len(sites), 9)
	var ms []string
	for m := range methods {
		ms = append(ms, m)
	}
	sort.Strings(ms)
	c.Check("C03-R1", "single-derivation-method", token.NoPos, len(methods) == 1 && methods["DeriveNonStandard"] > 0,
		"derivations use more than one method ("+strings.Join(ms, ",")+"): addresses derived by different code paths would differ for keys with a leading zero byte")
	wantArgs := map[string][]string{
		"deriveCoinTypeKey": {fmt.Sprintf("+1*field:Purpose +%d", hardened), fmt.Sprintf("+1*field:Coin +%d", hardened)},
		"deriveAccountKey":  {fmt.Sprintf("+1*param#1 +%d", hardened)},
		"deriveKey":         {"+1*param#2 +0", "+1*param#3 +0"},
	}
	for fnn, want := range wantArgs {
		var got []string
		var calls []*ssa.Call
		for _, s := range sites {
			if s.fn == fnn {
				got = append(got, p.linearize(s.call.Call.Args[1], 0).String())
				calls = append(calls, s.call)
			}
		}
		pos := token.NoPos
		if len(calls) > 0 {
			pos = calls[0].Pos()
		}
		c.Check("C03-R1", "derivation-arguments:"+fnn, pos, strings.Join(got, "|") == strings.Join(want, "|"),
			fmt.Sprintf("%s derives with child numbers [%s], expected [%s]", fnn, strings.Join(got, " | "), strings.Join(want, " | ")))
		// chained: each derivation's receiver is the previous one's result
		okChain := true
		for i := 1; i < len(calls); i++ {
			if !isExtractOf(calls[i].Call.Args[0], calls[i-1], 0) {
				okChain = false
			}
		}
		if len(calls) > 1 {
			c.Check("C03-R1", "derivation-chained:"+fnn, pos, okChain, fnn+": the second derivation is not applied to the result of the first")
		}
	}
	// issuers: branch derivation on the selected account key, child derivation on the branch key
	for _, fnn := range []string{"nextAddresses", "extendAddresses"} {
		var calls []*ssa.Call
		for _, s := range sites {
			if s.fn == fnn {
				calls = append(calls, s.call)
			}
		}
		ok := len(calls) == 2
		if ok {
			// first: arg is the branch phi (ExternalBranch/InternalBranch constants); second: receiver is first's result
			ok = isExtractOf(calls[1].Call.Args[0], calls[0], 0)
			if ph, isPhi := calls[0].Call.Args[1].(*ssa.Phi); isPhi {
				var ks []string
				for _, e := range ph.Edges {
					k, _ := constInt(e)
					ks = append(ks, fmt.Sprint(k))
				}
				sort.Strings(ks)
				eb, _ := constInPkg(p, "waddrmgr", "ExternalBranch")
				ib, _ := constInPkg(p, "waddrmgr", "InternalBranch")
				want := []string{fmt.Sprint(eb), fmt.Sprint(ib)}
				sort.Strings(want)
				if strings.Join(ks, ",") != strings.Join(want, ",") {
					ok = false
				}
			} else {
				ok = false
			}
		}
		pos := token.NoPos
		if len(calls) > 0 {
			pos = calls[0].Pos()
		}
		c.Check("C03-R1", "branch-then-index:"+fnn, pos, ok, fnn+" does not derive branch (external/internal constant) and then the child index on the branch key")
	}

	// ---------- R2 ----------
	if nma := p.Func("waddrmgr", "", "newManagedAddress"); nma != nil {
		prmIdx := -1
		for i, prm := range nma.Params {
			if strings.HasSuffix(prm.Type().String(), "PrivateKey") {
				prmIdx = i
			}
		}
		fromParam := func(v ssa.Value, method string) bool {
			sl := &Slicer{P: p}
			for _, o := range sl.Origins(v) {
				if call, ok := o.(*ssa.Call); ok && calleeShort(&call.Call) == method {
					recv := call.Call.Args[0]
					if u, ok := recv.(*ssa.UnOp); ok && u.Op == token.MUL {
						recv = u.X // value-receiver method: *privKey
					}
					if prm, ok := recv.(*ssa.Parameter); ok && paramIndex(nma, prm) == prmIdx {
						return true
					}
				}
			}
			return false
		}
		okEnc, okKey := false, false
		for _, call := range callsNamed(nma, "Encrypt") {
			okEnc = fromParam(call.Call.Args[len(call.Call.Args)-1], "Serialize")
			recv := call.Call.Value
			if _, f, _, ok := fieldOf(recv); ok && f == "cryptoKeyPriv" {
				okKey = true
			}
		}
		c.Check("C03-R2", "ciphertext-is-the-given-private-key", nma.Pos(), okEnc && prmIdx >= 0, "the stored private-key ciphertext is not the encryption of privKey.Serialize() of the given key")
		c.Check("C03-R2", "private-key-under-private-crypto-key", nma.Pos(), okKey, "the address private key is not encrypted under the private crypto key")
		// the same for every other place that fills the ciphertext fields (derive-on-unlock, loaders)
		checkCiphertextFieldSlots(c, "C03-R2")
		okPub := false
		for _, call := range callsNamed(nma, "newManagedAddressWithoutPrivKey") {
			okPub = fromParam(call.Call.Args[2], "PubKey")
		}
		c.Check("C03-R2", "public-key-from-same-private-key", nma.Pos(), okPub, "the address public key is not privKey.PubKey() of the same private key")
		okCT := false
		for _, st := range storesToFieldOwner(nma, "managedAddress", "privKeyCT") {
			okCT = fromParam(st.Val, "Serialize")
		}
		c.Check("C03-R2", "cleartext-is-the-given-private-key", nma.Pos(), okCT, "the cached clear-text key is not the serialisation of the given private key")
	} else {
		c.Unresolved("C03-R2", "waddrmgr.newManagedAddress")
	}
	if nmx := p.Func("waddrmgr", "", "newManagedAddressFromExtKey"); nmx != nil {
		// private branch: ECPrivKey of the given key -> newManagedAddress; public branch: ECPubKey -> WithoutPrivKey
		okPriv, okPub := false, false
		for _, call := range callsNamed(nmx, "newManagedAddress") {
			sl := &Slicer{P: p, KeepExtract: true}
			for _, o := range sl.Origins(call.Call.Args[2]) {
				if ex, ok := o.(*ssa.Extract); ok {
					if cc, ok := ex.Tuple.(*ssa.Call); ok && calleeShort(&cc.Call) == "ECPrivKey" {
						if prm, ok := cc.Call.Args[0].(*ssa.Parameter); ok && paramIndex(nmx, prm) == 2 {
							okPriv = true
						}
					}
				}
			}
		}
		for _, call := range callsNamed(nmx, "newManagedAddressWithoutPrivKey") {
			sl := &Slicer{P: p, KeepExtract: true}
			for _, o := range sl.Origins(call.Call.Args[2]) {
				if ex, ok := o.(*ssa.Extract); ok {
					if cc, ok := ex.Tuple.(*ssa.Call); ok && calleeShort(&cc.Call) == "ECPubKey" {
						if prm, ok := cc.Call.Args[0].(*ssa.Parameter); ok && paramIndex(nmx, prm) == 2 {
							okPub = true
						}
					}
				}
			}
		}
		c.Check("C03-R2", "address-from-the-derived-key", nmx.Pos(), okPriv && okPub, "newManagedAddressFromExtKey does not build the address from the EC key of the derived extended key it was given")
	}

	// ---------- R3 ----------
	isAcctPrivLoad := func(v ssa.Value) bool {
		ld, ok := v.(*ssa.UnOp)
		return ok && ld.Op == token.MUL && holderKeyOfAddr(ld.X) == "accountInfo.acctKeyPriv"
	}
	for _, fnn := range []string{"nextAddresses", "extendAddresses"} {
		fn := p.Func("waddrmgr", "ScopedKeyManager", fnn)
		if fn == nil {
			c.Unresolved("C03-R3", "ScopedKeyManager."+fnn)
			continue
		}
		var branchDerive *ssa.Call
		for _, s := range sites {
			if s.fn == fnn && branchDerive == nil {
				branchDerive = s.call
			}
		}
		if branchDerive == nil {
			continue
		}
		recvPhi, _ := branchDerive.Call.Args[0].(*ssa.Phi)
		// mode A: unlocked, not watch-only, account has a private key  -> receiver must be the private key
		mkInterp := func(wantTaint boolVal) *modeInterp {
			return &modeInterp{p: p, preds: map[string]bool{"IsLocked": true, "WatchOnly": true}, noDescend: true, taintSrc: isAcctPrivLoad,
				containsTarget: func(*ssa.Function) bool { return true },
				target: func(ins ssa.Instruction, env modeEnv) bool {
					if ins != ssa.Instruction(branchDerive) {
						return false
					}
					if recvPhi == nil {
						return (isAcctPrivLoad(branchDerive.Call.Args[0]) && wantTaint == bTrue) || (!isAcctPrivLoad(branchDerive.Call.Args[0]) && wantTaint == bFalse)
					}
					return env["t:"+recvPhi.Name()] == wantTaint
				}}
		}
		unlocked := modeEnv{"p:IsLocked": bFalse, "p:WatchOnly": bFalse, "n:acctKeyPriv": bFalse, "e:acctKeyEncrypted": bFalse}
		hit := mkInterp(bFalse).reachable(fn, unlocked, 0)
		c.Check("C03-R3", "unlocked-account-derives-with-private-key:"+fnn, branchDerive.Pos(), hit == nil,
			fnn+": with the manager unlocked and an account that has a private key, the address keys are derived from the PUBLIC account key: the issued addresses carry no private key (PrivKey() fails until restart) and are not queued for derive-on-unlock")
		for _, m := range []struct {
			name string
			env  modeEnv
		}{
			{"locked", modeEnv{"p:IsLocked": bTrue, "p:WatchOnly": bFalse, "n:acctKeyPriv": bTrue, "e:acctKeyEncrypted": bFalse}},
			{"watch-only-account", modeEnv{"p:IsLocked": bFalse, "p:WatchOnly": bFalse, "n:acctKeyPriv": bTrue, "e:acctKeyEncrypted": bTrue}},
		} {
			hit := mkInterp(bTrue).reachable(fn, m.env, 0)
			c.Check("C03-R3", "no-private-key-selected-when-"+m.name+":"+fnn, branchDerive.Pos(), hit == nil,
				fnn+": the private account key is selected as derivation receiver although it is nil ("+m.name+"): nil dereference / belief contradiction")
		}
	}

	// ---------- R4 ----------
	for _, fnn := range []string{"nextAddresses", "extendAddresses"} {
		fn := p.Func("waddrmgr", "ScopedKeyManager", fnn)
		if fn == nil {
			continue
		}
		var childDerive *ssa.Call
		n := 0
		for _, s := range sites {
			if s.fn == fnn {
				n++
				if n == 2 {
					childDerive = s.call
				}
			}
		}
		if childDerive == nil {
			continue
		}
		derived := p.linearize(childDerive.Call.Args[1], 0).String()
		for _, spec := range [][2]string{{"DerivationPath", "Index"}, {"unlockDeriveInfo", "index"}} {
			sts := storesToFieldOwner(fn, spec[0], spec[1])
			ok := len(sts) > 0
			var got []string
			for _, st := range sts {
				g := p.linearize(st.Val, 0).String()
				got = append(got, g)
				if !sameIndexForm(g, derived) && !incrementedBetween(p, fn, g, derived) {
					ok = false
				}
			}
			c.Check("C03-R4", "recorded-index-is-derived-index:"+fnn+"/"+spec[0], childDerive.Pos(), ok,
				fmt.Sprintf("%s records %s.%s = [%s] but derived child %s: the reported derivation path / derive-on-unlock index is not the index the key was derived at", fnn, spec[0], spec[1], strings.Join(got, ","), derived))
		}
		// index advanced by exactly one per successful derivation; starts from the branch's own next index
		okStart := false
		for _, b := range fn.Blocks {
			for _, ins := range b.Instrs {
				ph, ok := ins.(*ssa.Phi)
				if !ok {
					continue // any variable initialised from exactly the two branch counters is "the next index" (role, not name)
				}
				var fs []string
				for _, e := range ph.Edges {
					if _, f, _, okf := fieldOf(e); okf {
						fs = append(fs, f)
					}
				}
				sort.Strings(fs)
				if strings.Join(fs, ",") == "nextExternalIndex,nextInternalIndex" {
					okStart = true
				}
			}
		}
		// captured variable form: the initial values are stored into an alloc (external first, overwritten when internal)
		{
			byAlloc := map[*ssa.Alloc][]string{}
			for _, b := range fn.Blocks {
				for _, ins := range b.Instrs {
					st, ok := ins.(*ssa.Store)
					if !ok {
						continue
					}
					al, ok := st.Addr.(*ssa.Alloc)
					if !ok {
						continue
					}
					if _, f, _, okf := fieldOf(st.Val); okf {
						byAlloc[al] = append(byAlloc[al], f)
						// the internal value must be stored under the `internal` flag
					}
					if ph, ok := st.Val.(*ssa.Phi); ok {
						for _, e := range ph.Edges {
							if _, f, _, okf := fieldOf(e); okf {
								byAlloc[al] = append(byAlloc[al], f)
							}
						}
					}
				}
			}
			for _, fs := range byAlloc {
				sort.Strings(fs)
				if strings.Join(fs, ",") == "nextExternalIndex,nextInternalIndex" {
					okStart = true
				}
			}
		}
		c.Check("C03-R4", "starts-from-branch-next-index:"+fnn, fn.Pos(), okStart, fnn+" does not start from the account's next external/internal index selected by the branch")
		// disk write uses the recorded index
		okDisk := false
		for _, call := range callsNamed(fn, "putChainedAddress") {
			a1, a2 := p.argNamed(call, "branch", 5), p.argNamed(call, "index", 6)
			if a1 == nil || a2 == nil {
				continue
			}
			_, f1, _, ok1 := fieldOf(a1)
			_, f2, _, ok2 := fieldOf(a2)
			okDisk = ok1 && ok2 && f1 == "branch" && f2 == "index"
		}
		c.Check("C03-R4", "disk-index-is-recorded-index:"+fnn, fn.Pos(), okDisk, fnn+" does not persist the recorded (branch, index) of each issued address")
	}

	// ---------- R5 ----------
	checkAddrTypeCoverage(c)
	// an issued address keeps its identity: the duplicate check that protects its row looks under the key its writer used
	checkHashedBucketKeys(c, "C03-R5")
	checkDerivationPathLiterals(c, "C03-R4")
	checkCacheHitReturnsCopy(c, "C03-R2")
	checkClearTextAccessorsReturnCopies(c, "C03-R2")
	checkPendingQueueOnlyDrainedByUnlock(c, "C03-R3")
	// ---------- R6 ----------
	for _, spec := range [][2]string{{"managedAddress", "privKeyCT"}, {"baseScriptAddress", "scriptClearText"}} {
		fn := p.Func("waddrmgr", spec[0], "lock")
		if fn == nil {
			c.Unresolved("C03-R6", spec[0]+".lock")
			continue
		}
		z, n := false, false
		// (the zero-then-nil pair may sit in a private part of lock: `wipePrivKey()`)
		var lockBlocks []*ssa.BasicBlock
		for _, lf := range p.regionOf(fn) {
			if lf.Parent() != nil {
				continue // a function literal runs when it is called or deferred, not where it stands: not "zero, then nil"
			}
			lockBlocks = append(lockBlocks, lf.Blocks...)
		}
		for _, b := range lockBlocks {
			for _, ins := range b.Instrs {
				switch x := ins.(type) {
				case *ssa.Call:
					if calleeShort(&x.Call) == "Bytes" {
						if ld, ok := x.Call.Args[0].(*ssa.UnOp); ok && holderKeyOfAddr(ld.X) == spec[0]+"."+spec[1] {
							z = true
						}
					}
				case *ssa.Store:
					if holderKeyOfAddr(x.Addr) == spec[0]+"."+spec[1] && isNilConst(x.Val) {
						n = true
					}
				}
			}
		}
		// and unlock re-decrypts exactly when the buffer is empty
		ul := p.Func("waddrmgr", spec[0], "unlock")
		okU := false
		if ul != nil {
			// the decryption may sit in a private part of unlock (early return when the clear text is cached)
			nDec, nGuarded := 0, 0
			for _, uf := range p.regionOf(ul) {
				for _, call := range callsNamed(uf, "Decrypt") {
					nDec++
					if !reachableAvoiding(uf, nil, call, func(from *ssa.BasicBlock, si int) bool {
						return isEmptyFieldEdge(from, si, spec[1])
					}) {
						nGuarded++
					}
				}
			}
			okU = nDec > 0 && nDec == nGuarded
		}
		c.Check("C03-R6", "lock-zeroes-and-nils:"+spec[0], fn.Pos(), z && n && okU,
			spec[0]+": lock() must zero AND nil "+spec[1]+" because unlock() re-decrypts only when the buffer is empty; otherwise after Lock/Unlock the all-zero buffer is returned as the key")
	}
	// ---------- R7 ----------
	checkRowRewrites(c, "C03-R7")
	checkLoaderCopies(c, "C03-R4")
	checkIssuerAddrType(c, "C03-R5")
	checkAddrTypeFollowsBranch(c, "C03-R5")
	checkImportAddressIDAgreesWithConstructor(c, "C03-R5") // imported keys are found again under the address they map to
	checkExtKeyAddressesRegisteredForUnlock(c, "C03-R3")
	checkNoKeyUseAfterZero(c, "C03-R1")
	checkAccountSchemaOverrideOnBothBranches(c, "C03-R5")
	checkInvalidationAlwaysEvicts(c, "C03-R4") // an account object outlives its row only until it is invalidated
	// an imported key keeps its scope's address format when its row is loaded again (C08-R3's sibling-agreement rule)
	checkImportPathsAgreeOnSchemaField(c, "C03-R5")
	checkPubPrivSlotsAreTwins(c, "C03-R1")
	checkEncryptedKeyOnlyClearedByConversion(c, "C03-R3")
	checkSchemaPresenceIsNilness(c, "C03-R5")
	// an import that runs while the manager is locked seals the key under the wiped (all-zero) crypto key: it is handed
	// back for as long as the object lives and is lost at the next lock (C05-R1's gating rule, for the import paths)
	// "indices are issued without repetition": derive, commit and the commit callback that advances the index happen
	// under one wallet mutex (C09-R1's rule)
	c.Borrow(runC09, "C09-R1", "C03-R4", func(k string) bool { return strings.HasPrefix(k, "tx-site-locked") })
	checkNextIndexBumpedOnItsOwnBranch(c, "C03-R4")
	// "looked up later": an owned key is found under every form of its address (C16-R2's rule, F45)
	c.Borrow(runC16, "C16-R2", "C03-R5", func(k string) bool { return strings.HasPrefix(k, "address-key-normalises-pay-to-pubkey") })
	c.Borrow(func(c2 *Ctx) { checkLockGating(c2, "C03-R3") }, "C03-R3", "C03-R3", func(k string) bool {
		return strings.HasPrefix(k, "no-private-use-while-locked:") && strings.Contains(k, "Import")
	})
}

func isExtractOf(v ssa.Value, call *ssa.Call, idx int) bool {
	ex, ok := v.(*ssa.Extract)
	return ok && ex.Tuple == ssa.Value(call) && ex.Index == idx
}

// sameIndexForm: recorded index form equals the derived child form, allowing the "+1 then -1" idiom.
func sameIndexForm(recorded, derived string) bool {
	if recorded == derived {
		return true
	}
	// derived "+1*phi:nextIndex +0"; recorded "+1*phi:nextIndex +0" after (x+1)-1 normalisation is identical.
	return false
}

func checkAddrTypeCoverage(c *Ctx) {
	p := c.P
	ctor := p.Func("waddrmgr", "", "newManagedAddressWithoutPrivKey")
	if ctor == nil {
		c.Unresolved("C03-R5", "waddrmgr.newManagedAddressWithoutPrivKey")
		return
	}
	handled := map[string]bool{}
	for _, b := range ctor.Blocks {
		for _, ins := range b.Instrs {
			bo, ok := ins.(*ssa.BinOp)
			if !ok || bo.Op != token.EQL {
				continue
			}
			if cst, ok := bo.Y.(*ssa.Const); ok {
				if n, ok := cst.Type().(*types.Named); ok && n.Obj().Name() == "AddressType" {
					handled[strings.TrimPrefix(valueDesc(cst), "waddrmgr.")] = true
				}
			}
		}
	}
	// ... or an entry in a literal table keyed by the address type that the constructor looks up
	for _, tl := range p.tableLookupsIn(ctor) {
		for _, e := range tl.Entries {
			if cst, ok := e.Key.(*ssa.Const); ok {
				if n, ok := cst.Type().(*types.Named); ok && n.Obj().Name() == "AddressType" {
					handled[strings.TrimPrefix(valueDesc(cst), "waddrmgr.")] = true
				}
			}
		}
	}
	// address types used by the scope schemas: constants stored into ScopeAddrSchema fields anywhere in waddrmgr (incl. package init)
	used := map[string]bool{}
	for _, fn := range p.FuncsIn("waddrmgr") {
		for _, b := range fn.Blocks {
			for _, ins := range b.Instrs {
				st, ok := ins.(*ssa.Store)
				if !ok {
					continue
				}
				fa, ok := st.Addr.(*ssa.FieldAddr)
				if !ok {
					continue
				}
				tn, f := fieldAddrName(fa)
				if tn != "ScopeAddrSchema" || !strings.HasSuffix(f, "AddrType") {
					continue
				}
				if cst, ok := st.Val.(*ssa.Const); ok {
					used[strings.TrimPrefix(valueDesc(cst), "waddrmgr.")] = true
				}
			}
		}
	}
	var us []string
	for u := range used {
		us = append(us, u)
	}
	sort.Strings(us)
	c.Floor("C03-R5", "address types used by scope schemas", len(us), 3)
	for _, u := range us {
		c.Check("C03-R5", "address-type-has-constructor-case:"+u, ctor.Pos(), handled[u], "address type "+u+" is used by a scope schema but the address constructor has no case for it (a nil address would be issued)")
	}
}

// incrementedBetween: the index variable is a captured local (alloc) that is incremented by exactly one between the
// derivation and the record: recorded "X -1" vs derived "X +0" with a store of X+1 to the same variable in the function.
func incrementedBetween(p *Program, fn *ssa.Function, recorded, derived string) bool {
	if !strings.HasSuffix(derived, " +0") || !strings.HasSuffix(recorded, " -1") {
		return false
	}
	base := strings.TrimSuffix(derived, " +0")
	if strings.TrimSuffix(recorded, " -1") != base || !strings.HasPrefix(base, "+1*var:") {
		return false
	}
	name := strings.TrimPrefix(base, "+1*var:")
	n := 0
	for _, b := range fn.Blocks {
		for _, ins := range b.Instrs {
			st, ok := ins.(*ssa.Store)
			if !ok {
				continue
			}
			al, ok := st.Addr.(*ssa.Alloc)
			if !ok || al.Comment != name {
				continue
			}
			bo, ok := st.Val.(*ssa.BinOp)
			if !ok {
				continue
			}
			if k, isK := constInt(bo.Y); isK && k == 1 && bo.Op == token.ADD {
				if u, ok := bo.X.(*ssa.UnOp); ok && u.X == ssa.Value(al) {
					n++
				}
			}
		}
	}
	return n >= 1
}

// isEmptyFieldEdge: the edge of a `len(x.field) ==/!=/>/< 0` test on which the field is known to be empty.
func isEmptyFieldEdge(from *ssa.BasicBlock, si int, field string) bool {
	if len(from.Instrs) == 0 {
		return false
	}
	iff, ok := from.Instrs[len(from.Instrs)-1].(*ssa.If)
	if !ok {
		return false
	}
	bo, ok := iff.Cond.(*ssa.BinOp)
	if !ok {
		return false
	}
	lenOf := func(v ssa.Value) bool {
		call, ok := v.(*ssa.Call)
		if !ok {
			return false
		}
		bi, ok := call.Call.Value.(*ssa.Builtin)
		if !ok || bi.Name() != "len" {
			return false
		}
		_, f, _, okf := fieldOf(call.Call.Args[0])
		return okf && f == field
	}
	zero := func(v ssa.Value) bool { k, ok := constInt(v); return ok && k == 0 }
	switch {
	case lenOf(bo.X) && zero(bo.Y):
		switch bo.Op {
		case token.EQL, token.LEQ:
			return si == 0
		case token.NEQ, token.GTR:
			return si == 1
		}
	case zero(bo.X) && lenOf(bo.Y):
		switch bo.Op {
		case token.EQL, token.GEQ:
			return si == 0
		case token.NEQ, token.LSS:
			return si == 1
		}
	}
	return false
}

// checkExtKeyAddressesRegisteredForUnlock: an address object built from a derived extended key while the manager is
// locked holds no private key; it gets one at the next Unlock only if it was put on the derive-on-unlock list. Every
// function that builds such an object (a call of the from-extended-key constructor) also records it in a derive-on-unlock
// entry (whether the entry is queued is decided by the locked / watch-only tests next to it, which have rules of their
// own). A path-derivation that builds the object directly answers ErrWatchingOnly for PrivKey() forever after an unlock.
func checkExtKeyAddressesRegisteredForUnlock(c *Ctx, rule string) {
	p := c.P
	ctor := p.Func("waddrmgr", "", "newManagedAddressFromExtKey")
	if ctor == nil {
		c.Unresolved(rule, "waddrmgr.newManagedAddressFromExtKey")
		return
	}
	n := 0
	for _, fn := range p.FuncsIn("waddrmgr") {
		for _, ci := range callsOf(fn) {
			call, ok := ci.(*ssa.Call)
			if !ok || !p.isCallTo(call, ctor) {
				continue
			}
			n++
			registered := false
			var regStores []ssa.Instruction
			for _, b := range fn.Blocks {
				for _, ins := range b.Instrs {
					st, ok := ins.(*ssa.Store)
					if !ok {
						continue
					}
					fa, ok := st.Addr.(*ssa.FieldAddr)
					if !ok {
						continue
					}
					if tn, f := fieldAddrName(fa); tn != "unlockDeriveInfo" || f != "managedAddr" {
						continue
					}
					for _, o := range (&Slicer{P: p, KeepExtract: true}).Origins(st.Val) {
						if ex, ok := o.(*ssa.Extract); ok && ex.Tuple == ssa.Value(call) {
							registered = true
							regStores = append(regStores, st)
						}
						if o == ssa.Value(call) {
							registered = true
							regStores = append(regStores, st)
						}
					}
				}
			}
			// where the entry is made in the constructing function itself and at once (not in a commit callback), it
			// is made for EVERY object that has nothing but a public key and whose account has a private one: the only
			// ways round it are "the key is private" and "the account has no private key" — each object needs its own
			// entry (Unlock fills keys per object), so "an object for this address is cached already" is not one
			if len(regStores) > 0 && fn.Parent() == nil {
				direct := true
				for _, rs := range regStores {
					if rs.Parent() != fn {
						direct = false
					}
				}
				if direct {
					q := &PathQuery{Fn: fn, Target: p.nonErrorReturn()}
					q.Barrier = func(i ssa.Instruction) bool {
						for _, rs := range regStores {
							if rs == i {
								return true
							}
						}
						return false
					}
					// the boolean v having the value `val` says "nothing to derive": the key is private, the account has no
					// private key, or the manager is not locked — also where the condition is computed into a variable first
					// (`needs := !k.IsPrivate() && len(enc) != 0; if needs {`: a short-circuit merge)
					var nothingToDerive func(v ssa.Value, val bool, depth int) bool
					nothingToDerive = func(v ssa.Value, val bool, depth int) bool {
						if depth > 4 {
							return false
						}
						inner, neg := unwrapNot(v)
						if neg {
							return nothingToDerive(inner, !val, depth+1)
						}
						if isResultOfCall(inner, "IsPrivate", -1) {
							return val
						}
						if isResultOfCall(inner, "IsLocked", -1) {
							return !val
						}
						if ph, ok := inner.(*ssa.Phi); ok && !val {
							// a && b merged: false came from the conjunct that ended the evaluation, or from the last one
							for i, e := range ph.Edges {
								if bv, isC := constBool(e); isC {
									if bv {
										return false
									}
									pred := ph.Block().Preds[i]
									iff, ok := pred.Instrs[len(pred.Instrs)-1].(*ssa.If)
									if !ok || !nothingToDerive(iff.Cond, pred.Succs[0] == ph.Block(), depth+1) {
										return false
									}
									continue
								}
								if !nothingToDerive(e, false, depth+1) {
									return false
								}
							}
							return true
						}
						if cf, ok := p.cmpForm(inner, val); ok && cf.Rel == "==" && cf.L.Konst == 0 && len(cf.L.Coef) == 1 {
							for k := range cf.L.Coef {
								if strings.HasPrefix(k, "call:len(") && strings.Contains(k, "acctKeyEncrypted") {
									return true
								}
							}
						}
						return false
					}
					q.EdgeBarrier = func(from *ssa.BasicBlock, si int) bool {
						iff, ok := from.Instrs[len(from.Instrs)-1].(*ssa.If)
						return ok && nothingToDerive(iff.Cond, si == 0, 0)
					}
					hits := q.From(call)
					pos := call.Pos()
					if len(hits) > 0 {
						pos = hits[0].Ins.Pos()
					}
					c.Check(rule, "ext-key-address-always-recorded-when-key-is-missing:"+fnName(fn), pos, len(hits) == 0,
						fnName(fn)+" can hand out an address object built from a public key without a derive-on-unlock entry although its account has a private key (some other condition skips the entry): that object never receives its private key, PrivKey() answers watching-only while the wallet is unlocked")
				}
			}
			c.Check(rule, "ext-key-address-recorded-for-derive-on-unlock:"+fnName(fn), call.Pos(), registered,
				fnName(fn)+" builds an address object from a derived extended key without recording it in a derive-on-unlock entry: built while the manager is locked, the object never receives its private key, and PrivKey() fails although the wallet is unlocked")
		}
	}
	c.Floor(rule, "constructions of addresses from extended keys", n, 3)
}

// checkNoKeyUseAfterZero (typestate): an extended key is not used after it was zeroed — and neither is the key it was
// neutered from / into: hdkeychain's Neuter does not copy, the public twin shares the chain code, the parent fingerprint
// and the cached public key with the private key, so zeroing one wipes the other's chain code. A serialisation taken
// afterwards parses, but describes another key: the account row then holds an xprv whose children are not the seed's.
func checkNoKeyUseAfterZero(c *Ctx, rule string) {
	p := c.P
	isExtKey := func(t types.Type) bool {
		if pt, ok := t.(*types.Pointer); ok {
			t = pt.Elem()
		}
		nm, ok := t.(*types.Named)
		return ok && nm.Obj().Name() == "ExtendedKey"
	}
	n := 0
	for _, fn := range p.FuncsIn("waddrmgr") {
		var zeros []*ssa.Call
		for _, ci := range callsOf(fn) {
			if call, ok := ci.(*ssa.Call); ok && calleeShort(&call.Call) == "Zero" && len(call.Call.Args) > 0 && isExtKey(call.Call.Args[0].Type()) {
				zeros = append(zeros, call)
			}
		}
		// the same for the symmetric keys (crypto keys, master keys) used through their interface or directly: a key
		// wiped right after it was generated seals everything that follows under the all-zero key
		for _, ci := range callsOf(fn) {
			call, ok := ci.(*ssa.Call)
			if !ok {
				continue
			}
			recvOf := func(cc *ssa.Call) ssa.Value {
				if cc.Call.IsInvoke() {
					return cc.Call.Value
				}
				if g := cc.Call.StaticCallee(); g != nil && g.Signature.Recv() != nil && len(cc.Call.Args) > 0 {
					return cc.Call.Args[0]
				}
				return nil
			}
			isSymKey := func(v ssa.Value) bool {
				if v == nil {
					return false
				}
				ts := v.Type().String()
				return strings.HasSuffix(ts, "EncryptorDecryptor") || strings.HasSuffix(ts, "CryptoKey") || strings.HasSuffix(ts, "cryptoKey") || strings.HasSuffix(ts, "SecretKey")
			}
			name := calleeShort(&call.Call)
			if call.Call.IsInvoke() {
				name = call.Call.Method.Name()
			}
			zr := recvOf(call)
			if name != "Zero" || !isSymKey(zr) {
				continue
			}
			// only keys created in this function (a fresh local), not fields of the manager wiped on purpose
			if _, isFld, _, okf := fieldOf(stripConv(zr)); okf && isFld != "" {
				continue
			}
			n++
			var def ssa.Instruction
			switch d := stripConv(zr).(type) {
			case *ssa.Extract:
				def, _ = d.Tuple.(ssa.Instruction)
			case ssa.Instruction:
				def = d
			}
			z := call
			q := &PathQuery{Fn: fn, Barrier: func(ins ssa.Instruction) bool { return def != nil && ins == def }}
			q.Target = func(ins ssa.Instruction, _ *ssa.BasicBlock) bool {
				cc, ok := ins.(*ssa.Call)
				if !ok || cc == z {
					return false
				}
				nm := calleeShort(&cc.Call)
				if cc.Call.IsInvoke() {
					nm = cc.Call.Method.Name()
				}
				if nm == "Zero" {
					return false
				}
				r := recvOf(cc)
				return r != nil && stripConv(r) == stripConv(zr)
			}
			hits := q.From(z)
			detail := ""
			if len(hits) > 0 {
				detail = fnName(fn) + " uses a key at " + p.Pos(hits[0].Ins.Pos()) + " after it was zeroed (a wipe that was meant to be deferred): everything sealed with it from then on is sealed under the all-zero key, readable from the file without any passphrase"
			}
			c.Check(rule, "no-key-use-after-zero:"+fnName(fn)+"/sym", z.Pos(), len(hits) == 0, detail)
		}
		if len(zeros) == 0 {
			continue
		}
		// storage-sharing twins: x and x.Neuter()
		twin := func(a, b ssa.Value) bool {
			a, b = stripConv(a), stripConv(b)
			if a == b {
				return true
			}
			neuterOf := func(v ssa.Value) ssa.Value {
				for _, o := range (&Slicer{P: p, KeepExtract: true}).Origins(v) {
					if ex, ok := o.(*ssa.Extract); ok {
						if call, ok := ex.Tuple.(*ssa.Call); ok && calleeShort(&call.Call) == "Neuter" && len(call.Call.Args) > 0 {
							return stripConv(call.Call.Args[0])
						}
					}
				}
				return nil
			}
			same := func(x, y ssa.Value) bool {
				if x == nil || y == nil {
					return false
				}
				if x == y {
					return true
				}
				for _, ox := range (&Slicer{P: p, KeepExtract: true}).Origins(x) {
					for _, oy := range (&Slicer{P: p, KeepExtract: true}).Origins(y) {
						if ox == oy {
							return true
						}
					}
				}
				return false
			}
			return same(neuterOf(a), b) || same(neuterOf(b), a) || same(a, b)
		}
		for _, z := range zeros {
			n++
			zk := z.Call.Args[0]
			// a key created inside a loop is a new object on every iteration: passing its definition again ends the
			// lifetime of the zeroed one
			var def ssa.Instruction
			switch d := stripConv(zk).(type) {
			case *ssa.Extract:
				def, _ = d.Tuple.(ssa.Instruction)
			case ssa.Instruction:
				def = d
			}
			q := &PathQuery{Fn: fn, Barrier: func(ins ssa.Instruction) bool { return def != nil && ins == def }}
			q.Target = func(ins ssa.Instruction, _ *ssa.BasicBlock) bool {
				call, ok := ins.(*ssa.Call)
				if !ok || call == z || len(call.Call.Args) == 0 || calleeShort(&call.Call) == "Zero" {
					return false
				}
				// a method of the key type called on the zeroed key or its twin
				g := call.Call.StaticCallee()
				if g == nil || g.Signature.Recv() == nil || !isExtKey(g.Signature.Recv().Type()) {
					return false
				}
				return isExtKey(call.Call.Args[0].Type()) && twin(call.Call.Args[0], zk)
			}
			hits := q.From(z)
			detail := ""
			if len(hits) > 0 {
				detail = fnName(fn) + " uses an extended key at " + p.Pos(hits[0].Ins.Pos()) + " after it — or the key it was neutered from/into, which shares its chain code — was zeroed: what is derived or serialised from it afterwards belongs to another key"
			}
			c.Check(rule, "no-key-use-after-zero:"+fnName(fn), z.Pos(), len(hits) == 0, detail)
		}
	}
	c.Floor(rule, "non-deferred zeroings of extended keys", n, 3)
}

// checkAccountSchemaOverrideOnBothBranches: an imported account may carry its own address schema, for BOTH branches.
// The function that answers "which address type does this account use on this branch" asks whether the account has an
// override on every path to its answer: no return is reachable without having passed the nil test of the account's
// schema (a test that is skipped for one branch silently encodes that branch's addresses in the scope's format).
func checkAccountSchemaOverrideOnBothBranches(c *Ctx, rule string) {
	p := c.P
	fn := p.Func("waddrmgr", "ScopedKeyManager", "accountAddrType")
	if fn == nil {
		c.Unresolved(rule, "ScopedKeyManager.accountAddrType")
		return
	}
	isOverrideTest := func(ins ssa.Instruction) bool {
		iff, ok := ins.(*ssa.If)
		if !ok {
			return false
		}
		if k, ok := nilKey(iff.Cond); ok && k == "n:addrSchema" {
			return true
		}
		return false
	}
	n := 0
	for _, f := range p.regionOf(fn) {
		for _, b := range f.Blocks {
			for _, ins := range b.Instrs {
				if isOverrideTest(ins) {
					n++
				}
			}
		}
	}
	q := &PathQuery{Fn: fn, Barrier: isOverrideTest}
	q.Target = func(ins ssa.Instruction, _ *ssa.BasicBlock) bool { _, ok := ins.(*ssa.Return); return ok }
	hits := q.From(nil)
	c.Check(rule, "account-schema-override-asked-on-every-path", fn.Pos(), n > 0 && len(hits) == 0,
		"accountAddrType can answer without having asked whether the account carries its own address schema: for an imported account whose override differs from the scope on that branch, every address of the branch is issued, looked up and reloaded in the scope's format")
}
