package main

import (
	"fmt"
	"go/constant"
	"go/token"
	"go/types"
	"sort"
	"strings"

	"golang.org/x/tools/go/ssa"
)

func init() {
	register(&propSpec{
		ID: "C07",
		Explanation: "Decides structural necessary conditions of fee/size authoring: (R1) no dropped term: every arithmetic definition in the size/fee estimators reaches the result (a computed-and-unused value is a dropped term); " +
			"(R2) the estimators' output-count varint is fed the count that includes the optional change output, the input-count varints sum all input-kind parameters, and every input-kind parameter enters the base size (and, for witness kinds, the witness weight) with its own size constant; the change output is sized as a serialized output (8 + compact-size prefix + script); " +
			"(R3) decision shape of NewUnsignedTransaction: insufficient funds only on inputAmount < target+fee; ONE fee value (the fee for the size estimated from the counted input kinds) is the one compared with the remainder, re-targeted on retry and subtracted for the change amount; " +
			"the change output is appended only when non-zero and not dust at the default relay fee, to a capacity-clamped copy of the caller's slice (the caller's backing array is never written); the input-kind classifiers of author, signer and size estimator test the same predicates in the same precedence; " +
			"(R4) txToOutputs passes the requested fee rate unchanged and the change source's script size matches the change address type for all address types. NOT decided: the numeric inequality fee >= rate*vsize for all inputs, the worst-case constants themselves.",
		Assumptions: []string{"size constants are taken from the package's own const declarations (name agreement num<Kind>Ins <-> Redeem<Kind>InputSize)"},
		Run:         runC07,
	})
}

func pkgFn(c *Ctx, rule, pkg, name string) *ssa.Function {
	fn := c.P.Func(pkg, "", name)
	if fn == nil {
		c.Unresolved(rule, pkg+"."+name)
	}
	return fn
}

// deadArithmetic returns arithmetic/phi values of int type in fn that never reach a live use.
func deadArithmetic(fn *ssa.Function) []ssa.Value {
	live := map[ssa.Value]bool{}
	var mark func(v ssa.Value)
	mark = func(v ssa.Value) {
		if v == nil || live[v] {
			return
		}
		live[v] = true
		if ins, ok := v.(ssa.Instruction); ok {
			for _, op := range ins.Operands(nil) {
				if *op != nil {
					mark(*op)
				}
			}
		}
	}
	for _, b := range fn.Blocks {
		for _, ins := range b.Instrs {
			switch ins.(type) {
			case *ssa.Return, *ssa.If, *ssa.Store, *ssa.Call, *ssa.Defer, *ssa.Go, *ssa.Send, *ssa.MapUpdate, *ssa.Panic:
				for _, op := range ins.Operands(nil) {
					if *op != nil {
						mark(*op)
					}
				}
			}
		}
	}
	var dead []ssa.Value
	for _, b := range fn.Blocks {
		for _, ins := range b.Instrs {
			v, ok := ins.(ssa.Value)
			if !ok || live[v] {
				continue
			}
			switch x := ins.(type) {
			case *ssa.BinOp:
				dead = append(dead, x)
			case *ssa.Phi:
				dead = append(dead, x)
			}
		}
	}
	return dead
}

func constInPkg(p *Program, pkg, name string) (int64, bool) {
	pk := p.ByPath[rel(pkg)]
	if pk == nil {
		return 0, false
	}
	cst, ok := pk.Types.Scope().Lookup(name).(*types.Const)
	if !ok {
		return 0, false
	}
	return constant.Int64Val(cst.Val())
}

// linThroughPhi linearizes v; if v is a phi with one zero-constant edge (x := 0; if cond { x = expr }), returns the non-zero edge's form.
func linNonZeroEdge(p *Program, v ssa.Value) Lin {
	v = stripConv(v)
	if ph, ok := v.(*ssa.Phi); ok {
		var nz []ssa.Value
		for _, e := range ph.Edges {
			if k, ok := constInt(e); ok && k == 0 {
				continue
			}
			nz = append(nz, e)
		}
		if len(nz) == 1 {
			return p.linearize(nz[0], 0)
		}
	}
	if l, _, ok := p.piecewiseCall(v); ok {
		return l
	}
	return p.linearize(v, 0)
}

func runC07(c *Ctx) {
	p := c.P
	// R1 dead arithmetic
	type ef struct{ pkg, name string }
	ests := []ef{{"wallet/txsizes", "EstimateVirtualSize"}, {"wallet/txsizes", "EstimateSerializeSize"}, {"wallet/txsizes", "GetMinInputVirtualSize"},
		{"wallet/txsizes", "SumOutputSerializeSizes"}, {"wallet/txrules", "FeeForSerializeSize"}, {"wallet/txauthor", "NewUnsignedTransaction"}, {"wallet/txauthor", "SumOutputValues"}}
	n := 0
	for _, e := range ests {
		fn := pkgFn(c, "C07-R1", e.pkg, e.name)
		if fn == nil {
			continue
		}
		n++
		dead := deadArithmetic(fn)
		var ds []string
		pos := fn.Pos()
		for _, d := range dead {
			ds = append(ds, fmt.Sprintf("%s at %s", describeValue(d), p.Pos(d.Pos())))
			if d.Pos().IsValid() {
				pos = d.Pos()
			}
		}
		c.Check("C07-R1", "no-dropped-term:"+e.name, pos, len(dead) == 0,
			"a value is computed and never used (a term the author intended and then dropped): "+strings.Join(ds, "; "))
	}
	c.Floor("C07-R1", "estimator / fee functions", n, 6)

	// R2 estimator structure
	evs := pkgFn(c, "C07-R2", "wallet/txsizes", "EstimateVirtualSize")
	if evs != nil {
		checkVirtualSize(c, evs)
	}
	if ess := pkgFn(c, "C07-R2", "wallet/txsizes", "EstimateSerializeSize"); ess != nil {
		okOut := false
		changeFlag := -1
		for i, prm := range ess.Params {
			if isBoolType(prm.Type()) {
				changeFlag = i
			}
		}
		for _, call := range callsNamed(ess, "VarIntSerializeSize") {
			if countsChange(p, call.Call.Args[0], ess) || (changeFlag >= 0 && countsChangeViaHelper(p, call.Call.Args[0], ess, changeFlag)) {
				okOut = true
			}
		}
		c.Check("C07-R2", "output-count-varint-includes-change:EstimateSerializeSize", ess.Pos(), okOut, "no VarIntSerializeSize call is fed the output count that includes the change output")
	}

	nut := pkgFn(c, "C07-R3", "wallet/txauthor", "NewUnsignedTransaction")
	if nut != nil {
		checkAuthor(c, nut)
	}
	checkClassifierAgreement(c)
	checkFeePlumbing(c)
	checkInputSourceLifetime(c, "C07-R4")
	checkInputSourceConsumes(c, "C07-R4") // a coin handed out twice is counted twice: inputs no longer total outputs plus fee
	checkFixedSelectionSourceIsStateless(c, "C07-R4")
	checkOutputSizesFromSerializer(c, "C07-R2")
	checkP2PKHSigScriptCoversHeldKeys(c, "C07-R2")
	checkDustTestCoversSerializedOutput(c, "C07-R3")
	checkWitnessSignaturesUseCompressedKeys(c, "C07-R2")
	checkSumOutputValuesAddsEveryOutput(c, "C07-R1")
	checkMinInputSizeConstantsByKind(c, "C07-R3")
	checkAuthorNeverWritesThroughCallerOutputs(c, "C07-R4")
	checkDustJudgedOnRealChangeScript(c, "C07-R4")
	checkFeeProductOverflowGuard(c, "C07-R2")
	checkEstimatorArgumentKinds(c, "C07-R2")
	checkNoStaleTailAfterInPlaceFilter(c, "C07-R4") // an input handed out twice is counted twice
}

// countsChange: v is (a conversion of) a phi merging len(txOuts) and len(txOuts)+1.
func countsChange(p *Program, v ssa.Value, fn *ssa.Function) bool {
	v = stripConv(v)
	ph, ok := v.(*ssa.Phi)
	if !ok {
		return false
	}
	var forms []string
	for _, e := range ph.Edges {
		forms = append(forms, p.linearize(e, 0).String())
	}
	sort.Strings(forms)
	if len(forms) != 2 {
		return false
	}
	// "+1*call:len(...) +0" and "+1*call:len(...) +1" over the same slice parameter
	a, b := forms[0], forms[1]
	return strings.HasPrefix(a, "+1*call:len(") && strings.HasSuffix(a, " +0") && strings.HasSuffix(b, " +1") && a[:len(a)-3] == b[:len(b)-3]
}

// changeHelperResults: results of a private same-package helper that is handed the change script size parameter of fn
// (`size, count := estimateChangeOutput(changeScriptSize)`): atom name -> the extracted value.
func changeHelperResults(p *Program, fn *ssa.Function, changeParam int) map[string]*ssa.Extract {
	out := map[string]*ssa.Extract{}
	for _, b := range fn.Blocks {
		for _, ins := range b.Instrs {
			ex, ok := ins.(*ssa.Extract)
			if !ok {
				continue
			}
			call, ok := ex.Tuple.(*ssa.Call)
			if !ok {
				continue
			}
			h := call.Call.StaticCallee()
			if h == nil || len(h.Blocks) == 0 || fnPkgPath(h) != fnPkgPath(fn) || h.Object() == nil || h.Object().Exported() {
				continue
			}
			for _, a := range call.Call.Args {
				if prm, ok := stripConv(a).(*ssa.Parameter); ok && paramIndex(fn, prm) == changeParam {
					out[p.atomName(ex, 0)] = ex
				}
			}
		}
	}
	return out
}

// countsChangeViaHelper: v is len(txOuts) + k where k is the 0-or-1 "a change output is added" result of the change
// helper (1 exactly on the paths where the helper's size result is the change output size, i.e. not the constant 0).
func countsChangeViaHelper(p *Program, v ssa.Value, fn *ssa.Function, changeParam int) bool {
	l := p.linearize(v, 0)
	if l.Konst != 0 || len(l.Coef) != 2 {
		return false
	}
	res := changeHelperResults(p, fn, changeParam)
	var ind *ssa.Extract
	lens := 0
	for k, coef := range l.Coef {
		if coef != 1 {
			return false
		}
		if strings.HasPrefix(k, "call:len(") {
			lens++
		} else if ex, ok := res[k]; ok {
			ind = ex
		}
	}
	if lens != 1 || ind == nil {
		return false
	}
	h := ind.Tuple.(*ssa.Call).Call.StaticCallee()
	// at every return of the helper the indicator is 0 or 1, and it is 1 exactly when some other result is non-zero
	sawOne := false
	for _, b := range h.Blocks {
		r, ok := b.Instrs[len(b.Instrs)-1].(*ssa.Return)
		if !ok {
			continue
		}
		vals := []ssa.Value{r.Results[ind.Index]}
		var others [][]ssa.Value
		if ph, ok := r.Results[ind.Index].(*ssa.Phi); ok {
			vals = ph.Edges
			for i, o := range r.Results {
				if i == ind.Index {
					continue
				}
				if oph, ok := o.(*ssa.Phi); ok && oph.Block() == ph.Block() {
					others = append(others, oph.Edges)
				}
			}
		}
		for ei, e := range vals {
			k, isK := constInt(e)
			if !isK || (k != 0 && k != 1) {
				return false
			}
			if k == 1 {
				sawOne = true
			}
			for _, oe := range others {
				ok0, isK0 := constInt(oe[ei])
				if (isK0 && ok0 == 0) != (k == 0) {
					return false
				}
			}
		}
	}
	return sawOne
}

func checkVirtualSize(c *Ctx, fn *ssa.Function) {
	p := c.P
	kinds := map[string]int{} // Kind -> param index
	for i, prm := range fn.Params {
		name := prm.Name()
		if strings.HasPrefix(name, "num") && strings.HasSuffix(name, "Ins") {
			kinds[strings.TrimSuffix(strings.TrimPrefix(name, "num"), "Ins")] = i
		}
	}
	c.Floor("C07-R2", "input-kind parameters of EstimateVirtualSize", len(kinds), 4)
	// varint calls
	var inputVar, witVar, outVar bool
	allKinds := newLin()
	for _, i := range kinds {
		allKinds.Coef[fmt.Sprintf("param#%d", i)] = 1
	}
	witKinds := newLin()
	for k, i := range kinds {
		if k != "P2PKH" {
			witKinds.Coef[fmt.Sprintf("param#%d", i)] = 1
		}
	}
	for _, call := range callsNamed(fn, "VarIntSerializeSize") {
		arg := call.Call.Args[0]
		l := p.linearize(arg, 0).String()
		switch {
		case l == allKinds.String():
			inputVar = true
		case l == witKinds.String():
			witVar = true
		case countsChange(p, arg, fn), countsChangeViaHelper(p, arg, fn, 5):
			outVar = true
		}
	}
	// a term of the estimate extracted into a same-package helper (or a method of a small struct holding the counts):
	// its varint calls, read in the estimator's terms (the helper's parameters bound to the call's arguments)
	var visit func(f *ssa.Function, depth int)
	visit = func(f *ssa.Function, depth int) {
		for _, ci := range callsOf(f) {
			cs, ok := ci.(*ssa.Call)
			if !ok {
				continue
			}
			h := cs.Call.StaticCallee()
			if h == nil || h == f || len(h.Blocks) == 0 || fnPkgPath(h) != fnPkgPath(fn) || h.Object() == nil || h.Object().Exported() {
				continue
			}
			p.withFrame(h, cs.Call.Args, func() {
				for _, call := range callsNamed(h, "VarIntSerializeSize") {
					l := p.linearize(call.Call.Args[0], 0).String()
					switch {
					case l == allKinds.String():
						inputVar = true
					case l == witKinds.String():
						witVar = true
					case countsChange(p, p.throughFrames(call.Call.Args[0]), fn), countsChangeViaHelper(p, p.throughFrames(call.Call.Args[0]), fn, 5):
						outVar = true
					}
				}
				if depth < 2 {
					visit(h, depth+1)
				}
			})
		}
	}
	visit(fn, 0)
	c.Check("C07-R2", "input-count-varint-sums-all-kinds", fn.Pos(), inputVar, "no VarIntSerializeSize call is fed the sum of all input-kind parameters")
	c.Check("C07-R2", "witness-count-varint-sums-witness-kinds", fn.Pos(), witVar, "no VarIntSerializeSize call is fed the sum of the witness-bearing input kinds")
	c.Check("C07-R2", "output-count-varint-includes-change:EstimateVirtualSize", fn.Pos(), outVar,
		"the output-count varint is not computed from the output count that includes the change output (at 252 requested outputs plus change the estimate is short)")
	// return = base + quo
	for _, b := range fn.Blocks {
		for _, ins := range b.Instrs {
			r, ok := ins.(*ssa.Return)
			if !ok {
				continue
			}
			add, ok := r.Results[0].(*ssa.BinOp)
			if !ok || add.Op != token.ADD {
				c.Check("C07-R2", "vsize-is-base-plus-scaled-witness", r.Pos(), false, "EstimateVirtualSize does not return base + ceil(witness/4)")
				continue
			}
			base, quo := add.X, add.Y
			if q, ok := base.(*ssa.BinOp); ok && q.Op == token.QUO {
				base, quo = quo, base
			}
			bl := p.linearize(base, 0)
			for k, i := range kinds {
				want, okc := constInPkg(p, "wallet/txsizes", "Redeem"+k+"InputSize")
				got := bl.Coef[fmt.Sprintf("param#%d", i)]
				c.Check("C07-R2", "base-size-term:"+k, r.Pos(), okc && got == want,
					fmt.Sprintf("input kind %s enters the base size with coefficient %d, expected its constant Redeem%sInputSize=%d", k, got, k, want))
			}
			// base includes output sizes and the change output size and constant 8
			_, hasOuts := bl.Coef["call:SumOutputSerializeSizes(+1*param#4 +0)"]
			c.Check("C07-R2", "base-size-includes-outputs", r.Pos(), hasOuts && bl.Konst == 8, "base size lacks the serialized outputs or the fixed 8 bytes (version+locktime): "+bl.String())
			hasChange := false
			for k := range bl.Coef {
				if strings.HasPrefix(k, "phi:changeOutputSize") || strings.Contains(k, "phi:") {
					hasChange = true
				}
				// ... or computed by an extracted helper from the change script size parameter
				if strings.HasPrefix(k, "call:") && !strings.HasPrefix(k, "call:SumOutputSerializeSizes") && !strings.HasPrefix(k, "call:VarIntSerializeSize") && strings.Contains(k, "param#5") {
					hasChange = true
				}
				// ... one of the results of such a helper (size and count returned together)
				if _, ok := changeHelperResults(p, fn, 5)[k]; ok && bl.Coef[k] == 1 {
					hasChange = true
				}
			}
			c.Check("C07-R2", "base-size-includes-change-output", r.Pos(), hasChange, "base size lacks the change output size")
			checkChangeOutputSizeFormula(c, fn, base, 5)
			q, ok := quo.(*ssa.BinOp)
			if !ok || q.Op != token.QUO {
				c.Check("C07-R2", "witness-rounded-up", r.Pos(), false, "witness weight is not divided by the witness scale factor")
				continue
			}
			div, _ := constInt(q.Y)
			num := p.linearize(q.X, 0)
			c.Check("C07-R2", "witness-rounded-up", r.Pos(), div == 4 && num.Konst == 3, fmt.Sprintf("witness weight is not rounded up ((w+3)/4): divisor %d, addend %d", div, num.Konst))
			// witness weight per kind
			var wphi ssa.Value
			for k := range num.Coef {
				_ = k
			}
			if ad, ok := q.X.(*ssa.BinOp); ok {
				wphi = ad.X
				if _, isC := ad.X.(*ssa.Const); isC {
					wphi = ad.Y
				}
			}
			if wphi != nil {
				wl := linNonZeroEdge(p, wphi)
				for k, i := range kinds {
					if k == "P2PKH" {
						continue
					}
					cname := "Redeem" + k + "InputWitnessWeight"
					if k == "NestedP2WPKH" {
						cname = "RedeemP2WPKHInputWitnessWeight"
					}
					want, okc := constInPkg(p, "wallet/txsizes", cname)
					got := wl.Coef[fmt.Sprintf("param#%d", i)]
					c.Check("C07-R2", "witness-weight-term:"+k, r.Pos(), okc && got == want,
						fmt.Sprintf("input kind %s enters the witness weight with coefficient %d, expected %s=%d", k, got, cname, want))
				}
				c.Check("C07-R2", "witness-marker-and-flag", r.Pos(), wl.Konst == 2, fmt.Sprintf("witness weight lacks the 2 marker/flag bytes (constant %d)", wl.Konst))
				// the witness term is counted whenever ANY witness-bearing kind is present: each integer guard of the
				// block that computes it must mention all witness kinds (with one sign) or none of them
				var guardSets [][]CmpForm
				if ph, ok := stripConv(wphi).(*ssa.Phi); ok {
					for ei, e := range ph.Edges {
						if k, isC := constInt(e); isC && k == 0 {
							continue
						}
						guardSets = append(guardSets, p.guardFormsLin(ph.Block().Preds[ei]))
					}
				} else if _, gs, ok := p.piecewiseCall(wphi); ok {
					guardSets = append(guardSets, gs)
				}
				{
					for _, forms := range guardSets {
						for _, form := range forms {
							mentioned, sign, consistent := 0, int64(0), true
							for k, i := range kinds {
								if k == "P2PKH" {
									continue
								}
								cf := form.L.Coef[fmt.Sprintf("param#%d", i)]
								if cf == 0 {
									continue
								}
								mentioned++
								if sign == 0 {
									sign = cf
								} else if sign != cf {
									consistent = false
								}
							}
							okG := mentioned == 0 || (mentioned == len(kinds)-1 && consistent)
							c.Check("C07-R2", "witness-term-guard-covers-every-witness-kind", r.Pos(), okG,
								"the witness weight is only counted under the condition '"+form.String()+"', which does not involve every witness-bearing input kind: a transaction whose only witness inputs are of the missing kind is estimated without marker, flag and witness data (fee below the requested rate)")
						}
					}
				}
			}
		}
	}
}

// checkCountsPerPass: the author's retry loop re-fetches the complete input set on every pass, so the input-kind
// counts handed to the size estimator must be recomputed from zero in every pass: none of them may be carried
// around the retry loop (a phi at its header), or a retry counts the inputs of the earlier passes again.
// checkInitialFeeTargetIsLowerBound: before it has seen any coin the author asks its input source for "outputs + an
// initial fee" and reports insufficient funds if the source cannot reach that. The initial fee must therefore not exceed
// the fee any real selection can require: the size it is estimated from assumes no input, or exactly one input of the
// kind with the smallest weight (read from the size constants). Assuming a larger kind refuses coins of a smaller kind
// that do cover the outputs plus their own required fee.
func checkInitialFeeTargetIsLowerBound(c *Ctx, fn *ssa.Function) {
	p := c.P
	est := pkgFn(c, "C07-R3", "wallet/txsizes", "EstimateVirtualSize")
	if est == nil {
		return
	}
	// weight of one input per kind, by the estimator's own parameter naming (numP2PKHIns, ...)
	weights := map[int]int64{}
	var minW int64 = -1
	for i, prm := range est.Params {
		name := prm.Name()
		if !strings.HasPrefix(name, "num") || !strings.HasSuffix(name, "Ins") {
			continue
		}
		k := strings.TrimSuffix(strings.TrimPrefix(name, "num"), "Ins")
		base, ok1 := constInPkg(p, "wallet/txsizes", "Redeem"+k+"InputSize")
		wname := "Redeem" + k + "InputWitnessWeight"
		if k == "NestedP2WPKH" {
			wname = "RedeemP2WPKHInputWitnessWeight"
		}
		wit, ok2 := constInPkg(p, "wallet/txsizes", wname)
		if k == "P2PKH" {
			wit, ok2 = 0, true
		}
		if !ok1 || !ok2 {
			c.Unresolved("C07-R3", "size constants of input kind "+k)
			return
		}
		weights[i] = base*4 + wit
		if minW < 0 || weights[i] < minW {
			minW = weights[i]
		}
	}
	n := 0
	for _, site := range estimatorSites(p, fn) {
		if site.inLoop {
			continue
		}
		call := site.call
		n++
		var total int64
		okConst := true
		site.under(p, func() {
			for i, w := range weights {
				// (read under the frames of the parts the call was reached through: a count may be a field of a small
				// struct literal the caller built)
				l := p.linearize(call.Call.Args[i], 0)
				if len(l.Coef) != 0 {
					okConst = false
					continue
				}
				total += l.Konst * w
			}
		})
		c.Check("C07-R3", "initial-fee-target-is-lower-bound", call.Pos(), okConst && total <= minW,
			fmt.Sprintf("the fee the author demands before it has seen any coin is estimated for inputs weighing %d weight units, more than the lightest single input (%d): coins of a lighter kind that cover the outputs plus their own required fee are refused with 'insufficient funds'", total, minW))
	}
	c.Floor("C07-R3", "initial size estimates in NewUnsignedTransaction", n, 1)
}

func checkCountsPerPass(c *Ctx, fn *ssa.Function) {
	p := c.P
	n := 0
	for _, site := range estimatorSites(p, fn) {
		if !site.inLoop {
			continue
		}
		est := site.call
		for ai, a := range est.Call.Args {
			if b, ok := a.Type().Underlying().(*types.Basic); !ok || b.Info()&types.IsInteger == 0 || ai >= 4 {
				continue
			}
			n++
			carried := false
			seen := map[ssa.Value]bool{}
			var walk func(v ssa.Value)
			walk = func(v ssa.Value) {
				v = p.throughFrames(v)
				if seen[v] {
					return
				}
				seen[v] = true
				switch x := v.(type) {
				case *ssa.Phi:
					// a merge at the header of a `for` loop (the retry loop; the counting loops are range loops)
					for _, l := range loopsOf(x.Parent()) {
						if l.Kind == "for" && x.Block() == l.Header {
							carried = true
						}
					}
					for _, e := range x.Edges {
						walk(e)
					}
				case *ssa.BinOp:
					walk(x.X)
					walk(x.Y)
				}
			}
			site.under(p, func() { walk(a) })
			c.Check("C07-R3", fmt.Sprintf("input-kind-count-recomputed-every-pass:arg%d", ai), est.Pos(), !carried,
				"an input-kind count handed to EstimateVirtualSize is carried around the author's retry loop instead of being recomputed from zero for the inputs of this pass: after a retry the fee is computed for the inputs of all passes together (overpayment, or a false 'insufficient funds')")
		}
	}
	c.Floor("C07-R3", "input-kind counts handed to the estimator inside the retry loop", n, 4)
}

// checkFeeFormula: a rate per 1000 bytes is applied to a size by multiplying first and dividing by the scale
// last; dividing the rate (or the size) first truncates it to whole units per byte and the fee falls below the
// requested rate for every rate that is not a multiple of the scale.
func checkFeeFormula(c *Ctx) {
	_ = c.P
	fn := pkgFn(c, "C07-R3", "wallet/txrules", "FeeForSerializeSize")
	if fn == nil {
		return
	}
	n := 0
	for _, b := range fn.Blocks {
		for _, ins := range b.Instrs {
			q, ok := ins.(*ssa.BinOp)
			if !ok || q.Op != token.QUO {
				continue
			}
			n++
			// the dividend is the product of both parameters
			params := map[int]bool{}
			var walk func(v ssa.Value, depth int)
			hasMul := false
			walk = func(v ssa.Value, depth int) {
				v = stripConv(v)
				if depth > 6 {
					return
				}
				switch x := v.(type) {
				case *ssa.Parameter:
					params[paramIndex(fn, x)] = true
				case *ssa.BinOp:
					if x.Op == token.MUL {
						hasMul = true
					}
					walk(x.X, depth+1)
					walk(x.Y, depth+1)
				}
			}
			walk(q.X, 0)
			okDividend := hasMul && len(params) == 2
			// and the quotient is not multiplied again
			okUse := true
			for _, u := range usesOf(q) {
				if bo, ok := u.(*ssa.BinOp); ok && bo.Op == token.MUL {
					okUse = false
				}
				if cv, ok := u.(*ssa.Convert); ok {
					for _, u2 := range usesOf(cv) {
						if bo, ok := u2.(*ssa.BinOp); ok && bo.Op == token.MUL {
							okUse = false
						}
					}
				}
			}
			c.Check("C07-R3", "fee-multiplies-before-dividing-by-scale", q.Pos(), okDividend && okUse,
				"FeeForSerializeSize divides before it has multiplied rate and size (rate/1000*size instead of rate*size/1000): the rate is truncated to whole satoshi per byte, so e.g. 1999 sat/kvB is charged as 1 sat/vB — the fee falls below the requested rate")
		}
	}
	c.Floor("C07-R3", "divisions in FeeForSerializeSize", n, 1)
}

// checkInputSizeConstantsAgree (sibling agreement): every Redeem<kind>InputSize is "outpoint (32+4) + script length
// byte + sigScript + sequence (4)": the fixed part, InputSize - <its sigScript size>, is the same number for all four
// input kinds. A kind whose constant drops a byte under-estimates every transaction with two or more such inputs.
func checkInputSizeConstantsAgree(c *Ctx) {
	p := c.P
	pairs := [][3]string{{"P2PKH", "RedeemP2PKHInputSize", "RedeemP2PKHSigScriptSize"}, {"P2WPKH", "RedeemP2WPKHInputSize", "RedeemP2WPKHScriptSize"},
		{"P2TR", "RedeemP2TRInputSize", "RedeemP2TRScriptSize"}, {"NestedP2WPKH", "RedeemNestedP2WPKHInputSize", "RedeemNestedP2WPKHScriptSize"}}
	fixed := map[string]int64{}
	count := map[int64]int{}
	for _, pr := range pairs {
		in, ok1 := constInPkg(p, "wallet/txsizes", pr[1])
		sc, ok2 := constInPkg(p, "wallet/txsizes", pr[2])
		if !ok1 || !ok2 {
			c.Unresolved("C07-R2", "txsizes."+pr[1]+" / "+pr[2])
			continue
		}
		fixed[pr[0]] = in - sc
		count[in-sc]++
	}
	var common int64
	for v, k := range count {
		if k > count[common] || count[common] == 0 {
			common = v
		}
	}
	for _, pr := range pairs {
		v, ok := fixed[pr[0]]
		if !ok {
			continue
		}
		c.Check("C07-R2", "input-size-constant-fixed-part:"+pr[0], 0, v == common,
			fmt.Sprintf("%s - %s = %d, but for the other input kinds the fixed part of an input (outpoint, script length byte, sequence) is %d: the size of %s inputs is mis-estimated by %d byte(s) each", pr[1], pr[2], v, common, pr[0], common-v))
	}
	c.Floor("C07-R2", "input size constants", len(fixed), 4)
}

func checkAuthor(c *Ctx, fn *ssa.Function) {
	p := c.P
	checkCountsPerPass(c, fn)
	checkInitialFeeTargetIsLowerBound(c, fn)
	checkInputSizeConstantsAgree(c)
	checkFeeFormula(c)
	// the change output value: NewTxOut(int64(changeAmount), script)
	// (built in NewUnsignedTransaction itself or in a private part it hands the change amount to: the amount is then
	// followed to the argument of the part's only call site, the guards around the append are read where they stand)
	var newTxOut *ssa.Call
	cf := fn
	for _, g := range p.regionTop(fn) {
		for _, call := range callsNamed(g, "NewTxOut") {
			newTxOut, cf = call, g
		}
	}
	if newTxOut == nil {
		c.Check("C07-R3", "change-output-construction", fn.Pos(), false, "NewUnsignedTransaction builds no change output (undecided)")
		return
	}
	chgLocal := stripConv(newTxOut.Call.Args[0])
	chg := stripConv(p.resolveParam(chgLocal))
	// changeAmount = inputAmount - targetAmount - FEE
	sub, ok := chg.(*ssa.BinOp)
	var fee, rest ssa.Value
	if ok && sub.Op == token.SUB {
		fee, rest = sub.Y, sub.X
	}
	feeCall, _ := fee.(*ssa.Call)
	okFee := feeCall != nil && calleeShort(&feeCall.Call) == "FeeForSerializeSize"
	c.Check("C07-R3", "change-amount-subtracts-required-fee", newTxOut.Pos(), okFee, "the change amount is not 'inputs - outputs - FeeForSerializeSize(rate, estimated size)'")
	if !okFee {
		return
	}
	// the function the amounts are computed in: NewUnsignedTransaction itself, or the private part that holds one pass
	// of its retry loop; there its parameters stand for what the (only) call site passes (frames)
	body := valueParent(sub)
	var site *ssa.Call
	if body != nil && body != fn {
		sites := p.realCallers(body)
		if len(sites) == 1 {
			site, _ = sites[0].(*ssa.Call)
		}
		if site == nil || outermost(site.Parent()) != fn {
			c.Check("C07-R3", "change-amount-computed-in-author", newTxOut.Pos(), false, "the change amount is computed in a function that is not a private part of NewUnsignedTransaction with one call site (undecided)")
			return
		}
	}
	if body == nil {
		body = fn
	}
	inFrame := func(f func()) {
		if site != nil {
			p.withFrame(body, site.Call.Args, f)
		} else {
			f()
		}
	}
	var restL Lin
	inAmt := ""
	inFrame(func() {
		restL = p.linearize(rest, 0)
		for k, v := range restL.Coef {
			if v == 1 && strings.HasPrefix(k, "call:dynamic#0") {
				inAmt = k
			}
		}
		tgt := restL.Coef["call:SumOutputValues(+1*param#0 +0)"]
		c.Check("C07-R3", "change-amount-operands", newTxOut.Pos(), inAmt != "" && tgt == -1 && len(restL.Coef) == 2 && restL.Konst == 0,
			"the change amount is not computed from the fetched input total minus the sum of the requested outputs: "+restL.String())
	})
	isFnParam := func(v ssa.Value, idx int) bool {
		var r ssa.Value
		inFrame(func() { r = p.throughFrames(v) })
		prm, ok := r.(*ssa.Parameter)
		return ok && prm.Parent() == fn && paramIndex(fn, prm) == idx
	}
	// the fee's size argument: EstimateVirtualSize over counted kinds, outputs param, changeSource.ScriptSize
	okSize := false
	if len(feeCall.Call.Args) == 2 {
		sz, _ := feeCall.Call.Args[1].(*ssa.Call)
		var wrapper *ssa.Call
		// the estimator may be called through a private part (a method of the struct that holds the counts)
		if sz != nil && calleeShort(&sz.Call) != "EstimateVirtualSize" {
			if h := sz.Call.StaticCallee(); h != nil && len(h.Blocks) > 0 && fnPkgPath(h) == fnPkgPath(fn) {
				var inner *ssa.Call
				nRet := 0
				for _, b := range h.Blocks {
					if r, ok := b.Instrs[len(b.Instrs)-1].(*ssa.Return); ok {
						nRet++
						if len(r.Results) == 1 {
							inner, _ = r.Results[0].(*ssa.Call)
						}
					}
				}
				if nRet == 1 && inner != nil && calleeShort(&inner.Call) == "EstimateVirtualSize" {
					wrapper, sz = sz, inner
				}
			}
		}
		if sz != nil && calleeShort(&sz.Call) == "EstimateVirtualSize" && len(sz.Call.Args) >= 5 {
			// the four counts must be counted over the scripts actually fetched: every increment they are built from
			// sits in a loop ranging over (what resolves to) the scripts result of the input source
			isScripts := func(v ssa.Value) bool {
				for hops := 0; hops < 4; hops++ {
					sl := &Slicer{P: p, KeepExtract: true}
					for _, o := range sl.Origins(v) {
						if ex, ok := o.(*ssa.Extract); ok && ex.Index == 3 {
							if cc, ok := ex.Tuple.(*ssa.Call); ok && cc.Call.StaticCallee() == nil && !cc.Call.IsInvoke() {
								return true
							}
						}
					}
					// a parameter of a private counting helper: what its call site passes
					prm, ok := stripConv(v).(*ssa.Parameter)
					if !ok {
						return false
					}
					nv := p.resolveParam(prm)
					if nv == ssa.Value(prm) {
						return false
					}
					v = nv
				}
				return false
			}
			tracer := newCountTracer(p)
			// the instruction runs once per fetched script: inside a loop over the scripts, or in a private part (the
			// method that classifies one script) all of whose calls are
			var perScript func(ins ssa.Instruction, depth int) bool
			perScript = func(ins ssa.Instruction, depth int) bool {
				f := ins.Parent()
				if l := innermostLoopOf(loopsOf(f), ins); l != nil {
					if l.Kind != "for" && l.OverVal != nil && isScripts(l.OverVal) {
						return true
					}
					return loopBoundIs(p, l, isScripts) // `for i := 0; i < len(scripts); i++`
				}
				if depth >= 2 || f.Object() == nil || f.Object().Exported() {
					return false
				}
				sites := p.realCallers(f)
				for _, cs := range sites {
					if !perScript(cs, depth+1) {
						return false
					}
				}
				return len(sites) > 0
			}
			counted := 0
			for i := 0; i < 4; i++ {
				incs := tracer(sz.Call.Args[i], 0, map[ssa.Value]bool{})
				okArg := len(incs) > 0
				for _, inc := range incs {
					if !perScript(inc, 0) {
						okArg = false
					}
				}
				if okArg {
					counted++
				}
			}
			okOut := false
			check := func() { okOut = isFnParam(sz.Call.Args[4], 0) }
			if wrapper != nil {
				inFrame(func() { p.withFrame(wrapper.Call.StaticCallee(), wrapper.Call.Args, check) })
			} else {
				check()
			}
			okSize = counted == 4 && okOut
		}
		if !isFnParam(feeCall.Call.Args[0], 1) {
			okSize = false
		}
	}
	c.Check("C07-R3", "required-fee-from-counted-input-kinds", feeCall.Pos(), okSize,
		"the required fee is not FeeForSerializeSize(requested rate, EstimateVirtualSize(counted p2pkh, p2tr, p2wpkh, nested, requested outputs, change script size))")
	// retry test compares remainder with the SAME fee value, and retargets with it
	okRetry, okRetarget := false, false
	inFrame(func() {
		for _, b := range body.Blocks {
			if len(b.Instrs) == 0 {
				continue
			}
			iff, ok := b.Instrs[len(b.Instrs)-1].(*ssa.If)
			if !ok {
				continue
			}
			// the edge on which "remainder < required fee" holds, however the test is spelled (`rem < fee` with the retry
			// in the then-branch, or `rem >= fee` with the success path there)
			want := restL.add(p.linearize(feeCall, 0), -1)
			retryEdge := -1
			for si := range b.Succs {
				if cf, ok := p.cmpForm(iff.Cond, si == 0); ok && cf.Rel == "<" && cf.L.String() == want.String() {
					retryEdge = si
				}
			}
			if retryEdge < 0 {
				continue
			}
			mentionsFee := false
			for _, o := range (&Slicer{P: p, ThroughBinOp: true}).Origins(iff.Cond) {
				if o == ssa.Value(feeCall) {
					mentionsFee = true
				}
			}
			if !mentionsFee {
				continue
			}
			okRetry = true
			// the value the fee target takes for the next pass
			retarget := []ssa.Value{feeCall}
			succs := map[*ssa.BasicBlock]bool{b.Succs[retryEdge]: true, b: true}
			if site != nil {
				// one pass is a private part: on the retry edge it hands the required fee back as a result, and the
				// driver loop takes that result as the next target
				retarget = nil
				succs = nil
				for _, bb := range body.Blocks {
					r, ok := bb.Instrs[len(bb.Instrs)-1].(*ssa.Return)
					if !ok || !(bb == b.Succs[retryEdge] || b.Succs[retryEdge].Dominates(bb)) {
						continue
					}
					for k, rv := range r.Results {
						if rv != ssa.Value(feeCall) {
							continue
						}
						for _, u := range usesOf(site) {
							if ex, ok := u.(*ssa.Extract); ok && ex.Index == k {
								retarget = append(retarget, ex)
							}
						}
					}
				}
			}
			for _, l := range loopsOf(fn) {
				if l.Kind != "for" {
					continue
				}
				for _, ins := range l.Header.Instrs {
					ph, ok := ins.(*ssa.Phi)
					if !ok {
						continue
					}
					for i, e := range ph.Edges {
						for _, rt := range retarget {
							if stripConv(e) == rt && (succs == nil || succs[l.Header.Preds[i]]) {
								okRetarget = true
							}
						}
					}
				}
			}
		}
	})
	c.Check("C07-R3", "retry-test-uses-required-fee", feeCall.Pos(), okRetry,
		"the remainder (inputs - outputs) is not compared with the required fee of the counted inputs before building the transaction (an underpaying transaction can be returned)")
	c.Check("C07-R3", "retry-retargets-with-required-fee", feeCall.Pos(), okRetarget, "on retry the fee target is not raised to the required fee")
	// insufficient funds only when inputAmount < target + targetFee
	nIns := 0
	inFrame(func() {
		for _, b := range body.Blocks {
			for _, ins := range b.Instrs {
				r, ok := ins.(*ssa.Return)
				if !ok || len(r.Results) < 2 {
					continue
				}
				mi, ok := r.Results[len(r.Results)-1].(*ssa.MakeInterface)
				if !ok || !strings.Contains(mi.X.Type().String(), "insufficientFundsError") {
					continue
				}
				nIns++
				forms := p.guardForms(b)
				okG := false
				for _, f := range forms {
					// inputAmount - target - targetFee < 0
					if strings.HasSuffix(f, " < 0") && strings.Contains(f, "+1*"+inAmt) && strings.Contains(f, "-1*call:SumOutputValues(+1*param#0 +0)") && strings.Contains(f, "-1*phi:targetFee") && strings.HasSuffix(f, "+0 < 0") {
						okG = true
					}
				}
				c.Check("C07-R3", "insufficient-funds-only-when-short", r.Pos(), okG,
					"insufficient funds is reported on a path not guarded by 'inputs < outputs + fee target' (guards: "+strings.Join(forms, " & ")+")")
			}
		}
	})
	c.Floor("C07-R3", "insufficient-funds returns", nIns, 1)
	// the change append: guarded by amount != 0 and not dust at DefaultRelayFeePerKb, onto a capacity-clamped slice
	nApp := 0
	for _, b := range cf.Blocks {
		for _, ins := range b.Instrs {
			call, ok := ins.(*ssa.Call)
			if !ok {
				continue
			}
			bi, ok := call.Call.Value.(*ssa.Builtin)
			if !ok || bi.Name() != "append" {
				continue
			}
			// only the append whose base derives from the outputs parameter
			base := call.Call.Args[0]
			fromOutputs := false
			sl := &Slicer{P: p}
			isOutputsParam := func(v ssa.Value) bool {
				prm, ok := stripConv(p.resolveParam(v)).(*ssa.Parameter)
				return ok && prm.Parent() == fn && paramIndex(fn, prm) == 0
			}
			for _, o := range sl.Origins(base) {
				if isOutputsParam(o) {
					fromOutputs = true
				}
				// the part is handed the transaction under construction: its output list is what the caller put into
				// that field (TxOut: outputs)
				if u, isLoad := o.(*ssa.UnOp); isLoad && u.Op == token.MUL {
					if fa, isFA := u.X.(*ssa.FieldAddr); isFA {
						if q, isPrm := fa.X.(*ssa.Parameter); isPrm && q.Parent() == cf && cf != fn {
							if al, isAl := stripConv(p.resolveParam(q)).(*ssa.Alloc); isAl {
								for _, use := range usesOf(al) {
									fa2, ok := use.(*ssa.FieldAddr)
									if !ok || fa2.Field != fa.Field {
										continue
									}
									for _, uu := range usesOf(fa2) {
										if st, ok := uu.(*ssa.Store); ok && st.Addr == ssa.Value(fa2) {
											for _, o2 := range sl.Origins(st.Val) {
												if isOutputsParam(o2) {
													fromOutputs = true
												}
											}
										}
									}
								}
							}
						}
					}
				}
			}
			if !fromOutputs {
				continue
			}
			nApp++
			s3, isSlice := base.(*ssa.Slice)
			clamped := isSlice && s3.Max != nil && s3.High != nil && p.linearize(s3.Max, 0).String() == p.linearize(s3.High, 0).String() &&
				strings.HasPrefix(p.linearize(s3.Max, 0).String(), "+1*call:len(")
			c.Check("C07-R3", "change-appended-to-clamped-copy", call.Pos(), clamped,
				"the change output is appended to the caller's output slice without clamping its capacity (outputs[:l:l]): the caller's backing array can be overwritten, so the requested outputs do not stay unchanged")
			okNZ := !reachableAvoiding(cf, nil, call, func(from *ssa.BasicBlock, si int) bool {
				iff, ok := from.Instrs[len(from.Instrs)-1].(*ssa.If)
				if !ok {
					return false
				}
				f, okf := p.cmpForm(iff.Cond, si == 0)
				cl := p.linearize(chgLocal, 0)
				return okf && f.Rel == "!=" && (cl.String() == f.L.String() || cl.scale(-1).String() == f.L.String())
			})
			c.Check("C07-R3", "no-zero-change", call.Pos(), okNZ, "a zero-value change output can be added")
			okDust := !reachableAvoiding(cf, nil, call, func(from *ssa.BasicBlock, si int) bool {
				f := edgeFactOf(from, si)
				if f == nil || f.Kind != "false" {
					return false
				}
				dc, ok := f.V.(*ssa.Call)
				if !ok || calleeShort(&dc.Call) != "IsDustOutput" {
					return false
				}
				relay, okc := constInPkg(p, "wallet/txrules", "DefaultRelayFeePerKb")
				k, isK := constInt(dc.Call.Args[1])
				return dc.Call.Args[0] == ssa.Value(newTxOut) && okc && isK && k == relay
			})
			c.Check("C07-R3", "no-dust-change", call.Pos(), okDust, "a dust change output (IsDustOutput(change, DefaultRelayFeePerKb)) can be added")
		}
	}
	c.Floor("C07-R3", "change append sites", nApp, 1)
}

// classifier sequences: ordered list of script predicates tested.
func predicateSequence(fn *ssa.Function) []string {
	var seq []string
	seen := map[string]bool{}
	var walk func(f *ssa.Function, depth int)
	walk = func(f *ssa.Function, depth int) {
		for _, b := range f.Blocks {
			for _, ins := range b.Instrs {
				call, ok := ins.(*ssa.Call)
				if !ok {
					continue
				}
				n := calleeShort(&call.Call)
				if strings.HasPrefix(n, "IsPayTo") && !seen[n] {
					seen[n] = true
					seq = append(seq, n)
				}
				// the classifier spelled as data: an ordered literal table of {predicate, ...} rows scanned for the first
				// match — the rows' predicates in order (first match wins only if a match leaves the scan)
				if call.Call.StaticCallee() == nil && !call.Call.IsInvoke() && theProg != nil {
					if preds := theProg.rangeFieldValues(call.Call.Value); len(preds) > 0 {
						firstMatch := false
						if l := innermostLoopOf(loopsOf(f), call); l != nil {
							firstMatch = true
							for _, bb := range f.Blocks {
								for si := range bb.Succs {
									if ef := edgeFactOf(bb, si); ef != nil && ef.Kind == "true" && ef.V == ssa.Value(call) {
										q := &PathQuery{Fn: f}
										q.LoopExit = func(from, to *ssa.BasicBlock) bool { return to == l.Header }
										if len(exploreFromBlock(q, bb.Succs[si], bb)) > 0 {
											firstMatch = false
										}
									}
								}
							}
						}
						for _, pv := range preds {
							name := "?"
							if g := fnValueOf(pv); g != nil {
								name = g.Name()
							}
							if !firstMatch {
								name += "(no-first-match)"
							}
							if strings.HasPrefix(name, "IsPayTo") && !seen[name] {
								seen[name] = true
								seq = append(seq, name)
							}
						}
					}
				}
				// helpers of the same package (e.g. an extracted classifier)
				if callee := call.Call.StaticCallee(); callee != nil && depth < 2 && fnPkgPath(callee) == fnPkgPath(fn) && callee != fn {
					walk(callee, depth+1)
				}
			}
		}
	}
	for _, f := range Closures(fn) {
		walk(f, 0)
	}
	return seq
}

func checkClassifierAgreement(c *Ctx) {
	_ = c.P
	a := pkgFn(c, "C07-R3", "wallet/txauthor", "NewUnsignedTransaction")
	g := pkgFn(c, "C07-R3", "wallet/txsizes", "GetMinInputVirtualSize")
	s := pkgFn(c, "C07-R3", "wallet/txauthor", "AddAllInputScripts")
	if a == nil || g == nil || s == nil {
		return
	}
	sa, sg, ss := strings.Join(predicateSequence(a), ">"), strings.Join(predicateSequence(g), ">"), strings.Join(predicateSequence(s), ">")
	c.Check("C07-R3", "input-kind-classifiers-agree", a.Pos(), sa == sg && sa == ss && sa != "",
		fmt.Sprintf("the input-kind classifiers disagree on predicates/precedence: author %s; size estimator %s; signer %s", sa, sg, ss))
}

func checkFeePlumbing(c *Ctx) {
	p := c.P
	tto := walletFn(c, "C07-R4", "txToOutputs")
	if tto != nil {
		n := 0
		for _, f := range Closures(tto) {
			for _, call := range callsNamed(f, "NewUnsignedTransaction") {
				n++
				ok := false
				v := call.Call.Args[1]
				if u, isU := v.(*ssa.UnOp); isU {
					if fv, isFV := u.X.(*ssa.FreeVar); isFV {
						if a, isA := freeVarRoot(fv).(*ssa.Alloc); isA && a.Comment == "feeSatPerKb" && len(storesTo(a)) == 1 {
							ok = true
						}
					}
				}
				if prm, isP := v.(*ssa.Parameter); isP && prm.Name() == "feeSatPerKb" {
					ok = true
				}
				c.Check("C07-R4", "fee-rate-passed-unchanged:txToOutputs", call.Pos(), ok, "txToOutputs does not pass the caller's fee rate unchanged to NewUnsignedTransaction")
			}
		}
		c.Floor("C07-R4", "NewUnsignedTransaction calls in txToOutputs", n, 1)
	}
	// change source script size per address type
	cs := walletFn(c, "C07-R4", "addrMgrWithChangeSource")
	if cs == nil {
		return
	}
	want := map[string]string{"PubKeyHash": "P2PKHPkScriptSize", "NestedWitnessPubKey": "NestedP2WPKHPkScriptSize", "WitnessPubKey": "P2WPKHPkScriptSize", "TaprootPubKey": "P2TRPkScriptSize"}
	// find the phi feeding ChangeSource.ScriptSize
	n := 0
	sizeHelpers := map[*ssa.Function]*ssa.Call{}
	for _, st := range storesToField(cs, "ScriptSize") {
		// the selection spelled as a literal table keyed by the address type
		if lk := lookupOf(st.Val); lk != nil {
			if es := p.mapLiteralOf(lk.X); len(es) > 0 {
				for _, e := range es {
					cst, isC := e.Key.(*ssa.Const)
					k, isK := constInt(e.Val)
					if !isC || !isK {
						continue
					}
					atName := strings.TrimPrefix(valueDesc(cst), "waddrmgr.")
					n++
					wname := want[atName]
					wv, okc := constInPkg(p, "wallet/txsizes", wname)
					c.Check("C07-R4", "change-script-size:"+atName, st.Pos(), okc && wv == k,
						fmt.Sprintf("change script size for address type %s is %d, expected %s=%d (fee estimate would use the wrong change output size)", atName, k, wname, wv))
				}
				continue
			}
		}
		// the selection in a private part `size(addrType) (int, error)`: one constant per arm, returned
		if call := sizeHelperCall(st.Val, cs); call != nil {
			h := call.Call.StaticCallee()
			sizeHelpers[h] = call
			for _, b := range h.Blocks {
				r, isRet := b.Instrs[len(b.Instrs)-1].(*ssa.Return)
				if !isRet || len(r.Results) == 0 {
					continue
				}
				k, isK := constInt(effectiveResult(r, 0))
				atName := ""
				for _, f := range p.guardFormsEq(b) {
					atName = f
				}
				if !isK || atName == "" {
					continue
				}
				n++
				wname := want[atName]
				wv, okc := constInPkg(p, "wallet/txsizes", wname)
				c.Check("C07-R4", "change-script-size:"+atName, st.Pos(), okc && wv == k,
					fmt.Sprintf("change script size for address type %s is %d, expected %s=%d (fee estimate would use the wrong change output size)", atName, k, wname, wv))
			}
			continue
		}
		ph, ok := st.Val.(*ssa.Phi)
		if !ok {
			c.Check("C07-R4", "change-script-size-by-address-type", st.Pos(), false, "ChangeSource.ScriptSize is not selected per address type")
			continue
		}
		for i, e := range ph.Edges {
			k, isK := constInt(e)
			if !isK {
				continue
			}
			// the predecessor's guard: addrType == <const>
			pred := ph.Block().Preds[i]
			atName := ""
			for _, f := range p.guardFormsEq(pred) {
				atName = f
			}
			if atName == "" {
				continue
			}
			n++
			wname := want[atName]
			wv, okc := constInPkg(p, "wallet/txsizes", wname)
			c.Check("C07-R4", "change-script-size:"+atName, st.Pos(), okc && wv == k,
				fmt.Sprintf("change script size for address type %s is %d, expected %s=%d (fee estimate would use the wrong change output size)", atName, k, wname, wv))
		}
	}
	c.Floor("C07-R4", "address types with a change script size", n, 4)
	// the size is selected by the address type the change address will really have: when the function consults the
	// account's address-schema override at all, the value the size switch compares must incorporate it (an override
	// applied only after the size was chosen leaves the estimate on the scope's default change type)
	readsOverride := false
	for _, b := range cs.Blocks {
		for _, ins := range b.Instrs {
			if fa, ok := ins.(*ssa.FieldAddr); ok {
				if _, f := fieldAddrName(fa); f == "AddrSchema" {
					readsOverride = true
				}
			}
		}
	}
	if readsOverride {
		nCmp, okAll := 0, true
		blocks := append([]*ssa.BasicBlock{}, cs.Blocks...)
		for h := range sizeHelpers {
			blocks = append(blocks, h.Blocks...)
		}
		for _, b := range blocks {
			for _, ins := range b.Instrs {
				var selector ssa.Value
				switch x := ins.(type) {
				case *ssa.BinOp:
					if x.Op != token.EQL {
						continue
					}
					cst, ok := x.Y.(*ssa.Const)
					if !ok {
						continue
					}
					if nm, ok := cst.Type().(*types.Named); !ok || nm.Obj().Name() != "AddressType" {
						continue
					}
					selector = x.X
				case *ssa.Lookup:
					// the size table keyed by the address type
					if nm, ok := x.Index.Type().(*types.Named); !ok || nm.Obj().Name() != "AddressType" || len(p.mapLiteralOf(x.X)) == 0 {
						continue
					}
					selector = x.Index
				default:
					continue
				}
				nCmp++
				has := false
				// in the size helper the selector is its parameter: what the caller hands over
				if prm, isPrm := stripConv(selector).(*ssa.Parameter); isPrm {
					if call := sizeHelpers[prm.Parent()]; call != nil {
						if i := paramIndex(prm.Parent(), prm); i >= 0 && i < len(call.Call.Args) {
							selector = call.Call.Args[i]
						}
					}
				}
				for _, o := range (&Slicer{P: p}).Origins(selector) {
					if _, f, base, okf := fieldOf(o); okf && f == "InternalAddrType" {
						for _, o2 := range (&Slicer{P: p, ThroughDeref: true}).Origins(base) {
							if _, f2, _, ok2 := fieldOf(o2); ok2 && f2 == "AddrSchema" {
								has = true
							}
						}
						if fa, ok := base.(*ssa.UnOp); ok {
							if _, f2, _, ok2 := fieldOf(fa); ok2 && f2 == "AddrSchema" {
								has = true
							}
						}
					}
				}
				if !has {
					okAll = false
				}
			}
		}
		c.Check("C07-R4", "change-script-size-honours-schema-override", cs.Pos(), nCmp > 0 && okAll,
			"the change script size is selected from an address type that does not incorporate the account's AddrSchema override (the override is read, but only applied elsewhere): for accounts whose change address type differs from the scope default the fee is computed for the wrong change output size")
	}
}

// sizeHelperCall: v is (the first result of) a call from fn's package to a declared function of the same package.
func sizeHelperCall(v ssa.Value, fn *ssa.Function) *ssa.Call {
	v = stripConv(v)
	if ex, ok := v.(*ssa.Extract); ok && ex.Index == 0 {
		v = ex.Tuple
	}
	call, ok := v.(*ssa.Call)
	if !ok {
		return nil
	}
	h := call.Call.StaticCallee()
	if h == nil || h.Pkg == nil || h.Pkg != fn.Pkg || len(h.Blocks) == 0 || h.Parent() != nil {
		return nil
	}
	return call
}

// guardFormsEq: names of AddressType constants X such that block b is reached only when addrType == X (switch arm).
func (p *Program) guardFormsEq(b *ssa.BasicBlock) []string {
	var out []string
	// the arm block itself may be the target of the == edge; check incoming edges
	for _, pr := range b.Preds {
		for si, s := range pr.Succs {
			if s != b {
				continue
			}
			f := edgeFactOf(pr, si)
			if f == nil || f.Kind != "true" {
				continue
			}
			bo, ok := f.V.(*ssa.BinOp)
			if !ok || bo.Op != token.EQL {
				continue
			}
			if cst, ok := bo.Y.(*ssa.Const); ok {
				if n, ok := cst.Type().(*types.Named); ok && n.Obj().Name() == "AddressType" {
					out = append(out, strings.TrimPrefix(valueDesc(cst), "waddrmgr."))
				}
			}
		}
	}
	return out
}

// lookupOf: v is (the value component of) a map lookup.
func lookupOf(v ssa.Value) *ssa.Lookup {
	v = stripConv(v)
	if ex, ok := v.(*ssa.Extract); ok && ex.Index == 0 {
		v = ex.Tuple
	}
	lk, _ := v.(*ssa.Lookup)
	return lk
}

// checkOutputSizesFromSerializer: the size estimate of the requested outputs is the sum of each output's real
// serialized size: per output the summand comes from wire.TxOut.SerializeSize (or spells out its three parts, including
// the compact-size prefix of the script through VarIntSerializeSize). A constant one-byte prefix under-estimates every
// output whose script is 253 bytes or longer, and the fee falls below the requested rate.
func checkOutputSizesFromSerializer(c *Ctx, rule string) {
	p := c.P
	fn := pkgFn(c, rule, "wallet/txsizes", "SumOutputSerializeSizes")
	if fn == nil {
		return
	}
	n := 0
	for _, part := range p.regionTop(fn) {
		for _, l := range loopsOf(part) {
			if l.Kind == "for" {
				continue
			}
			n++
			ok := l.containsInstr(func(ins ssa.Instruction) bool {
				call, isCall := ins.(*ssa.Call)
				if !isCall {
					return false
				}
				nm := calleeShort(&call.Call)
				return nm == "SerializeSize" || nm == "VarIntSerializeSize"
			})
			if ok {
				bad := l.MustPassPerIteration(p, func(ins ssa.Instruction) bool {
					call, isCall := ins.(*ssa.Call)
					return isCall && (calleeShort(&call.Call) == "SerializeSize" || calleeShort(&call.Call) == "VarIntSerializeSize")
				})
				ok = bad == ""
			}
			c.Check(rule, "output-size-from-serializer", l.Header.Instrs[0].Pos(), ok,
				"SumOutputSerializeSizes does not take each output's size from its serializer (TxOut.SerializeSize, or value + VarIntSerializeSize(len(script)) + script): outputs with scripts of 253 bytes or more are under-estimated and the fee is below the requested rate")
		}
	}
	c.Floor(rule, "output loops in SumOutputSerializeSizes", n, 1)
}

// additiveLeaves: the summands of an integer expression built with + (conversions stripped).
func additiveLeaves(v ssa.Value, depth int) []ssa.Value {
	v = stripConv(v)
	if bo, ok := v.(*ssa.BinOp); ok && bo.Op == token.ADD && depth < 12 {
		return append(additiveLeaves(bo.X, depth+1), additiveLeaves(bo.Y, depth+1)...)
	}
	return []ssa.Value{v}
}

// checkChangeOutputSizeFormula: the change output enters the base size as a serialized TxOut: 8 bytes of value, the
// compact-size prefix of the script length and the script itself — 8 + VarIntSerializeSize(changeScriptSize) +
// changeScriptSize — whenever changeScriptSize > 0. The summand is found by shape (the term of the base size that is
// zero on one path and something else otherwise: a local merged at an `if`, or the result of a private helper that is
// handed the change script size), and its non-zero form is read in the function that computes it.
func checkChangeOutputSizeFormula(c *Ctx, fn *ssa.Function, base ssa.Value, changeParam int) {
	p := c.P
	type cand struct {
		in  *ssa.Function
		idx int
		e   ssa.Value
		l   Lin
	}
	var cands []cand
	nonZeroOf := func(v ssa.Value) (ssa.Value, bool) {
		ph, ok := stripConv(v).(*ssa.Phi)
		if !ok {
			return nil, false
		}
		var nz []ssa.Value
		zero := false
		for _, e := range ph.Edges {
			if k, ok := constInt(e); ok && k == 0 {
				zero = true
				continue
			}
			nz = append(nz, e)
		}
		if zero && len(nz) == 1 {
			return nz[0], true
		}
		return nil, false
	}
	helperOf := func(call *ssa.Call) (*ssa.Function, int) {
		h := call.Call.StaticCallee()
		if h == nil || len(h.Blocks) == 0 || fnPkgPath(h) != fnPkgPath(fn) || h.Object() == nil || h.Object().Exported() {
			return nil, -1
		}
		for i, a := range call.Call.Args {
			if prm, ok := p.throughFrames(a).(*ssa.Parameter); ok && paramIndex(fn, prm) == changeParam {
				return h, i
			}
		}
		return nil, -1
	}
	privateHelper := func(call *ssa.Call) *ssa.Function {
		h := call.Call.StaticCallee()
		if h == nil || len(h.Blocks) == 0 || fnPkgPath(h) != fnPkgPath(fn) || h.Object() == nil || h.Object().Exported() {
			return nil
		}
		return h
	}
	// the non-zero form is read where it is found, in the estimator's terms (a helper's parameters standing for the
	// arguments it was called with)
	add := func(in *ssa.Function, e ssa.Value) {
		cands = append(cands, cand{in, changeParam, e, p.linearize(e, 0)})
	}
	fromHelper := func(call *ssa.Call, h *ssa.Function, res int) {
		p.withFrame(h, call.Call.Args, func() {
			for _, b := range h.Blocks {
				r, ok := b.Instrs[len(b.Instrs)-1].(*ssa.Return)
				if !ok {
					continue
				}
				if k, isK := constInt(r.Results[res]); isK && k == 0 {
					continue
				}
				if e, ok := nonZeroOf(r.Results[res]); ok {
					add(h, e)
				} else {
					add(h, r.Results[res])
				}
			}
		})
	}
	var walk func(v ssa.Value, depth int)
	walk = func(v ssa.Value, depth int) {
		if depth > 16 {
			return
		}
		v = stripConv(v)
		switch x := v.(type) {
		case *ssa.BinOp:
			if x.Op == token.ADD {
				walk(x.X, depth+1)
				walk(x.Y, depth+1)
			}
		case *ssa.Parameter:
			// a summand handed to the part that adds the sizes up
			p.inCallerOf(x, func(arg ssa.Value) { walk(arg, depth+1) })
		case *ssa.Phi:
			if e, ok := nonZeroOf(x); ok {
				add(x.Parent(), e)
			}
		case *ssa.Call:
			if h, _ := helperOf(x); h != nil && h.Signature.Results().Len() == 1 {
				fromHelper(x, h, 0)
			} else if h := privateHelper(x); h != nil && h.Signature.Results().Len() == 1 {
				// the sum itself moved into a private part: its (single) returned expression, read in the caller's terms
				var rets []*ssa.Return
				for _, b := range h.Blocks {
					if r, ok := b.Instrs[len(b.Instrs)-1].(*ssa.Return); ok {
						rets = append(rets, r)
					}
				}
				if len(rets) == 1 {
					p.withFrame(h, x.Call.Args, func() { walk(rets[0].Results[0], depth+1) })
				}
			}
		case *ssa.Extract:
			if call, ok := x.Tuple.(*ssa.Call); ok {
				if h, _ := helperOf(call); h != nil {
					fromHelper(call, h, x.Index)
				}
			}
		}
	}
	walk(base, 0)
	if len(cands) != 1 {
		c.Check("C07-R2", "change-output-size-is-value-prefix-script", fn.Pos(), false,
			fmt.Sprintf("the change output's summand of the base size could not be identified (%d candidates; undecided)", len(cands)))
		return
	}
	cd := cands[0]
	l := cd.l
	prm := fmt.Sprintf("param#%d", cd.idx)
	okF := l.Konst == 8 && len(l.Coef) == 2 && l.Coef[prm] == 1 && l.Coef["call:VarIntSerializeSize(+1*"+prm+" +0)"] == 1
	c.Check("C07-R2", "change-output-size-is-value-prefix-script", cd.e.Pos(), okF,
		"the change output is not sized as a serialized output, 8 + VarIntSerializeSize(changeScriptSize) + changeScriptSize (found "+l.String()+"): the estimate is short and the fee falls below the requested rate")
}

// checkP2PKHSigScriptCoversHeldKeys: the worst-case signature script of a P2PKH input pushes the signature and the
// serialized public key. The address manager can hold keys that serialize UNCOMPRESSED (65 bytes): its managed-address
// constructors take a `compressed` flag, and a call site that passes anything but the constant true (the private-key
// import passes the WIF's own flag) creates such addresses. If one exists, the size constant must cover a 65-byte key:
// 1 + 73 + 1 + 65. With the 33-byte figure every input spending such a key is under-estimated by 32 bytes and the fee
// falls below the requested rate.
func checkP2PKHSigScriptCoversHeldKeys(c *Ctx, rule string) {
	p := c.P
	n, uncompressedPossible := 0, ""
	for _, fn := range p.FuncsIn("waddrmgr") {
		for _, ci := range callsOf(fn) {
			call, ok := ci.(*ssa.Call)
			if !ok {
				continue
			}
			g := call.Call.StaticCallee()
			if g == nil || fnPkgPath(g) != fnPkgPath(fn) {
				continue
			}
			idx := -1
			for i, prm := range g.Params {
				if prm.Name() == "compressed" && isBoolType(prm.Type()) {
					idx = i
				}
			}
			if idx < 0 || idx >= len(call.Call.Args) {
				continue
			}
			n++
			a := stripConv(call.Call.Args[idx])
			if k, isK := a.(*ssa.Const); isK && k.Value != nil && k.Value.String() == "true" {
				continue
			}
			// a flag merely passed on from the caller's own `compressed` parameter is decided at that caller's sites
			if prm, ok := a.(*ssa.Parameter); ok && prm.Name() == "compressed" {
				continue
			}
			if uncompressedPossible == "" {
				uncompressedPossible = fnName(fn) + " -> " + g.Name()
			}
		}
	}
	c.Floor(rule, "call sites passing a key-compression flag to a managed-address constructor", n, 3)
	sz, ok := constInPkg(p, "wallet/txsizes", "RedeemP2PKHSigScriptSize")
	if !ok {
		c.Unresolved(rule, "txsizes.RedeemP2PKHSigScriptSize")
		return
	}
	const need = 1 + 73 + 1 + 65
	c.Check(rule, "p2pkh-sigscript-size-covers-uncompressed-keys", 0, uncompressedPossible == "" || sz >= need,
		fmt.Sprintf("RedeemP2PKHSigScriptSize = %d assumes a 33-byte compressed public key, but the wallet holds keys that serialize uncompressed (%s passes a non-constant compression flag): an input spending one carries a 65-byte key push (%d bytes of script), so it is under-estimated by %d bytes and the fee falls below the requested rate", sz, uncompressedPossible, need, need-sz))
}

// checkDustTestCoversSerializedOutput: an output is dust when its value is below three times the cost of creating and
// spending it, and the cost of creating it is its whole serialized size — 8 bytes of value, the compact-size prefix and
// the script. The wallet's dust test either asks the node policy's own test (mempool.IsDust / GetDustThreshold) or
// computes the size through the output's serializer (TxOut.SerializeSize, or value + VarIntSerializeSize + script). A
// local formula that starts from the script length alone puts every threshold 27 sat too low: a change output in that
// window is added although the network treats it as dust.
func checkDustTestCoversSerializedOutput(c *Ctx, rule string) {
	fn := pkgFn(c, rule, "wallet/txrules", "IsDustOutput")
	if fn == nil {
		return
	}
	ok := false
	var walk func(f *ssa.Function, depth int)
	seen := map[*ssa.Function]bool{}
	walk = func(f *ssa.Function, depth int) {
		if seen[f] || depth > 3 {
			return
		}
		seen[f] = true
		for _, ci := range callsOf(f) {
			cc := ci.Common()
			name := calleeShort(cc)
			if g := cc.StaticCallee(); g != nil {
				if g.Pkg != nil && strings.HasSuffix(g.Pkg.Pkg.Path(), "/mempool") && (name == "IsDust" || name == "GetDustThreshold") {
					ok = true
				}
				if name == "SerializeSize" || name == "VarIntSerializeSize" {
					ok = true
				}
				if fnPkgPath(g) == fnPkgPath(fn) && len(g.Blocks) > 0 {
					walk(g, depth+1)
				}
			}
		}
	}
	walk(fn, 0)
	c.Check(rule, "dust-test-covers-serialized-output", fn.Pos(), ok,
		"IsDustOutput neither asks the node policy's dust test nor sizes the output through its serializer: a threshold computed from the script length alone forgets the 9 bytes of value and script-length prefix, so change outputs up to 27 sat below the real dust limit are added to authored transactions")
}

// checkWitnessSignaturesUseCompressedKeys: the witness of a (nested) P2WPKH input is a signature and a public key; the
// estimator budgets RedeemP2WPKHInputWitnessWeight for it, which assumes the 33-byte compressed key. The signer therefore
// asks for the compressed serialisation at every witness signature it makes (constant true), whatever the secrets source
// says about the key: with the source's flag handed through, an uncompressed key adds 32 weight-discounted bytes (8 vB)
// per input that no estimate accounts for, and the fee falls below the requested rate.
func checkWitnessSignaturesUseCompressedKeys(c *Ctx, rule string) {
	p := c.P
	n := 0
	for _, fn := range p.FuncsIn("wallet/txauthor") {
		for _, call := range callsNamed(fn, "WitnessSignature") {
			if len(call.Call.Args) == 0 {
				continue
			}
			n++
			last := stripConv(call.Call.Args[len(call.Call.Args)-1])
			isTrue := func(v ssa.Value) bool {
				k, isK := stripConv(v).(*ssa.Const)
				return isK && k.Value != nil && k.Value.String() == "true"
			}
			detail := " lets the secrets source decide whether the public key in the witness is compressed: for an uncompressed key the witness carries a 65-byte key, 8 vB per input more than RedeemP2WPKHInputWitnessWeight budgets, so the fee is below the requested rate on the signed size"
			// two signers folded into one that is told which one it is by a bool parameter: each caller's variant is
			// judged on its own, under the caller's name (the choice merged at an `if <param>`)
			if per := specialiseByBoolParam(p, last, fn); len(per) > 0 {
				for _, sp := range per {
					c.Check(rule, "witness-signature-uses-compressed-key:"+outermost(sp.caller.Parent()).Name(), call.Pos(), isTrue(sp.val), fnName(outermost(sp.caller.Parent()))+detail)
				}
				continue
			}
			c.Check(rule, "witness-signature-uses-compressed-key:"+fn.Name(), call.Pos(), isTrue(last), fnName(fn)+detail)
		}
	}
	c.Floor(rule, "witness signatures made by the signer", n, 2)
}

// checkSumOutputValuesAddsEveryOutput: the amount the inputs must cover is the sum over ALL requested outputs — whatever
// their script is: an output that is skipped still leaves the transaction with its value, so the change is too large by
// exactly that amount (the fee shrinks, or outputs exceed inputs). Every iteration of the summing loop adds the output's
// value.
func checkSumOutputValuesAddsEveryOutput(c *Ctx, rule string) {
	p := c.P
	fn := p.Func("wallet/txauthor", "", "SumOutputValues")
	if fn == nil {
		c.Unresolved(rule, "txauthor.SumOutputValues")
		return
	}
	addsValue := func(ins ssa.Instruction) bool {
		bo, ok := ins.(*ssa.BinOp)
		if !ok || bo.Op != token.ADD {
			return false
		}
		for _, o := range (&Slicer{P: p}).Origins(bo) {
			if _, f, _, ok := fieldOf(o); ok && f == "Value" {
				return true
			}
		}
		for _, side := range []ssa.Value{bo.X, bo.Y} {
			for _, o := range (&Slicer{P: p}).Origins(side) {
				if _, f, _, ok := fieldOf(o); ok && f == "Value" {
					return true
				}
			}
		}
		return false
	}
	n := 0
	for _, f := range p.regionOf(fn) {
		for _, l := range loopsOf(f) {
			if !l.containsInstr(addsValue) {
				continue
			}
			n++
			bad := l.MustPassPerIteration(p, addsValue)
			exits := l.EarlyExits(p)
			c.Check(rule, "output-sum-adds-every-output", l.Header.Instrs[0].Pos(), bad == "" && len(exits) == 0,
				"SumOutputValues can skip an output ("+bad+strings.Join(exits, "; ")+"): the target amount is short by that output's value, the change output too large by it — inputs no longer equal outputs plus fee")
		}
	}
	c.Floor(rule, "loops summing the requested output values", n, 1)
}

// checkEstimatorArgumentKinds: the author counts its inputs per script kind and hands the counts to the size estimator
// positionally (four ints in a row). Each count must arrive at the parameter of its own kind: the counter incremented in
// the arm guarded by IsPayToScriptHash is the nested-P2WPKH count, by IsPayToWitnessPubKeyHash the P2WPKH count, by
// IsPayToTaproot the P2TR count, the remaining arm the P2PKH count. Two swapped counts under-size one kind and
// over-size the other by the difference of their per-input sizes (23 vB for nested vs native P2WPKH).
func checkEstimatorArgumentKinds(c *Ctx, rule string) {
	p := c.P
	est := p.Func("wallet/txsizes", "", "EstimateVirtualSize")
	if est == nil {
		c.Unresolved(rule, "txsizes.EstimateVirtualSize")
		return
	}
	predKind := map[string]string{"IsPayToScriptHash": "Nested", "IsPayToWitnessPubKeyHash": "P2WPKH", "IsPayToTaproot": "P2TR"}
	paramKind := func(name string) string {
		switch {
		case strings.Contains(name, "Nested"):
			return "Nested"
		case strings.Contains(name, "P2WPKH"):
			return "P2WPKH"
		case strings.Contains(name, "P2TR"):
			return "P2TR"
		case strings.Contains(name, "P2PKH"):
			return "P2PKH"
		}
		return ""
	}
	// the kind of the arm an increment sits in
	armKind := func(bo *ssa.BinOp) string {
		b := bo.Block()
		for hops := 0; hops < 3 && b != nil; hops++ {
			if len(b.Preds) != 1 {
				return ""
			}
			pr := b.Preds[0]
			iff, ok := pr.Instrs[len(pr.Instrs)-1].(*ssa.If)
			if !ok {
				b = pr
				continue
			}
			call, ok := stripConv(iff.Cond).(*ssa.Call)
			if !ok {
				return ""
			}
			k, known := predKind[calleeShort(&call.Call)]
			if !known {
				return ""
			}
			if pr.Succs[0] == b {
				return k
			}
			// the arm taken when the LAST of the tests fails: every kind test was asked on the way
			asked := map[string]bool{k: true}
			for q := pr; len(q.Preds) == 1; {
				pp := q.Preds[0]
				i2, ok := pp.Instrs[len(pp.Instrs)-1].(*ssa.If)
				if !ok || pp.Succs[1] != q {
					break
				}
				c2, ok := stripConv(i2.Cond).(*ssa.Call)
				if !ok {
					break
				}
				if k2, ok := predKind[calleeShort(&c2.Call)]; ok {
					asked[k2] = true
				}
				q = pp
			}
			if len(asked) == len(predKind) {
				return "P2PKH"
			}
			return ""
		}
		return ""
	}
	increments := newCountTracer(p)
	n := 0
	for _, fn := range p.FuncsIn("wallet/txauthor") {
		for _, ci := range callsOf(fn) {
			call, ok := ci.(*ssa.Call)
			if !ok || !p.isCallTo(call, est) || len(call.Call.Args) != len(est.Params) {
				continue
			}
			for i, prm := range est.Params {
				want := paramKind(prm.Name())
				if want == "" {
					continue
				}
				incs := increments(call.Call.Args[i], 0, map[ssa.Value]bool{})
				if len(incs) == 0 {
					continue // a constant, or a count that is not built by counting here
				}
				got := map[string]bool{}
				for _, bo := range incs {
					got[armKind(bo)] = true
				}
				n++
				var gl []string
				for k := range got {
					gl = append(gl, k)
				}
				sort.Strings(gl)
				c.Check(rule, "estimator-argument-kind:"+prm.Name(), call.Pos(), len(got) == 1 && got[want],
					fmt.Sprintf("%s hands EstimateVirtualSize, as %s, a count that is incremented for %v inputs: each such input is sized as the other kind, the fee is below the requested rate (or above the allowed band) on the signed size", fnName(fn), prm.Name(), gl))
			}
		}
	}
	c.Floor(rule, "per-kind input counts handed to the size estimator", n, 4)
}

type boolSpecialisation struct {
	caller ssa.CallInstruction
	val    ssa.Value
}

// specialiseByBoolParam: v is a two-way merge decided by `if <bool parameter of fn>` (fn unexported), and every caller
// passes a constant for that parameter: the value v has for each caller.
func specialiseByBoolParam(p *Program, v ssa.Value, fn *ssa.Function) []boolSpecialisation {
	ph, ok := v.(*ssa.Phi)
	if !ok || len(ph.Edges) != 2 || fn.Object() == nil || fn.Object().Exported() {
		return nil
	}
	d := ph.Block().Idom()
	if d == nil || len(d.Instrs) == 0 {
		return nil
	}
	iff, ok := d.Instrs[len(d.Instrs)-1].(*ssa.If)
	if !ok {
		return nil
	}
	cond, neg := unwrapNot(iff.Cond)
	prm, ok := stripConv(cond).(*ssa.Parameter)
	if !ok || prm.Parent() != fn {
		return nil
	}
	idx := paramIndex(fn, prm)
	// which edge of the merge is taken when the condition holds
	whenTrue := -1
	for i, pred := range ph.Block().Preds {
		switch {
		case pred == d && d.Succs[0] == ph.Block():
			whenTrue = i
		case pred != d && (d.Succs[0] == pred || d.Succs[0].Dominates(pred)) && d.Succs[0] != ph.Block():
			whenTrue = i
		}
	}
	if whenTrue < 0 {
		return nil
	}
	var out []boolSpecialisation
	for _, cs := range p.realCallers(fn) {
		args := cs.Common().Args
		if idx < 0 || idx >= len(args) {
			return nil
		}
		b, isC := constBool(stripConv(args[idx]))
		if !isC {
			return nil
		}
		take := whenTrue
		if b == neg { // the condition is false for this caller
			take = 1 - whenTrue
		}
		out = append(out, boolSpecialisation{cs, ph.Edges[take]})
	}
	return out
}

// newCountTracer returns the function that finds the increments (x + 1) a count of the author is built from: through
// merges, through the results of the package's own helpers (a counting helper with several results, or one returning a
// small struct of counts), through parameters of private parts, and through the fields of such a struct (all increments
// stored to that field anywhere in the package).
func newCountTracer(p *Program) func(v ssa.Value, depth int, seen map[ssa.Value]bool) []*ssa.BinOp {
	pkgPath := rootMod + "/wallet/txauthor"
	fieldIncs := map[fieldCell][]*ssa.BinOp{}
	fieldIncsDone := false
	collectFieldIncs := func() {
		if fieldIncsDone {
			return
		}
		fieldIncsDone = true
		for _, fn := range p.FuncsIn("wallet/txauthor") {
			for _, b := range fn.Blocks {
				for _, ins := range b.Instrs {
					st, ok := ins.(*ssa.Store)
					if !ok {
						continue
					}
					fc, ok := privateFieldCell(st.Addr)
					if !ok {
						continue
					}
					if bo, ok := stripConv(st.Val).(*ssa.BinOp); ok && bo.Op == token.ADD {
						if k, isK := constInt(bo.Y); isK && k == 1 {
							fieldIncs[fc] = append(fieldIncs[fc], bo)
						}
					}
				}
			}
		}
	}
	fieldCellOfRead := func(v ssa.Value) (fieldCell, bool) {
		switch x := v.(type) {
		case *ssa.UnOp:
			if x.Op == token.MUL {
				return privateFieldCell(x.X)
			}
		case *ssa.Field:
			t := x.X.Type()
			if named, ok := t.(*types.Named); ok && named.Obj().Pkg() != nil && !named.Obj().Exported() {
				if _, isStruct := named.Underlying().(*types.Struct); isStruct {
					return fieldCell{named, x.Field}, true
				}
			}
		}
		return fieldCell{}, false
	}
	var increments func(v ssa.Value, depth int, seen map[ssa.Value]bool) []*ssa.BinOp
	increments = func(v ssa.Value, depth int, seen map[ssa.Value]bool) []*ssa.BinOp {
		v = stripConv(v)
		if seen[v] || depth > 6 {
			return nil
		}
		seen[v] = true
		if fc, ok := fieldCellOfRead(v); ok {
			collectFieldIncs()
			return fieldIncs[fc]
		}
		var out []*ssa.BinOp
		switch x := v.(type) {
		case *ssa.Phi:
			for _, e := range x.Edges {
				out = append(out, increments(e, depth, seen)...)
			}
		case *ssa.BinOp:
			if k, ok := constInt(x.Y); ok && k == 1 && x.Op == token.ADD {
				return []*ssa.BinOp{x}
			}
		case *ssa.UnOp:
			if al, ok := x.X.(*ssa.Alloc); ok && x.Op == token.MUL {
				for _, st := range storesTo(al) {
					out = append(out, increments(st.Val, depth, seen)...)
				}
			}
		case *ssa.Parameter:
			f := x.Parent()
			if idx := paramIndex(f, x); idx >= 0 && f.Object() != nil && !f.Object().Exported() {
				for _, cs := range p.realCallers(f) {
					if args := cs.Common().Args; idx < len(args) {
						out = append(out, increments(args[idx], depth+1, seen)...)
					}
				}
			}
		case *ssa.Extract, *ssa.Call:
			var call *ssa.Call
			idx := 0
			if ex, ok := x.(*ssa.Extract); ok {
				call, _ = ex.Tuple.(*ssa.Call)
				idx = ex.Index
			} else {
				call = x.(*ssa.Call)
			}
			if call == nil {
				break
			}
			g := call.Call.StaticCallee()
			if g == nil || len(g.Blocks) == 0 || fnPkgPath(g) != pkgPath {
				break
			}
			for _, b := range g.Blocks {
				if r, ok := b.Instrs[len(b.Instrs)-1].(*ssa.Return); ok && idx < len(r.Results) {
					out = append(out, increments(r.Results[idx], depth+1, seen)...)
				}
			}
		}
		return out
	}
	return increments
}

// loopBoundIs: l is a counting loop `for i := 0; i < len(x); i++` whose bound x satisfies is.
func loopBoundIs(p *Program, l *Loop, is func(ssa.Value) bool) bool {
	if l == nil || len(l.Header.Instrs) == 0 {
		return false
	}
	iff, ok := l.Header.Instrs[len(l.Header.Instrs)-1].(*ssa.If)
	if !ok {
		return false
	}
	cmp, ok := iff.Cond.(*ssa.BinOp)
	if !ok || cmp.Op != token.LSS {
		return false
	}
	call, ok := stripConv(cmp.Y).(*ssa.Call)
	if !ok || calleeShort(&call.Call) != "len" || len(call.Call.Args) != 1 {
		return false
	}
	return is(call.Call.Args[0])
}

// estSite: a call of the size estimator reached from the author, with the chain of private parts it was reached through
// (each with the arguments of its call: the frames under which the estimator's arguments are to be read) and whether some
// link of the chain sits inside a `for` loop (the author's retry loop).
type estSite struct {
	call   *ssa.Call
	chain  []*ssa.Call
	inLoop bool
}

func estimatorSites(p *Program, root *ssa.Function) []estSite {
	var out []estSite
	var walk func(f *ssa.Function, chain []*ssa.Call, inLoop bool, depth int)
	walk = func(f *ssa.Function, chain []*ssa.Call, inLoop bool, depth int) {
		loops := loopsOf(f)
		for _, ci := range callsOf(f) {
			call, ok := ci.(*ssa.Call)
			if !ok {
				continue
			}
			in := inLoop
			for _, l := range loops {
				if l.Kind == "for" && l.Blocks[call.Block()] {
					in = true
				}
			}
			if calleeShort(&call.Call) == "EstimateVirtualSize" {
				out = append(out, estSite{call, append([]*ssa.Call(nil), chain...), in})
				continue
			}
			h := call.Call.StaticCallee()
			if h == nil || len(h.Blocks) == 0 || depth >= 3 || h == f || fnPkgPath(h) != fnPkgPath(root) || h.Object() == nil || h.Object().Exported() {
				continue
			}
			walk(h, append(chain, call), in, depth+1)
		}
	}
	walk(root, nil, false, 0)
	return out
}

// under runs f with the frames of the site's chain pushed.
func (s estSite) under(p *Program, f func()) {
	var rec func(i int)
	rec = func(i int) {
		if i == len(s.chain) {
			f()
			return
		}
		p.withFrame(s.chain[i].Call.StaticCallee(), s.chain[i].Call.Args, func() { rec(i + 1) })
	}
	rec(0)
}
