package main

import (
	"fmt"
	"go/token"
	"go/types"
	"sort"
	"strings"

	"golang.org/x/tools/go/ssa"
)

func init() {
	register(&propSpec{
		ID: "C11",
		Explanation: "Atomicity, isolation and key order are bbolt's (trusted). Decided is that the bdb adapter cannot lose them: (R1) managed transactions: Update registers, before running the function, a deferred rollback whose only guard is 'a transaction exists' (so a panic rolls back), " +
			"rolls back and returns the function's error on its error path, and otherwise returns the result of Commit; View rolls back on every path and the function's error wins; Batch hands the function's error to bbolt unchanged (so bbolt rolls the batch back); the package-level helpers forward to the methods; " +
			"(R2) typed-nil guards: a *bbolt.Bucket is converted into the interface-typed *bucket only when known non-nil; (R3) delegate agreement: every adapter method calls the bbolt method of the same role on its own receiver with its arguments passed through unchanged; " +
			"(R4) the error table maps each bbolt error to the walletdb error of the same name, injectively, and falls through to the original error; (R5) read-only capability: the read interfaces expose no mutator, read transactions are opened non-writable, and no production code down-casts to a read-write interface. NOT decided: anything bbolt does.",
		Assumptions: []string{"bbolt semantics (ACID, ordered cursors, rollback releases the writer lock, failed Batch functions are rolled back)"},
		Run:         runC11,
	})
}

const bdbPkg = "walletdb/bdb"

func bdbMethod(c *Ctx, rule, recv, name string) *ssa.Function {
	fn := c.P.Func(bdbPkg, recv, name)
	if fn == nil {
		c.Unresolved(rule, "bdb."+recv+"."+name)
	}
	return fn
}

// deferredClosures returns closures invoked by defer in fn.
func deferredClosures(fn *ssa.Function) []*ssa.Function {
	var out []*ssa.Function
	for _, b := range fn.Blocks {
		for _, ins := range b.Instrs {
			d, ok := ins.(*ssa.Defer)
			if !ok {
				continue
			}
			if mc, ok := d.Call.Value.(*ssa.MakeClosure); ok {
				if f, ok := mc.Fn.(*ssa.Function); ok {
					out = append(out, f)
				}
			}
		}
	}
	return out
}

func isCallNamedAny(names ...string) func(ssa.Instruction) bool {
	return func(ins ssa.Instruction) bool {
		c, ok := ins.(*ssa.Call)
		if !ok {
			return false
		}
		n := calleeShort(&c.Call)
		for _, x := range names {
			if n == x {
				return true
			}
		}
		return false
	}
}

func runC11(c *Ctx) {
	p := c.P
	// ---------- R1 ----------
	for _, name := range []string{"Update", "View"} {
		fn := bdbMethod(c, "C11-R1", "db", name)
		if fn == nil {
			continue
		}
		// the call of the user function: call whose Value is the parameter f
		var fcall *ssa.Call
		for _, ci := range callsOf(fn) {
			if call, ok := ci.(*ssa.Call); ok {
				if prm, ok := call.Call.Value.(*ssa.Parameter); ok && paramIndex(fn, prm) == 1 {
					fcall = call
				}
			}
		}
		if fcall == nil {
			c.Check("C11-R1", name+"-runs-function", fn.Pos(), false, "db."+name+" does not call the supplied function (undecided)")
			continue
		}
		// deferred rollback registered before f runs
		var deferIns *ssa.Defer
		for _, b := range fn.Blocks {
			for _, ins := range b.Instrs {
				if d, ok := ins.(*ssa.Defer); ok {
					// a deferred function literal, or a deferred named function of the package, that rolls back
					var df *ssa.Function
					if mc, ok := d.Call.Value.(*ssa.MakeClosure); ok {
						df, _ = mc.Fn.(*ssa.Function)
					} else if g := d.Call.StaticCallee(); g != nil && fnPkgPath(g) == fnPkgPath(fn) && len(g.Blocks) > 0 {
						df = g
					}
					if df != nil && len(callsNamedDeep(df, "Rollback")) > 0 {
						deferIns = d
					}
				}
			}
		}
		okDefer := deferIns != nil && !reachableAvoiding(fn, nil, fcall, func(from *ssa.BasicBlock, si int) bool { return false }) == false
		if deferIns != nil {
			// every path to fcall passes the defer
			q := &PathQuery{Fn: fn, Barrier: func(ins ssa.Instruction) bool { return ins == ssa.Instruction(deferIns) }}
			q.Target = func(ins ssa.Instruction, via *ssa.BasicBlock) bool { return ins == ssa.Instruction(fcall) }
			okDefer = len(q.From(nil)) == 0
		} else {
			okDefer = false
		}
		c.Check("C11-R1", name+"-deferred-rollback-before-function", fn.Pos(), okDefer, "db."+name+" runs the supplied function without a deferred rollback registered first: a panic leaves the transaction (and the writer lock) open")
		if deferIns != nil {
			var dcl *ssa.Function
			if mc, ok := deferIns.Call.Value.(*ssa.MakeClosure); ok {
				dcl = mc.Fn.(*ssa.Function)
			} else {
				dcl = deferIns.Call.StaticCallee()
			}
			// inside the deferred closure, Rollback is skipped only when no transaction exists
			q := &PathQuery{Fn: dcl, Barrier: isCallNamedAny("Rollback")}
			q.EdgeBarrier = func(from *ssa.BasicBlock, si int) bool {
				f := edgeFactOf(from, si)
				if f == nil || f.Kind != "nil" {
					return false
				}
				// the tested value is the captured transaction variable
				sl := &Slicer{P: p, KeepExtract: true}
				var origins []ssa.Value
				for _, o := range sl.Origins(f.V) {
					// a deferred named function tests its parameter: the transaction handed over at the defer statement
					if prm, isPrm := o.(*ssa.Parameter); isPrm && prm.Parent() == dcl {
						if i := paramIndex(dcl, prm); i >= 0 && i < len(deferIns.Call.Args) {
							origins = append(origins, sl.Origins(deferIns.Call.Args[i])...)
							continue
						}
					}
					origins = append(origins, o)
				}
				for _, o := range origins {
					ex, ok := o.(*ssa.Extract)
					if !ok || ex.Index != 0 {
						return false
					}
					if call, ok := ex.Tuple.(*ssa.Call); !ok || !strings.HasPrefix(calleeShort(&call.Call), "Begin") {
						return false
					}
				}
				return true
			}
			q.Target = func(ins ssa.Instruction, via *ssa.BasicBlock) bool { _, ok := ins.(*ssa.Return); return ok }
			hits := q.From(nil)
			c.Check("C11-R1", name+"-deferred-rollback-unconditional", dcl.Pos(), len(hits) == 0,
				"the deferred rollback of db."+name+" is skipped under a condition other than 'no transaction was opened' (e.g. it depends on the error variable, which is still nil when the function panics)")
		}
		// error path of f: the function's own result must be tested directly (no intermediate re-mapping of the error)
		nTests := 0
		for _, b := range fn.Blocks {
			for si := range b.Succs {
				f := edgeFactOf(b, si)
				if f != nil && loadIsResultOf(f.V, fcall) && (f.Kind == "nil" || f.Kind == "nonnil") {
					nTests++
				}
			}
		}
		c.Check("C11-R1", name+"-tests-function-error-directly", fcall.Pos(), nTests >= 2,
			"db."+name+" does not branch directly on the supplied function's error (it is re-mapped or filtered first): some error values would be committed instead of rolled back")
		for _, b := range fn.Blocks {
			for si := range b.Succs {
				f := edgeFactOf(b, si)
				if f == nil || !loadIsResultOf(f.V, fcall) {
					continue
				}
				if f.Kind == "nonnil" && name == "Update" {
					q := &PathQuery{Fn: fn, Barrier: isCallNamedAny("Rollback")}
					q.Target = func(ins ssa.Instruction, via *ssa.BasicBlock) bool { _, ok := ins.(*ssa.Return); return ok }
					hits := exploreFromBlock(q, b.Succs[si], b)
					c.Check("C11-R1", "Update-error-path-rolls-back", lastPos(b), len(hits) == 0, "db.Update returns on the function's error path without rolling back")
				}
				if f.Kind == "nonnil" {
					// returns f's error
					q := &PathQuery{Fn: fn}
					q.Target = func(ins ssa.Instruction, via *ssa.BasicBlock) bool {
						r, ok := ins.(*ssa.Return)
						if !ok {
							return false
						}
						return !loadIsResultOfOrSame(effectiveResult(r, 0), fcall)
					}
					hits := exploreFromBlock(q, b.Succs[si], b)
					c.Check("C11-R1", name+"-returns-function-error", lastPos(b), len(hits) == 0, "db."+name+" does not return the supplied function's own error on its error path")
				}
				if f.Kind == "nil" && name == "Update" {
					// success path returns Commit's result
					q := &PathQuery{Fn: fn}
					q.Target = func(ins ssa.Instruction, via *ssa.BasicBlock) bool {
						r, ok := ins.(*ssa.Return)
						if !ok {
							return false
						}
						call, isCall := effectiveResult(r, 0).(*ssa.Call)
						return !(isCall && calleeShort(&call.Call) == "Commit")
					}
					hits := exploreFromBlock(q, b.Succs[si], b)
					c.Check("C11-R1", "Update-success-returns-Commit-result", lastPos(b), len(hits) == 0, "db.Update can report success without returning the result of Commit (a failed commit would read as success)")
					q2 := &PathQuery{Fn: fn}
					q2.Target = func(ins ssa.Instruction, via *ssa.BasicBlock) bool { return isCallNamedAny("Rollback")(ins) }
					hits = exploreFromBlock(q2, b.Succs[si], b)
					c.Check("C11-R1", "Update-success-does-not-roll-back", lastPos(b), len(hits) == 0, "db.Update rolls back on the success path")
				}
			}
		}
		if name == "View" {
			bad := 0
			q := &PathQuery{Fn: fn, Barrier: isCallNamedAny("Rollback")}
			q.Target = func(ins ssa.Instruction, via *ssa.BasicBlock) bool { _, ok := ins.(*ssa.Return); return ok }
			bad = len(q.From(fcall))
			c.Check("C11-R1", "View-always-rolls-back", fcall.Pos(), bad == 0, "db.View can return after running the function without rolling the read transaction back")
			if len(callsNamedDeep(fn, "Commit")) > 0 {
				c.Check("C11-R1", "View-never-commits", fn.Pos(), false, "db.View commits")
			}
		}
		// f is called with the transaction it opened
		okArg := false
		if len(fcall.Call.Args) == 1 {
			sl := &Slicer{P: p, KeepExtract: true}
			for _, o := range sl.Origins(fcall.Call.Args[0]) {
				if ex, ok := o.(*ssa.Extract); ok && ex.Index == 0 {
					if call, ok := ex.Tuple.(*ssa.Call); ok {
						want := "BeginReadWriteTx"
						if name == "View" {
							want = "BeginReadTx"
						}
						okArg = calleeShort(&call.Call) == want
					}
				}
			}
		}
		c.Check("C11-R1", name+"-opens-right-transaction-kind", fcall.Pos(), okArg, "db."+name+" does not run the function on a transaction opened by the matching Begin method")
	}
	// Batch: the function's error goes to bbolt unchanged
	if bt := bdbMethod(c, "C11-R1", "db", "Batch"); bt != nil {
		n := 0
		for _, cl := range bt.AnonFuncs {
			for _, b := range cl.Blocks {
				for _, ins := range b.Instrs {
					r, ok := ins.(*ssa.Return)
					if !ok {
						continue
					}
					n++
					v := effectiveResult(r, 0)
					call, isCall := v.(*ssa.Call)
					okR := false
					if isCall {
						if fv, ok := call.Call.Value.(*ssa.FreeVar); ok && fv.Name() == bt.Params[1].Name() {
							okR = true
						}
						if u, ok := call.Call.Value.(*ssa.UnOp); ok {
							if fv, ok := u.X.(*ssa.FreeVar); ok && fv.Name() == bt.Params[1].Name() {
								okR = true
							}
						}
					}
					c.Check("C11-R1", "Batch-hands-function-error-to-bbolt", r.Pos(), okR,
						"the closure db.Batch passes to bbolt does not return the supplied function's error: bbolt would commit a batch whose function failed")
				}
			}
		}
		c.Floor("C11-R1", "returns in the Batch closure", n, 1)
		// Batch returns bbolt's result
		okB := false
		for _, b := range bt.Blocks {
			for _, ins := range b.Instrs {
				if r, ok := ins.(*ssa.Return); ok {
					sl := &Slicer{P: p, ThroughCallArgs: func(call *ssa.Call, arg ssa.Value) bool { return isErrorType(arg.Type()) }}
					for _, o := range sl.Origins(effectiveResult(r, 0)) {
						if call, ok := o.(*ssa.Call); ok && calleeShort(&call.Call) == "Batch" {
							okB = true
						}
					}
				}
			}
		}
		c.Check("C11-R1", "Batch-returns-bbolt-result", bt.Pos(), okB, "db.Batch does not return the result of bbolt's Batch")
	}
	// package-level helpers forward
	for _, name := range []string{"Update", "View"} {
		fn := c.P.Func("walletdb", "", name)
		if fn == nil {
			c.Unresolved("C11-R1", "walletdb."+name)
			continue
		}
		ok := false
		for _, b := range fn.Blocks {
			for _, ins := range b.Instrs {
				if r, isR := ins.(*ssa.Return); isR {
					if call, isCall := r.Results[0].(*ssa.Call); isCall && call.Call.IsInvoke() && call.Call.Method.Name() == name {
						if prm, isP := call.Call.Args[0].(*ssa.Parameter); isP && paramIndex(fn, prm) == 1 {
							ok = true
						}
					}
				}
			}
		}
		c.Check("C11-R1", "helper-forwards:walletdb."+name, fn.Pos(), ok, "walletdb."+name+" does not return db."+name+"(f, reset) with the caller's function")
	}

	runC11R2(c)
	runC11R3(c)
	runC11R4(c)
	runC11R5(c)
}

func loadIsResultOfOrSame(v ssa.Value, call *ssa.Call) bool {
	if v == nil {
		return false
	}
	return loadIsResultOf(v, call)
}

// R2 typed-nil guards.
func runC11R2(c *Ctx) {
	p := c.P
	n := 0
	for _, fn := range p.FuncsIn(bdbPkg) {
		for _, b := range fn.Blocks {
			for _, ins := range b.Instrs {
				mi, ok := ins.(*ssa.MakeInterface)
				if !ok {
					continue
				}
				ct, ok := mi.X.(*ssa.ChangeType)
				if !ok {
					continue
				}
				if !strings.HasSuffix(ct.X.Type().String(), "bbolt.Bucket") {
					continue
				}
				n++
				src := ct.X
				ok2 := !reachableAvoiding(fn, nil, mi, func(from *ssa.BasicBlock, si int) bool {
					f := edgeFactOf(from, si)
					if f == nil {
						return false
					}
					if f.Kind == "nonnil" && sameValue(f.V, src) {
						return true
					}
					// (bucket, err) from a create call: err == nil edge
					if ex, isEx := src.(*ssa.Extract); isEx && f.Kind == "nil" {
						if ex2, isEx2 := f.V.(*ssa.Extract); isEx2 && ex2.Tuple == ex.Tuple && ex2.Index != ex.Index {
							return true
						}
					}
					// the same pair received as parameters of a helper: every caller passes the two results of one call
					if sp, isP := src.(*ssa.Parameter); isP && f.Kind == "nil" {
						if ep, isP2 := f.V.(*ssa.Parameter); isP2 && isErrorType(ep.Type()) && sp.Parent() == ep.Parent() {
							i, j := paramIndex(fn, sp), paramIndex(fn, ep)
							sites := p.callers(fn)
							okAll := len(sites) > 0
							for _, cs := range sites {
								args := cs.Common().Args
								if i >= len(args) || j >= len(args) {
									okAll = false
									continue
								}
								e1, ok1 := args[i].(*ssa.Extract)
								e2, ok2 := args[j].(*ssa.Extract)
								if !ok1 || !ok2 || e1.Tuple != e2.Tuple {
									okAll = false
								}
							}
							if okAll {
								return true
							}
						}
					}
					return false
				})
				c.Check("C11-R2", "typed-nil-guard:"+fnName(fn), mi.Pos(), ok2,
					"a possibly nil *bbolt.Bucket is converted into a walletdb bucket interface without a nil check: callers' 'bucket == nil' tests would never fire")
			}
		}
	}
	c.Floor("C11-R2", "bbolt.Bucket -> interface conversions", n, 4)
	// read variants return the write variant's interface
	for _, pr := range [][3]string{{"transaction", "ReadBucket", "ReadWriteBucket"}, {"bucket", "NestedReadBucket", "NestedReadWriteBucket"}, {"bucket", "ReadCursor", "ReadWriteCursor"}} {
		fn := bdbMethod(c, "C11-R2", pr[0], pr[1])
		if fn == nil {
			continue
		}
		ok := len(callsNamed(fn, pr[2])) == 1
		c.Check("C11-R2", "read-variant-delegates:"+pr[0]+"."+pr[1], fn.Pos(), ok, pr[1]+" does not delegate to "+pr[2]+" (interface-to-interface conversion preserves nil)")
	}
}

// R3 delegate agreement.
var delegateAlias = map[string]string{
	"transaction.ReadWriteBucket": "Bucket", "transaction.CreateTopLevelBucket": "CreateBucketIfNotExists", "transaction.DeleteTopLevelBucket": "DeleteBucket",
	"transaction.ForEachBucket": "ForEach", "bucket.NestedReadWriteBucket": "Bucket", "bucket.DeleteNestedBucket": "DeleteBucket", "bucket.ReadWriteCursor": "Cursor",
}

// methods that delegate to a sibling adapter method or have special bodies (checked elsewhere).
var delegateSkip = map[string]bool{"transaction.ReadBucket": true, "bucket.NestedReadBucket": true, "bucket.ReadCursor": true}

func runC11R3(c *Ctx) {
	p := c.P
	n := 0
	for _, fn := range p.FuncsIn(bdbPkg) {
		if fn.Signature.Recv() == nil || fn.Parent() != nil {
			continue
		}
		rn := recvName(fn)
		if rn != "transaction" && rn != "bucket" && rn != "cursor" {
			continue
		}
		key := rn + "." + fn.Name()
		if delegateSkip[key] || !token.IsExported(fn.Name()) {
			continue // unexported methods are internal helpers, not part of the walletdb interfaces
		}
		want := fn.Name()
		if a, ok := delegateAlias[key]; ok {
			want = a
		}
		// find the bbolt call
		var target *ssa.Call
		for _, f := range Closures(fn) {
			for _, ci := range callsOf(f) {
				call, ok := ci.(*ssa.Call)
				if !ok {
					continue
				}
				callee := call.Call.StaticCallee()
				if callee != nil && fnPkgPath(callee) == bboltPath && f == fn {
					target = call
				}
			}
		}
		n++
		if target == nil {
			c.Check("C11-R3", "delegate:"+key, fn.Pos(), false, "adapter method does not call bbolt")
			continue
		}
		got := target.Call.StaticCallee().Name()
		okName := got == want
		// receiver derives from own receiver
		okRecv := false
		sl := &Slicer{P: p}
		for _, o := range sl.Origins(target.Call.Args[0]) {
			if prm, ok := o.(*ssa.Parameter); ok && paramIndex(fn, prm) == 0 {
				okRecv = true
			}
			if _, f, _, ok := fieldOf(o); ok && f == "boltTx" {
				okRecv = true
			}
			// own receiver converted by a same-package helper (func (c *cursor) boltCursor() *bbolt.Cursor { return (*bbolt.Cursor)(c) })
			if hc, ok := o.(*ssa.Call); ok {
				h := hc.Call.StaticCallee()
				if h != nil && h.Pkg == fn.Pkg && len(hc.Call.Args) == 1 && len(h.Params) == 1 {
					if prm, ok := stripConv(hc.Call.Args[0]).(*ssa.Parameter); ok && paramIndex(fn, prm) == 0 {
						pure := len(h.Blocks) == 1
						for _, b := range h.Blocks {
							for _, ins := range b.Instrs {
								if r, ok := ins.(*ssa.Return); ok {
									if len(r.Results) != 1 || stripConv(r.Results[0]) != ssa.Value(h.Params[0]) {
										pure = false
									}
								}
							}
						}
						if pure {
							okRecv = true
						}
					}
				}
			}
		}
		// arguments passed through in order
		okArgs := true
		if fn.Name() != "ForEachBucket" {
			for i, a := range target.Call.Args[1:] {
				prm, ok := a.(*ssa.Parameter)
				if !ok || paramIndex(fn, prm) != i+1 {
					okArgs = false
				}
			}
		}
		c.Check("C11-R3", "delegate:"+key, target.Pos(), okName && okRecv && okArgs,
			fmt.Sprintf("adapter method %s calls bbolt %s (expected %s) on own receiver=%v with arguments passed through unchanged=%v", key, got, want, okRecv, okArgs))
		// every return passes that one delegate call: no alternative path (a "fast path" answering from another bucket,
		// a cached value) may produce the method's answer
		{
			q := &PathQuery{Fn: fn, Barrier: func(i ssa.Instruction) bool { return i == ssa.Instruction(target) },
				Target: func(i ssa.Instruction, _ *ssa.BasicBlock) bool { _, ok := i.(*ssa.Return); return ok }}
			c.Check("C11-R3", "delegate-on-every-path:"+key, target.Pos(), len(q.From(nil)) == 0,
				"adapter method "+key+" can return without having called its bbolt counterpart (an alternative path produces the answer): what it returns is then not what bbolt holds for this bucket/cursor/transaction")
		}
		// byte-slice results (keys, values) are handed back exactly as bbolt returned them: in walletdb a nil value means
		// "key absent" (Get) or "nested bucket" (cursors), and an empty non-nil one is a present, empty value; copying,
		// re-slicing or appending loses that distinction
		res := fn.Signature.Results()
		for ri := 0; ri < res.Len(); ri++ {
			sl, isSlice := res.At(ri).Type().Underlying().(*types.Slice)
			if !isSlice {
				continue
			}
			if b, ok := sl.Elem().Underlying().(*types.Basic); !ok || b.Kind() != types.Byte {
				continue
			}
			okRes := true
			for _, b := range fn.Blocks {
				for _, ins := range b.Instrs {
					r, ok := ins.(*ssa.Return)
					if !ok || ri >= len(r.Results) {
						continue
					}
					v := r.Results[ri]
					direct := v == ssa.Value(target)
					if ex, ok := v.(*ssa.Extract); ok && ex.Tuple == ssa.Value(target) && ex.Index == ri {
						direct = true
					}
					if !direct {
						okRes = false
					}
				}
			}
			c.Check("C11-R3", fmt.Sprintf("delegate-result-unchanged:%s#%d", key, ri), target.Pos(), okRes,
				"adapter method "+key+" does not return bbolt's byte slice as is (copied / appended / re-sliced): an empty value becomes nil and reads as 'key absent' although the transaction wrote it")
		}
	}
	c.Floor("C11-R3", "adapter delegates", n, 22)
}

// R4 error table.
func runC11R4(c *Ctx) {
	fn := c.P.Func(bdbPkg, "", "convertErr")
	if fn == nil {
		c.Unresolved("C11-R4", "bdb.convertErr")
		return
	}
	alias := map[string]string{"ErrDatabaseNotOpen": "ErrDbNotOpen"}
	targets := map[string]string{}
	n := 0
	for _, b := range fn.Blocks {
		for si := range b.Succs {
			f := edgeFactOf(b, si)
			if f == nil || f.Kind != "true" {
				continue
			}
			bo, ok := f.V.(*ssa.BinOp)
			if !ok || bo.Op != token.EQL {
				continue
			}
			// the returned value on this edge
			succ := b.Succs[si]
			q := &PathQuery{Fn: fn}
			q.Target = func(ins ssa.Instruction, via *ssa.BasicBlock) bool { _, ok := ins.(*ssa.Return); return ok }
			hits := exploreFromBlock(q, succ, b)
			var retVal ssa.Value
			if len(hits) == 1 {
				r := hits[0].Ins.(*ssa.Return)
				retVal = resolvePhi(r.Results[0], r.Block(), hits[0].Via)
			}
			// the same table spelled as data: a scan over a literal slice of {bbolt error, walletdb error} rows that
			// compares with one field and returns the other — each row is a case
			var froms, tos []ssa.Value
			for _, side := range []ssa.Value{bo.X, bo.Y} {
				if vs := c.P.rangeFieldValues(side); len(vs) > 0 {
					froms = vs
				}
			}
			if len(froms) > 0 && retVal != nil {
				tos = c.P.rangeFieldValues(retVal)
			}
			if len(froms) > 0 && len(tos) == len(froms) {
				for i := range froms {
					bn := strings.TrimPrefix(valueDesc(froms[i]), "bbolt.")
					if bn == valueDesc(froms[i]) {
						continue
					}
					n++
					wn := bn
					if a, ok := alias[bn]; ok {
						wn = a
					}
					to := valueDesc(tos[i])
					c.Check("C11-R4", "error-map:"+bn, froms[i].Pos(), to == "walletdb."+wn, fmt.Sprintf("bbolt.%s is mapped to %s, expected walletdb.%s", bn, to, wn))
					if prev, dup := targets[to]; dup {
						c.Check("C11-R4", "error-map-injective:"+bn, froms[i].Pos(), false, fmt.Sprintf("bbolt.%s and bbolt.%s map to the same %s", prev, bn, to))
					}
					targets[to] = bn
				}
				continue
			}
			from := valueDesc(bo.Y)
			if !strings.HasPrefix(from, "bbolt.") {
				from = valueDesc(bo.X)
			}
			if !strings.HasPrefix(from, "bbolt.") {
				continue
			}
			n++
			to := "?"
			if retVal != nil {
				to = valueDesc(retVal)
			}
			bn := strings.TrimPrefix(from, "bbolt.")
			wn := bn
			if a, ok := alias[bn]; ok {
				wn = a
			}
			c.Check("C11-R4", "error-map:"+bn, lastPos(b), to == "walletdb."+wn, fmt.Sprintf("bbolt.%s is mapped to %s, expected walletdb.%s", bn, to, wn))
			if prev, dup := targets[to]; dup {
				c.Check("C11-R4", "error-map-injective:"+bn, lastPos(b), false, fmt.Sprintf("bbolt.%s and bbolt.%s map to the same %s", prev, bn, to))
			}
			targets[to] = bn
		}
	}
	c.Floor("C11-R4", "error table cases", n, 11)
	// fall-through returns the original error
	okFall := false
	for _, b := range fn.Blocks {
		for _, ins := range b.Instrs {
			if r, ok := ins.(*ssa.Return); ok {
				if prm, ok := r.Results[0].(*ssa.Parameter); ok && paramIndex(fn, prm) == 0 {
					okFall = true
				}
				if ph, ok := r.Results[0].(*ssa.Phi); ok {
					for _, e := range ph.Edges {
						if prm, ok := e.(*ssa.Parameter); ok && paramIndex(fn, prm) == 0 {
							okFall = true
						}
					}
				}
			}
		}
	}
	c.Check("C11-R4", "error-map-falls-through", fn.Pos(), okFall, "convertErr does not return the original error for unmapped errors")
}

// R5 read-only capability.
func runC11R5(c *Ctx) {
	p := c.P
	for _, in := range []string{"ReadTx", "ReadBucket", "ReadCursor"} {
		n := p.Named("walletdb", in)
		if n == nil {
			c.Unresolved("C11-R5", "walletdb."+in)
			continue
		}
		it := n.Underlying().(*types.Interface)
		var bad []string
		for i := 0; i < it.NumMethods(); i++ {
			m := it.Method(i).Name()
			if dbMutatorNames[m] || m == "ReadWriteBucket" || m == "NestedReadWriteBucket" || m == "ReadWriteCursor" || m == "OnCommit" {
				bad = append(bad, m)
			}
		}
		sort.Strings(bad)
		c.Check("C11-R5", "read-interface-has-no-mutator:"+in, n.Obj().Pos(), len(bad) == 0, "read-only interface walletdb."+in+" exposes mutators: "+strings.Join(bad, ","))
	}
	for name, want := range map[string]bool{"BeginReadTx": false, "BeginReadWriteTx": true} {
		fn := bdbMethod(c, "C11-R5", "db", name)
		if fn == nil {
			continue
		}
		ok := false
		for _, call := range callsNamed(fn, "beginTx") {
			if b, isC := constBool(call.Call.Args[1]); isC && b == want {
				ok = true
			}
		}
		c.Check("C11-R5", "writable-flag:"+name, fn.Pos(), ok, fmt.Sprintf("%s does not open the bbolt transaction with writable=%v", name, want))
	}
	if bt := c.P.Func(bdbPkg, "db", "beginTx"); bt != nil {
		ok := false
		for _, call := range callsNamed(bt, "Begin") {
			if prm, isP := call.Call.Args[1].(*ssa.Parameter); isP && paramIndex(bt, prm) == 1 {
				ok = true
			}
		}
		c.Check("C11-R5", "beginTx-passes-writable", bt.Pos(), ok, "beginTx does not pass its writable flag to bbolt.Begin")
	}
	checkDriverOpenFlags(c, "C11-R5")
	checkOpenPathKeepsTheFile(c, "C11-R5")
	// no type assertion to read-write interfaces in production packages
	n := 0
	for _, fn := range p.RepoFuncs {
		pk := shortPkg(fnPkgPath(fn))
		for _, b := range fn.Blocks {
			for _, ins := range b.Instrs {
				ta, ok := ins.(*ssa.TypeAssert)
				if !ok {
					continue
				}
				nt, ok := ta.AssertedType.(*types.Named)
				if !ok || nt.Obj().Pkg() == nil || nt.Obj().Pkg().Path() != walletdbPath {
					continue
				}
				switch nt.Obj().Name() {
				case "ReadWriteTx", "ReadWriteBucket", "ReadWriteCursor":
					n++
					c.Check("C11-R5", "no-downcast-to-read-write:"+fnName(fn), ta.Pos(), pk == "walletdb/walletdbtest",
						"production code down-casts a read-only walletdb value to "+nt.Obj().Name()+": a read transaction could obtain write capability")
				}
			}
		}
	}
	c.Note("C11-R5: %d type assertions to read-write walletdb interfaces found (all must be in walletdbtest)", n)
}

// errVarOf: the local variable (alloc) the call's error result is stored into, if any.
func errVarOf(call *ssa.Call) *ssa.Alloc {
	for _, u := range usesOf(call) {
		if st, ok := u.(*ssa.Store); ok {
			if a, ok := st.Addr.(*ssa.Alloc); ok {
				return a
			}
		}
	}
	return nil
}

// checkDriverOpenFlags: "read-only transactions cannot modify anything" starts at the handle: a database opened with the
// read-only flag must reach bbolt as ReadOnly. The driver's two entry points hand the opener several bools (no-freelist-
// sync, create, read-only — in a row, or grouped in a small struct); the rule pins each to its source: `create` is the
// constant false in the function registered as Driver.Open and the constant true in Driver.Create; what is stored into
// bbolt's Options.ReadOnly and Options.NoFreelistSync, followed back field by field through parameters, results and small
// structs of the package, is the driver argument #3 and #1 (the documented order: path, no-freelist-sync, timeout,
// read-only).
func checkDriverOpenFlags(c *Ctx, rule string) {
	p := c.P
	pkg := rootMod + "/" + bdbPkg
	slots := map[string]*ssa.Function{}
	for _, fn := range p.FuncsIn(bdbPkg) {
		for _, b := range fn.Blocks {
			for _, ins := range b.Instrs {
				st, ok := ins.(*ssa.Store)
				if !ok {
					continue
				}
				fa, ok := st.Addr.(*ssa.FieldAddr)
				if !ok {
					continue
				}
				tn, f := fieldAddrName(fa)
				if tn != "Driver" || (f != "Open" && f != "Create") {
					continue
				}
				if g := fnValueOf(st.Val); g != nil {
					slots[f] = g
				}
			}
		}
	}
	c.Floor(rule, "registered driver entry points", len(slots), 2)

	// field-sensitive backward trace to the index of the driver argument a value was parsed from
	var trace func(v ssa.Value, depth int, out map[int64]bool)
	var traceField func(v ssa.Value, field string, depth int, out map[int64]bool)
	local := func(g *ssa.Function) bool { return g != nil && len(g.Blocks) > 0 && fnPkgPath(g) == pkg }
	returnsOf := func(g *ssa.Function, idx int) []ssa.Value {
		var out []ssa.Value
		for _, b := range g.Blocks {
			if r, ok := b.Instrs[len(b.Instrs)-1].(*ssa.Return); ok && idx < len(r.Results) {
				out = append(out, r.Results[idx])
			}
		}
		return out
	}
	callerArgs := func(prm *ssa.Parameter) []ssa.Value {
		var out []ssa.Value
		f := prm.Parent()
		idx := paramIndex(f, prm)
		for _, cs := range p.realCallers(f) {
			if args := cs.Common().Args; idx >= 0 && idx < len(args) {
				out = append(out, args[idx])
			}
		}
		return out
	}
	trace = func(v ssa.Value, depth int, out map[int64]bool) {
		if depth > 10 {
			return
		}
		v = stripConv(v)
		switch x := v.(type) {
		case *ssa.Parameter:
			for _, a := range callerArgs(x) {
				trace(a, depth+1, out)
			}
		case *ssa.Phi:
			for _, e := range x.Edges {
				trace(e, depth+1, out)
			}
		case *ssa.Extract:
			switch t := x.Tuple.(type) {
			case *ssa.TypeAssert:
				trace(t.X, depth+1, out)
			case *ssa.Call:
				if g := t.Call.StaticCallee(); local(g) {
					for _, r := range returnsOf(g, x.Index) {
						trace(r, depth+1, out)
					}
				}
			}
		case *ssa.TypeAssert:
			trace(x.X, depth+1, out)
		case *ssa.Call:
			if g := x.Call.StaticCallee(); local(g) {
				for _, r := range returnsOf(g, 0) {
					trace(r, depth+1, out)
				}
			}
		case *ssa.Field:
			st := x.X.Type().Underlying().(*types.Struct)
			traceField(x.X, st.Field(x.Field).Name(), depth+1, out)
		case *ssa.UnOp:
			if x.Op != token.MUL {
				return
			}
			switch a := x.X.(type) {
			case *ssa.IndexAddr:
				if k, ok := constInt(a.Index); ok {
					out[k] = true
				}
			case *ssa.FieldAddr:
				_, f := fieldAddrName(a)
				traceField(a.X, f, depth+1, out)
			case *ssa.Alloc:
				for _, st := range storesTo(a) {
					trace(st.Val, depth+1, out)
				}
			}
		}
	}
	// the value of field `field` of the struct (or pointer to struct) v
	traceField = func(v ssa.Value, field string, depth int, out map[int64]bool) {
		if depth > 10 {
			return
		}
		v = stripConv(v)
		switch x := v.(type) {
		case *ssa.Parameter:
			for _, a := range callerArgs(x) {
				traceField(a, field, depth+1, out)
			}
		case *ssa.Phi:
			for _, e := range x.Edges {
				traceField(e, field, depth+1, out)
			}
		case *ssa.Extract:
			if call, ok := x.Tuple.(*ssa.Call); ok {
				if g := call.Call.StaticCallee(); local(g) {
					for _, r := range returnsOf(g, x.Index) {
						traceField(r, field, depth+1, out)
					}
				}
			}
		case *ssa.Call:
			if g := x.Call.StaticCallee(); local(g) {
				for _, r := range returnsOf(g, 0) {
					traceField(r, field, depth+1, out)
				}
			}
		case *ssa.UnOp:
			if x.Op == token.MUL {
				traceField(x.X, field, depth+1, out)
			}
		case *ssa.Alloc:
			for _, u := range usesOf(x) {
				switch y := u.(type) {
				case *ssa.FieldAddr:
					if _, f := fieldAddrName(y); f == field {
						for _, u2 := range usesOf(y) {
							if st, ok := u2.(*ssa.Store); ok && st.Addr == ssa.Value(y) {
								trace(st.Val, depth+1, out)
							}
						}
					}
				case *ssa.Store:
					if y.Addr == ssa.Value(x) {
						traceField(y.Val, field, depth+1, out)
					}
				}
			}
		}
	}
	want := map[string]int64{"ReadOnly": 3, "NoFreelistSync": 1}
	for slot, g := range slots {
		// the create flag, wherever the entry point hands it on
		nCreate := 0
		reach := map[*ssa.Function]bool{}
		var walk func(f *ssa.Function, depth int)
		walk = func(f *ssa.Function, depth int) {
			if reach[f] || depth > 2 {
				return
			}
			reach[f] = true
			for _, ci := range callsOf(f) {
				call, ok := ci.(*ssa.Call)
				if !ok {
					continue
				}
				callee := call.Call.StaticCallee()
				if !local(callee) {
					continue
				}
				if f == g && len(callee.Params) == len(call.Call.Args) {
					for i, prm := range callee.Params {
						if prm.Name() == "create" && isBoolType(prm.Type()) {
							nCreate++
							b, isC := constBool(stripConv(call.Call.Args[i]))
							c.Check(rule, "driver-create-flag:"+slot, call.Pos(), isC && b == (slot == "Create"),
								"the function registered as Driver."+slot+" does not hand the opener create="+fmt.Sprint(slot == "Create")+" as a constant: another flag of the call has taken its place")
						}
					}
				}
				walk(callee, depth+1)
			}
		}
		walk(g, 0)
		c.Check(rule, "driver-create-flag-present:"+slot, g.Pos(), nCreate > 0, "the function registered as Driver."+slot+" hands no `create` flag to an opener of the package (undecided)")
		// what reaches bbolt's options
		nOpt := 0
		for f := range reach {
			for field, idx := range want {
				for _, st := range storesToFieldOwner(f, "Options", field) {
					nOpt++
					got := map[int64]bool{}
					trace(st.Val, 0, got)
					c.Check(rule, "driver-flag-source:"+slot+"/"+field, st.Pos(), len(got) == 1 && got[idx],
						fmt.Sprintf("what the opener reached from Driver.%s stores into bbolt's Options.%s is not (only) the driver argument #%d (found %v): a handle asked to be read-only is opened read-write, or the other way round", slot, field, idx, keysOfInt(got)))
				}
			}
		}
		c.Check(rule, "opener-sets-bbolt-options:"+slot, g.Pos(), nOpt >= 2, "no store of the read-only / no-freelist-sync options of bbolt was found behind Driver."+slot)
	}
}

func keysOfInt(m map[int64]bool) []int64 {
	var out []int64
	for k := range m {
		out = append(out, k)
	}
	sort.Slice(out, func(i, j int) bool { return out[i] < out[j] })
	return out
}

// checkOpenPathKeepsTheFile: opening or creating a database never removes, renames or truncates the file it is pointed
// at: what a nil-returning update committed must still be there when the file is opened again — whichever of the two
// driver entry points does the opening (walletdb.Create on an existing path opens it). Nothing reachable from the
// registered driver functions inside the adapter package calls a destructive os function.
func checkOpenPathKeepsTheFile(c *Ctx, rule string) {
	p := c.P
	destructive := map[string]bool{"Remove": true, "RemoveAll": true, "Rename": true, "Truncate": true, "Create": true, "WriteFile": true}
	n := 0
	for _, fn := range p.FuncsIn(bdbPkg) {
		for _, ci := range callsOf(fn) {
			g := ci.Common().StaticCallee()
			if g == nil || g.Pkg == nil {
				continue
			}
			n++
			if g.Pkg.Pkg.Path() == "os" && destructive[g.Name()] {
				c.Check(rule, "adapter-never-destroys-the-file:"+fnName(fn)+"/os."+g.Name(), ci.Pos(), false,
					fnName(fn)+" calls os."+g.Name()+": the database adapter removes or overwrites a file on its open/create path — changes committed through an earlier handle are gone when the path is opened again (and a live handle keeps committing into an unlinked file)")
			}
		}
	}
	c.Floor(rule, "static calls examined in the bbolt adapter", n, 30)
}
