package main

import (
	"fmt"
	"go/token"
	"go/types"
	"sort"
	"strings"

	"golang.org/x/tools/go/ssa"
)

func init() {
	register(&propSpec{
		ID: "C01",
		Explanation: "Decides necessary structural conditions of the ledger equation in wtxmgr: (R1) every one of the five spendability passes (Store.Balance x3, fetchCredits x2) consults both the lease state and the " +
			"unconfirmed-spender index, with the required semantics: the first balance pass subtracts a mined credit exactly once when it is leased or spent by an unconfirmed tx (never twice), all other passes skip such outputs; " +
			"fetchCredits' filter flags are bound to the right constants at UnspentOutputs/OutputsToWatch; the confirmation/maturity comparison of the second pass has the canonical form confs=syncHeight-height+1 < minConf | coinbase & confs < maturity; " +
			"(R2) every function that edits the unspent index also maintains the mined-balance counter; (R3) only wtxmgr writes the wtxmgr namespace; (R4) loops that process all inputs/outputs/transactions of a record have no early exit; (R5) conflict removal is transitive over every output of a removed transaction (shared with C02-R2); (R6) a credit record is inserted only after the duplicate test on the same store, and a credit value rewritten without its spender clears the spent flag. " +
			"NOT decided: amounts, arithmetic of the running counter over histories, any history-dependent drift.",
		Assumptions: []string{"bucket identity by the package-level name variable passed to Nested*Bucket", "call graph over-approximates callees"},
		Run:         runC01,
	})
}

// spendPass describes one place where the store decides whether a credit counts.
type spendPass struct {
	name    string
	fn      *ssa.Function // function containing the tests
	role    string        // "subtract-once" (Balance pass over u) or "skip"
	actions []*ssa.Store  // stores to the accumulator (bal / credits)
}

// findPasses locates the five passes by role.
func findPasses(c *Ctx, rule string) []*spendPass {
	p := c.P
	var out []*spendPass
	bal := p.Func("wtxmgr", "Store", "Balance")
	fc := p.Func("wtxmgr", "Store", "fetchCredits")
	if bal == nil || fc == nil {
		c.Unresolved(rule, "wtxmgr.Store.Balance / fetchCredits")
		return nil
	}
	for _, top := range []*ssa.Function{bal, fc} {
		acc := returnedAlloc(top, 0)
		if acc == nil {
			c.Unresolved(rule, "result accumulator of "+fnName(top))
			continue
		}
		stores := storesTo(acc)
		for _, f := range Closures(top) {
			if len(leaseTestsOf(f, "isLockedOutput")) == 0 && len(leaseTestsOf(f, "existsRawUnminedInput")) == 0 {
				continue
			}
			sp := &spendPass{fn: f, role: "skip"}
			for _, st := range stores {
				if st.Parent() == f && !isInitStore(st) {
					sp.actions = append(sp.actions, st)
				}
			}
			bucket := forEachBucketOf(f)
			sp.name = fnName(top) + "/" + bucket
			if f == top {
				sp.name = fnName(top) + "/block-loop"
			}
			if top == bal && bucket == "bucketUnspent" {
				sp.role = "subtract-once"
			}
			out = append(out, sp)
		}
	}
	return out
}

// isInitStore: store of a constant/zero or of a plain call result at function top (initialisation), not an accumulation.
func isInitStore(st *ssa.Store) bool {
	switch v := st.Val.(type) {
	case *ssa.Const:
		return true
	case *ssa.Extract:
		// bal, err := fetchMinedBalance(ns)
		if c, ok := v.Tuple.(*ssa.Call); ok && calleeShort(&c.Call) == "fetchMinedBalance" {
			return true
		}
	}
	return false
}

// forEachBucketOf: closure f is passed to ForEach on a bucket obtained from
// NestedReadBucket(<global>); returns the global's name.
func forEachBucketOf(f *ssa.Function) string {
	if f.Parent() == nil {
		return ""
	}
	for _, b := range f.Parent().Blocks {
		for _, ins := range b.Instrs {
			call, ok := ins.(*ssa.Call)
			if !ok || calleeShort(&call.Call) != "ForEach" {
				continue
			}
			uses := false
			for _, a := range call.Call.Args {
				if mc, ok := stripConv(a).(*ssa.MakeClosure); ok && mc.Fn == f {
					uses = true
				}
			}
			if !uses {
				continue
			}
			recv := call.Call.Value
			if !call.Call.IsInvoke() && len(call.Call.Args) > 0 {
				recv = call.Call.Args[0]
			}
			// receiver: result of Nested*Bucket(global), possibly through a phi/local
			sl := &Slicer{}
			for _, o := range sl.Origins(recv) {
				if nc, ok := o.(*ssa.Call); ok && strings.HasPrefix(calleeShort(&nc.Call), "Nested") && len(nc.Call.Args) > 0 {
					a := stripConv(nc.Call.Args[len(nc.Call.Args)-1])
					if u, ok := a.(*ssa.UnOp); ok {
						if g, ok := u.X.(*ssa.Global); ok {
							return g.Name()
						}
					}
				}
			}
		}
	}
	return ""
}

// passFacts: classify an edge as one of the four filter outcomes.
func passEdgeKind(from *ssa.BasicBlock, si int) string {
	f := edgeFactOf(from, si)
	if f == nil {
		return ""
	}
	switch {
	case isResultOfCall(f.V, "isLockedOutput", 2):
		if f.Kind == "true" {
			return "locked"
		}
		return "unlocked"
	case isResultOfCall(f.V, "existsRawUnminedInput", -1):
		if f.Kind == "nonnil" {
			return "spent"
		}
		return "unspent"
	}
	v := f.V
	if _, field, base, ok := fieldOf(v); ok {
		// a flag carried as a field of a parameter struct (filter.includeLocked)
		root := base
		for {
			if fa, ok := root.(*ssa.FieldAddr); ok {
				root = fa.X
				continue
			}
			if u, ok := root.(*ssa.UnOp); ok && u.Op == token.MUL {
				root = u.X
				continue
			}
			break
		}
		switch x := root.(type) {
		case *ssa.Parameter:
			return "param:" + field + "=" + f.Kind
		case *ssa.FreeVar:
			if _, isAl := freeVarRoot(x).(*ssa.Alloc); isAl {
				return "param:" + field + "=" + f.Kind
			}
			if _, isP := freeVarRoot(x).(*ssa.Parameter); isP {
				return "param:" + field + "=" + f.Kind
			}
		case *ssa.Alloc:
			if isParamSpill(x) {
				return "param:" + field + "=" + f.Kind
			}
		}
		return ""
	}
	if u, ok := v.(*ssa.UnOp); ok && u.Op == token.MUL {
		v = u.X // load of a captured / spilled parameter
	}
	switch x := v.(type) {
	case *ssa.Parameter:
		return "param:" + x.Name() + "=" + f.Kind
	case *ssa.FreeVar:
		return "param:" + x.Name() + "=" + f.Kind
	case *ssa.Alloc:
		return "param:" + x.Comment + "=" + f.Kind
	}
	return ""
}

// predHelper: v is the result of a call of a same-package unexported function with a single bool result (an extracted
// predicate such as filter.excludes(ns, op, k, now)).
func predHelper(v ssa.Value, caller *ssa.Function) (*ssa.Call, *ssa.Function) {
	call, ok := stripConv(v).(*ssa.Call)
	if !ok {
		return nil, nil
	}
	h := call.Call.StaticCallee()
	if h == nil || len(h.Blocks) == 0 || h.Parent() != nil || fnPkgPath(h) != fnPkgPath(caller) || h.Object() == nil || h.Object().Exported() {
		return nil, nil
	}
	res := h.Signature.Results()
	if res.Len() != 1 || !types.Identical(res.At(0).Type().Underlying(), types.Typ[types.Bool]) {
		return nil, nil
	}
	return call, h
}

// edgeEstablishes: taking this edge establishes a filter outcome accepted by isK — directly, or because the edge tests the
// result of a predicate helper every path of which to a return of that truth value takes such an edge.
func edgeEstablishes(from *ssa.BasicBlock, si int, isK func(kind string) bool, depth int) bool {
	if k := passEdgeKind(from, si); k != "" && isK(k) {
		return true
	}
	if depth > 2 {
		return false
	}
	f := edgeFactOf(from, si)
	if f == nil || (f.Kind != "true" && f.Kind != "false") {
		return false
	}
	_, h := predHelper(f.V, from.Parent())
	if h == nil {
		return false
	}
	want := f.Kind == "true"
	n := 0
	for _, b := range h.Blocks {
		r, ok := b.Instrs[len(b.Instrs)-1].(*ssa.Return)
		if !ok || len(r.Results) != 1 {
			continue
		}
		if cb, isC := constBool(r.Results[0]); isC && cb != want {
			continue
		}
		n++
		if reachableAvoiding(h, nil, r, func(fr *ssa.BasicBlock, s int) bool { return edgeEstablishes(fr, s, isK, depth+1) }) {
			return false
		}
	}
	return n > 0
}

// leaseTest: a call of the lease / unconfirmed-spender test that decides for a pass: in the pass itself, or in a
// predicate helper the pass calls (site = the helper call in the pass, nil when direct).
type leaseTest struct {
	call *ssa.Call
	fn   *ssa.Function
	site *ssa.Call
}

func leaseTestsOf(f *ssa.Function, name string) []leaseTest {
	var out []leaseTest
	for _, ci := range callsOf(f) {
		call, ok := ci.(*ssa.Call)
		if !ok {
			continue
		}
		if calleeShort(&call.Call) == name {
			out = append(out, leaseTest{call, f, nil})
			continue
		}
		if _, h := predHelper(call, f); h != nil {
			for _, lc := range callsNamed(h, name) {
				out = append(out, leaseTest{lc, h, call})
			}
		}
	}
	return out
}

// argAtSite: the value the test's argument has in the pass: a helper parameter is mapped to the argument at the helper call.
func (t leaseTest) argAtSite(i int) (ssa.Value, *ssa.Function) {
	if i >= len(t.call.Call.Args) {
		return nil, nil
	}
	v := t.call.Call.Args[i]
	if t.site == nil {
		return v, t.fn
	}
	if prm, ok := stripConv(v).(*ssa.Parameter); ok {
		for pi, q := range t.fn.Params {
			if q == prm && pi < len(t.site.Call.Args) {
				return t.site.Call.Args[pi], t.site.Parent()
			}
		}
	}
	return v, t.fn
}

// flagsGating: names of the boolean parameters / parameter-struct fields X such that the tests run only when X is false
// (`if !includeLocked { ...isLockedOutput... }`): X=true is the "include them anyway" switch of that filter.
func flagsGating(tests []leaseTest) map[string]bool {
	out := map[string]bool{}
	for _, t := range tests {
		names := map[string]bool{}
		for _, b := range t.fn.Blocks {
			for si := range b.Succs {
				if k := passEdgeKind(b, si); strings.HasPrefix(k, "param:") {
					names[k[len("param:"):strings.Index(k, "=")]] = true
				}
			}
		}
		for x := range names {
			if !reachableAvoiding(t.fn, nil, t.call, func(from *ssa.BasicBlock, si int) bool {
				return passEdgeKind(from, si) == "param:"+x+"=false"
			}) {
				out[x] = true
			}
		}
	}
	return out
}

func checkSpendPasses(c *Ctx, rule string, leaseOnly bool) {
	p := c.P
	passes := findPasses(c, rule)
	c.Floor(rule, "spendability passes (Balance x3, fetchCredits x2)", len(passes), 5)
	// one computation, one clock reading: the passes of Balance (and of fetchCredits) partition the outputs by lease state
	// — "subtract if leased" in one pass, "skip if leased, else subtract if young" in the next. They agree on which outputs
	// are leased only if every lease test of the computation is handed the same time value, read once before the passes:
	// with a reading per output, a lease that expires in between is seen as leased by one pass and as free by the next,
	// and the output is subtracted twice
	{
		byTop := map[*ssa.Function][]leaseTest{}
		var tops []*ssa.Function
		for _, sp := range passes {
			top := outermost(sp.fn)
			if _, ok := byTop[top]; !ok {
				tops = append(tops, top)
			}
			byTop[top] = append(byTop[top], leaseTestsOf(sp.fn, "isLockedOutput")...)
		}
		for _, top := range tops {
			readings := map[*ssa.Call]bool{}
			undecided := false
			for _, lt := range byTop[top] {
				arg, _ := lt.argAtSite(2)
				if arg == nil {
					undecided = true
					continue
				}
				found := false
				for _, o := range (&Slicer{P: p}).Origins(arg) {
					if call, ok := o.(*ssa.Call); ok && calleeShort(&call.Call) == "Now" {
						readings[call] = true
						found = true
					}
				}
				if !found {
					undecided = true
				}
			}
			ok := !undecided && len(readings) == 1
			where := ""
			for call := range readings {
				if call.Parent() != top || innermostLoopOf(loopsOf(top), call) != nil {
					ok = false
				}
				where += " " + p.Pos(call.Pos())
			}
			c.Check(rule, "lease-tests-share-one-clock-reading:"+fnName(top), top.Pos(), ok,
				fmt.Sprintf("the lease tests of %s do not all use one time value read once before its passes (%d clock readings:%s): a lease expiring during the computation is judged differently by different passes and the output is counted or subtracted twice", fnName(top), len(readings), where))
		}
	}
	for _, sp := range passes {
		lockTests := leaseTestsOf(sp.fn, "isLockedOutput")
		spentTests := leaseTestsOf(sp.fn, "existsRawUnminedInput")
		leaseFlags, spentFlags := flagsGating(lockTests), flagsGating(spentTests)
		nLock := len(lockTests)
		nSpent := len(spentTests)
		c.Check(rule, "pass-consults-lease:"+sp.name, sp.fn.Pos(), nLock > 0, "this spendability pass never consults the lease state (isLockedOutput): leased outputs are counted/offered")
		if !leaseOnly {
			c.Check(rule, "pass-consults-unconfirmed-spender:"+sp.name, sp.fn.Pos(), nSpent > 0, "this spendability pass never consults the unconfirmed-spender index (existsRawUnminedInput): outputs spent by an unconfirmed tx are counted/offered")
		}
		// the lease test looks in the store's own namespace: its bucket argument is the namespace the pass was given
		// (a parameter or captured parameter), not a nested bucket of it (the lease bucket lives under the namespace
		// root; looked up under any other bucket it does not exist and "nothing is leased")
		for i, lt := range lockTests {
			call := lt.call
			nsArg, _ := lt.argAtSite(0)
			if nsArg == nil {
				continue
			}
			okNs := false
			for _, o := range (&Slicer{P: p}).Origins(nsArg) {
				switch x := o.(type) {
				case *ssa.Parameter:
					okNs = true
				case *ssa.FreeVar:
					if _, isP := freeVarRoot(x).(*ssa.Parameter); isP {
						okNs = true
					}
				case *ssa.Call:
					okNs = false
				}
				if _, isCall := o.(*ssa.Call); isCall {
					okNs = false
					break
				}
			}
			c.Check(rule, fmt.Sprintf("lease-test-in-store-namespace:%s#%d", sp.name, i+1), call.Pos(), okNs,
				"isLockedOutput is handed a bucket other than the store's namespace (e.g. the bucket being iterated): the lease bucket is not found there, so every output of this pass is treated as not leased")
		}
		// the lease test must ask about the output this iteration is looking at: the outpoint variable handed to
		// isLockedOutput is (re)written in this pass on every path to the test (a variable shared with an earlier
		// pass still holds that pass's last outpoint)
		for i, lt := range lockTests {
			opArg, inFn := lt.argAtSite(1)
			if opArg == nil {
				continue
			}
			var call ssa.Instruction = lt.call
			if inFn != lt.fn {
				call = lt.site
			}
			arg := stripConv(opArg)
			u, isLoad := arg.(*ssa.UnOp)
			if !isLoad || u.Op != token.MUL {
				continue // computed in place (composite literal value): necessarily this iteration's
			}
			addr := u.X
			writes := func(ins ssa.Instruction) bool {
				switch x := ins.(type) {
				case *ssa.Store:
					if x.Addr == addr {
						return true
					}
					if fa, ok := x.Addr.(*ssa.FieldAddr); ok && fa.X == addr {
						return true
					}
				case *ssa.Call:
					for _, a := range x.Call.Args {
						if a == addr {
							return true
						}
					}
				}
				return false
			}
			q := &PathQuery{Fn: inFn, Barrier: writes, Target: func(ins ssa.Instruction, _ *ssa.BasicBlock) bool { return ins == call }}
			c.Check(rule, fmt.Sprintf("lease-test-about-iterated-output:%s#%d", sp.name, i+1), call.Pos(), len(q.From(nil)) == 0,
				"the outpoint handed to isLockedOutput is not (re)computed from the record this pass is iterating over: the lease state of a stale outpoint (left by an earlier pass) decides about every credit of this pass")
		}
		if len(sp.actions) == 0 {
			c.Check(rule, "pass-has-accumulation:"+sp.name, sp.fn.Pos(), false, "no accumulation into the result found in this pass (undecided)")
			continue
		}
		for i, act := range sp.actions {
			an := fmt.Sprintf("%s#%d", sp.name, i+1)
			if sp.role == "skip" {
				// the accumulation must be unreachable unless the output is unleased (or leases are included by flag)
				ok := !reachableAvoiding(sp.fn, nil, act, func(from *ssa.BasicBlock, si int) bool {
					return edgeEstablishes(from, si, func(k string) bool {
						return k == "unlocked" || (strings.HasPrefix(k, "param:") && strings.HasSuffix(k, "=true") && leaseFlags[k[6:len(k)-5]])
					}, 0)
				})
				c.Check(rule, "skip-leased:"+an, act.Pos(), ok, "a leased output can reach the accumulation in this pass (the 'not leased' outcome does not guard it)")
				if !leaseOnly {
					ok = !reachableAvoiding(sp.fn, nil, act, func(from *ssa.BasicBlock, si int) bool {
						return edgeEstablishes(from, si, func(k string) bool {
							return k == "unspent" || (strings.HasPrefix(k, "param:") && strings.HasSuffix(k, "=true") && spentFlags[k[6:len(k)-5]])
						}, 0)
					})
					c.Check(rule, "skip-spent-by-unconfirmed:"+an, act.Pos(), ok, "an output spent by an unconfirmed transaction can reach the accumulation in this pass")
				}
			} else {
				// subtract-once: each subtraction guarded by locked or spent outcome
				ok := !reachableAvoiding(sp.fn, nil, act, func(from *ssa.BasicBlock, si int) bool {
					k := passEdgeKind(from, si)
					return k == "locked" || k == "spent"
				})
				c.Check(rule, "subtract-only-if-leased-or-spent:"+an, act.Pos(), ok, "the mined-balance correction subtracts a credit that is neither leased nor spent by an unconfirmed tx")
				// at most one subtraction per invocation
				q := &PathQuery{Fn: sp.fn}
				q.Target = func(ins ssa.Instruction, via *ssa.BasicBlock) bool {
					for _, a2 := range sp.actions {
						if ins == ssa.Instruction(a2) {
							return true
						}
					}
					return false
				}
				hits := q.From(act)
				detail := "a credit that is both leased and spent by an unconfirmed tx is subtracted twice from the balance"
				if len(hits) > 0 {
					detail += fmt.Sprintf(" (second subtraction at %s reachable after the first)", p.Pos(hits[0].Ins.Pos()))
				}
				c.Check(rule, "subtract-at-most-once:"+an, act.Pos(), len(hits) == 0, detail)
			}
		}
		if sp.role == "subtract-once" {
			// every leased (resp. spent) output is subtracted: from the locked edge, all success returns pass a subtraction
			for _, kind := range []string{"locked", "spent"} {
				if leaseOnly && kind == "spent" {
					continue
				}
				found := false
				for _, b := range sp.fn.Blocks {
					for si := range b.Succs {
						if passEdgeKind(b, si) != kind {
							continue
						}
						found = true
						q := &PathQuery{Fn: sp.fn, Target: p.nonErrorReturn()}
						q.Barrier = func(ins ssa.Instruction) bool {
							for _, a2 := range sp.actions {
								if ins == ssa.Instruction(a2) {
									return true
								}
							}
							return false
						}
						hits := exploreFromBlock(q, b.Succs[si], b)
						c.Check(rule, "subtract-every-"+kind+":"+sp.name, lastPos(b), len(hits) == 0,
							"a "+kind+" mined credit can leave the first balance pass without being subtracted")
					}
				}
				if !found {
					c.Check(rule, "subtract-every-"+kind+":"+sp.name, sp.fn.Pos(), false, "no branch on the '"+kind+"' outcome found in the first balance pass")
				}
			}
		}
	}
}

func runC01(c *Ctx) {
	p := c.P
	checkSpendPasses(c, "C01-R1", false)
	checkMaturityComparisonsCanonical(c, "C01-R1")
	// an output counts only while it is not leased: the lease must not be ended by anything but its owner, its expiry or
	// a confirmed spend (C12's rules on the writers of the lease bucket, taken over)
	c.Borrow(runC12, "C12-R4", "C01-R1", func(k string) bool { return strings.HasPrefix(k, "lease-release-per-input") })
	// "not leased": the lease is asked of the output being judged
	c.Borrow(runC12, "C12-R1", "C01-R1", func(k string) bool { return strings.HasPrefix(k, "lease-test-names-the-judged-output") })
	c.Borrow(runC12, "C12-R4", "C01-R1", func(k string) bool { return strings.HasPrefix(k, "lease-release-names-the-spent-outpoint") })
	c.Borrow(runC12, "C12-R4", "C01-R1", func(k string) bool { return strings.HasPrefix(k, "decoded-outpoint-has-both-halves") })
	c.Borrow(runC12, "C12-R5", "C01-R1", func(k string) bool {
		return strings.HasPrefix(k, "lease-released-only-by-owner-expiry-or-confirmed-spend") || strings.HasPrefix(k, "lease-bucket-writer")
	})
	checkSeekHeightNonNegative(c, "C01-R1")
	// "that no known transaction spends" is read off the credit's spent bit by the correction passes
	checkFlagBytesReadThroughMasks(c, "C01-R1")
	// "the credited outputs ... each": a credit the wallet asks to record is recorded, whatever it is worth
	checkExportedWrapperAlwaysRunsWorker(c, "C01-R2")
	checkDetachedBlockRecordIsTheWalkedOne(c, "C01-R4")
	// a mined transaction that is not entered into its block's record is invisible to the correction passes and to the
	// rollback: the store's own writes are under C10-R1's error discipline
	c.Borrow(runC10, "C10-R1", "C01-R2", func(k string) bool { return strings.HasPrefix(k, "(*wtxmgr.") || strings.HasPrefix(k, "wtxmgr.") })
	checkArithmeticAccumulators(c, "C01-R2", "wtxmgr")

	// fetchCredits flag bindings: the flags are identified by role (which test they switch off), not by name or
	// position, and may be plain parameters or fields of a parameter struct
	fc := p.Func("wtxmgr", "Store", "fetchCredits")
	want := map[string][3]bool{"UnspentOutputs": {false, false, true}, "OutputsToWatch": {true, true, false}}
	n := 0
	if fc != nil {
		var lockT, spentT []leaseTest
		for _, f := range Closures(fc) {
			lockT = append(lockT, leaseTestsOf(f, "isLockedOutput")...)
			spentT = append(spentT, leaseTestsOf(f, "existsRawUnminedInput")...)
		}
		roles := map[string]int{}
		for x := range flagsGating(lockT) {
			roles[x] = 0
		}
		for x := range flagsGating(spentT) {
			roles[x] = 1
		}
		nRole := [3]int{}
		for _, flag := range boolFlagsOf(fc) {
			if _, ok := roles[flag]; !ok {
				roles[flag] = 2
			}
			nRole[roles[flag]]++
		}
		c.Check("C01-R1", "fetchCredits-has-lease-and-spender-switches", fc.Pos(), nRole[0] >= 1 && nRole[1] >= 1,
			"fetchCredits has no boolean switch gating its lease test and/or its unconfirmed-spender test: the spendable set and the watch set cannot both be served")
		for _, site := range p.forwardedFlagSites(fc) {
			cs := site.Decider()
			caller := cs.Parent().Name()
			w, ok := want[caller]
			if !ok {
				c.Check("C01-R1", "fetchCredits-caller:"+fnName(cs.Parent()), cs.Pos(), false, "fetchCredits is called from an unexpected function; its filter flags cannot be checked against a role")
				continue
			}
			n++
			var flags []string
			for x := range roles {
				flags = append(flags, x)
			}
			sort.Strings(flags)
			for _, x := range flags {
				b, isConst := flagValueAt(fc, site.Inner, x)
				if !isConst && site.Outer != nil {
					// the flags travel in a struct the role's function hands to a forwarding part
					if ic, isCall := site.Inner.(*ssa.Call); isCall {
						if a := p.argNamed(ic, x, -1); a != nil {
							b, isConst = p.constBoolVia(a, site.Outer)
						}
					}
				}
				c.Check("C01-R1", fmt.Sprintf("flag-binding:%s.%s", caller, x), cs.Pos(), isConst && b == w[roles[x]],
					fmt.Sprintf("%s must call fetchCredits with %s=%v (spendable-set vs watch-set semantics)", caller, x, w[roles[x]]))
			}
		}
	}
	c.Floor("C01-R1", "fetchCredits call sites with constant flags", n, 2)

	// canonical confirmation / maturity comparison in the block loop of Balance
	bal := p.Func("wtxmgr", "Store", "Balance")
	if bal != nil {
		acc := returnedAlloc(bal, 0)
		found := 0
		for _, st0 := range storesTo(acc) {
			if st0.Parent() != bal || isInitStore(st0) {
				continue
			}
			// the per-transaction pass as a part of Balance (`bal, err = part(ns, bal, ...)`): the rule applies to the
			// part's own subtraction, its parameters (and the fields of a struct it is handed) read as the call's values
			if call := sizeHelperCall(st0.Val, bal); call != nil && p.inRegion(bal, call.Call.StaticCallee()) {
				h := call.Call.StaticCallee()
				p.withFrame(h, call.Call.Args, func() {
					for _, hb := range h.Blocks {
						for _, hi := range hb.Instrs {
							sb, isSub := hi.(*ssa.BinOp)
							if !isSub || sb.Op != token.SUB {
								continue
							}
							if nm, isNm := sb.Type().(*types.Named); !isNm || nm.Obj().Name() != "Amount" {
								continue
							}
							found++
							var formsSeen []string
							young := "-1*field:Height -1*param#2 +1*param#3 +1 < 0"
							mature := "-1*field:CoinbaseMaturity -1*field:Height +1*param#3 +1 < 0"
							form := func(from *ssa.BasicBlock, si int) string {
								iff, isIf := from.Instrs[len(from.Instrs)-1].(*ssa.If)
								if !isIf {
									return ""
								}
								f, okf := p.cmpForm(iff.Cond, si == 0)
								if !okf {
									return ""
								}
								formsSeen = append(formsSeen, f.String())
								return f.String()
							}
							ok := !reachableAvoiding(h, nil, sb, func(from *ssa.BasicBlock, si int) bool {
								s := form(from, si)
								return s == young || s == mature
							})
							c.Check("C01-R1", "immature-or-young-subtraction-guard:Balance", sb.Pos(), ok,
								"the second balance pass subtracts a credit on a path that is not guarded by 'syncHeight-height+1 < minConf' or 'coinbase and syncHeight-height+1 < CoinbaseMaturity' (canonical forms seen: "+strings.Join(dedup(formsSeen), " | ")+")")
							ok2 := !reachableAvoiding(h, nil, sb, func(from *ssa.BasicBlock, si int) bool {
								if form(from, si) == young {
									return true
								}
								ef := edgeFactOf(from, si)
								return ef != nil && isResultOfCall(ef.V, "IsCoinBaseTx", -1) && ef.Kind == "true"
							})
							c.Check("C01-R1", "maturity-only-for-coinbase:Balance", sb.Pos(), ok2, "the maturity subtraction is applied to non-coinbase credits")
						}
					}
				})
				continue
			}
			st := st0
			found++
			// the subtraction must be reachable only through (confs < minConf) or (coinbase && confs < maturity)
			var formsSeen []string
			ok := !reachableAvoiding(bal, nil, st, func(from *ssa.BasicBlock, si int) bool {
				iff, isIf := from.Instrs[len(from.Instrs)-1].(*ssa.If)
				if !isIf {
					return false
				}
				f, okf := p.cmpForm(iff.Cond, si == 0)
				if !okf {
					return false
				}
				s := f.String()
				formsSeen = append(formsSeen, s)
				// confs = syncHeight(param#3) - Height + 1
				return s == "-1*field:Height -1*param#2 +1*param#3 +1 < 0" ||
					s == "-1*field:CoinbaseMaturity -1*field:Height +1*param#3 +1 < 0"
			})
			c.Check("C01-R1", "immature-or-young-subtraction-guard:Balance", st.Pos(), ok,
				"the second balance pass subtracts a credit on a path that is not guarded by 'syncHeight-height+1 < minConf' or 'coinbase and syncHeight-height+1 < CoinbaseMaturity' (canonical forms seen: "+strings.Join(dedup(formsSeen), " | ")+")")
			// and the maturity disjunct requires the coinbase test
			ok2 := !reachableAvoiding(bal, nil, st, func(from *ssa.BasicBlock, si int) bool {
				iff, isIf := from.Instrs[len(from.Instrs)-1].(*ssa.If)
				if !isIf {
					return false
				}
				if f, okf := p.cmpForm(iff.Cond, si == 0); okf && f.String() == "-1*field:Height -1*param#2 +1*param#3 +1 < 0" {
					return true
				}
				if ef := edgeFactOf(from, si); ef != nil && isResultOfCall(ef.V, "IsCoinBaseTx", -1) && ef.Kind == "true" {
					return true
				}
				return false
			})
			c.Check("C01-R1", "maturity-only-for-coinbase:Balance", st.Pos(), ok2, "the maturity subtraction is applied to non-coinbase credits")
		}
		c.Floor("C01-R1", "subtractions in the block loop of Balance", found, 1)
		// lastHeight bound: the loop stops at syncHeight - max(minConf, maturity)
	}

	runC01R2(c)
	runC01R3(c)
	checkConflictRemoval(c, "C01-R5")
	checkExistsThenPut(c, "C01-R6")
	checkCreditRewriteFlags(c, "C01-R6")
	checkTxRecordHashIsTxid(c, "C01-R6")
	checkNoBulkOverwriteAfterElementWrite(c, "C01-R6")
	checkRollbackWalk(c, "C01-R4")    // "blocks disconnected": every block at or above the target is detached
	checkCoupledRollback(c, "C01-R4") // ... and only those: the store is rolled back from the height above the new tip
	checkLoopCarriedStructs(c, "C01-R4", []string{"rollback", "updateMinedBalance"})
	runLoopCompleteness(c, "C01-R4", []string{"updateMinedBalance", "rollback", "insertMemPoolTx", "removeDoubleSpends", "removeConflict", "deleteUnminedTx"})
}

func dedup(in []string) []string {
	seen := map[string]bool{}
	var out []string
	for _, s := range in {
		if !seen[s] {
			seen[s] = true
			out = append(out, s)
		}
	}
	return out
}

// C01-R2: functions editing bucket u also maintain the mined balance.
func runC01R2(c *Ctx) {
	p := c.P
	mutators := map[string]bool{"putUnspent": true, "putRawUnspent": true, "deleteRawUnspent": true}
	putBal := p.Func("wtxmgr", "", "putMinedBalance")
	if putBal == nil {
		c.Unresolved("C01-R2", "wtxmgr.putMinedBalance")
		return
	}
	n := 0
	// derived mutators: an unexported helper that edits u for its callers and leaves the counter to them (an extracted
	// block that returns the running balance): its call sites are edits of u in the callers
	derived := map[*ssa.Function]bool{}
	mutCalls := func(fn *ssa.Function) []*ssa.Call {
		var muts []*ssa.Call
		for _, ci := range callsOf(fn) {
			if call, ok := ci.(*ssa.Call); ok && (mutators[calleeShort(&call.Call)] || derived[call.Call.StaticCallee()]) {
				muts = append(muts, call)
			}
		}
		return muts
	}
	for changed := true; changed; {
		changed = false
		for _, fn := range p.FuncsIn("wtxmgr") {
			if mutators[fn.Name()] || derived[fn] || fn.Parent() != nil || fn.Object() == nil || fn.Object().Exported() {
				continue
			}
			if len(mutCalls(fn)) > 0 && !p.reachSet(fn)[putBal] && len(p.fnUsers()[fn]) > 0 {
				derived[fn] = true
				changed = true
			}
		}
	}
	for _, fn := range p.FuncsIn("wtxmgr") {
		if mutators[fn.Name()] || derived[fn] {
			continue
		}
		muts := mutCalls(fn)
		if len(muts) == 0 {
			continue
		}
		if strings.Contains(fn.Name(), "igrat") || fn.Name() == "createStore" {
			continue
		}
		n++
		reaches := p.reachSet(fn)[putBal]
		c.Check("C01-R2", "u-mutator-maintains-balance:"+fnName(fn), fn.Pos(), reaches,
			"function edits the unspent index (bucket u) but never writes the mined-balance counter: index and counter drift apart")
		if !reaches {
			continue
		}
		// path form: no success path performs an edit of u without also passing putMinedBalance
		// (before or after), except through the "balance unchanged" edge (accumulator == fetched value).
		unchanged := func(from *ssa.BasicBlock, si int) bool {
			iff, ok := from.Instrs[len(from.Instrs)-1].(*ssa.If)
			if !ok {
				return false
			}
			b, ok := iff.Cond.(*ssa.BinOp)
			if !ok || (b.Op != token.NEQ && b.Op != token.EQL) {
				return false
			}
			if !(isResultOfCall(b.X, "fetchMinedBalance", 0) || isResultOfCall(b.Y, "fetchMinedBalance", 0)) {
				return false
			}
			return (b.Op == token.EQL) == (si == 0)
		}
		isPut := p.reachingCall(putBal)
		for _, m := range muts {
			// entry -> m avoiding put
			q := &PathQuery{Fn: fn, Barrier: isPut, EdgeBarrier: unchanged}
			q.Target = func(ins ssa.Instruction, via *ssa.BasicBlock) bool { return ins == ssa.Instruction(m) }
			before := len(q.From(nil)) > 0
			var bad ssa.Instruction
			if before {
				if isPut(m) {
					before = false
				} else {
					bad = p.mustPassToSuccess(fn, m, isPut, unchanged)
				}
			}
			detail := ""
			if bad != nil {
				detail = "a success path edits the unspent index here and returns at " + p.Pos(bad.Pos()) + " without ever writing the mined-balance counter"
			}
			c.Check("C01-R2", "balance-written-with-u-edit:"+fnName(fn)+"/"+calleeShort(&m.Call), m.Pos(), bad == nil, detail)
		}
	}
	c.Floor("C01-R2", "functions editing the unspent index", n, 3)
}

// C01-R3: who may write the wtxmgr namespace.
func runC01R3(c *Ctx) {
	p := c.P
	// Any call of a walletdb mutator outside wtxmgr/waddrmgr/walletdb/migration packages is examined:
	// allowed only in wallet creation / DropTransactionHistory (top-level bucket management and label re-insertion through wtxmgr API).
	n := 0
	for _, fn := range p.RepoFuncs {
		pk := shortPkg(fnPkgPath(fn))
		if pk == "wtxmgr" || pk == "waddrmgr" || strings.HasPrefix(pk, "walletdb") {
			continue
		}
		for _, ci := range callsOf(fn) {
			name, ok := isDBSource(ci.Common())
			if !ok {
				continue
			}
			short := name[strings.LastIndex(name, ".")+1:]
			if short == "Commit" {
				continue
			}
			n++
			// (the function that owns the code: a private part belongs to the only function that uses it)
			top := p.regionOwner(fn).Name()
			if (top == "putTxLabels" || outermost(fn).Name() == "putTxLabels") && short == "CreateBucketIfNotExists" {
				// frozen exception (read and confirmed): DropTransactionHistory re-creates the
				// labels bucket 'l' and re-inserts labels through wtxmgr.PutTxLabel; it never
				// touches u, c, d, m*, bal.
				c.Check("C01-R3", "db-mutator-outside-store:"+fnName(fn)+"/"+short, ci.Pos(), true, "")
				continue
			}
			allowed := (short == "CreateTopLevelBucket" || short == "DeleteTopLevelBucket") &&
				(top == "CreateWithCallback" || top == "create" || top == "Create" || top == "DropTransactionHistory" || top == "CreateWatchingOnlyWithCallback" || top == "createWallet")
			c.Check("C01-R3", "db-mutator-outside-store:"+fnName(fn)+"/"+short, ci.Pos(), allowed,
				"a raw database mutator ("+name+") is called outside wtxmgr/waddrmgr: the transaction store's buckets must only be edited by the store itself")
		}
	}
	c.Note("C01-R3: %d raw database mutator calls outside the store packages examined", n)
}

// runLoopCompleteness: in the named wtxmgr functions, loops that range over a
// record's inputs, outputs, a block's transactions or a list of hashes/heights
// process every element: no break / non-error return out of the body.
func runLoopCompleteness(c *Ctx, rule string, fnNames []string) {
	runLoopCompletenessN(c, rule, fnNames, 12)
}

func runLoopCompletenessN(c *Ctx, rule string, fnNames []string, floor int) {
	p := c.P
	n := 0
	for _, fn := range wtxRegion(c, rule, fnNames) {
		name := fn.Name()
		idx := map[string]int{}
		for _, l := range loopsOf(fn) {
			if l.Kind == "for" {
				continue
			}
			// search loops (looking for the first element with a property) are not "process all" loops:
			// insertMemPoolTx's scan over outputs returning nil when the tx is already mined.
			key := name + "/range:" + l.Over
			idx[key]++
			if idx[key] > 1 {
				key = fmt.Sprintf("%s#%d", key, idx[key])
			}
			if name == "insertMemPoolTx" && l.elemTypeName() == "TxOut" {
				continue
			}
			n++
			exits := l.EarlyExits(p)
			c.Check(rule, "no-early-exit:"+key, l.Header.Instrs[0].Pos(), len(exits) == 0,
				"loop must process every element but can be left early: "+strings.Join(exits, "; "))
		}
	}
	c.Floor(rule, "process-all range loops", n, floor)
}

// boolFlagsOf: names of fn's boolean parameters and of the boolean fields of its struct-typed parameters.
func boolFlagsOf(fn *ssa.Function) []string {
	var out []string
	isBool := func(t types.Type) bool { return types.Identical(t.Underlying(), types.Typ[types.Bool]) }
	for _, prm := range fn.Params {
		if isBool(prm.Type()) {
			out = append(out, prm.Name())
			continue
		}
		t := prm.Type()
		if pt, ok := t.Underlying().(*types.Pointer); ok {
			t = pt.Elem()
		}
		if st, ok := t.Underlying().(*types.Struct); ok && fn.Signature.Recv() != nil && prm == fn.Params[0] {
			_ = st
			continue // the receiver
		} else if ok {
			for i := 0; i < st.NumFields(); i++ {
				if isBool(st.Field(i).Type()) {
					out = append(out, st.Field(i).Name())
				}
			}
		}
	}
	return out
}

// flagValueAt: the constant a call site binds flag x to: the argument for the parameter of that name, or the field of that
// name in a struct literal passed for a struct parameter (unset fields are false).
func flagValueAt(fn *ssa.Function, cs ssa.CallInstruction, x string) (bool, bool) {
	args := cs.Common().Args
	for i, prm := range fn.Params {
		if i >= len(args) {
			break
		}
		if prm.Name() == x {
			if b, ok := constBool(args[i]); ok {
				return b, true
			}
		}
		t := prm.Type()
		ptr := false
		if pt, ok := t.Underlying().(*types.Pointer); ok {
			t = pt.Elem()
			ptr = true
		}
		st, ok := t.Underlying().(*types.Struct)
		if !ok || (fn.Signature.Recv() != nil && i == 0) {
			continue
		}
		fi := -1
		for k := 0; k < st.NumFields(); k++ {
			if st.Field(k).Name() == x {
				fi = k
			}
		}
		if fi < 0 {
			continue
		}
		var al *ssa.Alloc
		v := stripConv(args[i])
		if ptr {
			al, _ = v.(*ssa.Alloc)
		} else if u, ok := v.(*ssa.UnOp); ok && u.Op == token.MUL {
			al, _ = u.X.(*ssa.Alloc)
		}
		if al == nil {
			return false, false
		}
		val, known := false, true
		for _, r := range usesOf(al) {
			switch y := r.(type) {
			case *ssa.FieldAddr:
				for _, r2 := range usesOf(y) {
					st2, isSt := r2.(*ssa.Store)
					if !isSt || st2.Addr != ssa.Value(y) {
						known = false
						continue
					}
					if y.Field == fi {
						if b, ok := constBool(st2.Val); ok {
							val = b
						} else {
							known = false
						}
					}
				}
			case *ssa.UnOp, *ssa.DebugRef:
			case *ssa.Store:
				if y.Addr == ssa.Value(al) {
					if _, isZero := y.Val.(*ssa.Const); !isZero {
						known = false
					}
				} else {
					known = false
				}
			case ssa.CallInstruction:
				if !ptr || r != ssa.Instruction(cs) {
					known = false
				}
			default:
				known = false
			}
		}
		return val, known
	}
	return false, false
}

// checkMaturityComparisonsCanonical: a coinbase output counts from the block in which it has `maturity` confirmations:
// wherever the wallet compares a confirmation count with the network's coinbase maturity itself (instead of handing the
// maturity to the canonical predicate confirmed(minconf, txHeight, curHeight)), the comparison is the same relation:
// "immature iff confs < maturity". Normalised to `L < 0`, that is confs - maturity < 0 or maturity - confs - 1 < 0; a
// `<=` / `>` is off by one block per coinbase, and the listing disagrees with the balance at exactly that height.
func checkMaturityComparisonsCanonical(c *Ctx, rule string) {
	p := c.P
	isMaturity := func(v ssa.Value) bool {
		for _, o := range (&Slicer{P: p, ThroughBinOp: false}).Origins(v) {
			if _, f, _, ok := fieldOf(o); ok && f == "CoinbaseMaturity" {
				return true
			}
		}
		return false
	}
	nUse, nCmp := 0, 0
	for _, fn := range p.FuncsIn("wallet") {
		for _, b := range fn.Blocks {
			for _, ins := range b.Instrs {
				switch x := ins.(type) {
				case *ssa.Call:
					if calleeShort(&x.Call) == "confirmed" && len(x.Call.Args) == 3 && isMaturity(x.Call.Args[0]) {
						nUse++
					}
				case *ssa.BinOp:
					switch x.Op {
					case token.LSS, token.LEQ, token.GTR, token.GEQ, token.EQL, token.NEQ:
					default:
						continue
					}
					mx, my := isMaturity(x.X), isMaturity(x.Y)
					if mx == my {
						continue
					}
					nUse++
					nCmp++
					f, ok := p.cmpForm(x, true)
					okRel := false
					if ok && f.Rel == "<" {
						m := p.linearize(x.Y, 0)
						if mx {
							m = p.linearize(x.X, 0)
						}
						// sign of the maturity operand in the normalised form
						for k, coef := range m.Coef {
							switch f.L.Coef[k] * coef {
							case -1: // confs - maturity (+k) < 0
								okRel = f.L.Konst == 0
							case 1: // maturity - confs - 1 < 0
								okRel = f.L.Konst == -1
							}
						}
					}
					c.Check(rule, "maturity-comparison-canonical:"+fnName(fn), x.Pos(), okRel,
						fnName(fn)+" compares a confirmation count with the coinbase maturity with a relation other than 'immature iff confs < maturity' ("+f.L.String()+" "+f.Rel+" 0): a coinbase output with exactly `maturity` confirmations is treated differently here than by the balance and the coin selection")
				}
			}
		}
	}
	c.Floor(rule, "uses of the coinbase maturity in the wallet package", nUse, 4)
	_ = nCmp
}
