package main

import (
	"fmt"
	"go/ast"
	"go/constant"
	"go/token"
	"go/types"
	"os"
	"sort"
	"strings"

	"golang.org/x/tools/go/ssa"
)

// checkSignDecisionScope: the sign / skip-signing decision in txToOutputs asks about the account in the key scope
// the coins were selected from (the same scope parameter that is passed to findEligibleOutputs).
func checkSignDecisionScope(c *Ctx, rule string) {
	p := c.P
	tto := p.Func("wallet", "Wallet", "txToOutputs")
	if tto == nil {
		c.Unresolved(rule, "wallet.txToOutputs")
		return
	}
	scopeVar := func(v ssa.Value) string {
		// captured parameter: load of freevar; or deref of it
		for i := 0; i < 4; i++ {
			switch x := v.(type) {
			case *ssa.UnOp:
				v = x.X
			case *ssa.FreeVar:
				return x.Name()
			case *ssa.Parameter:
				return x.Name()
			case *ssa.Global:
				return "global:" + x.Name()
			default:
				return ""
			}
		}
		return ""
	}
	for _, cl := range Closures(tto) {
		fe := callsNamed(cl, "findEligibleOutputs")
		wo := callsNamed(cl, "IsWatchOnlyAccount")
		if len(fe) == 0 || len(wo) == 0 {
			continue
		}
		sel := ""
		if a := p.argNamed(fe[0], "keyScope", 2); a != nil {
			sel = scopeVar(a)
		}
		c.Check(rule, "coin-selection-scope-identified", fe[0].Pos(), sel != "", "cannot identify the key-scope variable passed to findEligibleOutputs (undecided)")
		for _, call := range wo {
			v := scopeVar(call.Call.Args[2])
			ok := v == sel || strings.HasPrefix(v, "global:KeyScope")
			c.Check(rule, "sign-decision-uses-coin-selection-scope", call.Pos(), ok,
				fmt.Sprintf("the watch-only (skip signing) decision asks about scope %q, but the coins are selected from scope %q: a spend from a private-key account can be returned unsigned and unvalidated", v, sel))
			// the default-scope arm is taken only when the coin-selection scope is nil
			if strings.HasPrefix(v, "global:") {
				okG := !reachableAvoiding(cl, nil, call, func(from *ssa.BasicBlock, si int) bool {
					f := edgeFactOf(from, si)
					return f != nil && f.Kind == "nil" && scopeVar(f.V) == sel
				})
				c.Check(rule, "default-scope-only-when-no-selection-scope", call.Pos(), okG, "the default key scope is used for the watch-only decision although a coin-selection scope was given (or the nil test is on a different scope variable)")
			}
		}
	}
}

// checkInputSourceLifetime: the four values an input source returns together (total, inputs, values, scripts) are all
// state of the same lifetime: all captured accumulators or all per-call locals.
func checkInputSourceLifetime(c *Ctx, rule string) {
	p := c.P
	n := 0
	for _, name := range []string{"makeInputSource", "constantInputSource"} {
		fn := p.Func("wallet", "", name)
		if fn == nil {
			c.Unresolved(rule, "wallet."+name)
			continue
		}
		for _, cl := range p.valueFunctionsOf(fn) {
			for _, b := range cl.Blocks {
				for _, ins := range b.Instrs {
					r, ok := ins.(*ssa.Return)
					if !ok || len(r.Results) < 4 {
						continue
					}
					n++
					kinds := map[string]bool{}
					var desc []string
					for i := 0; i < 4; i++ {
						k := "local"
						sl := &Slicer{P: p}
						for _, o := range sl.Origins(r.Results[i]) {
							if _, ok := o.(*ssa.FreeVar); ok {
								k = "captured"
							}
							if u, ok := o.(*ssa.UnOp); ok && cellKey(u.X) != "" {
								k = "captured"
							}
						}
						if u, ok := r.Results[i].(*ssa.UnOp); ok && cellKey(u.X) != "" {
							k = "captured"
						}
						kinds[k] = true
						desc = append(desc, k)
					}
					c.Check(rule, "input-source-state-has-one-lifetime:"+name, r.Pos(), len(kinds) == 1,
						"the input source returns a total and input/value/script lists of different lifetimes ("+strings.Join(desc, ",")+"): on a second call (fee retry) the cumulative total no longer matches the inputs handed out, so inputs != outputs + fee")
				}
			}
		}
	}
	c.Floor(rule, "input source closures", n, 2)
}

// checkRecoveryWindowForms: canonical comparison forms of the look-ahead window arithmetic.
func checkRecoveryWindowForms(c *Ctx, rule string) {
	p := c.P
	brs := func(name string) *ssa.Function {
		fn := p.Func("wallet", "BranchRecoveryState", name)
		if fn == nil {
			c.Unresolved(rule, "wallet.BranchRecoveryState."+name)
		}
		return fn
	}
	// NumInvalidInHorizon: counts children c with nextUnfound <= c < horizon
	if fn := brs("NumInvalidInHorizon"); fn != nil {
		found := false
		for _, b := range fn.Blocks {
			for _, ins := range b.Instrs {
				bo, ok := ins.(*ssa.BinOp)
				if !ok || bo.Op.String() != "+" {
					continue
				}
				if k, isK := constInt(bo.Y); !isK || k != 1 {
					continue
				}
				found = true
				g := p.guardForms(b)
				want := []string{"+1*field:nextUnfound -1*val:CHILD -1 < 0", "-1*field:horizon +1*val:CHILD +0 < 0"}
				got := normaliseChild(g)
				ok2 := containsAll(got, want)
				c.Check(rule, "invalid-children-counted-in-[nextUnfound,horizon)", bo.Pos(), ok2,
					"NumInvalidInHorizon does not count exactly the invalid children c with nextUnfound <= c < horizon (guards: "+strings.Join(got, " & ")+"): the look-ahead then watches fewer than `window` valid children")
			}
		}
		if !found {
			c.Check(rule, "invalid-children-counted-in-[nextUnfound,horizon)", fn.Pos(), false, "no counter increment found in NumInvalidInHorizon (undecided)")
		}
	}
	// ExtendHorizon: minValid = nextUnfound + window + nInvalid; no extension iff horizon >= minValid; new horizon = minValid; delta = minValid - horizon
	if fn := brs("ExtendHorizon"); fn != nil {
		okMin, okDelta, okStore := false, false, false
		inv := "call:NumInvalidInHorizon(+1*param#0 +0)"
		minForm := "+1*" + inv + " +1*field:nextUnfound +1*field:recoveryWindow +0"
		for _, b := range fn.Blocks {
			for _, ins := range b.Instrs {
				switch x := ins.(type) {
				case *ssa.If:
					for si := 0; si < 2; si++ {
						if f, ok := p.cmpForm(x.Cond, si == 0); ok && f.Rel == "<" {
							// horizon - minValid < 0  (needs extension)
							if f.L.String() == "-1*"+inv+" +1*field:horizon -1*field:nextUnfound -1*field:recoveryWindow +0" {
								okMin = true
							}
						}
					}
				case *ssa.Store:
					if fa, ok := x.Addr.(*ssa.FieldAddr); ok {
						if _, f := fieldAddrName(fa); f == "horizon" && p.linearize(x.Val, 0).String() == minForm {
							okStore = true
						}
					}
				case *ssa.Return:
					if len(x.Results) == 2 {
						if p.linearize(x.Results[1], 0).String() == "+1*"+inv+" -1*field:horizon +1*field:nextUnfound +1*field:recoveryWindow +0" {
							okDelta = true
						}
					}
				}
			}
		}
		c.Check(rule, "horizon-extended-to-nextUnfound+window+invalid", fn.Pos(), okMin && okStore && okDelta,
			fmt.Sprintf("ExtendHorizon does not extend the horizon to nextUnfound + recoveryWindow + invalid-in-horizon and report the difference as the number of addresses to derive (test=%v store=%v delta=%v)", okMin, okStore, okDelta))
	}
	// ReportFound: if index >= nextUnfound then nextUnfound = index + 1
	if fn := brs("ReportFound"); fn != nil {
		ok := false
		for _, st := range storesToField(fn, "nextUnfound") {
			if p.linearize(st.Val, 0).String() != "+1*param#1 +1" {
				continue
			}
			for _, g := range p.guardForms(st.Block()) {
				if g == "+1*field:nextUnfound -1*param#1 -1 < 0" {
					ok = true
				}
			}
		}
		c.Check(rule, "found-index-advances-nextUnfound", fn.Pos(), ok, "ReportFound does not set nextUnfound = index+1 exactly when index >= nextUnfound")
	}
	// MarkInvalidChild: horizon++ and the child is recorded
	if fn := brs("MarkInvalidChild"); fn != nil {
		okH := false
		for _, st := range storesToField(fn, "horizon") {
			if p.linearize(st.Val, 0).String() == "+1*field:horizon +1" {
				okH = true
			}
		}
		okM := false
		for _, b := range fn.Blocks {
			for _, ins := range b.Instrs {
				if _, ok := ins.(*ssa.MapUpdate); ok {
					okM = true
				}
			}
		}
		c.Check(rule, "invalid-child-extends-horizon", fn.Pos(), okH && okM, "MarkInvalidChild does not record the child and extend the horizon by one")
	}
}

// normaliseChild renames the loop key (range over invalidChildren) to val:CHILD in guard forms.
func normaliseChild(forms []string) []string {
	var out []string
	for _, f := range forms {
		parts := strings.Fields(f)
		for i, pt := range parts {
			if strings.Contains(pt, "*call:next#") || strings.Contains(pt, "*val:t") || strings.Contains(pt, "*call:Next") {
				j := strings.Index(pt, "*")
				parts[i] = pt[:j] + "*val:CHILD"
			}
		}
		// re-sort atoms for a canonical string
		if len(parts) >= 3 {
			atoms := parts[:len(parts)-3]
			sort.Slice(atoms, func(a, b int) bool {
				return atoms[a][strings.Index(atoms[a], "*"):] < atoms[b][strings.Index(atoms[b], "*"):]
			})
		}
		out = append(out, strings.Join(parts, " "))
	}
	sort.Strings(out)
	return out
}

func containsAll(have, want []string) bool {
	set := map[string]bool{}
	for _, h := range have {
		set[h] = true
	}
	for _, w := range want {
		if !set[w] {
			return false
		}
	}
	return true
}

// checkInputSourceConsumes: the closure returned by makeInputSource is called repeatedly by the author
// (once more whenever the fee grows), and keeps its accumulated inputs across calls. The position in the
// eligible-coin sequence must therefore persist across calls too: every iteration that hands out a coin
// advances captured state (re-slices the captured sequence, or increments a captured index). A cursor that
// lives only inside one call restarts at the first coin, and the same outpoint is appended again.
func checkInputSourceConsumes(c *Ctx, rule string) {
	p := c.P
	fn := p.Func("wallet", "", "makeInputSource")
	if fn == nil {
		c.Unresolved(rule, "wallet.makeInputSource")
		return
	}
	n := 0
	for _, cl := range p.valueFunctionsOf(fn) {
		for _, l := range loopsOf(cl) {
			// the coin handed out: an element of a sequence loaded from state that persists across calls (a captured
			// variable, or a field of the struct the method is bound on)
			seq, idxCell := "", ""
			for b := range l.Blocks {
				for _, ins := range b.Instrs {
					ia, ok := ins.(*ssa.IndexAddr)
					if !ok {
						continue
					}
					if u, ok := stripConv(ia.X).(*ssa.UnOp); ok && u.Op == token.MUL {
						if k := cellKey(u.X); k != "" {
							seq = k
							idxCell = ""
							if iu, ok := stripConv(ia.Index).(*ssa.UnOp); ok && iu.Op == token.MUL {
								idxCell = cellKey(iu.X)
							}
						}
					}
				}
			}
			if seq == "" {
				continue
			}
			n++
			advances := func(ins ssa.Instruction) bool {
				st, ok := ins.(*ssa.Store)
				if !ok {
					return false
				}
				k := cellKey(st.Addr)
				return k != "" && (k == seq || k == idxCell)
			}
			bad := l.MustPassPerIteration(p, advances)
			c.Check(rule, "input-source-cursor-persists-across-calls", l.Header.Instrs[0].Pos(), bad == "",
				"the input source hands out coins of the captured sequence without advancing captured state ("+bad+"): its next call (fee retry) starts again at the first coin and appends an outpoint that is already among the inputs, so one output is spent twice in one transaction")
		}
	}
	c.Floor(rule, "coin hand-out loops in makeInputSource", n, 1)
}

// checkFilterConsultsOutpointSets: BlockFilterer keeps several outpoint sets (the watched set handed in with
// the request, and the set of outputs found earlier in the same block). Whether a transaction spends a wallet
// output is decided in FilterTx's input loop; it must consult every outpoint-keyed set of the filterer —
// the found set is merged into the caller's watched set only after the block has been reported, so a spend of
// an output created earlier in the same block is visible through the found set alone.
func checkFilterConsultsOutpointSets(c *Ctx, rule string) {
	p := c.P
	ft := p.Func("chain", "BlockFilterer", "FilterTx")
	bfT := p.Named("chain", "BlockFilterer")
	if ft == nil || bfT == nil {
		c.Unresolved(rule, "chain.BlockFilterer.FilterTx")
		return
	}
	st, ok := bfT.Underlying().(*types.Struct)
	if !ok {
		c.Unresolved(rule, "chain.BlockFilterer struct")
		return
	}
	var sets []string
	for i := 0; i < st.NumFields(); i++ {
		if m, ok := st.Field(i).Type().Underlying().(*types.Map); ok && strings.HasSuffix(m.Key().String(), "wire.OutPoint") {
			sets = append(sets, st.Field(i).Name())
		}
	}
	c.Floor(rule, "outpoint-keyed sets of BlockFilterer", len(sets), 2)
	loops := loopsRangingOver(ft, "TxIn")
	c.Floor(rule, "input loops in FilterTx", len(loops), 1)
	for _, l := range loops {
		looked := map[string]bool{}
		for b := range l.Blocks {
			for _, ins := range b.Instrs {
				if lk, ok := ins.(*ssa.Lookup); ok {
					if tn, f, _, okf := fieldOf(stripConv(lk.X)); okf && tn == "BlockFilterer" {
						looked[f] = true
					}
				}
			}
		}
		for _, s := range sets {
			c.Check(rule, "input-loop-consults:"+s, l.Header.Instrs[0].Pos(), looked[s],
				"FilterTx decides whether a transaction spends a wallet output without looking its inputs up in BlockFilterer."+s+": spends of outputs known only through that set (e.g. created earlier in the same block) are not reported as relevant, the output stays unspent and the recovered balance is too high")
		}
	}
}

// checkErrorTablesAgree: the backend error tables of package chain (map[string]error literals) are matched
// by substring against the backend's message, several tables in sequence. Two keys of which one contains the
// other are therefore matched by the same messages and express a belief about the same backend condition
// (typically the old and the new wording of one answer); they must map to the same wallet error — in
// particular "already in the mempool" (transaction is kept) must not be classified as "already known /
// confirmed" (transaction is removed from the store) under one wording only.
func checkErrorTablesAgree(c *Ctx, rule string) {
	p := c.P
	pk := p.ByPath[rootMod+"/chain"]
	if pk == nil {
		c.Unresolved(rule, "package chain")
		return
	}
	type entry struct {
		table, key, val string
		pos             token.Pos
	}
	var ents []entry
	tables := 0
	for _, f := range pk.Syntax {
		for _, d := range f.Decls {
			gd, ok := d.(*ast.GenDecl)
			if !ok || gd.Tok != token.VAR {
				continue
			}
			for _, sp := range gd.Specs {
				vs := sp.(*ast.ValueSpec)
				for i, nm := range vs.Names {
					if i >= len(vs.Values) {
						continue
					}
					cl, ok := vs.Values[i].(*ast.CompositeLit)
					if !ok {
						continue
					}
					mt, ok := pk.TypesInfo.TypeOf(cl).Underlying().(*types.Map)
					if !ok || !isErrorType(mt.Elem()) {
						continue
					}
					if b, ok := mt.Key().Underlying().(*types.Basic); !ok || b.Kind() != types.String {
						continue
					}
					tables++
					for _, el := range cl.Elts {
						kv, ok := el.(*ast.KeyValueExpr)
						if !ok {
							continue
						}
						tv, okc := pk.TypesInfo.Types[kv.Key]
						if !okc || tv.Value == nil {
							continue
						}
						ents = append(ents, entry{nm.Name, strings.ToLower(constant.StringVal(tv.Value)), types.ExprString(kv.Value), kv.Pos()})
					}
				}
			}
		}
	}
	c.Floor(rule, "backend error tables in package chain", tables, 3)
	c.Floor(rule, "backend error table entries", len(ents), 40)
	nPairs := 0
	for i := range ents {
		for j := range ents {
			if i == j || !strings.Contains(ents[j].key, ents[i].key) || (ents[i].key == ents[j].key && i > j) {
				continue
			}
			nPairs++
			c.Check(rule, fmt.Sprintf("overlapping-error-keys-agree:%s[%q]~%s[%q]", ents[i].table, ents[i].key, ents[j].table, ents[j].key), ents[i].pos,
				ents[i].val == ents[j].val,
				fmt.Sprintf("backend message key %q (%s -> %s) is contained in key %q (%s -> %s): both match the same backend answer but classify it differently; publishTransaction keeps a transaction for ErrTxAlreadyInMempool and removes it from the store for ErrTxAlreadyKnown/ErrTxAlreadyConfirmed", ents[i].key, ents[i].table, ents[i].val, ents[j].key, ents[j].table, ents[j].val))
		}
	}
	c.Floor(rule, "overlapping key pairs across the error tables", nPairs, 1)
	// two generations of one backend's table (X and XPre<version>): the mapper of a current backend consults only the
	// current table, so every "already ..." class — the answers after which publishTransaction must NOT treat the
	// transaction as rejected — that the old generation can produce is produced by the current one too. (That a shorter
	// key of the old table is contained in the backend's new message does not help: the old table is not consulted.)
	vals := map[string]map[string]bool{}
	for _, e := range ents {
		if vals[e.table] == nil {
			vals[e.table] = map[string]bool{}
		}
		vals[e.table][e.val] = true
	}
	nGen := 0
	for old := range vals {
		i := strings.Index(old, "Pre")
		if i <= 0 {
			continue
		}
		cur := old[:i]
		if vals[cur] == nil {
			continue
		}
		nGen++
		var missing []string
		for v := range vals[old] {
			if strings.Contains(v, "Already") && !vals[cur][v] {
				missing = append(missing, v)
			}
		}
		sort.Strings(missing)
		c.Check(rule, "current-table-covers-accepted-answers:"+cur, pk.Types.Scope().Lookup(cur).Pos(), len(missing) == 0,
			fmt.Sprintf("the error table %s (consulted alone for current backends) has no entry classified %v although the older generation %s has: a current backend's answer of that kind is mapped to 'undefined', the wallet treats an accepted or already-known transaction as rejected and forgets it", cur, missing, old))
	}
	c.Floor(rule, "error tables with an older generation", nGen, 1)
}

// dominatingStoreVal: for a load of a local variable, the value of its nearest dominating store in the same
// function (nil if none: merged / loop-carried).
func dominatingStoreVal(ld *ssa.UnOp) ssa.Value {
	al, ok := ld.X.(*ssa.Alloc)
	if !ok {
		return nil
	}
	b := ld.Block()
	idx := instrIndex(ld)
	for b != nil {
		for i := idx - 1; i >= 0; i-- {
			if st, ok := b.Instrs[i].(*ssa.Store); ok && st.Addr == ssa.Value(al) {
				return st.Val
			}
		}
		b = b.Idom()
		if b != nil {
			idx = len(b.Instrs)
		}
	}
	return nil
}

// checkRangeCallbackCopies: Store.RangeTransactions re-uses the backing array of the slice it hands to its
// callback for the next block. A callback that keeps POINTERS into that slice (e.g. summaries holding
// &details[i].Hash / &details[i].MsgTx) must take them from its own copy; otherwise the records reported for
// an earlier block silently turn into those of a later one (duplicates under the wrong block, others missing).
func checkRangeCallbackCopies(c *Ctx, rule string) {
	p := c.P
	rt := p.Func("wtxmgr", "Store", "RangeTransactions")
	if rt == nil {
		c.Unresolved(rule, "wtxmgr.Store.RangeTransactions")
		return
	}
	// retains(g, j): g stores or returns an address derived from its j-th (pointer) parameter
	retains := func(g *ssa.Function, j int) bool {
		if g == nil || j >= len(g.Params) || len(g.Blocks) == 0 {
			return false
		}
		prm := g.Params[j]
		// addresses derived from the parameter through field / element selection (embedded structs nest them)
		derived := map[ssa.Value]bool{prm: true}
		for changed := true; changed; {
			changed = false
			for _, b := range g.Blocks {
				for _, ins := range b.Instrs {
					switch x := ins.(type) {
					case *ssa.FieldAddr:
						if derived[x.X] && !derived[x] {
							derived[x] = true
							changed = true
						}
					case *ssa.IndexAddr:
						if derived[x.X] && !derived[x] {
							derived[x] = true
							changed = true
						}
					}
				}
			}
		}
		for addr := range derived {
			if addr == ssa.Value(prm) {
				continue
			}
			for _, u := range usesOf(addr) {
				switch y := u.(type) {
				case *ssa.Store:
					if y.Val == addr {
						return true
					}
				case *ssa.Return:
					return true
				}
			}
		}
		return false
	}
	n := 0
	for _, cs := range p.callers(rt) {
		if !strings.HasSuffix(fnPkgPath(cs.Parent()), "/wallet") {
			continue
		}
		args := cs.Common().Args
		var cb *ssa.Function
		for _, o := range (&Slicer{P: p}).Origins(args[len(args)-1]) {
			if mc, ok := o.(*ssa.MakeClosure); ok {
				cb, _ = mc.Fn.(*ssa.Function)
			}
		}
		if cb == nil || len(cb.Params) == 0 {
			continue
		}
		n++
		prm := cb.Params[0]
		bad := ""
		for _, b := range cb.Blocks {
			for _, ins := range b.Instrs {
				ia, ok := ins.(*ssa.IndexAddr)
				if !ok {
					continue
				}
				x := stripConv(ia.X)
				direct := x == ssa.Value(prm)
				if ld, ok := x.(*ssa.UnOp); ok && ld.Op == token.MUL {
					if v := dominatingStoreVal(ld); v != nil && stripConv(v) == ssa.Value(prm) {
						direct = true
					}
				}
				if !direct {
					continue
				}
				for _, u := range usesOf(ia) {
					call, ok := u.(*ssa.Call)
					if !ok {
						continue
					}
					for j, a := range call.Call.Args {
						if a == ssa.Value(ia) && retains(call.Call.StaticCallee(), j) {
							bad = fmt.Sprintf("&%s[i] of the callback's own parameter is handed to %s, which keeps pointers into it (at %s)", prm.Name(), calleeShort(&call.Call), p.Pos(call.Pos()))
						}
					}
				}
			}
		}
		c.Check(rule, "range-callback-keeps-pointers-into-own-copy:"+outermost(cb).Name(), cb.Pos(), bad == "",
			"a RangeTransactions callback keeps pointers into the slice it was handed ("+bad+"), whose backing array the store re-uses for the next block: summaries of earlier blocks end up describing later transactions")
	}
	c.Floor(rule, "RangeTransactions callbacks in package wallet", n, 1)
}

// checkProducersNeverDrop: every producer that hands a notification to the concurrent queue (a send on the
// channel returned by ConcurrentQueue.ChanIn) must wait until the queue's worker takes it: a plain send, or a
// blocking select whose other cases only receive (shutdown). A `default:` case makes the send best-effort — the
// input channel is unbuffered, so whenever the worker is busy the notification is silently lost.
func checkProducersNeverDrop(c *Ctx, rule string) {
	p := c.P
	chanIn := p.Func("chain", "ConcurrentQueue", "ChanIn")
	if chanIn == nil {
		c.Unresolved(rule, "chain.ConcurrentQueue.ChanIn")
		return
	}
	isChanIn := func(v ssa.Value) bool {
		for _, o := range (&Slicer{P: p}).Origins(v) {
			if call, ok := o.(*ssa.Call); ok && call.Call.StaticCallee() == chanIn {
				return true
			}
		}
		return false
	}
	n := 0
	for _, fn := range p.FuncsIn("chain") {
		for _, b := range fn.Blocks {
			for _, ins := range b.Instrs {
				switch x := ins.(type) {
				case *ssa.Send:
					if isChanIn(x.Chan) {
						n++ // a plain send always waits
					}
				case *ssa.Select:
					sends := false
					onlyRecvOthers := true
					// the object whose queue is fed: the receive cases (shutdown) must be channels of that same object —
					// a producer that waits for ANOTHER object's shutdown (the shared connection's) blocks forever on the
					// stopped queue of its own client
					var owner ssa.Value
					ownerOf := func(ch ssa.Value) ssa.Value {
						for _, o := range (&Slicer{P: p}).Origins(ch) {
							var recv ssa.Value
							if call, ok := o.(*ssa.Call); ok && call.Call.StaticCallee() == chanIn && len(call.Call.Args) > 0 {
								recv = call.Call.Args[0]
							} else {
								recv = o
							}
							if u, ok := stripConv(recv).(*ssa.UnOp); ok {
								if fa, ok := u.X.(*ssa.FieldAddr); ok {
									return stripConv(fa.X)
								}
							}
						}
						return nil
					}
					foreign := ""
					for _, st := range x.States {
						if st.Dir == types.SendOnly && isChanIn(st.Chan) {
							sends = true
							owner = ownerOf(st.Chan)
						} else if st.Dir != types.RecvOnly {
							onlyRecvOthers = false
						}
					}
					if !sends {
						continue
					}
					if owner != nil {
						for _, st := range x.States {
							if st.Dir == types.RecvOnly {
								if o2 := ownerOf(st.Chan); o2 != nil && o2 != owner {
									foreign = "a shutdown channel of another object"
								}
							}
						}
					}
					n++
					c.Check(rule, "queue-producer-waits-on-own-shutdown:"+fnName(fn), x.Pos(), foreign == "",
						fnName(fn)+" hands a notification to its client's queue while waiting, as the way out, for "+foreign+": once the client itself is stopped (its queue no longer takes anything) the producer blocks for good and WaitForShutdown never returns")
					c.Check(rule, "queue-producer-waits:"+fnName(fn), x.Pos(), x.Blocking && onlyRecvOthers,
						fnName(fn)+" offers a notification to the queue in a select that can give up (a default case, or another send): the queue's input channel is unbuffered, so the notification is dropped whenever the worker is busy — 'none lost' no longer holds under a burst or a slow consumer")
				}
			}
		}
	}
	c.Floor(rule, "producers sending into the concurrent queue", n, 5)
}

// checkRescanEventsForwarded: the rescan goroutine — and through it resendUnminedTxs, which re-offers the
// unconfirmed transactions after every (re)synchronisation — learns about rescan progress and completion only
// from handleChainNotifications forwarding those events on w.rescanNotifications. In the case arm of each such
// event every path to the next loop iteration passes that hand-off (or leaves through shutdown).
func checkRescanEventsForwarded(c *Ctx, rule string) {
	_ = c.P
	fn := walletFn(c, rule, "handleChainNotifications")
	if fn == nil {
		return
	}
	n := 0
	for _, f := range Closures(fn) {
		loops := loopsOf(f)
		for _, b := range f.Blocks {
			for _, ins := range b.Instrs {
				ta, ok := ins.(*ssa.TypeAssert)
				if !ok || !ta.CommaOk {
					continue
				}
				tname := ta.AssertedType.String()
				if !strings.HasSuffix(tname, "chain.RescanFinished") && !strings.HasSuffix(tname, "chain.RescanProgress") {
					continue
				}
				l := innermostLoopOf(loops, ta)
				if l == nil {
					continue
				}
				// the edge on which the assertion succeeded
				for _, b2 := range f.Blocks {
					for si := range b2.Succs {
						ef := edgeFactOf(b2, si)
						if ef == nil || ef.Kind != "true" {
							continue
						}
						ex, ok := ef.V.(*ssa.Extract)
						if !ok || ex.Tuple != ssa.Value(ta) {
							continue
						}
						n++
						isForwardSel := func(i ssa.Instruction) bool {
							sel, ok := i.(*ssa.Select)
							if !ok {
								return false
							}
							for _, st := range sel.States {
								if st.Dir == types.SendOnly {
									if _, fld, _, okf := fieldOf(stripConv(st.Chan)); okf && fld == "rescanNotifications" {
										return true
									}
								}
							}
							return false
						}
						isForward := func(i ssa.Instruction) bool {
							if isForwardSel(i) {
								return true
							}
							// the hand-off extracted into a same-package helper every path of which performs it
							call, ok := i.(*ssa.Call)
							if !ok {
								return false
							}
							g := call.Call.StaticCallee()
							if g == nil || g.Pkg != f.Pkg || len(g.Blocks) == 0 {
								return false
							}
							qq := &PathQuery{Fn: g, Barrier: isForwardSel, Target: func(i2 ssa.Instruction, _ *ssa.BasicBlock) bool { _, ok := i2.(*ssa.Return); return ok }}
							return len(qq.From(nil)) == 0
						}
						q := &PathQuery{Fn: f, Barrier: isForward}
						q.LoopExit = func(from, to *ssa.BasicBlock) bool { return to == l.Header }
						hits := exploreFromBlock(q, b2.Succs[si], b2)
						short := tname[strings.LastIndex(tname, ".")+1:]
						c.Check(rule, "rescan-event-forwarded:"+short, ta.Pos(), len(hits) == 0,
							"handleChainNotifications can finish handling a "+short+" notification without forwarding it to the rescan goroutine (w.rescanNotifications): the rescan batch is never completed and resendUnminedTxs is never started, so unconfirmed transactions are not re-offered after this synchronisation")
					}
				}
			}
		}
	}
	c.Floor(rule, "rescan event arms in handleChainNotifications", n, 2)
}

// checkTypeSwitchArmsAssignSameVar (sibling agreement): in a type switch whose arms are alternative ways of
// computing ONE result (each arm assigns exactly one variable that lives outside the arm, error variables
// aside), all arms assign the same variable. An arm that assigns a different one (copy-paste from the sibling
// switch) leaves the intended variable at its default and clobbers another — in GetTransactions the end of the
// requested height range is then ignored and its start replaced, for one backend only.
func checkTypeSwitchArmsAssignSameVar(c *Ctx, rule string, fns []*ssa.Function) {
	_ = c.P
	n := 0
	for _, top := range fns {
		if top == nil {
			continue
		}
		for _, fn := range Closures(top) {
			// collect comma-ok type assertions by operand
			byX := map[ssa.Value][]*ssa.TypeAssert{}
			for _, b := range fn.Blocks {
				for _, ins := range b.Instrs {
					if ta, ok := ins.(*ssa.TypeAssert); ok && ta.CommaOk {
						byX[ta.X] = append(byX[ta.X], ta)
					}
				}
			}
			for _, tas := range byX {
				if len(tas) < 2 {
					continue
				}
				// split into switch instances: assertions whose blocks are connected through false edges
				sort.Slice(tas, func(i, j int) bool { return tas[i].Pos() < tas[j].Pos() })
				var groups [][]*ssa.TypeAssert
				for _, ta := range tas {
					placed := false
					for gi, g := range groups {
						last := g[len(g)-1]
						// ta is in the failure continuation of `last`
						for si := range last.Block().Succs {
							ef := edgeFactOf(last.Block(), si)
							if ef != nil && ef.Kind == "false" {
								if ex, ok := ef.V.(*ssa.Extract); ok && ex.Tuple == ssa.Value(last) && last.Block().Succs[si] == ta.Block() {
									groups[gi] = append(groups[gi], ta)
									placed = true
								}
							}
						}
					}
					if !placed {
						groups = append(groups, []*ssa.TypeAssert{ta})
					}
				}
				for _, g := range groups {
					if len(g) < 2 {
						continue
					}
					type armInfo struct {
						ta   *ssa.TypeAssert
						vars map[string]bool
					}
					var arms []armInfo
					for _, ta := range g {
						var entry *ssa.BasicBlock
						for si := range ta.Block().Succs {
							ef := edgeFactOf(ta.Block(), si)
							if ef != nil && ef.Kind == "true" {
								if ex, ok := ef.V.(*ssa.Extract); ok && ex.Tuple == ssa.Value(ta) {
									entry = ta.Block().Succs[si]
								}
							}
						}
						if entry == nil {
							continue
						}
						vars := map[string]bool{}
						for _, b := range fn.Blocks {
							if !entry.Dominates(b) {
								continue
							}
							for _, ins := range b.Instrs {
								st, ok := ins.(*ssa.Store)
								if !ok {
									continue
								}
								var name string
								switch a := st.Addr.(type) {
								case *ssa.Alloc:
									if entry.Dominates(a.Block()) {
										continue // arm-local
									}
									name = a.Comment
								case *ssa.FreeVar:
									name = a.Name()
								default:
									continue
								}
								if isErrorType(st.Val.Type()) {
									continue
								}
								vars[name] = true
							}
						}
						arms = append(arms, armInfo{ta, vars})
					}
					if len(arms) < 2 {
						continue
					}
					single := true
					for _, a := range arms {
						if len(a.vars) != 1 {
							single = false
						}
					}
					if !single {
						continue
					}
					n++
					count := map[string]int{}
					for _, a := range arms {
						for v := range a.vars {
							count[v]++
						}
					}
					best := ""
					for v, k := range count {
						if k > count[best] || best == "" {
							best = v
						}
					}
					for _, a := range arms {
						for v := range a.vars {
							tn := a.ta.AssertedType.String()
							c.Check(rule, fmt.Sprintf("type-switch-arms-assign-same-variable:%s/%s", outermost(fn).Name(), tn[strings.LastIndex(tn, ".")+1:]), a.ta.Pos(), v == best,
								fmt.Sprintf("in %s the arm for %s assigns %q while its sibling arms assign %q: the value the switch is there to compute is left at its default for this case, and another variable is overwritten", fnName(fn), tn, v, best))
						}
					}
				}
			}
		}
	}
	c.Floor(rule, "single-result type switches", n, 2)
}

// checkRequestFieldsFromSameNamedParams: CreateSimpleTx packs its arguments into the request handed to the
// serialising goroutine. A field of that request that has a same-named parameter is filled from that parameter —
// a neighbouring value of the same type (the change scope for the coin-selection scope) makes the transaction be
// funded from a different key scope than the caller asked for.
func checkRequestFieldsFromSameNamedParams(c *Ctx, rule string) {
	fn := walletFn(c, rule, "CreateSimpleTx")
	if fn == nil {
		return
	}
	params := map[string]*ssa.Parameter{}
	for _, prm := range fn.Params {
		params[prm.Name()] = prm
	}
	n := 0
	for _, b := range fn.Blocks {
		for _, ins := range b.Instrs {
			st, ok := ins.(*ssa.Store)
			if !ok {
				continue
			}
			fa, ok := st.Addr.(*ssa.FieldAddr)
			if !ok {
				continue
			}
			tn, f := fieldAddrName(fa)
			if tn != "createTxRequest" {
				continue
			}
			prm, ok := params[f]
			if !ok {
				continue
			}
			n++
			v := stripConv(st.Val)
			same := v == ssa.Value(prm)
			if ld, ok := v.(*ssa.UnOp); ok && !same {
				if dv := dominatingStoreVal(ld); dv != nil && stripConv(dv) == ssa.Value(prm) {
					same = true
				}
				if al, ok := ld.X.(*ssa.Alloc); ok && isParamSpill(al) {
					for _, s2 := range storesTo(al) {
						if s2.Val == ssa.Value(prm) && len(storesTo(al)) == 1 {
							same = true
						}
					}
				}
			}
			c.Check(rule, "request-field-from-same-named-parameter:"+f, st.Pos(), same,
				"CreateSimpleTx fills createTxRequest."+f+" from something other than its parameter "+f+": the request the serialising goroutine executes is not the one the caller made")
		}
	}
	c.Floor(rule, "request fields with a same-named parameter", n, 4)
}

// checkWatchedAddressSetOnlyGrows: during recovery the branch's derived-address map is the only source of the
// address set sent to the backend filter, and nothing re-derives below the horizon. The look-ahead bound limits
// used indexes from ABOVE only (a low index can be paid late, or re-used), so the map must never lose entries
// while a recovery is running: no delete on BranchRecoveryState.addresses anywhere.
func checkWatchedAddressSetOnlyGrows(c *Ctx, rule string) {
	p := c.P
	n, nDel := 0, 0
	for _, fn := range p.FuncsIn("wallet") {
		if recvName(fn) != "BranchRecoveryState" {
			continue
		}
		n++
		for _, ci := range callsOf(fn) {
			call, ok := ci.(*ssa.Call)
			if !ok || calleeShort(&call.Call) != "delete" || len(call.Call.Args) == 0 {
				continue
			}
			if tn, f, _, okf := fieldOf(stripConv(call.Call.Args[0])); okf && tn == "BranchRecoveryState" && f == "addresses" {
				nDel++
				c.Check(rule, "watched-address-set-only-grows:"+fn.Name(), call.Pos(), false,
					"(*BranchRecoveryState)."+fn.Name()+" deletes derived addresses from the branch's watch set: an address used out of increasing order (paid late, or re-used) is no longer in the filter request and its transactions are never found")
			}
		}
	}
	if nDel == 0 {
		c.Check(rule, "watched-address-set-only-grows", 0, true, "")
	}
	c.Floor(rule, "BranchRecoveryState methods", n, 5)
}

// checkFilterBlockVisitsEveryTx: FilterBlock hands every transaction of the block to FilterTx (outputs of a
// coinbase can pay the wallet too).
func checkFilterBlockVisitsEveryTx(c *Ctx, rule string) {
	p := c.P
	fb := p.Func("chain", "BlockFilterer", "FilterBlock")
	if fb == nil {
		c.Unresolved(rule, "chain.BlockFilterer.FilterBlock")
		return
	}
	n := 0
	for _, l := range loopsOf(fb) {
		if l.Kind == "for" || !l.containsInstr(isCallNamed("FilterTx")) {
			continue
		}
		n++
		bad := l.MustPassPerIteration(p, isCallNamed("FilterTx"))
		c.Check(rule, "every-block-transaction-filtered", l.Header.Instrs[0].Pos(), bad == "" && len(l.EarlyExits(p)) == 0,
			"FilterBlock can skip a transaction of the block without handing it to FilterTx ("+bad+"): payments made by that transaction (e.g. a coinbase paying the wallet) are not found")
	}
	c.Floor(rule, "transaction loops in FilterBlock", n, 1)
}

// checkQueueStartedOnce: ConcurrentQueue.Start has no guard of its own; its one production user relies on its
// own once-flag. After the queue has been started in a function, no path may re-arm that flag (store the "not
// started" value into it) unless the queue was stopped in between — a failed-then-retried Start would run two
// workers over one list and one pair of channels (order lost, items duplicated or dropped).
func checkQueueStartedOnce(c *Ctx, rule string) {
	p := c.P
	qStart := p.Func("chain", "ConcurrentQueue", "Start")
	qStop := p.Func("chain", "ConcurrentQueue", "Stop")
	if qStart == nil || qStop == nil {
		c.Unresolved(rule, "chain.ConcurrentQueue.Start/Stop")
		return
	}
	n := 0
	for _, cs := range p.callers(qStart) {
		call, ok := cs.(*ssa.Call)
		if !ok || strings.HasSuffix(p.Fset.Position(call.Pos()).Filename, "_test.go") {
			continue
		}
		fn := call.Parent()
		n++
		q := &PathQuery{Fn: fn, Barrier: func(i ssa.Instruction) bool { return p.isCallTo(i, qStop) },
			Target: func(i ssa.Instruction, _ *ssa.BasicBlock) bool {
				// atomic.StoreInt32(&x.started, 0) / x.started = 0|false
				switch x := i.(type) {
				case *ssa.Call:
					g := x.Call.StaticCallee()
					if g != nil && g.Pkg != nil && g.Pkg.Pkg.Path() == "sync/atomic" && strings.HasPrefix(g.Name(), "Store") && len(x.Call.Args) == 2 {
						if fa, ok := x.Call.Args[0].(*ssa.FieldAddr); ok {
							if _, f := fieldAddrName(fa); f == "started" {
								if k, ok := constInt(x.Call.Args[1]); ok && k == 0 {
									return true
								}
							}
						}
					}
				case *ssa.Store:
					if fa, ok := x.Addr.(*ssa.FieldAddr); ok {
						if _, f := fieldAddrName(fa); f == "started" {
							if k, ok := constInt(x.Val); ok && k == 0 {
								return true
							}
							if b, ok := constBool(x.Val); ok && !b {
								return true
							}
						}
					}
				}
				return false
			}}
		hits := q.From(call)
		c.Check(rule, "started-flag-not-rearmed-after-queue-start:"+fnName(fn), call.Pos(), len(hits) == 0,
			fnName(fn)+" re-arms its started flag after it has started the notification queue (without stopping the queue): a retried Start launches a second queue worker on the same list and channels")
	}
	c.Floor(rule, "production callers of ConcurrentQueue.Start", n, 1)
}

// checkNoQueueSendUnderClientMutex: the neutrino client's queue worker takes clientMtx at the top of every
// iteration; a producer that sends into the queue's input channel while holding clientMtx can therefore wait
// for a worker that waits for the mutex (and Stop needs the mutex too). Every send on enqueueNotification
// happens with clientMtx released.
func checkNoQueueSendUnderClientMutex(c *Ctx, rule string) {
	p := c.P
	n := 0
	for _, fn := range p.FuncsIn("chain") {
		if recvName(outermost(fn)) != "NeutrinoClient" {
			continue
		}
		for _, b := range fn.Blocks {
			for _, ins := range b.Instrs {
				sends := false
				switch x := ins.(type) {
				case *ssa.Send:
					if _, f, _, ok := fieldOf(stripConv(x.Chan)); ok && f == "enqueueNotification" {
						sends = true
					}
				case *ssa.Select:
					for _, st := range x.States {
						if st.Dir == types.SendOnly {
							if _, f, _, ok := fieldOf(stripConv(st.Chan)); ok && f == "enqueueNotification" {
								sends = true
							}
						}
					}
				}
				if !sends {
					continue
				}
				n++
				// may-hold: is there a path from a Lock of clientMtx to this send without an Unlock? (in this function and,
				// for closures called synchronously, in the enclosing function at the call)
				held := mayHoldAt(p, ins, "chain.NeutrinoClient.clientMtx", 0)
				c.Check(rule, "queue-send-without-client-mutex:"+fnName(fn), ins.Pos(), !held,
					fnName(fn)+" can send into the notification queue while holding clientMtx: the queue worker takes clientMtx on every iteration, so producer, worker and Stop can wait for each other forever")
			}
		}
	}
	c.Floor(rule, "sends into the neutrino notification queue", n, 5)
}

// mayHoldAt: some path reaches ins with mutex `key` locked (Lock/RLock seen, no Unlock since). For a closure that is
// called directly by its parent (a local func value), continue at the call sites in the parent.
func mayHoldAt(p *Program, ins ssa.Instruction, key string, depth int) bool {
	fn := ins.Parent()
	// backward search over the CFG from ins
	type pt struct {
		b   *ssa.BasicBlock
		idx int
	}
	seen := map[*ssa.BasicBlock]bool{}
	var visit func(b *ssa.BasicBlock, from int) bool
	visit = func(b *ssa.BasicBlock, from int) bool {
		for i := from; i >= 0; i-- {
			k, op := lockOp(b.Instrs[i])
			if strings.TrimSuffix(k, "(R)") == key {
				if op == 1 {
					return true
				}
				if op == -1 {
					return false
				}
			}
			// deferred unlock registered earlier does not release before ins
		}
		for _, pr := range b.Preds {
			if seen[pr] {
				continue
			}
			seen[pr] = true
			if visit(pr, len(pr.Instrs)-1) {
				return true
			}
		}
		if len(b.Preds) == 0 && fn.Parent() != nil && depth < 3 {
			// entry of a closure: look at direct calls of the closure value in the parent
			for _, pb := range fn.Parent().Blocks {
				for _, pi := range pb.Instrs {
					call, ok := pi.(*ssa.Call)
					if !ok {
						continue
					}
					isThis := false
					for _, o := range (&Slicer{P: p}).Origins(call.Call.Value) {
						if mc, ok := o.(*ssa.MakeClosure); ok && mc.Fn == fn {
							isThis = true
						}
					}
					if isThis && mayHoldAt(p, call, key, depth+1) {
						return true
					}
				}
			}
		}
		return false
	}
	return visit(ins.Block(), instrIndex(ins)-1)
}

// checkBirthdayMargin: locateBirthdayBlock accepts any block whose timestamp lies within birthdayBlockDelta of the stored
// birthday — before OR after it — and scanning starts after that block. The scan start is "never later than the first
// block that could pay the wallet" only because the wallet's creation stores the birthday EARLIER than the given one by
// a safety margin: that margin must exist and be at least the search tolerance.
func checkBirthdayMargin(c *Ctx, rule string) {
	p := c.P
	create := p.Func("waddrmgr", "", "Create")
	if create == nil {
		c.Unresolved(rule, "waddrmgr.Create")
		return
	}
	delta, okD := constInPkg(p, "wallet", "birthdayBlockDelta")
	if !okD {
		c.Unresolved(rule, "wallet.birthdayBlockDelta")
		return
	}
	n := 0
	var writes []*ssa.Call
	for _, part := range p.regionTop(create) {
		writes = append(writes, callsNamed(part, "putBirthday")...)
	}
	for _, call := range writes {
		n++
		// in a private part of Create the birthday is the argument at the part's call site
		arg := stripConv(p.resolveParam(call.Call.Args[len(call.Call.Args)-1]))
		ok := false
		why := "the birthday is stored as given (no safety margin)"
		if add, isCall := arg.(*ssa.Call); isCall && calleeShort(&add.Call) == "Add" && len(add.Call.Args) == 2 {
			_, fromParam := stripConv(add.Call.Args[0]).(*ssa.Parameter)
			if k, isK := constInt(add.Call.Args[1]); isK && fromParam {
				if k < 0 && -k >= delta {
					ok = true
				} else {
					why = fmt.Sprintf("the margin %d ns is not a subtraction of at least the birthday-block tolerance %d ns", k, delta)
				}
			}
		}
		c.Check(rule, "creation-stores-birthday-with-margin", call.Pos(), ok,
			"waddrmgr.Create: "+why+": the birthday-block search may settle on a block up to the tolerance AFTER the birthday, and scanning starts after it, so payments in the first blocks after the birthday are never seen")
	}
	c.Floor(rule, "birthday writes in Create", n, 1)
}

// checkCallbackProducersHandOverInline: the btcd and neutrino clients feed their slice-backed notification queue from
// the backend library's callbacks (rpcclient.NotificationHandlers), which the library invokes one after the other in
// the order the server sent the notifications. That order reaches the consumer only if each callback completes its
// hand-over before it returns: the offer to the enqueue channel is a blocking select whose other cases are receives
// (quit), and it is made by the callback itself — not by a goroutine the callback starts, which the next callback's
// own hand-over can overtake.
func checkCallbackProducersHandOverInline(c *Ctx, rule string) {
	p := c.P
	callbacks := map[*ssa.Function]bool{}
	for _, fn := range p.FuncsIn("chain") {
		for _, b := range fn.Blocks {
			for _, ins := range b.Instrs {
				st, ok := ins.(*ssa.Store)
				if !ok {
					continue
				}
				fa, ok := st.Addr.(*ssa.FieldAddr)
				if !ok {
					continue
				}
				if tn, _ := fieldAddrName(fa); tn != "NotificationHandlers" {
					continue
				}
				if g := fnValueOf(st.Val); g != nil {
					callbacks[p.underlying(g)] = true
				}
			}
		}
	}
	c.Floor(rule, "backend notification callbacks registered by the chain clients", len(callbacks), 8)
	isEnqueue := func(v ssa.Value) bool {
		_, f, _, ok := fieldOf(stripConv(v))
		return ok && f == "enqueueNotification"
	}
	sendsIn := func(f *ssa.Function) []ssa.Instruction {
		var out []ssa.Instruction
		for _, b := range f.Blocks {
			for _, ins := range b.Instrs {
				switch x := ins.(type) {
				case *ssa.Send:
					if isEnqueue(x.Chan) {
						out = append(out, x)
					}
				case *ssa.Select:
					for _, st := range x.States {
						if st.Dir == types.SendOnly && isEnqueue(st.Chan) {
							out = append(out, x)
						}
					}
				}
			}
		}
		return out
	}
	n := 0
	var cbs []*ssa.Function
	for f := range callbacks {
		cbs = append(cbs, f)
	}
	sort.Slice(cbs, func(i, j int) bool { return cbs[i].Pos() < cbs[j].Pos() })
	for _, cb := range cbs {
		// the callback, its literals and the same-package functions it calls synchronously
		sync := map[*ssa.Function]bool{}
		var spawned []*ssa.Function
		var walk func(f *ssa.Function, depth int)
		walk = func(f *ssa.Function, depth int) {
			if f == nil || sync[f] || depth > 4 || len(f.Blocks) == 0 || shortPkg(fnPkgPath(f)) != "chain" {
				return
			}
			sync[f] = true
			for _, b := range f.Blocks {
				for _, ins := range b.Instrs {
					switch x := ins.(type) {
					case *ssa.Go:
						if g := fnValueOf(x.Call.Value); g != nil {
							spawned = append(spawned, g)
						} else if g := x.Call.StaticCallee(); g != nil {
							spawned = append(spawned, g)
						}
					case *ssa.Call:
						if g := x.Call.StaticCallee(); g != nil {
							walk(g, depth+1)
						} else if g := fnValueOf(x.Call.Value); g != nil {
							walk(g, depth+1)
						}
					case *ssa.Defer:
						if g := fnValueOf(x.Call.Value); g != nil {
							walk(g, depth+1)
						}
					}
				}
			}
		}
		walk(cb, 0)
		for f := range sync {
			for _, ins := range sendsIn(f) {
				n++
				okSel := true
				if sel, isSel := ins.(*ssa.Select); isSel {
					for _, st := range sel.States {
						if st.Dir == types.SendOnly && !isEnqueue(st.Chan) {
							okSel = false
						}
					}
					if !sel.Blocking {
						okSel = false
					}
				}
				c.Check(rule, "callback-hands-over-before-returning:"+fnName(cb), ins.Pos(), okSel,
					fnName(cb)+" offers its notification in a select that can give up (default case / another send): the callback returns with the notification not yet queued")
			}
		}
		for _, g := range spawned {
			for _, f := range Closures(g) {
				for _, ins := range sendsIn(f) {
					n++
					c.Check(rule, "callback-hands-over-itself:"+fnName(cb), ins.Pos(), false,
						fnName(cb)+" lets a goroutine it starts put the notification on the queue: the library's next callback can complete its own hand-over first, so the consumer sees the notifications in another order than the backend sent them (e.g. BlockConnected(h) before RescanProgress(h), RescanFinished before the last progress)")
				}
			}
		}
	}
	c.Floor(rule, "enqueue sends made by backend callbacks", n, 5)
}

// checkFoundIndexSetsAccumulate: the block filterer reports, per key scope, the SET of address indexes paid in the block.
// The per-scope set is created only when the scope has none yet; every hit is ADDED to it. Assigning a fresh set on
// every hit keeps only the last index of a block that pays several addresses of one scope and branch.
func checkFoundIndexSetsAccumulate(c *Ctx, rule string) {
	p := c.P
	n := 0
	// the outer map is identified by its type (scope -> set of indexes) and named by the field or parameter it is
	// reached through, so a helper that takes the map explicitly is read like the two methods it replaces
	isIndexSet := func(t types.Type) bool {
		m, ok := t.Underlying().(*types.Map)
		if !ok {
			return false
		}
		if b, ok := m.Key().Underlying().(*types.Basic); !ok || b.Kind() != types.Uint32 {
			return false
		}
		st, ok := m.Elem().Underlying().(*types.Struct)
		return ok && st.NumFields() == 0
	}
	mapName := func(v ssa.Value) (string, bool) {
		v = stripConv(v)
		if _, f, _, ok := fieldOf(v); ok {
			return "field:" + f, true
		}
		if pr, ok := v.(*ssa.Parameter); ok {
			return "param:" + pr.Name(), true
		}
		return "", false
	}
	for _, fn := range p.FuncsIn("chain") {
		for _, b := range fn.Blocks {
			for _, ins := range b.Instrs {
				mu, ok := ins.(*ssa.MapUpdate)
				if !ok || !isIndexSet(mu.Value.Type()) {
					continue
				}
				f, okf := mapName(mu.Map)
				if !okf {
					continue
				}
				n++
				// reachable only over the "scope has no set yet" edge of a lookup in the same outer map
				unguarded := reachableAvoiding(fn, nil, mu, func(from *ssa.BasicBlock, si int) bool {
					ef := edgeFactOf(from, si)
					if ef == nil {
						return false
					}
					if ex, ok := ef.V.(*ssa.Extract); ok && ex.Index == 1 && ef.Kind == "false" {
						if lk, ok := ex.Tuple.(*ssa.Lookup); ok {
							f2, ok2 := mapName(lk.X)
							return ok2 && f2 == f
						}
					}
					if ef.Kind == "nil" {
						if lk, ok := stripConv(ef.V).(*ssa.Lookup); ok {
							f2, ok2 := mapName(lk.X)
							return ok2 && f2 == f
						}
					}
					return false
				})
				c.Check(rule, "found-index-set-created-only-when-missing:"+fn.Name()+"."+strings.TrimPrefix(strings.TrimPrefix(f, "field:"), "param:"), mu.Pos(), !unguarded,
					fnName(fn)+" assigns a new index set to "+f+"[scope] without having found the scope's set missing: every hit replaces the indexes found earlier in the same block, so only the last-matched address of a scope and branch is reported and the others are never recovered")
			}
		}
	}
	c.Floor(rule, "per-scope found-set creations in the block filterer", n, 1)
}

// checkFilterRequestCarriesEveryAddress: the request handed to FilterBlocks lists every address of both branches'
// look-ahead sets (found and unfound alike: a later block may pay an address below the highest one found, or pay a found
// one again). In the loops that copy a branch's address set into the request every iteration reaches the map update.
func checkFilterRequestCarriesEveryAddress(c *Ctx, rule string) {
	p := c.P
	fn := p.Func("wallet", "", "newFilterBlocksRequest")
	if fn == nil {
		c.Unresolved(rule, "wallet.newFilterBlocksRequest")
		return
	}
	n := 0
	for _, part := range p.regionTop(fn) {
		loops := loopsOf(part)
		for _, l := range loops {
			if l.Kind == "for" {
				continue
			}
			var upd ssa.Instruction
			for b := range l.Blocks {
				for _, ins := range b.Instrs {
					if mu, ok := ins.(*ssa.MapUpdate); ok {
						if _, f, _, okf := fieldOf(stripConv(mu.Map)); okf && strings.HasSuffix(f, "Addrs") {
							upd = mu
						}
					}
				}
			}
			if upd == nil {
				continue
			}
			inner := innermostLoopOf(loops, upd)
			if inner != l {
				continue
			}
			n++
			bad := l.MustPassPerIteration(p, func(i ssa.Instruction) bool { return i == upd })
			c.Check(rule, "filter-request-carries-every-address", l.Header.Instrs[0].Pos(), bad == "",
				"newFilterBlocksRequest can skip an address of a branch's address set ("+bad+"): blocks paying a skipped address (one below the highest index found so far, or a re-used one) no longer match and their transactions are never recorded")
		}
	}
	c.Floor(rule, "address-set copy loops in newFilterBlocksRequest", n, 2)
}

// checkBatchHandlerForwardsRescanEvents: the second hop of the same chain: rescanBatchHandler turns the backend's
// RescanProgress / RescanFinished into RescanProgressMsg / RescanFinishedMsg for rescanProgressHandler, which is what
// starts resendUnminedTxs after a finished (re)synchronisation. In each of the two arms every path to the next loop
// iteration passes the hand-over on w.rescanProgress resp. w.rescanFinished — unless no batch is running at all.
func checkBatchHandlerForwardsRescanEvents(c *Ctx, rule string) {
	p := c.P
	fn := walletFn(c, rule, "rescanBatchHandler")
	if fn == nil {
		return
	}
	want := map[string]string{"RescanFinished": "rescanFinished", "RescanProgress": "rescanProgress"}
	n := 0
	for _, f := range p.regionOf(fn) {
		loops := loopsOf(f)
		for _, b := range f.Blocks {
			for _, ins := range b.Instrs {
				ta, ok := ins.(*ssa.TypeAssert)
				if !ok || !ta.CommaOk {
					continue
				}
				tname := ta.AssertedType.String()
				short := tname[strings.LastIndex(tname, ".")+1:]
				ch, ok := want[short]
				if !ok || !strings.HasSuffix(tname, "chain."+short) {
					continue
				}
				// the handling ends where the event loop goes round — or, where one event's handling is a private part of
				// the handler (a method called from the loop), where that part returns
				l := innermostLoopOf(loops, ta)
				if l == nil && f == fn {
					continue
				}
				for _, b2 := range f.Blocks {
					for si := range b2.Succs {
						ef := edgeFactOf(b2, si)
						if ef == nil || ef.Kind != "true" {
							continue
						}
						ex, ok := ef.V.(*ssa.Extract)
						if !ok || ex.Tuple != ssa.Value(ta) {
							continue
						}
						n++
						isForward := viaHelpers("forward:"+ch, func(i ssa.Instruction) bool {
							sel, ok := i.(*ssa.Select)
							if !ok {
								return false
							}
							for _, st := range sel.States {
								if st.Dir == types.SendOnly {
									if _, fld, _, okf := fieldOf(stripConv(st.Chan)); okf && fld == ch {
										return true
									}
								}
							}
							return false
						}, true)
						q := &PathQuery{Fn: f, Barrier: isForward}
						q.EdgeBarrier = func(from *ssa.BasicBlock, s2 int) bool {
							// no batch is running: nothing to report progress or completion of
							e2 := edgeFactOf(from, s2)
							return e2 != nil && e2.Kind == "nil" && strings.Contains(e2.V.Type().String(), "rescanBatch")
						}
						if l != nil {
							q.LoopExit = func(from, to *ssa.BasicBlock) bool { return to == l.Header }
						} else {
							q.Target = func(i ssa.Instruction, _ *ssa.BasicBlock) bool { _, isR := i.(*ssa.Return); return isR }
						}
						hits := exploreFromBlock(q, b2.Succs[si], b2)
						c.Check(rule, "batch-handler-forwards:"+short, ta.Pos(), len(hits) == 0,
							"rescanBatchHandler can finish handling a "+short+" notification of a running batch without handing it on (w."+ch+"): rescanProgressHandler never learns that the rescan finished, so resendUnminedTxs is not started and the unconfirmed transactions are not re-offered after this synchronisation")
					}
				}
			}
		}
	}
	c.Floor(rule, "rescan event arms in rescanBatchHandler", n, 2)
}

// checkFixedSelectionSourceIsStateless: the input source built for an explicit selection hands back the same inputs and
// total on every call (the author calls it again whenever the fee estimate grows). Everything it returns is computed
// once, outside the returned function: that function stores to no state that outlives the call.
func checkFixedSelectionSourceIsStateless(c *Ctx, rule string) {
	p := c.P
	fn := p.Func("wallet", "", "constantInputSource")
	if fn == nil {
		c.Unresolved(rule, "wallet.constantInputSource")
		return
	}
	n := 0
	for _, cl := range p.valueFunctionsOf(fn) {
		n++
		var bad ssa.Instruction
		for _, b := range cl.Blocks {
			for _, ins := range b.Instrs {
				if st, ok := ins.(*ssa.Store); ok && cellKey(st.Addr) != "" {
					bad = st
				}
			}
		}
		detail := ""
		if bad != nil {
			detail = "the input source of an explicit selection changes captured state when it is called (" + p.Pos(bad.Pos()) + "): a second call, made whenever the fee estimate grows, returns the selection appended to itself — every selected outpoint twice and double the total"
		}
		c.Check(rule, "fixed-selection-source-is-stateless", cl.Pos(), bad == nil, detail)
	}
	c.Floor(rule, "functions returned by constantInputSource", n, 1)
}

// checkNoStaleTailAfterInPlaceFilter: filtering a slice in place (`kept := s[:0]; for … { kept = append(kept, x) }`)
// leaves, beyond len(kept), stale copies of elements that were moved forward. After such a filter the original
// full-length slice must not be read again (its length, its elements, a closure capturing it): shuffling or ranging over
// it brings a duplicated coin back into the selection.
func checkNoStaleTailAfterInPlaceFilter(c *Ctx, rule string) {
	p := c.P
	n, nFilters := 0, 0
	for _, fn := range p.FuncsIn("wallet") {
		if fn.Parent() != nil {
			continue
		}
		n++
		for _, b := range fn.Blocks {
			for _, ins := range b.Instrs {
				sl, ok := ins.(*ssa.Slice)
				if !ok || sl.High == nil {
					continue
				}
				if k, isK := constInt(sl.High); !isK || k != 0 {
					continue
				}
				// the sliced value: a parameter (possibly spilled)
				src := stripConv(sl.X)
				var cell ssa.Value
				if u, ok := src.(*ssa.UnOp); ok && u.Op == token.MUL {
					if al, ok := u.X.(*ssa.Alloc); ok && isParamSpill(al) {
						cell = al
					}
				}
				if _, isP := src.(*ssa.Parameter); isP {
					cell = src
				}
				if cell == nil {
					continue
				}
				nFilters++
				// any read of the original after the filter loop: a use of the parameter (or a load of its spill slot, or a
				// closure binding it) in a block the slicing dominates and that is outside the loop which appends
				loops := loopsOf(fn)
				for _, r := range usesOf(cell) {
					if r == ssa.Instruction(sl) || r.Block() == nil || !sl.Block().Dominates(r.Block()) {
						continue
					}
					if _, isStore := r.(*ssa.Store); isStore {
						continue
					}
					if ld, ok := r.(*ssa.UnOp); ok && ld == src {
						continue
					}
					l := innermostLoopOf(loops, r)
					inFilterLoop := false
					if l != nil {
						for bb := range l.Blocks {
							for _, i2 := range bb.Instrs {
								if call, ok := i2.(*ssa.Call); ok && calleeShort(&call.Call) == "append" {
									inFilterLoop = true
								}
							}
						}
					}
					if _, isRange := r.(*ssa.Range); isRange || inFilterLoop {
						continue
					}
					// the range over the original that drives the filter loop reads len/elements in the loop header
					if l != nil {
						continue
					}
					hdr := false
					for _, ll := range loops {
						if ll.Header == r.Block() || (len(ll.Header.Preds) > 0 && ll.Header.Preds[0] == r.Block()) {
							hdr = true
						}
					}
					if hdr {
						continue
					}
					c.Check(rule, "no-read-of-original-after-in-place-filter:"+fn.Name(), r.Pos(), false,
						fnName(fn)+" filters a slice in place and afterwards still reads the original full-length slice: its tail holds stale copies of elements the filter moved forward, so an element can appear twice (the same coin selected twice for one transaction)")
				}
			}
		}
	}
	c.Floor(rule, "wallet functions scanned for in-place filters", n, 50)
	c.Note("%s: %d in-place filters of a parameter slice in package wallet", rule, nFilters)
}

// ---------- wave 13 ----------

// checkMustPassOnSuccess is the common shape of several wave-13 rules: function fn (resolved by package, receiver, name)
// reports success only after having passed a call satisfying pred (directly, or through a private part of its region).
func checkMustPassOnSuccess(c *Ctx, rule, construct string, fn *ssa.Function, calleeName string, detail string) {
	p := c.P
	if fn == nil {
		c.Unresolved(rule, construct)
		return
	}
	pred := func(ins ssa.Instruction) bool {
		ci, ok := ins.(ssa.CallInstruction)
		if !ok {
			return false
		}
		if calleeShort(ci.Common()) == calleeName {
			return true
		}
		g := ci.Common().StaticCallee()
		if g == nil || g == fn || !p.inRegion(fn, g) {
			return false
		}
		for _, cc := range callsOf(g) {
			if calleeShort(cc.Common()) == calleeName {
				return p.mustPassToSuccess(g, nil, func(i ssa.Instruction) bool {
					c2, ok := i.(ssa.CallInstruction)
					return ok && calleeShort(c2.Common()) == calleeName
				}, nil) == nil
			}
		}
		return false
	}
	bad := p.mustPassToSuccess(fn, nil, pred, nil)
	pos := fn.Pos()
	if bad != nil {
		pos = bad.Pos()
	}
	c.Check(rule, construct, pos, bad == nil, detail)
}

// checkEveryRelevantTxIsRecorded: whatever the wallet is handed as relevant — a payment it received, a transaction it
// created itself that pays only foreign addresses and has no change — is recorded: the recording is not made conditional
// on one of the outputs paying the wallet (the inputs may be the wallet's). addRelevantTx reports success only after
// InsertTxCheckIfExists.
func checkEveryRelevantTxIsRecorded(c *Ctx, rule string) {
	checkMustPassOnSuccess(c, rule, "relevant-tx-always-recorded", c.P.Func("wallet", "Wallet", "addRelevantTx"), "InsertTxCheckIfExists",
		"addRelevantTx can report success without having recorded the transaction (InsertTxCheckIfExists is skipped on some condition): a created transaction that pays only foreign addresses is never recorded, its inputs stay selectable and the next send spends them again")
}

// checkBlockHashAnswersFromDatabase: Manager.BlockHash is a database read. An answer from the in-memory stamp (which
// SetSyncedTo moves before its transaction commits) names a block the database never stored after a rolled-back connect.
func checkBlockHashAnswersFromDatabase(c *Ctx, rule string) {
	checkMustPassOnSuccess(c, rule, "block-hash-answered-from-database", c.P.Func("waddrmgr", "Manager", "BlockHash"), "fetchBlockHash",
		"Manager.BlockHash can answer without reading the database (a shortcut through the in-memory synced-to stamp): after a rolled-back SetSyncedTo the running manager reports a hash for a block a restarted manager has never heard of")
}

// checkNoCommitHookReleasesIssuingMutex: the address-issuing critical section spans commit AND the manager's commit
// callback (C09-R1). A function of the wallet package must therefore not hand the unlock of the issuing mutex to the
// transaction as a commit hook: hooks run in registration order after the writer lock is gone, the unlock would run before
// the callback that advances the in-memory index.
func checkNoCommitHookReleasesIssuingMutex(c *Ctx, rule string) {
	p := c.P
	n := 0
	for _, fn := range p.FuncsIn("wallet") {
		for _, ci := range callsOf(fn) {
			call, ok := ci.(*ssa.Call)
			if !ok || !call.Call.IsInvoke() || call.Call.Method.Name() != "OnCommit" || len(call.Call.Args) != 1 {
				continue
			}
			n++
			bad := ""
			var g *ssa.Function
			switch x := stripConv(call.Call.Args[0]).(type) {
			case *ssa.MakeClosure:
				g, _ = x.Fn.(*ssa.Function)
			case *ssa.Function:
				g = x
			}
			if g == nil {
				bad = "a function value that cannot be resolved"
			} else {
				for _, f := range Closures(g) {
					for _, cc := range callsOf(f) {
						if calleeShort(cc.Common()) == "Unlock" || calleeShort(cc.Common()) == "RUnlock" {
							bad = "a function that unlocks a mutex"
						}
					}
				}
			}
			c.Check(rule, "no-commit-hook-releases-issuing-mutex:"+fnName(outermost(fn)), call.Pos(), bad == "",
				fnName(outermost(fn))+" registers "+bad+" as a commit hook of its database transaction: the issuing mutex is given back before the address manager's own commit callback has advanced the in-memory index, and another caller derives the same address")
		}
	}
	c.Note("%s: %d commit hooks registered by the wallet package (none expected: the address manager registers its own)", rule, n)
}

// checkUnsignedSubtractionsAreGuarded: the recovery state counts in uint32. A difference x - y of two of its quantities is
// meaningful only where x >= y is known: the subtraction sits behind an edge whose comparison says so (in normal form:
// y - x < 0, y - x <= 0 or x == y). `horizon - nextUnfound` on a freshly resurrected state (horizon 0, found up to k)
// wraps to a huge look-ahead, no horizon is ever extended again, and a resumed recovery watches nothing beyond what it
// already knew.
func checkUnsignedSubtractionsAreGuarded(c *Ctx, rule string) {
	p := c.P
	n := 0
	for _, fn := range p.FuncsIn("wallet") {
		if fn.Parent() != nil || (recvName(fn) != "BranchRecoveryState" && recvName(fn) != "ScopeRecoveryState" && recvName(fn) != "RecoveryState") {
			continue
		}
		for _, b := range fn.Blocks {
			for _, ins := range b.Instrs {
				bo, ok := ins.(*ssa.BinOp)
				if !ok || bo.Op != token.SUB {
					continue
				}
				bt, ok := bo.Type().Underlying().(*types.Basic)
				if !ok || bt.Info()&types.IsUnsigned == 0 {
					continue
				}
				if _, isK := constInt(bo.Y); isK {
					if k, _ := constInt(bo.Y); k <= 1 {
						// x - 1 after a test that x is non-zero is the idiom for "last index": judged below as any other
					}
				}
				n++
				want := p.linearize(bo.Y, 0).add(p.linearize(bo.X, 0), -1) // y - x
				guarded := false
				for d := b; d != nil && !guarded; d = d.Idom() {
					dom := d.Idom()
					if dom == nil || len(dom.Instrs) == 0 {
						continue
					}
					iff, ok := dom.Instrs[len(dom.Instrs)-1].(*ssa.If)
					if !ok {
						continue
					}
					for si, s := range dom.Succs {
						if s != d && !s.Dominates(d) {
							continue
						}
						// the edge must be the only way from dom into d's side
						cf, ok := p.cmpForm(iff.Cond, si == 0)
						if !ok {
							continue
						}
						switch {
						case cf.L.String() == want.String() && (cf.Rel == "<" || cf.Rel == "<=" || cf.Rel == "=="):
							guarded = true
						case cf.L.String() == want.scale(-1).String() && cf.Rel == "==":
							guarded = true
						}
					}
				}
				c.Check(rule, "unsigned-subtraction-is-guarded:"+fn.Name(), bo.Pos(), guarded,
					fnName(fn)+" subtracts two unsigned quantities ("+p.linearize(bo.X, 0).String()+" minus "+p.linearize(bo.Y, 0).String()+") without a dominating test that the first is not smaller: on a resurrected state the difference wraps, the horizon is never extended again and the resumed recovery has no look-ahead")
			}
		}
	}
	c.Floor(rule, "unsigned subtractions in the recovery state", n, 1)
}

// checkBirthdaySearchGivesUpOnlyAtABound: the birthday block search accepts the block it just fetched in two ways: its
// timestamp lies within the margin of the birthday, or the search has nowhere left to go. Every path from the fetch of a
// candidate block to a success return that fetches no further candidate and compares no timestamp passes an edge that
// says "the candidate IS one of the bounds": an equality of two heights, or the same fact spelled as a width
// ("a - b < 2": the range holds at most two heights, so its midpoint is its lower bound). Accepted on a mere "the range
// is small" test, a block that was never compared with the birthday (and may lie after the first payment) becomes the
// birthday block. (The search as a whole — that it finds a block within the margin — is numeric and not decided.)
func checkBirthdaySearchGivesUpOnlyAtABound(c *Ctx, rule string) {
	p := c.P
	fn := p.Func("wallet", "", "locateBirthdayBlock")
	if fn == nil {
		c.Unresolved(rule, "wallet.locateBirthdayBlock")
		return
	}
	// the candidate fetch: GetBlockHeader, in the function or in a private part it calls
	var fetchesHeader func(g *ssa.Function, depth int) bool
	fetchesHeader = func(g *ssa.Function, depth int) bool {
		if g == nil || depth > 2 {
			return false
		}
		for _, ci := range callsOf(g) {
			if calleeShort(ci.Common()) == "GetBlockHeader" {
				return true
			}
			if h := ci.Common().StaticCallee(); h != nil && h.Pkg == fn.Pkg && h != g && fetchesHeader(h, depth+1) {
				return true
			}
		}
		return false
	}
	isFetch := func(i ssa.Instruction) bool {
		call, ok := i.(*ssa.Call)
		if !ok {
			return false
		}
		if calleeShort(&call.Call) == "GetBlockHeader" {
			return true
		}
		h := call.Call.StaticCallee()
		return h != nil && h.Pkg == fn.Pkg && h != fn && fetchesHeader(h, 1)
	}
	var boundCond func(cond ssa.Value, taken bool, depth int) bool
	boundEdge := func(from *ssa.BasicBlock, si int) bool {
		iff, isIf := from.Instrs[len(from.Instrs)-1].(*ssa.If)
		if !isIf {
			return false
		}
		return boundCond(iff.Cond, si == 0, 0)
	}
	boundCond = func(cond ssa.Value, taken bool, depth int) bool {
		// a disjunction evaluated as a value (the case expression of a tagless switch): true only over edges that
		// each say it
		if phi, isPhi := cond.(*ssa.Phi); isPhi && taken && depth < 4 {
			for i, e := range phi.Edges {
				pred := phi.Block().Preds[i]
				if k, isConst := e.(*ssa.Const); isConst {
					if k.Value == nil || !constant.BoolVal(k.Value) {
						continue
					}
					iff, isIf := pred.Instrs[len(pred.Instrs)-1].(*ssa.If)
					if !isIf || !boundCond(iff.Cond, pred.Succs[0] == phi.Block(), depth+1) {
						return false
					}
					continue
				}
				if !boundCond(e, true, depth+1) {
					return false
				}
			}
			return len(phi.Edges) > 0
		}
		f, isCmp := p.cmpForm(cond, taken)
		if !isCmp {
			return false
		}
		inner, _ := unwrapNot(cond)
		bo, _ := inner.(*ssa.BinOp)
		isInt := func(v ssa.Value) bool {
			b, ok := v.Type().Underlying().(*types.Basic)
			return ok && b.Info()&types.IsInteger != 0
		}
		switch f.Rel {
		case "==":
			// two heights (the lower bound of the search is the constant 0)
			return bo != nil && isInt(bo.X)
		case "<":
			if len(f.L.Coef) != 2 || f.L.Konst < -2 {
				return false
			}
			sum := int64(0)
			for _, k := range f.L.Coef {
				if k != 1 && k != -1 {
					return false
				}
				sum += k
			}
			return sum == 0
		}
		return false
	}
	n := 0
	for _, ci := range callsOf(fn) {
		fetch, ok := ci.(*ssa.Call)
		if !ok || !isFetch(fetch) {
			continue
		}
		n++
		q := &PathQuery{Fn: fn,
			Barrier: func(i ssa.Instruction) bool {
				if isFetch(i) {
					return true
				}
				call, ok := i.(*ssa.Call)
				return ok && calleeShort(&call.Call) == "Sub"
			},
			EdgeBarrier: boundEdge,
			Target: func(i ssa.Instruction, _ *ssa.BasicBlock) bool {
				r, ok := i.(*ssa.Return)
				return ok && len(r.Results) > 0 && isNilConst(effectiveResult(r, len(r.Results)-1))
			}}
		hits := q.From(fetch)
		if os.Getenv("VERIF_DEBUG") != "" {
			for _, h := range hits {
				fmt.Fprintf(os.Stderr, "bday hit %v via %v in block %d\n", p.Pos(h.Ins.Pos()), h.Via, h.Ins.Block().Index)
			}
		}
		c.Check(rule, "birthday-search-gives-up-only-at-a-bound", fetch.Pos(), len(hits) == 0,
			"locateBirthdayBlock can return the block it just fetched without having compared its timestamp with the birthday and without having passed an edge that says the candidate height equals a bound of the search: a block later than the margin (possibly later than the first payment) becomes the birthday block and the blocks before it are never scanned")
	}
	c.Floor(rule, "candidate fetches in the birthday block search", n, 1)
}

// checkFirstSyncRetryConsultsPersistedBirthdayBlock: waitForSync retries syncWithChain with the birthday stamp it had
// before the first attempt — nil for a freshly restored wallet. The branch that locates the birthday block and resets
// the synced-to block to it must not be taken again once an earlier, later interrupted attempt has persisted the
// birthday block (PutSyncedTo then refuses the reset, on every retry, until a restart: finding F47). Every path of
// syncWithChain to the birthday search passes a read of the persisted birthday block.
func checkFirstSyncRetryConsultsPersistedBirthdayBlock(c *Ctx, rule string) {
	p := c.P
	syn := p.Func("wallet", "Wallet", "syncWithChain")
	if syn == nil {
		c.Unresolved(rule, "wallet.Wallet.syncWithChain")
		return
	}
	var reads func(g *ssa.Function, depth int) bool
	reads = func(g *ssa.Function, depth int) bool {
		if g == nil || depth > 3 {
			return false
		}
		for _, f := range Closures(g) {
			for _, ci := range callsOf(f) {
				switch calleeShort(ci.Common()) {
				case "BirthdayBlock", "FetchBirthdayBlock":
					return true
				}
				if h := ci.Common().StaticCallee(); h != nil && h.Pkg == syn.Pkg && h != g && h.Parent() == nil && reads(h, depth+1) {
					return true
				}
			}
		}
		return false
	}
	consults := func(ins ssa.Instruction) bool {
		call, ok := ins.(*ssa.Call)
		if !ok {
			return false
		}
		switch calleeShort(&call.Call) {
		case "BirthdayBlock", "FetchBirthdayBlock":
			return true
		}
		for _, a := range call.Call.Args {
			if mc, isMC := a.(*ssa.MakeClosure); isMC {
				if f, isF := mc.Fn.(*ssa.Function); isF && reads(f, 1) {
					return true
				}
			}
		}
		h := call.Call.StaticCallee()
		return h != nil && h.Pkg == syn.Pkg && h != syn && h.Parent() == nil && reads(h, 1)
	}
	// the variable behind a tested value (the stamp lives on the heap: a closure assigns it)
	cellOf := func(v ssa.Value) ssa.Value {
		v = stripConv(v)
		if u, ok := v.(*ssa.UnOp); ok && u.Op == token.MUL {
			return u.X
		}
		return v
	}
	// the search is entered on "stamp == nil": the variable of the nil edges that dominate the site. The search is
	// not reachable over an edge that says the same variable is NOT nil (the consultation is skipped exactly there; the
	// variable is only ever assigned non-nil stamps afterwards)
	preceded := func(site ssa.Instruction) bool {
		cells := map[ssa.Value]bool{}
		for b := site.Block(); b != nil; b = b.Idom() {
			if d := b.Idom(); d != nil {
				for si, s := range d.Succs {
					if s == b && len(b.Preds) == 1 {
						if f := edgeFactOf(d, si); f != nil && f.Kind == "nil" {
							cells[cellOf(f.V)] = true
						}
					}
				}
			}
		}
		q := &PathQuery{Fn: syn, Barrier: consults,
			EdgeBarrier: func(from *ssa.BasicBlock, si int) bool {
				f := edgeFactOf(from, si)
				return f != nil && f.Kind == "nonnil" && cells[cellOf(f.V)]
			}}
		q.Target = func(i ssa.Instruction, _ *ssa.BasicBlock) bool { return i == site }
		return len(q.From(nil)) == 0
	}
	n := 0
	for _, f := range p.regionOf(syn) {
		for _, call := range callsNamed(f, "locateBirthdayBlock") {
			n++
			ok := true
			if f == syn {
				ok = preceded(call)
			} else {
				// the search sits in a part: the part's call sites in syncWithChain are what must be preceded
				ok = false
				for _, site := range p.realCallers(f) {
					if site.Parent() != syn {
						continue
					}
					ok = preceded(site.(ssa.Instruction))
				}
			}
			c.Check(rule, "first-sync-retry-consults-persisted-birthday-block", call.Pos(), ok,
				"syncWithChain can reach the birthday block search (and the reset of the synced-to block that follows it) without having read the persisted birthday block: waitForSync retries with the nil stamp of a freshly restored wallet, so after a first attempt that persisted the birthday block and was then interrupted every retry fails in PutSyncedTo until the wallet is restarted, and the recovery never resumes")
		}
	}
	c.Floor(rule, "birthday block searches of syncWithChain", n, 1)
}
