package main

import (
	"fmt"
	"sort"
	"strings"

	"golang.org/x/tools/go/ssa"
)

// checkSignDecisionScope: the sign / skip-signing decision in txToOutputs asks about the account in the key scope
// the coins were selected from (the same scope parameter that is passed to findEligibleOutputs).
func checkSignDecisionScope(c *Ctx, rule string) {
	p := c.P
	tto := p.Func("wallet", "Wallet", "txToOutputs")
	if tto == nil {
		c.Unresolved(rule, "wallet.txToOutputs")
		return
	}
	scopeVar := func(v ssa.Value) string {
		// captured parameter: load of freevar; or deref of it
		for i := 0; i < 4; i++ {
			switch x := v.(type) {
			case *ssa.UnOp:
				v = x.X
			case *ssa.FreeVar:
				return x.Name()
			case *ssa.Parameter:
				return x.Name()
			case *ssa.Global:
				return "global:" + x.Name()
			default:
				return ""
			}
		}
		return ""
	}
	for _, cl := range Closures(tto) {
		fe := callsNamed(cl, "findEligibleOutputs")
		wo := callsNamed(cl, "IsWatchOnlyAccount")
		if len(fe) == 0 || len(wo) == 0 {
			continue
		}
		sel := scopeVar(fe[0].Call.Args[2])
		c.Check(rule, "coin-selection-scope-identified", fe[0].Pos(), sel != "", "cannot identify the key-scope variable passed to findEligibleOutputs (undecided)")
		for _, call := range wo {
			v := scopeVar(call.Call.Args[2])
			ok := v == sel || strings.HasPrefix(v, "global:KeyScope")
			c.Check(rule, "sign-decision-uses-coin-selection-scope", call.Pos(), ok,
				fmt.Sprintf("the watch-only (skip signing) decision asks about scope %q, but the coins are selected from scope %q: a spend from a private-key account can be returned unsigned and unvalidated", v, sel))
			// the default-scope arm is taken only when the coin-selection scope is nil
			if strings.HasPrefix(v, "global:") {
				okG := !reachableAvoiding(cl, nil, call, func(from *ssa.BasicBlock, si int) bool {
					f := edgeFactOf(from, si)
					return f != nil && f.Kind == "nil" && scopeVar(f.V) == sel
				})
				c.Check(rule, "default-scope-only-when-no-selection-scope", call.Pos(), okG, "the default key scope is used for the watch-only decision although a coin-selection scope was given (or the nil test is on a different scope variable)")
			}
		}
	}
}

// checkInputSourceLifetime: the four values an input source returns together (total, inputs, values, scripts) are all
// state of the same lifetime: all captured accumulators or all per-call locals.
func checkInputSourceLifetime(c *Ctx, rule string) {
	p := c.P
	n := 0
	for _, name := range []string{"makeInputSource", "constantInputSource"} {
		fn := p.Func("wallet", "", name)
		if fn == nil {
			c.Unresolved(rule, "wallet."+name)
			continue
		}
		for _, cl := range fn.AnonFuncs {
			for _, b := range cl.Blocks {
				for _, ins := range b.Instrs {
					r, ok := ins.(*ssa.Return)
					if !ok || len(r.Results) < 4 {
						continue
					}
					n++
					kinds := map[string]bool{}
					var desc []string
					for i := 0; i < 4; i++ {
						k := "local"
						sl := &Slicer{P: p}
						for _, o := range sl.Origins(r.Results[i]) {
							if _, ok := o.(*ssa.FreeVar); ok {
								k = "captured"
							}
							if u, ok := o.(*ssa.UnOp); ok {
								if _, ok := u.X.(*ssa.FreeVar); ok {
									k = "captured"
								}
							}
						}
						if u, ok := r.Results[i].(*ssa.UnOp); ok {
							if _, ok := u.X.(*ssa.FreeVar); ok {
								k = "captured"
							}
						}
						kinds[k] = true
						desc = append(desc, k)
					}
					c.Check(rule, "input-source-state-has-one-lifetime:"+name, r.Pos(), len(kinds) == 1,
						"the input source returns a total and input/value/script lists of different lifetimes ("+strings.Join(desc, ",")+"): on a second call (fee retry) the cumulative total no longer matches the inputs handed out, so inputs != outputs + fee")
				}
			}
		}
	}
	c.Floor(rule, "input source closures", n, 2)
}

// checkRecoveryWindowForms: canonical comparison forms of the look-ahead window arithmetic.
func checkRecoveryWindowForms(c *Ctx, rule string) {
	p := c.P
	brs := func(name string) *ssa.Function {
		fn := p.Func("wallet", "BranchRecoveryState", name)
		if fn == nil {
			c.Unresolved(rule, "wallet.BranchRecoveryState."+name)
		}
		return fn
	}
	// NumInvalidInHorizon: counts children c with nextUnfound <= c < horizon
	if fn := brs("NumInvalidInHorizon"); fn != nil {
		found := false
		for _, b := range fn.Blocks {
			for _, ins := range b.Instrs {
				bo, ok := ins.(*ssa.BinOp)
				if !ok || bo.Op.String() != "+" {
					continue
				}
				if k, isK := constInt(bo.Y); !isK || k != 1 {
					continue
				}
				found = true
				g := p.guardForms(b)
				want := []string{"+1*field:nextUnfound -1*val:CHILD -1 < 0", "-1*field:horizon +1*val:CHILD +0 < 0"}
				got := normaliseChild(g)
				ok2 := containsAll(got, want)
				c.Check(rule, "invalid-children-counted-in-[nextUnfound,horizon)", bo.Pos(), ok2,
					"NumInvalidInHorizon does not count exactly the invalid children c with nextUnfound <= c < horizon (guards: "+strings.Join(got, " & ")+"): the look-ahead then watches fewer than `window` valid children")
			}
		}
		if !found {
			c.Check(rule, "invalid-children-counted-in-[nextUnfound,horizon)", fn.Pos(), false, "no counter increment found in NumInvalidInHorizon (undecided)")
		}
	}
	// ExtendHorizon: minValid = nextUnfound + window + nInvalid; no extension iff horizon >= minValid; new horizon = minValid; delta = minValid - horizon
	if fn := brs("ExtendHorizon"); fn != nil {
		okMin, okDelta, okStore := false, false, false
		inv := "call:NumInvalidInHorizon(+1*param#0 +0)"
		minForm := "+1*" + inv + " +1*field:nextUnfound +1*field:recoveryWindow +0"
		for _, b := range fn.Blocks {
			for _, ins := range b.Instrs {
				switch x := ins.(type) {
				case *ssa.If:
					for si := 0; si < 2; si++ {
						if f, ok := p.cmpForm(x.Cond, si == 0); ok && f.Rel == "<" {
							// horizon - minValid < 0  (needs extension)
							if f.L.String() == "-1*"+inv+" +1*field:horizon -1*field:nextUnfound -1*field:recoveryWindow +0" {
								okMin = true
							}
						}
					}
				case *ssa.Store:
					if fa, ok := x.Addr.(*ssa.FieldAddr); ok {
						if _, f := fieldAddrName(fa); f == "horizon" && p.linearize(x.Val, 0).String() == minForm {
							okStore = true
						}
					}
				case *ssa.Return:
					if len(x.Results) == 2 {
						if p.linearize(x.Results[1], 0).String() == "+1*"+inv+" -1*field:horizon +1*field:nextUnfound +1*field:recoveryWindow +0" {
							okDelta = true
						}
					}
				}
			}
		}
		c.Check(rule, "horizon-extended-to-nextUnfound+window+invalid", fn.Pos(), okMin && okStore && okDelta,
			fmt.Sprintf("ExtendHorizon does not extend the horizon to nextUnfound + recoveryWindow + invalid-in-horizon and report the difference as the number of addresses to derive (test=%v store=%v delta=%v)", okMin, okStore, okDelta))
	}
	// ReportFound: if index >= nextUnfound then nextUnfound = index + 1
	if fn := brs("ReportFound"); fn != nil {
		ok := false
		for _, st := range storesToField(fn, "nextUnfound") {
			if p.linearize(st.Val, 0).String() != "+1*param#1 +1" {
				continue
			}
			for _, g := range p.guardForms(st.Block()) {
				if g == "+1*field:nextUnfound -1*param#1 -1 < 0" {
					ok = true
				}
			}
		}
		c.Check(rule, "found-index-advances-nextUnfound", fn.Pos(), ok, "ReportFound does not set nextUnfound = index+1 exactly when index >= nextUnfound")
	}
	// MarkInvalidChild: horizon++ and the child is recorded
	if fn := brs("MarkInvalidChild"); fn != nil {
		okH := false
		for _, st := range storesToField(fn, "horizon") {
			if p.linearize(st.Val, 0).String() == "+1*field:horizon +1" {
				okH = true
			}
		}
		okM := false
		for _, b := range fn.Blocks {
			for _, ins := range b.Instrs {
				if _, ok := ins.(*ssa.MapUpdate); ok {
					okM = true
				}
			}
		}
		c.Check(rule, "invalid-child-extends-horizon", fn.Pos(), okH && okM, "MarkInvalidChild does not record the child and extend the horizon by one")
	}
}

// normaliseChild renames the loop key (range over invalidChildren) to val:CHILD in guard forms.
func normaliseChild(forms []string) []string {
	var out []string
	for _, f := range forms {
		parts := strings.Fields(f)
		for i, pt := range parts {
			if strings.Contains(pt, "*call:next#") || strings.Contains(pt, "*val:t") || strings.Contains(pt, "*call:Next") {
				j := strings.Index(pt, "*")
				parts[i] = pt[:j] + "*val:CHILD"
			}
		}
		// re-sort atoms for a canonical string
		if len(parts) >= 3 {
			atoms := parts[:len(parts)-3]
			sort.Slice(atoms, func(a, b int) bool { return atoms[a][strings.Index(atoms[a], "*"):] < atoms[b][strings.Index(atoms[b], "*"):] })
		}
		out = append(out, strings.Join(parts, " "))
	}
	sort.Strings(out)
	return out
}

func containsAll(have, want []string) bool {
	set := map[string]bool{}
	for _, h := range have {
		set[h] = true
	}
	for _, w := range want {
		if !set[w] {
			return false
		}
	}
	return true
}
