package main

import (
	"fmt"
	"go/token"
	"go/types"
	"os"
	"sort"
	"strings"

	"golang.org/x/tools/go/ssa"
)

// P5: error discipline for database-write errors.

var dbMutatorNames = map[string]bool{
	"Put": true, "Delete": true, "CreateBucket": true, "CreateBucketIfNotExists": true,
	"DeleteNestedBucket": true, "SetSequence": true, "NextSequence": true, "Commit": true,
	"CreateTopLevelBucket": true, "DeleteTopLevelBucket": true, "DeleteBucket": true,
}

const walletdbPath = rootMod + "/walletdb"
const bboltPath = "go.etcd.io/bbolt"

type errDisc struct {
	p        *Program
	carriers map[*ssa.Function]bool
	// flowCalls[f] = calls whose error result may flow into f's returned error
	flowCalls map[*ssa.Function][]*ssa.Call
	skipPhi   *ssa.Phi // aliasesWithout: the merge the alias walk must not pass through
}

// isDBSource: the call is a mutator of the walletdb interfaces or of bbolt.
func isDBSource(c *ssa.CallCommon) (string, bool) {
	if c.IsInvoke() {
		m := c.Method
		if m.Pkg() != nil && m.Pkg().Path() == walletdbPath && dbMutatorNames[m.Name()] {
			return "walletdb." + ifaceName(c.Value.Type()) + "." + m.Name(), true
		}
		return "", false
	}
	f := c.StaticCallee()
	if f == nil || f.Signature.Recv() == nil {
		return "", false
	}
	pk := fnPkg(f)
	if pk != nil && pk.Path() == bboltPath && dbMutatorNames[f.Name()] {
		return "bbolt." + recvName(f) + "." + f.Name(), true
	}
	return "", false
}

func ifaceName(t types.Type) string {
	if n, ok := t.(*types.Named); ok {
		return n.Obj().Name()
	}
	return t.String()
}

func recvName(f *ssa.Function) string {
	r := f.Signature.Recv()
	if r == nil {
		return ""
	}
	t := r.Type()
	if pt, ok := t.(*types.Pointer); ok {
		t = pt.Elem()
	}
	if n, ok := t.(*types.Named); ok {
		return n.Obj().Name()
	}
	return t.String()
}

func callErrIndex(c *ssa.CallCommon) int {
	return errResultIndex(c.Signature())
}

func errArgSlicer(p *Program) *Slicer {
	return &Slicer{P: p, ThroughCallArgs: func(call *ssa.Call, arg ssa.Value) bool {
		return isErrorType(arg.Type())
	}}
}

func newErrDisc(p *Program) *errDisc {
	ed := &errDisc{p: p, carriers: map[*ssa.Function]bool{}, flowCalls: map[*ssa.Function][]*ssa.Call{}}
	sl := errArgSlicer(p)
	for _, fn := range p.RepoFuncs {
		ei := errResultIndex(fn.Signature)
		if ei < 0 || len(fn.Blocks) == 0 {
			continue
		}
		seen := map[*ssa.Call]bool{}
		for _, b := range fn.Blocks {
			for _, ins := range b.Instrs {
				r, ok := ins.(*ssa.Return)
				if !ok || ei >= len(r.Results) {
					continue
				}
				for _, o := range sl.Origins(r.Results[ei]) {
					if c, ok := o.(*ssa.Call); ok && !seen[c] {
						seen[c] = true
						ed.flowCalls[fn] = append(ed.flowCalls[fn], c)
					}
				}
			}
		}
	}
	for changed := true; changed; {
		changed = false
		for fn, calls := range ed.flowCalls {
			if ed.carriers[fn] || isReadOnlyTxRunner(fn) {
				continue
			}
			for _, c := range calls {
				if ed.isCarrierSite(c) {
					ed.carriers[fn] = true
					changed = true
					break
				}
			}
		}
	}
	return ed
}

// isReadOnlyTxRunner: walletdb.View and the adapters' View methods run a
// read-only transaction; the walletdb.ReadTx capability exposes no mutator
// (C11-R5), so their error can never be a failed write.
func isReadOnlyTxRunner(fn *ssa.Function) bool {
	return fn.Name() == "View" && strings.HasPrefix(fnPkgPath(fn), walletdbPath)
}

// isCarrierSite: the call's error result may be a database-write error.
func (ed *errDisc) isCarrierSite(c ssa.CallInstruction) bool {
	cc := c.Common()
	if callErrIndex(cc) < 0 {
		return false
	}
	if _, ok := isDBSource(cc); ok {
		return true
	}
	for _, g := range ed.p.Callees(c) {
		if ed.carriers[g] {
			return true
		}
	}
	// an iterator handed a callback that can fail with a write error returns that error (walletdb's ForEach and the
	// repo's forEach* helpers hand the callback's error back): the iteration call is then a carrier site itself
	if cc.IsInvoke() && cc.Method.Name() == "ForEach" && cc.Method.Pkg() != nil && cc.Method.Pkg().Path() == walletdbPath {
		for _, cl := range funcArgs(c) {
			if ed.carriers[cl] {
				return true
			}
		}
	}
	if !cc.IsInvoke() && cc.StaticCallee() == nil {
		// call of a function value: a parameter/free variable inside the
		// walletdb adapters (f(tx)), or a closure value
		switch v := cc.Value.(type) {
		case *ssa.Parameter, *ssa.FreeVar:
			pk := fnPkgPath(c.Parent())
			if strings.HasPrefix(pk, walletdbPath) {
				return true
			}
			_ = v
		}
	}
	return false
}

func (ed *errDisc) siteName(c ssa.CallInstruction) string {
	cc := c.Common()
	if s, ok := isDBSource(cc); ok {
		return s
	}
	if cc.IsInvoke() {
		return ifaceName(cc.Value.Type()) + "." + cc.Method.Name()
	}
	if f := cc.StaticCallee(); f != nil {
		return fnName(f)
	}
	return "dynamic:" + cc.Value.Name()
}

// aliasSet: values that carry the same error as e within the function
// (phis, loads of variables it was stored to, wrap-call results).
type errAliases struct {
	returned bool
	vals     map[ssa.Value]bool
	addrs    map[ssa.Value]bool // allocs / freevars the error was stored to
}

func isLoggerCall(cc *ssa.CallCommon) bool {
	if cc.IsInvoke() {
		m := cc.Method
		if m.Pkg() != nil && strings.HasSuffix(m.Pkg().Path(), "btclog") {
			return true
		}
		return false
	}
	if f := cc.StaticCallee(); f != nil {
		pk := fnPkg(f)
		if pk != nil && (strings.HasSuffix(pk.Path(), "btclog") || pk.Path() == "log") {
			return true
		}
	}
	return false
}

func (ed *errDisc) aliases(e ssa.Value) *errAliases {
	al := &errAliases{vals: map[ssa.Value]bool{}, addrs: map[ssa.Value]bool{}}
	work := []ssa.Value{e}
	add := func(v ssa.Value) {
		if !al.vals[v] {
			al.vals[v] = true
			work = append(work, v)
		}
	}
	al.vals[e] = true
	for len(work) > 0 {
		v := work[len(work)-1]
		work = work[:len(work)-1]
		for _, u := range usesOf(v) {
			switch x := u.(type) {
			case *ssa.Phi:
				if x != ed.skipPhi {
					add(x)
				}
			case *ssa.MakeInterface:
				add(x)
			case *ssa.ChangeInterface:
				add(x)
			case *ssa.ChangeType:
				add(x)
			case *ssa.Store:
				if x.Val != v {
					continue
				}
				switch a := x.Addr.(type) {
				case *ssa.Alloc:
					if resultSlot(a) {
						// spilled function result: the store is the return of this
						// value; do not alias every later load of the slot
						al.returned = true
						continue
					}
					al.addrs[a] = true
					for _, ld := range loadsOfAddr(a) {
						// (only the loads this store can reach: the variable may have held other calls' errors before)
						if li, ok := ld.(ssa.Instruction); ok && li.Parent() == x.Parent() && !storeReachesLoad(x, li, a) {
							continue
						}
						add(ld)
					}
				case *ssa.FreeVar:
					root := freeVarRoot(a)
					al.addrs[a] = true
					if ra, ok := root.(*ssa.Alloc); ok {
						al.addrs[ra] = true
						for _, ld := range loadsOfAddr(ra) {
							add(ld)
						}
					}
					for _, ld := range loadsOfAddr(a) {
						add(ld)
					}
				case *ssa.IndexAddr:
					// varargs slice element (fmt.Errorf("%w", err)): follow the
					// backing array into the call that consumes the slice
					if arr, ok := a.X.(*ssa.Alloc); ok {
						for _, uu := range usesOf(arr) {
							if sl, ok := uu.(*ssa.Slice); ok {
								add(sl)
							}
						}
					}
				}
			case *ssa.Call:
				// wrapper call returning an error
				if isLoggerCall(&x.Call) {
					continue
				}
				if isErrorType(x.Type()) || implementsError(x.Type()) {
					// (managerError(code, str, err) / storeError(...) return a concrete error type that wraps err)
					add(x)
				} else if t, ok := x.Type().(*types.Tuple); ok {
					for i := 0; i < t.Len(); i++ {
						if isErrorType(t.At(i).Type()) {
							for _, uu := range usesOf(x) {
								if ex, ok := uu.(*ssa.Extract); ok && ex.Index == i {
									add(ex)
								}
							}
						}
					}
				}
			}
		}
	}
	return al
}

// loadsOfAddr returns loads (*addr) in the function and its closures.
func loadsOfAddr(addr ssa.Value) []ssa.Value {
	var out []ssa.Value
	for _, u := range usesOf(addr) {
		switch x := u.(type) {
		case *ssa.UnOp:
			if x.Op == token.MUL && x.X == addr {
				out = append(out, x)
			}
		case *ssa.MakeClosure:
			fn, ok := x.Fn.(*ssa.Function)
			if !ok {
				continue
			}
			for i, b := range x.Bindings {
				if b == addr && i < len(fn.FreeVars) {
					out = append(out, loadsOfAddr(fn.FreeVars[i])...)
				}
			}
		}
	}
	return out
}

type errSiteResult struct {
	ok     bool
	kind   string // "dropped", "swallowed", ""
	detail string
	pos    token.Pos
	how    string // classification for statistics
}

// sentinelTest: cond tests alias against a specific sentinel (errors.Is(err, X),
// err == X, waddrmgr.IsError(err, code)). Returns description and whether the
// condition being true means "is the sentinel".
func (ed *errDisc) sentinelTest(cond ssa.Value, al *errAliases) (string, bool, bool) {
	inner, neg := unwrapNot(cond)
	switch x := inner.(type) {
	case *ssa.Call:
		f := x.Call.StaticCallee()
		if f == nil {
			return "", false, false
		}
		hasAlias := false
		for _, a := range x.Call.Args {
			if al.vals[a] || al.vals[stripConv(a)] {
				hasAlias = true
			}
		}
		if !hasAlias {
			return "", false, false
		}
		name := ""
		if f.Pkg != nil {
			name = f.Pkg.Pkg.Name() + "." + f.Name()
		}
		switch name {
		case "errors.Is":
			return "errors.Is:" + valueDesc(x.Call.Args[1]), !neg, true
		case "waddrmgr.IsError":
			return "waddrmgr.IsError:" + valueDesc(x.Call.Args[1]), !neg, true
		}
	case *ssa.BinOp:
		if x.Op != token.EQL && x.Op != token.NEQ {
			return "", false, false
		}
		var other ssa.Value
		if al.vals[x.X] {
			other = x.Y
		} else if al.vals[x.Y] {
			other = x.X
		} else {
			return "", false, false
		}
		if isNilConst(other) {
			return "", false, false
		}
		is := x.Op == token.EQL
		if neg {
			is = !is
		}
		return "==:" + valueDesc(other), is, true
	}
	return "", false, false
}

func valueDesc(v ssa.Value) string {
	v = stripConv(v)
	switch x := v.(type) {
	case *ssa.UnOp:
		if g, ok := x.X.(*ssa.Global); ok {
			return g.Pkg.Pkg.Name() + "." + g.Name()
		}
	case *ssa.Global:
		return x.Pkg.Pkg.Name() + "." + x.Name()
	case *ssa.Const:
		if n, ok := x.Type().(*types.Named); ok && n.Obj().Pkg() != nil && x.Value != nil {
			sc := n.Obj().Pkg().Scope()
			for _, name := range sc.Names() {
				if cst, ok := sc.Lookup(name).(*types.Const); ok && types.Identical(cst.Type(), n) && cst.Val().String() == x.Value.String() {
					return n.Obj().Pkg().Name() + "." + name
				}
			}
		}
		if x.Value == nil {
			return "nil"
		}
		return x.Value.String()
	}
	return v.Name()
}

// toleratedSentinels: (callee short name suffix, sentinel) pairs where the
// error being exactly that sentinel is a legitimate no-op, confirmed by reading.
var toleratedSentinels = []struct{ calleeSuffix, sentinel, reason string }{
	{"DeleteNestedBucket", "walletdb.ErrBucketNotFound", "deleting a bucket that never existed is the intended no-op"},
	{"DeleteTopLevelBucket", "walletdb.ErrBucketNotFound", "deleting a bucket that never existed is the intended no-op"},
	{"ImportScript", "ErrDuplicateAddress", "the duplicate test precedes every write, so no write failed"},
	{"walletdb.Update", "walletdb.ErrDryRunRollBack", "the transaction closure returns this sentinel on purpose to force the rollback of a dry run; a real write failure is a different error and still propagates"},
	{"birthdaySanityCheck", "ErrBirthdayBlockNotSet", "no birthday block recorded yet: the sanity check returns before any write and the sync proceeds by design"},
}

func tolerated(site, sentinel string) bool {
	for _, t := range toleratedSentinels {
		if strings.HasSuffix(site, t.calleeSuffix) && strings.Contains(sentinel, t.sentinel) {
			return true
		}
	}
	return false
}

// checkSite decides one carrier call site.
func (ed *errDisc) checkSite(c *ssa.Call) errSiteResult {
	fn := c.Parent()
	cc := c.Common()
	ei := callErrIndex(cc)
	site := ed.siteName(c)
	var e ssa.Value
	if _, isTuple := c.Type().(*types.Tuple); isTuple {
		for _, u := range usesOf(c) {
			if ex, ok := u.(*ssa.Extract); ok && ex.Index == ei {
				e = ex
			}
		}
		if e == nil {
			return errSiteResult{ok: false, kind: "dropped", pos: c.Pos(), detail: fmt.Sprintf("error result of %s is discarded (blank identifier or never read)", site)}
		}
	} else {
		e = c
	}
	al := ed.aliases(e)
	fnHasErr := errResultIndex(fn.Signature) >= 0
	var propagates, escapes, logged bool
	propagates = al.returned
	type chk struct {
		iff        *ssa.If
		nonNilSucc int
	}
	var checks []chk
	for v := range al.vals {
		for _, u := range usesOf(v) {
			if u.Parent() != fn {
				// the error lives in a captured variable that another function
				// (the enclosing one, or a nested closure) reads: it leaves this
				// function through that variable
				escapes = true
				continue
			}
			switch x := u.(type) {
			case *ssa.Return:
				propagates = true
			case *ssa.BinOp:
				for _, uu := range usesOf(x) {
					ed.collectIf(uu, x, al, func(iff *ssa.If, nn int) { checks = append(checks, chk{iff, nn}) })
				}
			case *ssa.Send:
				escapes = true
			case *ssa.Store:
				if x.Val == v {
					switch x.Addr.(type) {
					case *ssa.Alloc, *ssa.FreeVar:
						// local variable: tracked through loads
						if isResultParam(fn, x.Addr) {
							propagates = true
						}
					case *ssa.IndexAddr:
					default:
						escapes = true // struct field, global
					}
				}
			case *ssa.Call:
				if isLoggerCall(&x.Call) {
					logged = true
				} else if !isErrorType(x.Type()) && !tupleHasErr(x.Type()) && !implementsError(x.Type()) {
					// passed to a non-wrapping call (errors.Is etc. are tests; others consume it)
					if f := x.Call.StaticCallee(); f != nil && f.Pkg != nil {
						n := f.Pkg.Pkg.Name() + "." + f.Name()
						if n == "errors.Is" || n == "errors.As" || n == "waddrmgr.IsError" {
							continue
						}
					}
					escapes = true
				}
			case *ssa.Panic:
				escapes = true
			case *ssa.MakeClosure:
				escapes = true
			}
		}
	}
	// varargs-slice logging: logger call consuming a slice alias
	if !propagates && !escapes && len(checks) == 0 && !(logged && !fnHasErr) {
		return errSiteResult{ok: false, kind: "dropped", pos: c.Pos(),
			detail: fmt.Sprintf("error result of %s is never returned, tested, sent or stored", site)}
	}
	// (an error that is returned somewhere but tested nowhere is fine only if it is returned on every path: rules C-E
	// below decide that; `rmErr := f(); if err != nil { return rmErr }` returns it under another variable's test)
	onlyReturned := propagates && len(checks) == 0
	if os.Getenv("VERIF_DEBUG") != "" && fn.Name() == os.Getenv("VERIF_DEBUG") {
		fmt.Println("DEBUG site", site, ed.p.Pos(c.Pos()), "propagates", propagates, "escapes", escapes, "checks", len(checks), "vals", len(al.vals))
	}
	// Rule B: every nil-test's failure edge must be honest.
	for _, ck := range checks {
		q := &PathQuery{Fn: fn}
		handledBarrier := func(ins ssa.Instruction) bool {
			if ins == ssa.Instruction(c) {
				// the same call is executed again (retry loop): this failure is
				// superseded by the new attempt, whose own failure edge is checked
				return true
			}
			switch x := ins.(type) {
			case *ssa.Send:
				return ed.derivesFromAlias(x.X, al)
			case *ssa.Store:
				if al.vals[x.Val] {
					switch x.Addr.(type) {
					case *ssa.Alloc, *ssa.FreeVar, *ssa.IndexAddr:
						return false
					}
					return true
				}
				// composite holding the error stored to a field
			case *ssa.Panic:
				return true
			case *ssa.Call:
				if isLoggerCall(&x.Call) && !fnHasErr {
					return true
				}
				// os.Exit and friends
				if f := x.Call.StaticCallee(); f != nil && f.Pkg != nil && f.Pkg.Pkg.Path() == "os" && f.Name() == "Exit" {
					return true
				}
			}
			return false
		}
		q.Barrier = handledBarrier
		q.EdgeBarrier = func(from *ssa.BasicBlock, si int) bool {
			if from == ck.iff.Block() {
				return si != ck.nonNilSucc
			}
			iff, ok := from.Instrs[len(from.Instrs)-1].(*ssa.If)
			if !ok {
				return false
			}
			// a later nil-test of the same error: the nil edge is infeasible here
			if x, trueNonNil, ok := nilCompare(iff.Cond); ok && al.vals[x] {
				nonNil := 1
				if trueNonNil {
					nonNil = 0
				}
				return si != nonNil
			}
			if sent, trueIs, ok := ed.sentinelTest(iff.Cond, al); ok && tolerated(site, sent) {
				isEdge := 1
				if trueIs {
					isEdge = 0
				}
				return si == isEdge
			}
			return false
		}
		if !fnHasErr {
			// in a handler loop, going round to the next iteration without
			// having logged/sent the error is the same as returning silently
			q.LoopExit = func(from, to *ssa.BasicBlock) bool {
				return to.Dominates(from) && to.Dominates(ck.iff.Block())
			}
		}
		var bad ssa.Instruction
		q.Target = func(ins ssa.Instruction, via *ssa.BasicBlock) bool {
			r, ok := ins.(*ssa.Return)
			if !ok {
				return false
			}
			if fnHasErr {
				fei := errResultIndex(fn.Signature)
				if fei >= len(r.Results) {
					return false
				}
				op := resolvePhi(effectiveResult(r, fei), r.Block(), via)
				if ed.derivesFromAlias(op, al) {
					return false
				}
				k := ed.p.classifyReturn(r, via)
				if k == retError {
					return false
				}
			}
			return true
		}
		// start exploration at the first instruction of the non-nil successor
		succ := ck.iff.Block().Succs[ck.nonNilSucc]
		hits := exploreFromBlock(q, succ, ck.iff.Block())
		if len(hits) > 0 {
			bad = hits[0].Ins
			what := "returns a nil error"
			if !fnHasErr {
				what = "returns (or starts the next loop iteration) without logging, sending or storing the error"
			}
			return errSiteResult{ok: false, kind: "swallowed", pos: ck.iff.Cond.Pos(),
				detail: fmt.Sprintf("a failure of %s (tested at %s) can reach %s which %s", site, ed.p.Pos(ck.iff.Cond.Pos()), ed.p.Pos(bad.Pos()), what)}
		}
	}
	// Rule C: the error must be consumed (tested, returned, sent, stored, logged, passed on) before the same
	// call can execute again. `for ... { err = put(...) }; if err != nil` checks only the last iteration's write.
	if !escapes {
		consumed := func(ins ssa.Instruction) bool {
			switch x := ins.(type) {
			case *ssa.If:
				if v, _, ok := nilCompare(x.Cond); ok && al.vals[v] {
					return true
				}
				if _, _, ok := ed.sentinelTest(x.Cond, al); ok {
					return true
				}
			case *ssa.Return:
				for _, r := range x.Results {
					if al.vals[r] || ed.derivesFromAlias(r, al) {
						return true
					}
				}
			case *ssa.Send:
				return ed.derivesFromAlias(x.X, al)
			case *ssa.Store:
				if al.vals[x.Val] {
					switch x.Addr.(type) {
					case *ssa.Alloc, *ssa.FreeVar:
						return false
					}
					return true
				}
			case *ssa.Panic:
				return true
			case *ssa.Call:
				for _, a := range x.Call.Args {
					if al.vals[a] {
						return true
					}
				}
			case *ssa.Defer:
				for _, a := range x.Call.Args {
					if al.vals[a] {
						return true
					}
				}
			}
			return false
		}
		q := &PathQuery{Fn: fn, Barrier: consumed, Target: func(ins ssa.Instruction, _ *ssa.BasicBlock) bool { return ins == ssa.Instruction(c) }}
		if hits := q.From(c); len(hits) > 0 {
			return errSiteResult{ok: false, kind: "overwritten", pos: c.Pos(),
				detail: fmt.Sprintf("the error of %s can be overwritten by the next execution of the same call (next loop iteration) before it is tested: only the last iteration's write is checked", site)}
		}
		// Rule D: ... and before the function can report success: a return that does not carry the error, reached
		// from the call without the error having been looked at (`ok, err := f(); if !ok { return nil }; if err != nil`)
		if fnHasErr {
			q := &PathQuery{Fn: fn, Barrier: consumed}
			q.Target = func(ins ssa.Instruction, via *ssa.BasicBlock) bool {
				r, ok := ins.(*ssa.Return)
				if !ok {
					return false
				}
				fei := errResultIndex(fn.Signature)
				if fei >= len(r.Results) {
					return false
				}
				op := resolvePhi(effectiveResult(r, fei), r.Block(), via)
				if al.vals[op] || ed.derivesFromAlias(op, al) {
					return false
				}
				return ed.p.classifyReturn(r, via) != retError
			}
			if hits := q.From(c); len(hits) > 0 {
				return errSiteResult{ok: false, kind: "swallowed", pos: c.Pos(),
					detail: fmt.Sprintf("after %s the function can report success at %s without having looked at its error (an earlier test of another result returns first): a failed write is reported as success", site, ed.p.Pos(hits[0].Ins.Pos()))}
			}
			// Rule E: ... nor having been replaced by a later result at a merge. `err = put1(); if b { err = put2() }; if
			// err != nil` tests put1's error only on the path that skips put2: the test of the merged variable counts for
			// this call only where the merge was entered over an edge that carries this call's error.
			for v := range al.vals {
				ph, ok := v.(*ssa.Phi)
				if os.Getenv("VERIF_DEBUG") != "" && fn.Name() == os.Getenv("VERIF_DEBUG") {
					fmt.Println("DEBUG ruleE", site, v.Name(), ok)
				}
				if !ok || ph.Parent() != fn {
					continue
				}
				for i, ev := range ph.Edges {
					if al.vals[ev] || ed.derivesFromAlias(ev, al) {
						continue
					}
					pred := ph.Block().Preds[i]
					// reach the killing edge from the call without the error having been consumed ...
					q1 := &PathQuery{Fn: fn, Barrier: consumed}
					first := ph.Block().Instrs[0]
					q1.Target = func(ins ssa.Instruction, via *ssa.BasicBlock) bool { return ins == first && via == pred }
					if len(q1.From(c)) == 0 {
						continue
					}
					// ... and from there a success return without any other alias of it having been consumed
					al2 := ed.aliasesWithout(e, ph)
					consumed2 := func(ins ssa.Instruction) bool {
						switch x := ins.(type) {
						case *ssa.If:
							if v, _, ok := nilCompare(x.Cond); ok && al2.vals[v] {
								return true
							}
							if _, _, ok := ed.sentinelTest(x.Cond, al2); ok {
								return true
							}
						case *ssa.Return:
							for _, r := range x.Results {
								if al2.vals[r] || ed.derivesFromAlias(r, al2) {
									return true
								}
							}
						case *ssa.Call:
							for _, a := range x.Call.Args {
								if al2.vals[a] {
									return true
								}
							}
						case *ssa.Panic:
							return true
						}
						return false
					}
					q2 := &PathQuery{Fn: fn, Barrier: consumed2}
					q2.Target = func(ins ssa.Instruction, via *ssa.BasicBlock) bool {
						r, ok := ins.(*ssa.Return)
						if !ok {
							return false
						}
						return ed.p.classifyReturn(r, via) != retError
					}
					if hits := exploreFromBlock(q2, ph.Block(), pred); len(hits) > 0 {
						return errSiteResult{ok: false, kind: "overwritten", pos: c.Pos(),
							detail: fmt.Sprintf("the error of %s can be replaced by a later result before it is tested (the variable is assigned again on the way to the test at %s): when the later write succeeds the function reports success although this one failed", site, ed.p.Pos(ph.Pos()))}
					}
				}
			}
		}
	}
	how := "tested"
	if escapes && len(checks) == 0 {
		how = "escapes"
	}
	if onlyReturned {
		how = "returned"
	}
	return errSiteResult{ok: true, how: how}
}

// aliasesWithout: the aliases of e that do not pass through the merge ph.
func (ed *errDisc) aliasesWithout(e ssa.Value, ph *ssa.Phi) *errAliases {
	ed.skipPhi = ph
	defer func() { ed.skipPhi = nil }()
	return ed.aliases(e)
}

func tupleHasErr(t types.Type) bool {
	tt, ok := t.(*types.Tuple)
	if !ok {
		return false
	}
	for i := 0; i < tt.Len(); i++ {
		if isErrorType(tt.At(i).Type()) {
			return true
		}
	}
	return false
}

func isResultParam(fn *ssa.Function, addr ssa.Value) bool {
	a, ok := addr.(*ssa.Alloc)
	if !ok {
		return false
	}
	// named results are allocs whose comment is the result name; go/ssa lists them in fn.Locals
	// with a.Comment == name of result
	res := fn.Signature.Results()
	for i := 0; i < res.Len(); i++ {
		if res.At(i).Name() != "" && res.At(i).Name() == a.Comment && isErrorType(res.At(i).Type()) {
			return true
		}
	}
	return false
}

func (ed *errDisc) collectIf(u ssa.Instruction, cmp *ssa.BinOp, al *errAliases, f func(*ssa.If, int)) {
	switch x := u.(type) {
	case *ssa.If:
		v, trueNonNil, ok := nilCompare(x.Cond)
		if !ok || !al.vals[v] {
			return
		}
		nn := 1
		if trueNonNil {
			nn = 0
		}
		f(x, nn)
	case *ssa.UnOp:
		if x.Op == token.NOT {
			for _, uu := range usesOf(x) {
				ed.collectIf(uu, cmp, al, f)
			}
		}
	}
}

func (ed *errDisc) derivesFromAlias(v ssa.Value, al *errAliases) bool {
	if al.vals[v] {
		return true
	}
	sl := &Slicer{P: ed.p, ThroughCallArgs: func(call *ssa.Call, arg ssa.Value) bool { return true }}
	for _, o := range sl.Origins(v) {
		if al.vals[o] {
			return true
		}
		// load of an address the error was stored to
		if u, ok := o.(*ssa.UnOp); ok && u.Op == token.MUL && al.addrs[u.X] {
			return true
		}
	}
	// composite literal containing the error: struct built in an alloc whose field got the alias
	if u, ok := v.(*ssa.UnOp); ok && u.Op == token.MUL {
		if a, ok := u.X.(*ssa.Alloc); ok {
			for _, r := range usesOf(a) {
				if fa, ok := r.(*ssa.FieldAddr); ok {
					for _, rr := range usesOf(fa) {
						if st, ok := rr.(*ssa.Store); ok && al.vals[st.Val] {
							return true
						}
					}
				}
			}
		}
	}
	return false
}

func exploreFromBlock(q *PathQuery, b, via *ssa.BasicBlock) []pathHit {
	// emulate From() starting at the head of b, arriving via `via`
	saved := q.EdgeBarrier
	var hits []pathHit
	type key struct{ b, via *ssa.BasicBlock }
	seen := map[key]bool{}
	hitSeen := map[pathHit]bool{}
	var walk func(b *ssa.BasicBlock, via *ssa.BasicBlock)
	walk = func(b *ssa.BasicBlock, via *ssa.BasicBlock) {
		for _, ins := range b.Instrs {
			if q.Target != nil && q.Target(ins, via) {
				h := pathHit{ins, via}
				if !hitSeen[h] {
					hitSeen[h] = true
					hits = append(hits, h)
				}
			}
			if q.Barrier != nil && q.Barrier(ins) {
				return
			}
		}
		for si, s := range b.Succs {
			if saved != nil && saved(b, si) {
				continue
			}
			if q.LoopExit != nil && q.LoopExit(b, s) {
				h := pathHit{b.Instrs[len(b.Instrs)-1], via}
				if !hitSeen[h] {
					hitSeen[h] = true
					hits = append(hits, h)
				}
				continue
			}
			k := key{s, b}
			if seen[k] {
				continue
			}
			seen[k] = true
			walk(s, b)
		}
	}
	seen[key{b, via}] = true
	walk(b, via)
	return hits
}

// run evaluates all carrier sites in the given packages.
type errSite struct {
	call *ssa.Call
	res  errSiteResult
}

func (ed *errDisc) sitesIn(pkgs map[string]bool) []errSite {
	var out []errSite
	for _, fn := range ed.p.RepoFuncs {
		if !pkgs[fnPkgPath(fn)] {
			continue
		}
		for _, b := range fn.Blocks {
			for _, ins := range b.Instrs {
				c, ok := ins.(*ssa.Call)
				if !ok || !ed.isCarrierSite(c) {
					continue
				}
				out = append(out, errSite{c, ed.checkSite(c)})
			}
		}
	}
	sort.SliceStable(out, func(i, j int) bool { return out[i].call.Pos() < out[j].call.Pos() })
	return out
}

// storeReachesLoad: the load of addr at ld can observe the value st stored — it is reachable from st without passing
// another store to addr (same function).
func storeReachesLoad(st *ssa.Store, ld ssa.Instruction, addr ssa.Value) bool {
	kills := func(i ssa.Instruction) bool {
		s2, ok := i.(*ssa.Store)
		return ok && s2 != st && s2.Addr == addr
	}
	b := st.Block()
	start := instrIndex(st) + 1
	seen := map[*ssa.BasicBlock]bool{}
	var walk func(b *ssa.BasicBlock, from int) bool
	walk = func(b *ssa.BasicBlock, from int) bool {
		for i := from; i < len(b.Instrs); i++ {
			if b.Instrs[i] == ld {
				return true
			}
			if kills(b.Instrs[i]) {
				return false
			}
			// a call of a function literal that assigns the variable: it may be rewritten there; be conservative and
			// keep going (the literal's own stores are other sites)
		}
		for _, s := range b.Succs {
			if seen[s] {
				continue
			}
			seen[s] = true
			if walk(s, 0) {
				return true
			}
		}
		return false
	}
	return walk(b, start)
}

// implementsError: a concrete (non-interface) type with an Error() string method: the repository's own error structs.
func implementsError(t types.Type) bool {
	if t == nil {
		return false
	}
	if _, isIface := t.Underlying().(*types.Interface); isIface {
		return false
	}
	if _, isTuple := t.(*types.Tuple); isTuple {
		return false
	}
	iface, ok := errorType.Underlying().(*types.Interface)
	if !ok {
		return false
	}
	return types.Implements(t, iface) || types.Implements(types.NewPointer(t), iface)
}
